(* ocaml/drv_num.ml — C12 / C13: runs the extracted Num models (M line) and the Spec-level
   oracles (S line) on each case.

   libc under the floating-point wrappers is NOT modelled: the model takes `render` / `scan`
   as parameters.  Here `render` is the platform's C library itself: the runtime primitive
   caml_format_float hands the (model-assembled) format string and the double unchanged to
   vsnprintf (runtime/floats.c: caml_alloc_sprintf(String_val(fmt), d)); it is what
   Printf.sprintf "%f" ends in, without Printf's own re-interpretation of %F.  Op `render_ref`
   compares it with the harness's own snprintf on every generated format.  `scan` is the
   strtod/strtof result embedded in the case by the generator (libc through ctypes); the
   harness prints its own strtod result next to ST's so a wrong embedding shows up.      *)

external c_format_float : string -> float -> string = "caml_format_float"

let bits_of_type = function
  | "schar" | "uchar" -> 8
  | "short" | "ushort" -> 16
  | "int" | "uint" -> 32
  | "long" | "ulong" | "llong" | "ullong" -> 64
  | t -> failwith ("drv_num: unknown type " ^ t)
let is_unsigned t = String.length t > 0 && t.[0] = 'u'
let nbits t = nat_of_int (bits_of_type t)

let bool_of_tok = function "1" -> true | "0" -> false | t -> failwith ("bool " ^ t)
let b01 b = if b then "1" else "0"

let class_of = function
  | "x" -> DcHex | "X" -> DcHexUpper | "o" -> DcOct | "b" -> DcBin | "d" -> DcDec | "-" -> DcDefault
  | c -> failwith ("drv_num: digit class " ^ c)

let text_payload l = bufinfo 2 l

(* ---------------------------------------------------------------- C12 *)
let from_int_case a =
  match a with
  | [ty; v; base; up] ->
      let b = n_of_string base and u = bool_of_tok up in
      if is_unsigned ty then
        (pr_outcome text_payload (from_uint (nbits ty) (n_of_string v) b u),
         "OK " ^ text_payload (digits_text (n_of_string v) b u))
      else
        (pr_outcome text_payload (from_int (nbits ty) (z_of_string v) b u),
         "OK " ^ text_payload (int_text (z_of_string v) b u))
  | _ -> failwith "from_int: args"

let stream_int_case a =
  match a with
  | [ty; v] ->
      if is_unsigned ty then
        (pr_outcome text_payload (stream_unsigned (nbits ty) (n_of_string v)),
         "OK " ^ text_payload (digits_text (n_of_string v) (n_of_int 10) false))
      else
        (pr_outcome text_payload (stream_signed (nbits ty) (z_of_string v)),
         "OK " ^ text_payload (int_text (z_of_string v) (n_of_int 10) false))
  | _ -> failwith "stream_int: args"

let format_int_case a =
  match a with
  | [ty; v; cls] ->
      let c = class_of cls in
      let (radix, upper) = radix_of c in
      if is_unsigned ty then
        (pr_outcome text_payload (format_numeric_u (nbits ty) c (n_of_string v)),
         "OK " ^ text_payload (digits_text (n_of_string v) radix upper))
      else
        (pr_outcome text_payload (format_numeric_s (nbits ty) c (z_of_string v)),
         "OK " ^ text_payload (int_text (z_of_string v) radix upper))
  | _ -> failwith "format_int: args"

let pr_sflags ((v, ok), full) plain =
  Printf.sprintf "OK v=%s ok=%s full=%s plain=%s" (string_of_z v) (b01 ok) (b01 full) (string_of_z plain)
let pr_uflags ((v, ok), full) plain =
  Printf.sprintf "OK v=%s ok=%s full=%s plain=%s" (string_of_n v) (b01 ok) (b01 full) (string_of_n plain)

let to_int_case a =
  match a with
  | [ty; text; base] ->
      let t = bytes_of_hex text and b = n_of_string base in
      if ty = "bool" then begin
        let ((v, ok), full) = to_bool_flags t in
        let l = Printf.sprintf "OK v=%s ok=%s full=%s plain=%s" (b01 v) (b01 ok) (b01 full) (b01 (to_bool_plain t)) in
        (l, "=")
      end else if is_unsigned ty then begin
        let m = pr_uflags (to_unsigned (nbits ty) t b) (to_unsigned_plain (nbits ty) t b) in
        let ((sv, _), _) as sp = to_unsigned_spec (nbits ty) t b in
        (m, pr_uflags sp sv)
      end else begin
        let m = pr_sflags (to_signed (nbits ty) t b) (to_signed_plain (nbits ty) t b) in
        let ((sv, _), _) as sp = to_signed_spec (nbits ty) t b in
        (m, pr_sflags sp sv)
      end
  | _ -> failwith "to_int: args"

let round_trip_case a =
  match a with
  | [tfrom; tto; v; base; up] ->
      let b = n_of_string base and u = bool_of_tok up in
      if is_unsigned tfrom then begin
        let m = match from_uint (nbits tfrom) (n_of_string v) b u with
          | Ok text -> let ((x, ok), full) = to_unsigned (nbits tto) text b in
                       Printf.sprintf "OK v=%s ok=%s full=%s" (string_of_n x) (b01 ok) (b01 full)
          | o -> pr_outcome text_payload o in
        (m, Printf.sprintf "OK v=%s ok=1 full=1" (string_of_n (n_of_string v)))
      end else begin
        let m = match from_int (nbits tfrom) (z_of_string v) b u with
          | Ok text -> let ((x, ok), full) = to_signed (nbits tto) text b in
                       Printf.sprintf "OK v=%s ok=%s full=%s" (string_of_z x) (b01 ok) (b01 full)
          | o -> pr_outcome text_payload o in
        (m, Printf.sprintf "OK v=%s ok=1 full=1" (string_of_z (z_of_string v)))
      end
  | _ -> failwith "round_trip: args"

(* glibc's own strtol/strtoul/strtoll/strtoull: validates Num/Strtol.v *)
let strtol_ref_case a =
  match a with
  | [kind; text; base] ->
      let t = bytes_of_hex text @ [N0] and b = n_of_string base in
      let l = match kind with
        | "l" | "ll" -> let (v, e) = strtol_model (n_of_int 64) t b in
                        Printf.sprintf "OK v=%s end=%d" (string_of_z v) (int_of_nat e)
        | "ul" | "ull" -> let (v, e) = strtoul_model (n_of_int 64) t b in
                          Printf.sprintf "OK v=%s end=%d" (string_of_n v) (int_of_nat e)
        | k -> failwith ("strtol_ref kind " ^ k) in
      (l, "=")
  | _ -> failwith "strtol_ref: args"

(* ---------------------------------------------------------------- C13 *)
let string_of_bytes (l : n list) = String.init (List.length l) (fun i -> Char.chr (int_of_n (List.nth l i) land 255))
let bytes_of_string s = List.init (String.length s) (fun i -> n_of_int (Char.code s.[i]))

let bz_mask64 = BZ.pred (BZ.shift_left BZ.one 64)
let int64_of_n (v : n) : int64 =
  let z = BZ.logand (bz_of_n v) bz_mask64 in
  if BZ.fits_int64 z then BZ.to_int64 z else BZ.to_int64 (BZ.sub z (BZ.shift_left BZ.one 64))
let n_of_int64 (i : int64) : n =
  let z = BZ.of_int64 i in n_of_bz (if BZ.sign z < 0 then BZ.add z (BZ.shift_left BZ.one 64) else z)

(* only  % [+] [.digits] [efgEFG]  is ever handed to the C library *)
let fmt_shape_ok (s : string) =
  let n = String.length s in
  let i = ref 0 in
  let ok = ref (n >= 2 && s.[0] = '%') in
  if !ok then begin
    i := 1;
    if !i < n && s.[!i] = '+' then incr i;
    if !i < n && s.[!i] = '.' then begin
      incr i;
      let d0 = !i in
      while !i < n && s.[!i] >= '0' && s.[!i] <= '9' do incr i done;
      if !i = d0 then ok := false
    end;
    if not (!i = n - 1 && String.contains "efgEFG" s.[!i]) then ok := false
  end;
  !ok

let render (fmt : n list) (v : n) : n list =
  let f = string_of_bytes fmt in
  if not (fmt_shape_ok f) then bytes_of_string ("<model handed libc the format " ^ String.escaped f ^ ">")
  else bytes_of_string (c_format_float f (Int64.float_of_bits (int64_of_n v)))

(* float bit pattern (32) -> the double it widens to (64): what `double(value)` / default promotion does *)
let widen32 (tok : string) : n =     (* tok = 0x%08x *)
  n_of_int64 (Int64.bits_of_float (Int32.float_of_bits (Int32.of_string tok)))

let spec_of a =
  match a with
  | signed :: prec :: cls :: minlen :: align :: pad :: rest ->
      let sp = { fs_min_length = z_of_string minlen; fs_precision = z_of_string prec;
                 fs_alignment = (match align with "l" -> AlLeft | "r" -> AlRight | "d" -> AlDefault | x -> failwith ("align " ^ x));
                 fs_float_class = (match cls with "g" -> FcDefault | "f" -> FcFixed | "e" -> FcExp | "E" -> FcExpUpper | x -> failwith ("class " ^ x));
                 fs_pad = n_of_string pad; fs_always_signed = bool_of_tok signed } in
      (sp, rest)
  | _ -> failwith "format_double: args"

let sized l = Printf.sprintf "%s size=%d" (hex_of_bytes l) (List.length l)

let format_double_case widen a =
  let (sp, rest) = spec_of a in
  let v = match rest with [b] -> if widen then widen32 b else n_of_string b | _ -> failwith "format_double: bits" in
  (pr_outcome sized (format_type_double render sp v), "OK " ^ sized (format_double_spec render sp v))

let from_double_case widen a =
  match a with
  | [bits; letter] ->
      let v = if widen then widen32 bits else n_of_string bits in
      let c = n_of_string letter in
      let s = if valid_float_letter c then "OK " ^ text_payload (render [n_of_int 37; c] v) else "THROW bad_format" in
      (pr_outcome text_payload (from_double render v c), s)
  | _ -> failwith "from_double: args"

let stream_double_case widen a =
  match a with
  | bits :: _ ->
      (* an optional second argument is the number of bytes already in the stream: what is inserted does not depend on it *)
      let v = if widen then widen32 bits else n_of_string bits in
      (pr_outcome text_payload (stream_double render v), "OK " ^ text_payload (render [n_of_int 37; n_of_int 103] v))
  | _ -> failwith "stream_double: args"

let hex64 (v : n) = BZ.format "%016x" (bz_of_n v)
let hex32 (v : n) = BZ.format "%08x" (bz_of_n v)

let to_double_case single a =
  match a with
  | [text; sbits; send] ->
      let t = bytes_of_hex text in
      let sc = (n_of_string sbits, nat_of_int (int_of_string send)) in
      let scan (cstr : n list) = if cstr = upto_nul t then sc else (n_of_int 0xBAD, nat_of_int 9999) in
      let hx = if single then hex32 else hex64 in
      let pr ((v, ok), full) plain =
        Printf.sprintf "OK v=%s ok=%s full=%s plain=%s ref=%s end=%s" (hx v) (b01 ok) (b01 full) (hx plain) (hx (fst sc)) send in
      let m = if single then pr (to_float_flags scan t) (to_float_plain scan t)
              else pr (to_double_flags scan t) (to_double_plain scan t) in
      let s = pr (to_double_spec scan t) (fst (scan (upto_nul t))) in
      (m, s)
  | _ -> failwith "to_double: args"

let render_ref_case a =
  match a with
  | [fmt; bits] -> ("OK " ^ sized (render (bytes_of_hex fmt) (n_of_string bits)), "=")
  | _ -> failwith "render_ref: args"

(* sizeof(ST::float_formatter<double>) = char m_buffer[float_formatter_buf] + padding to 8 + size_t *)
let float_buf_case () =
  let b = int_of_nat float_formatter_buf in
  (Printf.sprintf "OK sizeof=%d" (((b + 7) / 8) * 8 + 8), "OK *")

let fnv_prime = 1099511628211L
let fnv_add (h : int64) (s : string) : int64 =
  let h = ref h in
  String.iter (fun c -> h := Int64.mul (Int64.logxor !h (Int64.of_int (Char.code c))) fnv_prime) s;
  !h

let rec dispatch op a =
  match op with
  | "enum" ->
      (match a with
       | sub :: ty :: lo :: hi :: extra ->
           let lo = int_of_string lo and hi = int_of_string hi in
           let hm = ref 0xcbf29ce484222325L and hs = ref 0xcbf29ce484222325L in
           for v = lo to hi do
             let (m, s) = dispatch sub (ty :: string_of_int v :: extra) in
             let s = if s = "=" then m else s in
             hm := fnv_add !hm (m ^ "\n");
             hs := fnv_add !hs (s ^ "\n")
           done;
           (Printf.sprintf "OK n=%d fnv=%016Lx" (hi - lo + 1) !hm, Printf.sprintf "OK n=%d fnv=%016Lx" (hi - lo + 1) !hs)
       | _ -> failwith "enum: args")
  | "from_int" -> from_int_case a
  | "stream_int" -> stream_int_case a
  | "format_int" -> format_int_case a
  | "to_int" -> to_int_case a
  | "round_trip" -> round_trip_case a
  | "strtol_ref" -> strtol_ref_case a
  | "format_double" | "format_double_s" -> format_double_case false a
  | "format_float" -> format_double_case true a
  | "from_double" | "from_float_d" -> from_double_case false a
  | "from_float" -> from_double_case true a
  | "stream_double" -> stream_double_case false a
  | "stream_float" -> stream_double_case true a
  | "to_double" -> to_double_case false a
  | "to_float" -> to_double_case true a
  | "render_ref" -> render_ref_case a
  | "float_buf" -> float_buf_case ()
  | _ -> failwith ("drv_num: unknown op " ^ op)

let () = run_main dispatch
