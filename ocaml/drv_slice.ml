(* ocaml/drv_slice.ml — runs the extracted slice/split models (M line) and the spec oracles
   (S line) on each case.  Case language (C08 / C09):
     substr S START COUNT | left S N | right S N
     trim_left|trim_right|trim S SET            SET: hex C string, "=" = default ST_WHITESPACE
     {bf,af,bl,al}_{c,z,u,s} S SEP CS           c: one byte; z/u: C string ("-" = null); s: ST::string
     split_{c,z,u,s} S SEP MAX CS | tokenize S SET
     replace_ss S FROM TO CS | replace_{zz,sz,zs,uu,su,us} S FROM TO CS VAL     VAL: check|assume
     fill COUNT BYTE
   CS: cs | ci.   Strings: "<hex> size=<n> term=1";  vectors: "n=<k> <hex> <hex> ..."        *)

let str_info = bufinfo 2
let vec_info (l : n list list) =
  String.concat " " (("n=" ^ string_of_int (List.length l)) :: List.map hex_of_bytes l)

let cs_of = function "cs" -> CaseSensitive | "ci" -> CaseInsensitive | s -> failwith ("bad cs " ^ s)
let ci_of = function "cs" -> false | "ci" -> true | s -> failwith ("bad cs " ^ s)
let vmode_of = function "check" -> VCheck | "assume" -> VAssume | s -> failwith ("bad validation " ^ s)

(* a C string argument as the harness builds it: bytes followed by one NUL; "-" = nullptr *)
let carr s = if is_null s then None else Some (bytes_of_hex s @ [N0])
(* what the C string denotes at spec level (null pointer = empty) *)
let ccont s = if is_null s then [] else c_content (bytes_of_hex s)
let set_arr s = if s = "=" then whitespace_cstr else bytes_of_hex s @ [N0]
let set_cont s = c_content (set_arr s)
let byte1 s = match bytes_of_hex s with [b] -> b | _ -> failwith "expected one byte"

let ok_str l = "OK " ^ str_info l
let ok_vec l = "OK " ^ vec_info l

let has_high l = List.exists (fun b -> int_of_n b >= 128) l

let dispatch op a =
  let arg i = List.nth a i in
  let s () = bytes_of_hex (arg 0) in
  match op with
  | "soak" -> ("OK clean", "OK clean")   (* many consecutive calls, self-checked by the harness against the single-call meaning *)
  | "substr" ->
      let st = z_of_string (arg 1) and c = n_of_string (arg 2) in
      (pr_outcome str_info (substr_model (s ()) st c), ok_str (substr_spec (s ()) st c))
  | "left" ->
      let n = n_of_string (arg 1) in
      (pr_outcome str_info (left_model (s ()) n), ok_str (left_spec (s ()) n))
  | "right" ->
      let n = n_of_string (arg 1) in
      (pr_outcome str_info (right_model (s ()) n), ok_str (right_spec (s ()) n))
  | "trim_left" -> (pr_outcome str_info (trim_left_model (s ()) (set_arr (arg 1))), ok_str (trim_left_spec (s ()) (set_cont (arg 1))))
  | "trim_right" -> (pr_outcome str_info (trim_right_model (s ()) (set_arr (arg 1))), ok_str (trim_right_spec (s ()) (set_cont (arg 1))))
  | "trim" -> (pr_outcome str_info (trim_model (s ()) (set_arr (arg 1))), ok_str (trim_spec (s ()) (set_cont (arg 1))))
  | "bf_c" | "af_c" | "bl_c" | "al_c" ->
      let cs = cs_of (arg 2) and ci = ci_of (arg 2) and ch = byte1 (arg 1) in
      let m, sp = (match op with
        | "bf_c" -> before_first_c, before_first_spec | "af_c" -> after_first_c, after_first_spec
        | "bl_c" -> before_last_c, before_last_spec | _ -> after_last_c, after_last_spec) in
      (pr_outcome str_info (m cs (s ()) ch), ok_str (sp ci (s ()) [ch]))
  | "bf_z" | "af_z" | "bl_z" | "al_z" | "bf_u" | "af_u" | "bl_u" | "al_u" ->
      let cs = cs_of (arg 2) and ci = ci_of (arg 2) in
      let m, sp = (match String.sub op 0 2 with
        | "bf" -> before_first_z, before_first_spec | "af" -> after_first_z, after_first_spec
        | "bl" -> before_last_z, before_last_spec | _ -> after_last_z, after_last_spec) in
      (pr_outcome str_info (m cs (s ()) (carr (arg 1))), ok_str (sp ci (s ()) (ccont (arg 1))))
  | "bf_s" | "af_s" | "bl_s" | "al_s" ->
      let cs = cs_of (arg 2) and ci = ci_of (arg 2) and sep = bytes_of_hex (arg 1) in
      let m, sp = (match op with
        | "bf_s" -> before_first_s, before_first_spec | "af_s" -> after_first_s, after_first_spec
        | "bl_s" -> before_last_s, before_last_spec | _ -> after_last_s, after_last_spec) in
      (pr_outcome str_info (m cs (s ()) sep), ok_str (sp ci (s ()) sep))
  | "split_c" ->
      let ch = byte1 (arg 1) and mx = n_of_string (arg 2) in
      let m = pr_outcome vec_info (split_c (cs_of (arg 3)) (s ()) ch mx) in
      let c = int_of_n ch in
      (* the property speaks about separators the overload accepts; outside 0x01..0x7F the
         documented precondition (ST_ASSERT) applies: whatever the Model says *)
      (m, if c = 0 || c >= 128 then "=" else ok_vec (split_spec (ci_of (arg 3)) (s ()) [ch] mx))
  | "split_z" | "split_u" ->
      let mx = n_of_string (arg 2) in
      let m = pr_outcome vec_info (split_z (cs_of (arg 3)) (s ()) (carr (arg 1)) mx) in
      if is_null (arg 1) then (m, "=")
      else begin
        let sep = ccont (arg 1) in
        let pieces = split_spec (ci_of (arg 3)) (s ()) sep mx in
        (* the const char* overload re-validates every piece when the separator has a byte >= 0x80 *)
        if has_high sep && not (List.for_all wf8s pieces) then (m, "THROW unicode_error")
        else (m, ok_vec pieces)
      end
  | "split_s" ->
      let mx = n_of_string (arg 2) and sep = bytes_of_hex (arg 1) in
      (pr_outcome vec_info (split_s (cs_of (arg 3)) (s ()) sep mx), ok_vec (split_spec (ci_of (arg 3)) (s ()) sep mx))
  | "tokenize" ->
      (pr_outcome vec_info (tokenize_model (s ()) (set_arr (arg 1))), ok_vec (tokenize_spec (s ()) (set_cont (arg 1))))
  | "replace_ss" | "replace_zz" | "replace_sz" | "replace_zs" | "replace_uu" | "replace_su" | "replace_us" ->
      let cs = cs_of (arg 3) and ci = ci_of (arg 3) in
      let form = String.sub op 8 2 in
      let fz = (form.[0] <> 's') and tz = (form.[1] <> 's') in
      let v = if form = "ss" then VCheck else vmode_of (arg 4) in
      let fb = if fz then ccont (arg 1) else bytes_of_hex (arg 1) in
      let tb = if tz then ccont (arg 2) else bytes_of_hex (arg 2) in
      let m = (match fz, tz with
        | false, false -> replace_model cs (s ()) fb tb
        | true, true -> replace_zz cs (s ()) (carr (arg 1)) (carr (arg 2)) v
        | false, true -> replace_sz cs (s ()) fb (carr (arg 2)) v
        | true, false -> replace_zs cs (s ()) (carr (arg 1)) tb v) in
      let spec =
        if (v = VCheck) && ((fz && not (wf8s fb)) || (tz && not (wf8s tb))) then "THROW unicode_error"
        else if s () = [] || fb = [] then ok_str (s ())
        else begin
          let r = replace_spec ci (s ()) fb tb in
          (* the result is handed to the validating string(char_buffer&&) constructor *)
          if wf8s r then ok_str r else "THROW unicode_error"
        end in
      (pr_outcome str_info m, spec)
  | "fill" ->
      let cnt = n_of_string (arg 0) and c = byte1 (arg 1) in
      (* counts the property's generator never uses (an allocation of 2^63 bytes or more): the Model's
         word only; the Spec is not evaluated on them *)
      if BZ.gt (bz_of_n cnt) (BZ.of_int 100_000_000) then
        ((if BZ.geq (BZ.succ (bz_of_n cnt)) (BZ.shift_left BZ.one 63) then pr_outcome str_info (fill_model cnt c)
          else "FAULT ModelTooLarge"), "=")
      else begin
        let k = int_of_n cnt in
        let r = List.init k (fun _ -> c) in
        (pr_outcome str_info (fill_model cnt c), if wf8s r then ok_str r else "THROW unicode_error")
      end
  | _ -> failwith ("drv_slice: unknown op " ^ op)

let () = run_main dispatch
