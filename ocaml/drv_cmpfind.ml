(* ocaml/drv_cmpfind.ml — C06 / C07: runs the extracted comparison / searching models (M line)
   and the spec oracles (S line) on each case.  Comparison results are SIGNS.
   S-line value forms: an exact value, `*` (unconstrained), `nz` (any non-zero sign).          *)

let sg_z (v : z) = let i = int_of_z v in if i < 0 then -1 else if i > 0 then 1 else 0
let sign_of_cmp = function Lt -> -1 | Eq -> 0 | Gt -> 1
let b2i b = if b then 1 else 0

(* outcome of a sign / bool / index as a token; faults poison the whole line *)
exception Bad of string
let get (f : 'a -> string) (o : 'a outcome) : string =
  match o with
  | Ok a -> f a
  | Throw e -> raise (Bad ("THROW " ^ exn_name e))
  | Abort w -> raise (Bad ("ABORT " ^ abort_name w))
  | Fault x -> raise (Bad ("FAULT " ^ fault_name x))
let gs o = get (fun v -> string_of_int (sg_z v)) o
let gb o = get (fun b -> string_of_int (b2i b)) o
let gi o = get (fun v -> string_of_z v) o
let line f = try "OK " ^ f () with Bad s -> s

let width_of = function "c" -> 2 | "h" -> 4 | _ -> 8
let elt_of = function "c" -> EChar | "w" -> EWchar | "h" -> EChar16 | _ -> EChar32
let zkey (c : n) : z = Z.of_N c

(* C-string argument: the array is content ++ [0]; "-" is the null pointer *)
let zarg w tok : cstr_arg = if is_null tok then None else Some (units_of_hex w tok @ [N0])
let zval w tok : n list = if is_null tok then [] else upto_nul (units_of_hex w tok)

let two31 = n_of_string "2147483648"
let has_neg_wchar l = List.exists (fun u -> BZ.geq (bz_of_n u) (bz_of_n two31)) l

let firstn_n (k : n) (l : n list) =
  let kk = bz_of_n k in
  if BZ.geq kk (BZ.of_int (List.length l)) then l else List.filteri (fun i _ -> i < BZ.to_int kk) l

(* ---------------------------------------------------------------- C06 *)
let do_cmp a =
  let t = List.nth a 0 in
  let w = width_of t in
  let l = units_of_hex w (List.nth a 1) and r = units_of_hex w (List.nth a 3) in
  let ls = n_of_string (List.nth a 2) and rs = n_of_string (List.nth a 4) in
  let mx = if List.length a > 5 then Some (n_of_string (List.nth a 5)) else None in
  let m = line (fun () -> gs (match mx with
                              | None -> buf_compare4 (elt_of t) l ls r rs
                              | Some k -> buf_compare5 (elt_of t) l ls r rs k)) in
  let s =
    if t = "w" && (has_neg_wchar l || has_neg_wchar r) then "OK *"
    else begin
      let (ls', rs') = match mx with None -> (ls, rs) | Some k -> (N.min ls k, N.min rs k) in
      "OK " ^ string_of_int (sign_of_cmp (lex_sized zkey l ls' r rs'))
    end in
  (m, s)

let do_buf a =
  let t = List.nth a 0 in
  let w = width_of t in
  let e = elt_of t in
  let x = units_of_hex w (List.nth a 1) in
  let btok = List.nth a 2 in
  let y = units_of_hex w btok in
  let k = n_of_string (List.nth a 3) in
  let m = line (fun () ->
    Printf.sprintf "c=%s cz=%s n=%s nz=%s eq=%s ne=%s lt=%s"
      (gs (buf_compare e x y)) (gs (buf_compare_z e x (zarg w btok)))
      (gs (buf_compare_n e x y k)) (gs (buf_compare_n_z e x (zarg w btok) k))
      (gb (buf_eq e x y)) (gb (buf_ne e x y)) (gb (buf_lt e x y))) in
  let s =
    if t = "w" && (has_neg_wchar x || has_neg_wchar y) then "OK c=* cz=* n=* nz=* eq=* ne=* lt=*"
    else begin
      let yz = zval w btok in
      let c = sign_of_cmp (lex x y) in
      Printf.sprintf "OK c=%d cz=%d n=%d nz=%d eq=%d ne=%d lt=%d" c (sign_of_cmp (lex x yz))
        (sign_of_cmp (lex (firstn_n k x) (firstn_n k y))) (sign_of_cmp (lex (firstn_n k x) (firstn_n k yz)))
        (b2i (c = 0)) (b2i (c <> 0)) (b2i (c < 0))
    end in
  (m, s)

let ci_tok x y = if ci_equivb x y then "0" else "nz"

let do_str a =
  let x = bytes_of_hex (List.nth a 0) in
  let btok = List.nth a 1 in
  let y = bytes_of_hex btok in
  let k = n_of_string (List.nth a 2) in
  let za = zarg 2 btok in
  let m = line (fun () ->
    Printf.sprintf "c=%s cz=%s ci=%s ciz=%s cI=%s cIz=%s n=%s nz=%s ni=%s niz=%s eq=%s ne=%s lt=%s eqz=%s nez=%s li=%s ei=%s"
      (gs (str_compare CaseSensitive x y)) (gs (str_compare_z CaseSensitive x za))
      (gs (str_compare CaseInsensitive x y)) (gs (str_compare_z CaseInsensitive x za))
      (gs (str_compare CaseInsensitive x y)) (gs (str_compare_z CaseInsensitive x za))
      (gs (str_compare_n CaseSensitive x y k)) (gs (str_compare_n_z CaseSensitive x za k))
      (gs (str_compare_n CaseInsensitive x y k)) (gs (str_compare_n_z CaseInsensitive x za k))
      (gb (str_eq x y)) (gb (str_ne x y)) (gb (str_lt x y)) (gb (str_eq_z x za)) (gb (str_ne_z x za))
      (gb (less_i x y)) (gb (equal_i x y))) in
  let yz = zval 2 btok in
  let c = sign_of_cmp (lex x y) and cz = sign_of_cmp (lex x yz) in
  let fx = firstn_n k x and fy = firstn_n k y and fyz = firstn_n k yz in
  let s = Printf.sprintf "OK c=%d cz=%d ci=%s ciz=%s cI=%s cIz=%s n=%d nz=%d ni=%s niz=%s eq=%d ne=%d lt=%d eqz=%d nez=%d li=%s ei=%d"
      c cz (ci_tok x y) (ci_tok x yz) (ci_tok x y) (ci_tok x yz)
      (sign_of_cmp (lex fx fy)) (sign_of_cmp (lex fx fyz)) (ci_tok fx fy) (ci_tok fx fyz)
      (b2i (c = 0)) (b2i (c <> 0)) (b2i (c < 0)) (b2i (cz = 0)) (b2i (cz <> 0))
      (if ci_equivb x y then "0" else "*") (b2i (ci_equivb x y)) in
  (m, s)

let pairs6 = [ (0, 1); (1, 0); (1, 2); (2, 1); (0, 2); (2, 0) ]
let do_tri a =
  let s = Array.of_list (List.map bytes_of_hex [ List.nth a 0; List.nth a 1; List.nth a 2 ]) in
  let six f = String.concat "," (List.map (fun (i, j) -> f s.(i) s.(j)) pairs6) in
  let m = line (fun () ->
    Printf.sprintf "cs=%s ci=%s" (six (fun x y -> gs (str_compare CaseSensitive x y)))
      (six (fun x y -> gs (str_compare CaseInsensitive x y)))) in
  (* spec: the exact lexicographic signs, and which pairs are equal after folding *)
  let sp = Printf.sprintf "OK cs=%s ci=%s" (six (fun x y -> string_of_int (sign_of_cmp (lex x y))))
      (six (fun x y -> ci_tok x y)) in
  (m, sp)

let do_hash a =
  let x = bytes_of_hex (List.nth a 0) and y = bytes_of_hex (List.nth a 1) in
  let h = hash x and hi = hash_i x in
  let m = Printf.sprintf "OK h=%s hi=%s he=%d hie=%d sh=1" (string_of_n h) (string_of_n hi)
      (b2i (h = hash y)) (b2i (hi = hash_i y)) in
  let s = Printf.sprintf "OK h=* hi=* he=%s hie=%s sh=1" (if x = y then "1" else "*") (if ci_equivb x y then "1" else "*") in
  (m, s)

let do_case a =
  let x = bytes_of_hex (List.nth a 0) in
  let m = Printf.sprintf "OK up=%s lo=%s ut=1 lt=1" (hex_of_bytes (to_upper x)) (hex_of_bytes (to_lower x)) in
  let s = Printf.sprintf "OK up=%s lo=%s ut=1 lt=1" (hex_of_bytes (List.map unfold_upper x)) (hex_of_bytes (List.map fold x)) in
  (m, s)

(* ---------------------------------------------------------------- C07 *)
type needle = { arr_p : cstr_arg; arr_z : cstr_arg; str : n list; count : n; one : n option; zv : n list; null : bool }
let needle_of tok =
  let u = bytes_of_hex tok in
  let null = is_null tok in
  { arr_p = (if null then None else Some u); arr_z = zarg 2 tok; str = u;
    count = (if null then n_of_int 1 else n_of_int (List.length u));
    one = (match u with [ c ] when not null -> Some c | _ -> None); zv = zval 2 tok; null }

let csm = function "i" -> CaseInsensitive | _ -> CaseSensitive

(* model results of the four needle forms at one position: ints, -2 = not applicable *)
let m_find last cs h nd pos =
  if last then
    ( find_last_pn cs h pos nd.arr_p nd.count, find_last_s cs h pos nd.str, find_last_z cs h pos nd.arr_z,
      (match nd.one with Some c -> Some (find_last_char cs h pos c) | None -> None) )
  else
    ( find_pn cs h pos nd.arr_p nd.count, find_s cs h pos nd.str, find_z cs h pos nd.arr_z,
      (match nd.one with Some c -> Some (find_char cs h pos c) | None -> None) )
let m_find0 last cs h nd =
  if last then
    ( find_last_pn0 cs h nd.arr_p nd.count, find_last_s0 cs h nd.str, find_last_z0 cs h nd.arr_z,
      (match nd.one with Some c -> Some (find_last_char0 cs h c) | None -> None) )
  else
    ( find_pn0 cs h nd.arr_p nd.count, find_s0 cs h nd.str, find_z0 cs h nd.arr_z,
      (match nd.one with Some c -> Some (find_char0 cs h c) | None -> None) )

let rec fast_nat acc = function O -> acc | S m -> fast_nat (acc + 1) m
let s_find last ci h nd pos =
  let f n = match (if last then find_last_spec else find_spec) ci h n pos with Some i -> fast_nat 0 i | None -> -1 in
  let p = if nd.null then -1 else f nd.str in
  let z = if (not nd.null) && nd.zv = nd.str then p else f nd.zv in
  (p, p, z, (match nd.one with Some _ -> Some p | None -> None))

let pr4 suffix (p, s, z, c) =
  Printf.sprintf "p%s=%s s%s=%s z%s=%s c%s=%s" suffix p suffix s suffix z suffix (match c with Some v -> v | None -> "x")

let do_find last a =
  let cst = List.nth a 0 in
  let cs = csm cst and ci = (cst = "i") in
  let h = bytes_of_hex (List.nth a 1) in
  let nd = needle_of (List.nth a 2) in
  let pos = n_of_string (List.nth a 3) in
  let conv (p, s, z, c) = (gi p, gi s, gi z, (match c with Some v -> Some (gi v) | None -> None)) in
  let m = line (fun () -> pr4 "" (conv (m_find last cs h nd pos)) ^ " " ^ pr4 "0" (conv (m_find0 last cs h nd))) in
  let sconv (p, s, z, c) = (string_of_int p, string_of_int s, string_of_int z, (match c with Some v -> Some (string_of_int v) | None -> None)) in
  let pos0 = if last then auto_size else N0 in
  let s = "OK " ^ pr4 "" (sconv (s_find last ci h nd pos)) ^ " " ^ pr4 "0" (sconv (s_find last ci h nd pos0)) in
  (m, s)

let m_has cs h nd =
  [ Some (contains_pn cs h nd.arr_p nd.count); Some (contains_s cs h nd.str); Some (contains_z cs h nd.arr_z);
    (match nd.one with Some c -> Some (contains_char cs h c) | None -> None);
    Some (starts_with_s cs h nd.str); Some (starts_with_z cs h nd.arr_z);
    Some (ends_with_s cs h nd.str); Some (ends_with_z cs h nd.arr_z) ]
let s_has ci h nd =
  let c = if nd.null then false else contains_spec ci h nd.str in
  [ Some c; Some c; Some (contains_spec ci h nd.zv); (match nd.one with Some _ -> Some c | None -> None);
    Some (starts_with_spec ci h nd.str); Some (starts_with_spec ci h nd.zv);
    Some (ends_with_spec ci h nd.str); Some (ends_with_spec ci h nd.zv) ]
let has_keys = [ "cp"; "cs"; "cz"; "cc"; "sws"; "swz"; "ews"; "ewz" ]

let do_has a =
  let cst = List.nth a 0 in
  let cs = csm cst and ci = (cst = "i") in
  let h = bytes_of_hex (List.nth a 1) in
  let nd = needle_of (List.nth a 2) in
  let m = line (fun () -> String.concat " " (List.map2 (fun k v -> k ^ "=" ^ (match v with Some o -> gb o | None -> "x")) has_keys (m_has cs h nd))) in
  let s = "OK " ^ String.concat " " (List.map2 (fun k v -> k ^ "=" ^ (match v with Some b -> string_of_int (b2i b) | None -> "x")) has_keys (s_has ci h nd)) in
  (m, s)

(* digest: same arithmetic as harness/h_cmpfind.cpp *)
type digest = { mutable h1 : int; mutable h2 : int; mutable cnt : int; mutable hits : int }
let new_digest () = { h1 = 1; h2 = 1; cnt = 0; hits = 0 }
let push d v =
  let x = v + 2 in
  d.h1 <- (d.h1 * 1000003 + x) mod 2147483647;
  d.h2 <- (d.h2 * 999983 + x) mod 4294967291;
  d.cnt <- d.cnt + 1
let push4 d (p, s, z, c) =
  push d p; push d s; push d z;
  (match c with Some v -> push d v | None -> ());
  if p >= 0 then d.hits <- d.hits + 1

let needle_tok alpha k =
  let a = String.length alpha / 2 in
  let rec lenblock k len block = if k >= block then lenblock (k - block) (len + 1) (block * a) else (k, len) in
  let (k, len) = lenblock k 1 a in
  let b = Bytes.make (len * 2) '0' in
  let k = ref k in
  for i = len - 1 downto 0 do
    let dg = !k mod a in
    k := !k / a;
    Bytes.set b (2 * i) alpha.[2 * dg];
    Bytes.set b (2 * i + 1) alpha.[2 * dg + 1]
  done;
  Bytes.to_string b

let positions size =
  List.init (size + 2) (fun i -> n_of_int i) @ [ n_of_string "9223372036854775808"; n_of_string "18446744073709551615" ]

(* small results: direct conversion (no zarith round trip) *)
let rec fast_pos = function XH -> 1 | XO p -> 2 * fast_pos p | XI p -> 2 * fast_pos p + 1
let fast_z = function Z0 -> 0 | Zpos p -> fast_pos p | Zneg p -> - (fast_pos p)
let geti o = match o with Ok v -> fast_z v | _ -> raise (Bad (pr_outcome (fun _ -> "") o))
let getb o = match o with Ok b -> b2i b | _ -> raise (Bad (pr_outcome (fun _ -> "") o))

let do_sweep a =
  let h = bytes_of_hex (List.nth a 0) in
  let alpha = List.nth a 1 in
  let lo = int_of_string (List.nth a 2) and hi = int_of_string (List.nth a 3) in
  let pos = positions (List.length h) in
  let run model =
    let d = new_digest () in
    for k = lo to hi - 1 do
      let nd = needle_of (needle_tok alpha k) in
      List.iter (fun cst ->
        let cs = csm cst and ci = (cst = "i") in
        List.iter (fun last ->
          List.iter (fun p ->
            if model then begin
              let (a, b, c, e) = m_find last cs h nd p in
              push4 d (geti a, geti b, geti c, (match e with Some v -> Some (geti v) | None -> None))
            end else push4 d (s_find last ci h nd p)) pos) [ false; true ];
        if model then List.iter (function Some o -> push d (getb o) | None -> ()) (m_has cs h nd)
        else List.iter (function Some b -> push d (b2i b) | None -> ()) (s_has ci h nd)) [ "s"; "i" ]
    done;
    Printf.sprintf "OK d=%d:%d hits=%d n=%d" d.h1 d.h2 d.hits d.cnt in
  let m = try run true with Bad s -> String.trim s in
  let s = run false in
  (m, s)

let dispatch op a =
  match op with
  | "bigfind" -> ("OK bigfind ok", "OK bigfind ok")   (* megabyte operands on a small stack; expected index known by construction *)
  | "cmp" -> do_cmp a
  | "buf" -> do_buf a
  | "str" -> do_str a
  | "tri" -> do_tri a
  | "hash" -> do_hash a
  | "case" -> do_case a
  | "find" -> do_find false a
  | "findl" -> do_find true a
  | "has" -> do_has a
  | "sweep" -> do_sweep a
  | _ -> failwith ("drv_cmpfind: unknown op " ^ op)

let () = run_main dispatch
