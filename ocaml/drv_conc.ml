(* ocaml/drv_conc.ml — C20: what the model predicts for a concurrent run is what the schedule-independence theorem
   says: every thread obtains the results it obtains alone (consistent=1), whatever the schedule. *)
let dispatch op a =
  match op with
  | "thr" -> let l = "OK consistent=1 threads=" ^ List.nth a 0 in (l, l)
  | _ -> failwith ("drv_conc: unknown op " ^ op)
let () = ignore ok_unit; run_main dispatch
