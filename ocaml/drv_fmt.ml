(* ocaml/drv_fmt.ml — runs the extracted format model (M line) and the spec oracle (S line).
   Case language (group fmt):
     format <sink> <mode> <fmt hex|-> <typed args...>
        sink  : string latin1 file ostream wostream u16ostream u32ostream
        mode  : default check substitute assume      (string sink only; others ignore it)
        args  : i8: u8: i16: u16: i32: u32: l: ul: ll: ull: (integers)  c: (char, -128..127)
                wc: (wchar_t)  c32: (char32_t)  b:0|1  s:<hex> (const char* ) sn (null const char* )
                S:<hex> (ST::string)  ss:<hex> (std::string)  f64:<bits hex>
     strtol <hex>                      validates Fmt/Strtol.v against glibc
     insert <c|w|u16|u32> <bytes hex>  os << ST::string
     extract <c|w|u16|u32> <units hex> is >> ST::string
   Result of format: string sinks  OK <hex> size=<n> term=1 | THROW <exn> | ABORT <tag>
                     stream sinks  OK <hex units> n=<units> end=<ok|exn name>        *)

(* ---- the floating-point oracle: the C library's own printf, reached through OCaml's Printf ---- *)
let float_oracle (bits : int64) : bool -> z -> float_class -> n list =
  fun plus prec cls ->
    let x = Int64.float_of_bits bits in
    let p = int_of_z prec in
    let s =
      if p >= 0 then
        (match cls, plus with
         | FloatExp, false -> Printf.sprintf "%.*e" p x | FloatExp, true -> Printf.sprintf "%+.*e" p x
         | FloatExpUpper, false -> Printf.sprintf "%.*E" p x | FloatExpUpper, true -> Printf.sprintf "%+.*E" p x
         | FloatFixed, false -> Printf.sprintf "%.*f" p x | FloatFixed, true -> Printf.sprintf "%+.*f" p x
         | FloatDefault, false -> Printf.sprintf "%.*g" p x | FloatDefault, true -> Printf.sprintf "%+.*g" p x)
      else
        (match cls, plus with
         | FloatExp, false -> Printf.sprintf "%e" x | FloatExp, true -> Printf.sprintf "%+e" x
         | FloatExpUpper, false -> Printf.sprintf "%E" x | FloatExpUpper, true -> Printf.sprintf "%+E" x
         | FloatFixed, false -> Printf.sprintf "%f" x | FloatFixed, true -> Printf.sprintf "%+f" x
         | FloatDefault, false -> Printf.sprintf "%g" x | FloatDefault, true -> Printf.sprintf "%+g" x) in
    List.init (String.length s) (fun i -> n_of_int (Char.code s.[i]))

let parse_arg (tok : string) : arg =
  if tok = "sn" then ANullStr else
  let k = String.index tok ':' in
  let kind = String.sub tok 0 k and v = String.sub tok (k + 1) (String.length tok - k - 1) in
  match kind with
  | "i8" -> AInt (true, nat_of_int 8, z_of_string v)
  | "u8" -> AInt (false, nat_of_int 8, z_of_string v)
  | "i16" -> AInt (true, nat_of_int 16, z_of_string v)
  | "u16" -> AInt (false, nat_of_int 16, z_of_string v)
  | "i32" -> AInt (true, nat_of_int 32, z_of_string v)
  | "u32" -> AInt (false, nat_of_int 32, z_of_string v)
  | "l" | "ll" -> AInt (true, nat_of_int 64, z_of_string v)
  | "ul" | "ull" -> AInt (false, nat_of_int 64, z_of_string v)
  | "c" -> AChar (z_of_string v)
  | "wc" -> AWChar (z_of_string v)
  | "c32" -> AChar32 (n_of_string v)
  | "b" -> ABool (v <> "0")
  | "s" | "S" | "ss" | "n" -> AStr (bytes_of_hex v)   (* n: a user-defined type whose formatter renders this text *)
  | "f64" -> AFloat (float_oracle (Int64.of_string ("0x" ^ v)))
  | _ -> failwith ("drv_fmt: bad argument " ^ tok)

let mode_of = function
  | "default" | "check" -> CheckValidity
  | "substitute" -> SubstituteInvalid
  | "assume" -> AssumeValid
  | m -> failwith ("drv_fmt: bad mode " ^ m)

let stream_of = function
  | "file" -> Some (StFile, 2) | "ostream" -> Some (StOstream, 2)
  | "wostream" -> Some (StWide WWchar, 8) | "u16ostream" -> Some (StWide WChar16, 4)
  | "u32ostream" -> Some (StWide WChar32, 8)
  | _ -> None

let end_name = function
  | Ok _ -> "ok" | Throw e -> exn_name e | Abort w -> "ABORT " ^ abort_name w | Fault f -> "FAULT " ^ fault_name f

let pr_stream width (units, fin) =
  match fin with
  | Ok _ | Throw _ -> Printf.sprintf "OK %s n=%d end=%s" (hex_of_units width units) (List.length units) (end_name fin)
  | Abort w -> "ABORT " ^ abort_name w
  | Fault f -> "FAULT " ^ fault_name f

(* facts about the calls the driver made, for the known-finding classifier of C17 *)
let chunk_facts (t, _) =
  let bad_chunk = List.exists (function EApp d -> not (validate_utf8 d) | EPad _ -> false) t in
  let hi_pad = List.exists (function EPad (c, k) -> int_of_n c >= 128 && int_of_n k > 0 | EApp _ -> false) t in
  Printf.sprintf "chunk_bad=%d pad_hi=%d" (if bad_chunk then 1 else 0) (if hi_pad then 1 else 0)

let trace_size (t, _) =
  List.fold_left (fun s e -> match e with EApp d -> s + List.length d | EPad (_, k) -> s + int_of_n k) 0 t

let allow_line bad oor cp =
  "ALLOW" ^ (if bad then " bad_format" else "") ^ (if oor then " out_of_range" else "") ^ (if cp then " ABORT:CharPad" else "")

let format_case a =
  match a with
  | sink :: mode :: fmt :: rest ->
      let fmtv = if is_null fmt then None else Some (bytes_of_hex fmt) in
      let args = List.map parse_arg rest in
      let verdict = lazy (spec_format fmtv args) in
      (match stream_of sink with
       | None when trace_size (driver fmtv args) > (1 lsl 24) ->
           (* C10Proofs.huge_when_big / huge_only_big: decided from the size of the calls, without
              building the bytes (only the directed huge-output case comes here) *)
           let (_, fin) = driver fmtv args in
           let sz = trace_size (driver fmtv args) in
           (match fin with
            | Ok _ -> ((if sz >= (1 lsl 28) && sink <> "latin1x" then "ABORT Huge" else "OK * * term=1"),
                       Printf.sprintf "OK * * term=1 # raw_size=%d" sz)
            | _ -> (pr_outcome (fun _ -> "") (match fin with Throw e -> Throw e | Abort w -> Abort w | Fault f -> Fault f | Ok _ -> Ok ()), "="))
       | None ->
           let m =
             if sink = "latin1" then pr_outcome (bufinfo 2) (format_to_latin1 fmtv args)
             else pr_outcome (bufinfo 2) (format_to_string (mode_of mode) fmtv args) in
           let s =
             match Lazy.force verdict with
             | VNull -> "THROW invalid_argument"
             | VFail (b, o, c) -> allow_line b o c
             | VBytes raw ->
                 if sink = "latin1" then "OK " ^ bufinfo 2 (List.concat_map latin1_byte raw)
                 else (match mode_of mode with
                       | CheckValidity -> if validate_utf8 raw then "OK " ^ bufinfo 2 raw else "THROW unicode_error"
                       | AssumeValid -> "OK " ^ bufinfo 2 raw
                       | SubstituteInvalid ->
                           (* the repair itself is C02's subject: constrained here only when nothing needs repair *)
                           if validate_utf8 raw then "OK " ^ bufinfo 2 raw else "OK * * term=1") in
           (m, s)
       | Some (st, width) ->
           let m = pr_stream width (format_to_stream st fmtv args) in
           let facts = chunk_facts (driver fmtv args) in
           let s =
             match Lazy.force verdict with
             | VNull -> "OK . n=0 end=invalid_argument"
             | VFail (b, o, c) -> "ENDS" ^ (if b then " bad_format" else "") ^ (if o then " out_of_range" else "")
                                  ^ (if c then " ABORT:CharPad" else "")
             | VBytes raw ->
                 (match st with
                  | StFile | StOstream -> pr_stream 2 (raw, Ok ())
                  | StWide w ->
                      (* C17 quantifies over calls ST::format accepts *)
                      if not (validate_utf8 raw) then "ANY"
                      else (match decode_utf8 raw with
                            | None -> "ANY"
                            | Some cps ->
                                (match w with
                                 | WChar16 -> (match encode_utf16 cps with
                                               | Some u -> pr_stream 4 (u, Ok ())
                                               | None -> "OK * n=* end=unicode_error")
                                 | _ -> pr_stream 8 (cps, Ok ())))) in
           (m, s ^ " # " ^ facts))
  | _ -> failwith "drv_fmt: format needs sink mode fmt"

let strtol_case a =
  let s = bytes_of_hex (List.nth a 0) in
  let m = pr_outcome (fun (v, e) -> Printf.sprintf "v=%s end=%s" (string_of_z v) (string_of_nat e)) (strtol10 (cstr s) O) in
  (m, "=")

let ct_of = function
  | "c" -> (CtChar, 2) | "w" -> (CtWchar, 8) | "u16" -> (CtChar16, 4) | "u32" -> (CtChar32, 8)
  | t -> failwith ("drv_fmt: bad char type " ^ t)

(* the reference transcoding for insertion: well-formed text only (anything else is C02's subject) *)
let insert_case a =
  let (ct, width) = ct_of (List.nth a 0) in
  let s = bytes_of_hex (List.nth a 1) in
  let m = "OK " ^ hex_of_units width (insert_units ct s) in
  let sp =
    match ct with
    | CtChar -> "OK " ^ hex_of_bytes s
    | _ ->
        (match (if validate_utf8 s then decode_utf8 s else None) with
         | None -> "ANY"
         | Some cps ->
             let ok = List.for_all (fun c -> let v = int_of_n c in v <= 0x10FFFF) cps in
             if not ok then "ANY"
             else (match ct with
                   | CtChar16 -> (match encode_utf16 cps with Some u -> "OK " ^ hex_of_units 4 u | None -> "ANY")
                   | _ -> "OK " ^ hex_of_units 8 cps)) in
  (m, sp)

(* extraction: token (libstdc++'s, modelled for the C locale) and what the ST::string then holds *)
let extract_case a =
  let (ct, width) = ct_of (List.nth a 0) in
  let text = units_of_hex width (List.nth a 1) in
  let tok = extract_token ct text in
  let facetless = (match ct with CtChar16 | CtChar32 -> true | _ -> false) in
  let fail = (tok = []) in
  let line =
    match set_from_token ct tok with
    | Ok st -> Printf.sprintf "OK tok=%s tokend=ok st=%s fail=%d end=ok" (hex_of_units width tok) (hex_of_bytes st) (if fail then 1 else 0)
    | Throw e -> Printf.sprintf "OK tok=%s tokend=ok st=756e736574 fail=0 end=%s" (hex_of_units width tok) (exn_name e)
    | Abort w -> "ABORT " ^ abort_name w
    | Fault f -> "FAULT " ^ fault_name f in
  ignore facetless;
  (line, "=")

let dispatch op a =
  match op with
  | "format" -> format_case a
  | "throwsink" | "fmtref" -> ("OK safe", "OK safe")   (* safety only: user code that throws / a stored formatter_ref *)
  | "writer_retry" -> ("OK retry", "OK retry")   (* safety only: the harness must come back (no read past the NUL, no hang) *)
  | "strtol" -> strtol_case a
  | "insert" -> insert_case a
  | "extract" -> extract_case a
  | _ -> failwith ("drv_fmt: unknown op " ^ op)

let () = run_main dispatch
