(* ocaml/common.ml — textually appended after
     module BZ = Z            (zarith, before the extracted module shadows Z)
     open Ex_<group>
   Conversions between the I/O world (hex strings, decimal integers) and the
   extracted inductives; result-line printers; the main loop.                *)

let rec pos_of_bz (i : BZ.t) : positive =
  if BZ.equal i BZ.one then XH
  else if BZ.testbit i 0 then XI (pos_of_bz (BZ.shift_right i 1))
  else XO (pos_of_bz (BZ.shift_right i 1))
let n_of_bz i = if BZ.sign i = 0 then N0 else Npos (pos_of_bz i)
let z_of_bz i = if BZ.sign i = 0 then Z0 else if BZ.sign i > 0 then Zpos (pos_of_bz i) else Zneg (pos_of_bz (BZ.neg i))
let rec bz_of_pos = function
  | XH -> BZ.one
  | XO p -> BZ.shift_left (bz_of_pos p) 1
  | XI p -> BZ.succ (BZ.shift_left (bz_of_pos p) 1)
let bz_of_n = function N0 -> BZ.zero | Npos p -> bz_of_pos p
let bz_of_z = function Z0 -> BZ.zero | Zpos p -> bz_of_pos p | Zneg p -> BZ.neg (bz_of_pos p)
let n_of_int i = n_of_bz (BZ.of_int i)
let z_of_int i = z_of_bz (BZ.of_int i)
let int_of_n n = BZ.to_int (bz_of_n n)
let int_of_z z = BZ.to_int (bz_of_z z)
let nat_of_int i = let rec go acc k = if k = 0 then acc else go (S acc) (k - 1) in go O i
let int_of_nat n = let rec go acc = function O -> acc | S m -> go (acc + 1) m in go 0 n
(* integers in case files: decimal or 0x-hex, any size *)
let n_of_string s = n_of_bz (BZ.of_string s)
let z_of_string s = z_of_bz (BZ.of_string s)
let string_of_n n = BZ.to_string (bz_of_n n)
let string_of_z z = BZ.to_string (bz_of_z z)
let string_of_nat n = string_of_int (int_of_nat n)

(* unit sequences: hex, [width] hex digits per unit; "." empty; "-" null *)
let units_of_hex width s : n list =
  if s = "." || s = "-" then [] else begin
    let k = String.length s / width in
    List.init k (fun i -> n_of_bz (BZ.of_string_base 16 (String.sub s (i * width) width)))
  end
let hex_of_units width (l : n list) : string =
  if l = [] then "." else
  String.concat "" (List.map (fun u ->
    let h = BZ.format "%x" (bz_of_n u) in
    let pad = width - String.length h in
    if pad > 0 then String.make pad '0' ^ h else h) l)
let bytes_of_hex = units_of_hex 2
let hex_of_bytes = hex_of_units 2
let is_null s = (s = "-")

let exn_name = function
  | UnicodeError -> "unicode_error" | CodecError -> "codec_error" | BadFormat -> "bad_format"
  | OutOfRange -> "out_of_range" | InvalidArgument -> "invalid_argument" | BadAlloc -> "bad_alloc"
let abort_name = function
  | AbHuge -> "Huge" | AbNullData -> "NullData" | AbConvRange -> "ConvRange" | AbCharPad -> "CharPad"
  | AbFloatBuf -> "FloatBuf" | AbFloatFmt -> "FloatFmt" | AbSplitChar -> "SplitChar" | AbSplitNull -> "SplitNull"
  | AbStrlenNull -> "StrlenNull" | AbCodecLen -> "CodecLen" | AbB64Tail -> "B64Tail"
  | AbParseNoFmt -> "ParseNoFmt" | AbDigitClass -> "DigitClass" | AbOther -> "Other"
let fault_name = function
  | OOBRead -> "OOBRead" | OOBWrite -> "OOBWrite" | Unwritten -> "Unwritten" | UBSignedNeg -> "UBSignedNeg"
  | UBOther -> "UBOther" | Hang -> "Hang" | DoubleFree -> "DoubleFree" | FreeNonHeap -> "FreeNonHeap"
  | UseAfterFree -> "UseAfterFree" | ForeignStorage -> "ForeignStorage" | Leak -> "Leak"
  | AllocTooBig -> "AllocTooBig" | NullDeref -> "NullDeref"

let pr_outcome (f : 'a -> string) (o : 'a outcome) : string =
  match o with
  | Ok a -> "OK " ^ f a
  | Throw e -> "THROW " ^ exn_name e
  | Abort w -> "ABORT " ^ abort_name w
  | Fault x -> "FAULT " ^ fault_name x

(* the payload form used for returned buffers: <hex> size=<n> term=1 *)
let bufinfo width (l : n list) =
  Printf.sprintf "%s size=%d term=1" (hex_of_units width l) (List.length l)

let split_ws s = List.filter (fun t -> t <> "") (String.split_on_char ' ' (String.trim s))

(* dispatch : op -> args -> (model line, spec line); spec "=" means "same as model" *)
let run_main (dispatch : string -> string list -> string * string) =
  let file = Sys.argv.(1) in
  let ic = open_in file in
  let out = Buffer.create (1 lsl 16) in
  (try
     while true do
       let line = input_line ic in
       if String.length line > 0 && line.[0] <> '#' then
         match split_ws line with
         | id :: op :: args ->
             let (m, s) =
               (* `shutdown`: the harness runs a fresh copy of itself that uses the library, returns from main and uses it
                  again from exit handlers and thread-local destructors registered before the first use; nothing to model *)
               try (if op = "shutdown" then ("OK shutdown rc=0", "OK shutdown rc=0") else dispatch op args)
               with Stack_overflow -> ("FAULT ModelStackOverflow", "FAULT ModelStackOverflow") in
             Buffer.add_string out (id ^ " M " ^ m ^ "\n");
             Buffer.add_string out (id ^ " S " ^ (if s = "=" then m else s) ^ "\n");
             if Buffer.length out > 60000 then (print_string (Buffer.contents out); Buffer.clear out)
         | _ -> ()
     done
   with End_of_file -> ());
  print_string (Buffer.contents out)
