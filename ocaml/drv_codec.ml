(* ocaml/drv_codec.ml — runs the extracted codec model (M line) and the spec
   oracle (S line) on each case.  The S line is what the property allows.    *)

let opt_data s = if is_null s then None else Some (bytes_of_hex s)

let enc_model f a =
  let data = opt_data (List.nth a 0) in
  let size = match a with _ :: sz :: _ -> int_of_string sz | _ -> List.length (bytes_of_hex (List.nth a 0)) in
  pr_outcome (bufinfo 2) (f data (nat_of_int size))

let enc_spec spec a =
  let s = List.nth a 0 in
  let size = match a with _ :: sz :: _ -> int_of_string sz | _ -> List.length (bytes_of_hex s) in
  if size = 0 then "OK " ^ bufinfo 2 []
  else if is_null s then "THROW invalid_argument"
  else "OK " ^ bufinfo 2 (spec (bytes_of_hex s))

let dec_spec valid dspec a =
  let s = bytes_of_hex (List.nth a 0) in
  if valid s then (match dspec s with Some r -> "OK " ^ bufinfo 2 r | None -> "FAULT SpecInconsistent")
  else "THROW codec_error"

let pr_buf (ret, w) =
  let r = int_of_z ret in
  if r < 0 then "ret=-1"
  else Printf.sprintf "ret=%d data=%s rest=1" r (hex_of_bytes w)

let dec_buf_model f a =
  let s = bytes_of_hex (List.nth a 0) in
  match List.nth a 1 with
  | "null" -> pr_outcome (fun (ret, _) -> "ret=" ^ string_of_z ret) (f s false O)
  | os ->
      (* output sizes beyond any decoded length are clamped for the model (sizes are Peano numbers there):
         decoded length <= input length < cap, so the comparison `decoded > output_size` is unaffected *)
      let o = BZ.of_string os in
      let cap = 4096 + 2 * List.length s in
      let o = if BZ.gt o (BZ.of_int cap) then cap else BZ.to_int o in
      pr_outcome pr_buf (f s true (nat_of_int o))

let dec_buf_spec valid dspec dlen a =
  let s = bytes_of_hex (List.nth a 0) in
  match List.nth a 1 with
  | "null" -> (match dlen s with Some n -> "OK ret=" ^ string_of_nat n | None -> "OK ret=-1")
  | os ->
      let osize = (let o = BZ.of_string os in let cap = 4096 + 2 * List.length s in if BZ.gt o (BZ.of_int cap) then cap else BZ.to_int o) in
      if valid s then
        (match dspec s with
         | Some r when List.length r <= osize -> "OK " ^ pr_buf (z_of_int (List.length r), r)
         | Some _ -> "OK ret=-1"
         | None -> "FAULT SpecInconsistent")
      else "OK ret=-1"

let dispatch op a =
  match op with
  | "hex_enc" | "hex_enc_buf" -> (enc_model hex_encode a, enc_spec hex_spec a)
  | "b64_enc" | "b64_enc_buf" -> (enc_model base64_encode a, enc_spec b64_spec a)
  | "hex_dec" -> (pr_outcome (bufinfo 2) (hex_decode (bytes_of_hex (List.nth a 0))), dec_spec valid_hex hex_decode_spec a)
  | "b64_dec" -> (pr_outcome (bufinfo 2) (base64_decode (bytes_of_hex (List.nth a 0))), dec_spec valid_b64 b64_decode_spec a)
  | "hex_dec_buf" -> (dec_buf_model hex_decode_buf a, dec_buf_spec valid_hex hex_decode_spec hex_decoded_len a)
  | "b64_dec_buf" -> (dec_buf_model b64_decode_buf a, dec_buf_spec valid_b64 b64_decode_spec b64_decoded_len a)
  | _ -> failwith ("drv_codec: unknown op " ^ op)

let () = run_main dispatch
