(* ocaml/drv_utf.ml — C01/C02/C03: runs the extracted Utf model (M line) and the spec
   oracle (S line) on each case.

   case:  <fn>.<route> <mode> <sub> <units> [=<scalars as 8-digit hex>]
          ENUM <domain> <fn>.<route> <mode> <sub> <lo> <hi>
   mode:  av | si | cv | default:av | default:si | default:cv | _      sub: 0 | 1 | _
   S line: "OK <buf>" exact | "THROW unicode_error" | "ANYOK" | "ANY"
           (ANYOK/ANY: assume_valid on malformed input — the property fixes no content;
            the M line then carries a trailing " ~")                                  *)

let wchar_w = 2 * int_of_n sizeof_wchar

(* direct conversions (no zarith on the hot path of the digest mode) *)
let rec pos_of_i i = if i = 1 then XH else if i land 1 = 1 then XI (pos_of_i (i lsr 1)) else XO (pos_of_i (i lsr 1))
let n_of_i i = if i = 0 then N0 else Npos (pos_of_i i)
let rec i_of_pos = function XH -> 1 | XO p -> 2 * i_of_pos p | XI p -> 2 * i_of_pos p + 1
let i_of_n = function N0 -> 0 | Npos p -> i_of_pos p
let fast_hex width (l : n list) : string =
  if l = [] then "." else begin
    let b = Buffer.create (width * 8) in
    List.iter (fun u -> Buffer.add_string b (Printf.sprintf "%0*x" width (i_of_n u))) l;
    Buffer.contents b
  end
let bufinfo width (l : n list) = Printf.sprintf "%s size=%d term=1" (fast_hex width l) (List.length l)

type fn = {
  srcw : int; dstw : int;
  e : encoding; tg : target;
  run : vmode -> bool -> n list option -> n list outcome;
  forced : vmode option;          (* to_* members, literal operators: the mode is hard-wired *)
}

let fn_table : (string * fn) list =
  let mk srcw dstw e tg run = { srcw; dstw; e; tg; run; forced = None } in
  let m2 f = fun m _ s -> f m s in
  let m0 f = fun _ _ s -> f s in
  let we = wchar_encoding and wt = wchar_target in
  let str f = fun _ _ s -> f (match s with Some l -> l | None -> []) in
  [ "utf16_to_utf8", mk 4 2 E16 T8 (m2 utf16_to_utf8);
    "utf32_to_utf8", mk 8 2 E32 T8 (m2 utf32_to_utf8);
    "wchar_to_utf8", mk wchar_w 2 we T8 (m2 wchar_to_utf8);
    "latin_1_to_utf8", mk 2 2 EL1 T8 (m0 latin_1_to_utf8);
    "utf8_to_utf16", mk 2 4 E8 T16 (m2 utf8_to_utf16);
    "utf32_to_utf16", mk 8 4 E32 T16 (m2 utf32_to_utf16);
    "wchar_to_utf16", mk wchar_w 4 we T16 (m2 wchar_to_utf16);
    "latin_1_to_utf16", mk 2 4 EL1 T16 (m0 latin_1_to_utf16);
    "utf8_to_utf32", mk 2 8 E8 T32 (m2 utf8_to_utf32);
    "utf16_to_utf32", mk 4 8 E16 T32 (m2 utf16_to_utf32);
    "wchar_to_utf32", mk wchar_w 8 we T32 (m2 wchar_to_utf32);
    "latin_1_to_utf32", mk 2 8 EL1 T32 (m0 latin_1_to_utf32);
    "utf8_to_wchar", mk 2 wchar_w E8 wt (m2 utf8_to_wchar);
    "utf16_to_wchar", mk 4 wchar_w E16 wt (m2 utf16_to_wchar);
    "utf32_to_wchar", mk 8 wchar_w E32 wt (m2 utf32_to_wchar);
    "latin_1_to_wchar", mk 2 wchar_w EL1 wt (m0 latin_1_to_wchar);
    "utf8_to_latin_1", mk 2 2 E8 TL1 utf8_to_latin_1;
    "utf16_to_latin_1", mk 4 2 E16 TL1 utf16_to_latin_1;
    "utf32_to_latin_1", mk 8 2 E32 TL1 utf32_to_latin_1;
    "wchar_to_latin_1", mk wchar_w 2 we TL1 wchar_to_latin_1;
    (* ST::string entry points *)
    "str_from_utf8", mk 2 2 E8 TS (m2 string_from_utf8);
    "str_from_utf16", mk 4 2 E16 T8 (m2 string_from_utf16);
    "str_from_utf32", mk 8 2 E32 T8 (m2 string_from_utf32);
    "str_from_wchar", mk wchar_w 2 we T8 (m2 string_from_wchar);
    "str_from_latin_1", mk 2 2 EL1 T8 (m0 string_from_latin_1);
    "str_lit_utf8", { (mk 2 2 E8 TS (m0 string_literal_char)) with forced = Some AssumeValid };
    "str_to_utf8", { (mk 2 2 E8 TS (str string_to_utf8)) with forced = Some AssumeValid };
    "str_to_utf16", { (mk 2 4 E8 T16 (str string_to_utf16)) with forced = Some AssumeValid };
    "str_to_utf32", { (mk 2 8 E8 T32 (str string_to_utf32)) with forced = Some AssumeValid };
    "str_to_wchar", { (mk 2 wchar_w E8 wt (str string_to_wchar)) with forced = Some AssumeValid };
    "str_to_latin_1", { (mk 2 2 E8 TL1 (fun _ sub s -> string_to_latin_1 sub (match s with Some l -> l | None -> [])))
                        with forced = Some AssumeValid };
  ]

let mode_of = function
  | "av" | "default:av" -> AssumeValid
  | "si" | "default:si" -> SubstituteInvalid
  | "cv" | "default:cv" | "_" -> CheckValidity
  | s -> failwith ("drv_utf: bad mode " ^ s)
let sub_of = function "0" -> false | _ -> true

let split_op op =
  match String.index_opt op '.' with
  | Some i -> (String.sub op 0 i, String.sub op (i + 1) (String.length op - i - 1))
  | None -> (op, "ptr")

let enc_of_target = function TS | T8 -> E8 | T16 -> E16 | T32 -> E32 | TL1 -> EL1

(* one conversion: (model line, spec line) *)
let one ?(light = false) (f : fn) route mode sub (src : n list option) (scalars : n list option) : string * string =
  let m = match f.forced with Some fm -> fm | None -> mode in
  ignore route;
  let units = match src with Some l -> l | None -> [] in
  if light then begin
    (* digest mode over scalar values: the reference is the standard encoding alone (Utf/Spec.v);
       that the tokeniser specification agrees on well-formed text is theorem spec_conv_wellformed,
       and is also checked case by case in line mode *)
    let sc = match scalars with Some sc -> sc | None -> [] in
    let std = if m = CheckValidity && enc f.e sc <> units then "FAULT SpecInputMismatch"
      else "OK " ^ bufinfo f.dstw (enc (enc_of_target f.tg) sc) in
    (pr_outcome (bufinfo f.dstw) (f.run m sub src), std)
  end else
  let spec = spec_conv f.e f.tg m sub units in
  let sline = match spec with
    | SOk l -> "OK " ^ bufinfo f.dstw l
    | SThrow -> "THROW unicode_error"
    | SAnyOk -> "ANYOK"
    | SAny -> "ANY" in
  let sline = match scalars with
    | None -> sline
    | Some sc ->
        (* C01: the standard encoding of the scalar sequence, from Utf/Spec.v alone *)
        if enc f.e sc <> units then "FAULT SpecInputMismatch"
        else
          let std = "OK " ^ bufinfo f.dstw (enc (enc_of_target f.tg) sc) in
          if std <> sline then "FAULT SpecDisagree(" ^ sline ^ ")" else std in
  let mline = pr_outcome (bufinfo f.dstw) (f.run m sub src) in
  let mline = match spec with SAnyOk | SAny -> mline ^ " ~" | _ -> mline in
  (mline, sline)

(* ---- digest mode ---- *)
let fnv_add (h : int64) (s : string) : int64 =
  let h = ref h in
  String.iter (fun c ->
      h := Int64.mul (Int64.logxor !h (Int64.of_int (Char.code c))) 0x100000001b3L) s;
  !h
let fnv_init = 0xcbf29ce484222325L


(* generalised UTF-8 of a value below 0x200000 (surrogates and values above 0x10FFFF included) *)
let gen_utf8 c =
  if c < 0x80 then [c]
  else if c < 0x800 then [0xC0 lor (c lsr 6); 0x80 lor (c land 0x3F)]
  else if c < 0x10000 then [0xE0 lor (c lsr 12); 0x80 lor ((c lsr 6) land 0x3F); 0x80 lor (c land 0x3F)]
  else [0xF0 lor ((c lsr 18) land 7); 0x80 lor ((c lsr 12) land 0x3F); 0x80 lor ((c lsr 6) land 0x3F); 0x80 lor (c land 0x3F)]
let gen_utf16 c =
  if c < 0x10000 then [c] else [0xD800 lor (((c - 0x10000) lsr 10) land 0x3FF); 0xDC00 lor ((c - 0x10000) land 0x3FF)]

(* source units of item i of a domain, or None when the item is skipped *)
let item domain (f : fn) i : int list option =
  match domain with
  | "scalar" | "cp" ->
      if domain = "scalar" && i >= 0xD800 && i <= 0xDFFF then None
      else (match f.e with
          | E8 -> if i < 0x200000 then Some (gen_utf8 i) else None
          | E16 -> if i < 0x110000 then Some (gen_utf16 i) else None
          | E32 -> Some [i]
          | EL1 -> if i < 0x100 then Some [i] else None)
  | "bytes1" -> Some [i land 0xFF]
  | "bytes2" -> Some [(i lsr 8) land 0xFF; i land 0xFF]
  | "bytes3" -> Some [(i lsr 16) land 0xFF; (i lsr 8) land 0xFF; i land 0xFF]
  | "bytes4" -> Some [(i lsr 24) land 0xFF; (i lsr 16) land 0xFF; (i lsr 8) land 0xFF; i land 0xFF]
  | "cb4" ->
      let cb = [| 0x00; 0x7F; 0x80; 0xBF; 0xC0; 0xC1; 0xC2; 0xDF; 0xE0; 0xEF; 0xF0; 0xF4; 0xF5; 0xF7; 0xF8; 0xFF |] in
      Some [cb.((i lsr 12) land 15); cb.((i lsr 8) land 15); cb.((i lsr 4) land 15); cb.(i land 15)]
  | "u16x2" -> Some [(i lsr 16) land 0xFFFF; i land 0xFFFF]
  | "u16x3" -> Some [(i lsr 32) land 0xFFFF; (i lsr 16) land 0xFFFF; i land 0xFFFF]
  | d -> failwith ("drv_utf: unknown domain " ^ d)

(* the line without the units: outcome class, size, terminator *)
let shape_of line =
  if String.length line > 3 && String.sub line 0 3 = "OK " then
    (match String.rindex_opt line 's' with
     | _ ->
         let rec find i = if i < 0 then None
           else if i + 6 <= String.length line && String.sub line i 6 = " size=" then Some i else find (i - 1) in
         (match find (String.length line - 6) with
          | Some i -> "OK" ^ String.sub line i (String.length line - i)
          | None -> line))
  else line

let enum domain (f : fn) route mode sub lo hi : string * string =
  let hm = ref fnv_init and hs = ref fnv_init and cnt = ref 0 and any = ref false in
  let shm = ref fnv_init and shs = ref fnv_init in
  for i = lo to hi - 1 do
    match item domain f i with
    | None -> ()
    | Some us ->
        let src = List.map n_of_i us in
        let scalars = if domain = "scalar" && f.tg <> TL1 then Some [n_of_i i] else None in
        let (m, s) = one ~light:(scalars <> None) f route mode sub (Some src) scalars in
        let m = if String.length m > 2 && String.sub m (String.length m - 2) 2 = " ~"
          then String.sub m 0 (String.length m - 2) else m in
        if s = "ANYOK" || s = "ANY" then any := true;
        hm := fnv_add !hm (m ^ "\n");
        hs := fnv_add !hs (s ^ "\n");
        shm := fnv_add !shm (shape_of m ^ "\n");
        shs := fnv_add !shs (shape_of s ^ "\n");
        incr cnt
  done;
  (Printf.sprintf "OK n=%d fnv=%016Lx shape=%016Lx" !cnt !hm !shm,
   if !any then Printf.sprintf "OK n=%d fnv=* shape=*" !cnt
   else Printf.sprintf "OK n=%d fnv=%016Lx shape=%016Lx" !cnt !hs !shs)

let lookup name =
  try List.assoc name fn_table with Not_found -> failwith ("drv_utf: unknown function " ^ name)

let dispatch op a =
  match op with
  | "ENUM" ->
      (match a with
       | [domain; fr; mode; sub; lo; hi] ->
           let (name, route) = split_op fr in
           enum domain (lookup name) route (mode_of mode) (sub_of sub) (int_of_string lo) (int_of_string hi)
       | _ -> failwith "drv_utf: ENUM domain fn.route mode sub lo hi")
  | _ ->
      let (name, route) = split_op op in
      let f = lookup name in
      (match a with
       | mode :: sub :: u :: rest ->
           let src = if is_null u then None else Some (units_of_hex f.srcw u) in
           let scalars = match rest with
             | s :: _ when String.length s > 0 && s.[0] = '=' ->
                 let h = String.sub s 1 (String.length s - 1) in
                 Some (units_of_hex 8 (if h = "" then "." else h))
             | _ -> None in
           one f route (mode_of mode) (sub_of sub) src scalars
       | _ -> failwith ("drv_utf: bad arguments for " ^ op))

let () = run_main dispatch
