(* ocaml/drv_mem.ml — buffer / string_stream histories through the extracted heap model (M line)
   and the value-semantics spec (S line). *)

let split_on c s = String.split_on_char c s

let rec take n l = if n = 0 then [] else match l with [] -> [] | x :: t -> x :: take (n - 1) t
let rec drop n l = if n = 0 then l else match l with [] -> [] | _ :: t -> drop (n - 1) t
let parse_fail (a : string list) : (int * int) option =
  List.fold_left (fun acc f ->
    if String.length f > 7 && String.sub f 0 7 = "failat=" then
      (match String.split_on_char '@' (String.sub f 7 (String.length f - 7)) with
       | [k; s] -> Some (int_of_string k, int_of_string s) | _ -> acc)
    else acc) None a
(* run `ops` with the fault schedule armed for exactly the operation at index sidx *)
let run_scheduled run arm st0 ops fail =
  match fail with
  | None -> run st0 ops
  | Some (k, sidx) ->
      let (s1, st1) = run st0 (take sidx ops) in
      let (s2, st2) = run (arm st1 (Some (nat_of_int k))) (take 1 (drop sidx ops)) in
      let (s3, st3) = run (arm st2 None) (drop (sidx + 1) ops) in
      (s1 @ s2 @ s3, st3)

let elt_info = function
  | "c" -> (2, int_of_n local_length_char)
  | "w" -> (8, int_of_n local_length_wchar)
  | "u16" -> (4, int_of_n local_length_char16)
  | "u32" -> (8, int_of_n local_length_char32)
  | t -> failwith ("element type " ^ t)

(* counts of 2^32 and more (only generated together with an allocation fault on this very step) stand for "a request no
   allocator grants": the model runs an allocating operation of 4096 elements, armed *)
let big_count (n : string) : nat =
  let c = (try int_of_string n with _ -> max_int) in
  nat_of_int (if c >= 1 lsl 32 || c < 0 then 4096 else c)

let parse_bop width (s : string) : bop =
  match split_on ',' s with
  | ["def"; o] -> BDef (nat_of_int (int_of_string o))
  | ["new"; o; d] -> BNew (nat_of_int (int_of_string o), units_of_hex width d)
  | ["newnull"; o; n] -> BNewNull (nat_of_int (int_of_string o), nat_of_int (int_of_string n))
  | ["fill"; o; n; c] -> BFill (nat_of_int (int_of_string o), big_count n, n_of_string c)
  | ["copy"; o; s] -> BCopy (nat_of_int (int_of_string o), nat_of_int (int_of_string s))
  | ["move"; o; s] -> BMove (nat_of_int (int_of_string o), nat_of_int (int_of_string s))
  | ["asg"; o; s] -> BAsg (nat_of_int (int_of_string o), nat_of_int (int_of_string s))
  | ["masg"; o; s] -> BMasg (nat_of_int (int_of_string o), nat_of_int (int_of_string s))
  | ["alloc"; o; n; c] -> BAlloc (nat_of_int (int_of_string o), big_count n, n_of_string c)
  | ["allocfill"; o; n; c] -> BAllocFill (nat_of_int (int_of_string o), big_count n, n_of_string c)
  | ["write"; o; i; v] -> BWrite (nat_of_int (int_of_string o), nat_of_int (int_of_string i), n_of_string v)
  | ["clear"; o] -> BClear (nat_of_int (int_of_string o))
  | ["del"; o] -> BDel (nat_of_int (int_of_string o))
  | _ -> failwith ("drv_mem: bad buffer op " ^ s)

let loc_name = function LocOwn -> "L" | LocHeap -> "H" | LocForeign -> "F"

let pr_obs width i = function
  | None -> Printf.sprintf ";%d=-" i
  | Some o ->
      Printf.sprintf ";%d=%s:%d:%d:%s" i (hex_of_units width o.o_units) (int_of_nat o.o_size)
        (if o.o_term then 1 else 0) (loc_name o.o_loc)

let res_name = function
  | Ok _ -> "ok" | Throw BadAlloc -> "bad_alloc" | Throw e -> exn_name e
  | Abort w -> "ABORT " ^ abort_name w | Fault f -> "FAULT " ^ fault_name f

let buf_case a =
  let ty = List.nth a 0 and pool = int_of_string (List.nth a 1) in
  let (width, l) = elt_info ty in
  (* `swap,a,b` (using std::swap; swap(x, y) — the generic three-move exchange unless the library provides its own) is
     a macro: move-construct a temporary from a, a = move(b), b = move(temporary), destroy the temporary; only the state
     after the whole exchange is observed *)
  let raw = split_on ';' (List.nth a 2) in
  let expanded = List.concat_map (fun r ->
    match split_on ',' r with
    | ["swap"; x; y] ->
        let x = nat_of_int (int_of_string x) and y = nat_of_int (int_of_string y) and t = nat_of_int pool in
        if x = y then [(BMove (t, x), false); (BMasg (x, t), false); (BDel t, true)]
        else [(BMove (t, x), false); (BMasg (x, y), false); (BMasg (y, t), false); (BDel t, true)]
    | _ -> [(parse_bop width r, true)]) raw in
  let ops = List.map fst expanded and keep = List.map snd expanded in
  let fail = parse_fail a in
  let lnat = nat_of_int l and pnat = nat_of_int pool in
  let (steps, stf) = run_scheduled (fun st o -> run_history lnat o pnat st) with_fail store0 ops fail in
  let rec filt xs ks = match xs, ks with x :: xt, k :: kt -> if k then x :: filt xt kt else filt xt kt | xs, [] -> xs | [], _ -> [] in
  let died_early = List.exists (fun s -> match s.s_result with Abort _ | Fault _ -> true | _ -> false) steps in
  let steps = if died_early then steps else filt steps keep in
  (* model line *)
  let died = List.find_opt (fun s -> match s.s_result with Abort _ | Fault _ -> true | _ -> false) steps in
  let m =
    match died with
    | Some s -> res_name s.s_result
    | None ->
        let body = String.concat "|" (List.map (fun s ->
          "r=" ^ res_name s.s_result ^ String.concat "" (List.mapi (pr_obs width) s.s_objs)
          ^ ";sh=" ^ (if s.s_shares then "1" else "0")) steps) in
        (match leaked_after_scope lnat pnat stf with
         | Ok n -> "OK " ^ body ^ "|leak=" ^ string_of_nat n
         | o -> res_name o) in
  (* spec line: values only; '?' for a moved-from object (any valid value) *)
  let sstates = filt (spec_history ops sstore0) keep in
  let pr_s st =
    String.concat "" (List.init pool (fun i ->
      match st (nat_of_int i) with
      | None -> Printf.sprintf ";%d=-" i
      | Some Unspecified -> Printf.sprintf ";%d=?" i
      | Some (Val v) ->
          let n = List.length v in
          Printf.sprintf ";%d=%s:%d:1:%s" i (hex_of_units width v) n (if n < l then "L" else "H"))) in
  let s = "OK " ^ String.concat "|" (List.map (fun st -> "r=ok" ^ pr_s st ^ ";sh=0") sstates) ^ "|leak=0" in
  (m, s)

(* ---- string_stream histories ---- *)
let strlen_cut (l : n list) = let rec go = function [] -> [] | x :: t -> if x = N0 then [] else x :: go t in go l

let parse_sop (s : string) : sop =
  let nat s = nat_of_int (int_of_string s) in
  match split_on ',' s with
  | ["new"; o] -> SNew (nat o)
  | ["app"; o; d] | ["app.st"; o; d] | ["app.std"; o; d] | ["app.view"; o; d] | ["app.u8"; o; d] -> SAppend (nat o, bytes_of_hex d)
  | ["app.cstr"; o; d] | ["app.auto"; o; d] -> SAppend (nat o, strlen_cut (bytes_of_hex d))
  | ["appc"; o; c; n] ->
      (* counts of 2^32 and more (only generated together with an allocation fault on this very step) stand for
         "a growth request the allocator refuses": the model runs a growing append of 2^13 bytes, armed *)
      let cnt = (try int_of_string n with _ -> max_int) in
      SAppendChar (nat o, n_of_string c, nat_of_int (if cnt >= 1 lsl 32 then 1 lsl 13 else cnt))
  | ["shlc"; o; c] -> SAppendChar (nat o, n_of_string c, nat "1")
  | ["trunc"; o; n] -> STruncate (nat o, nat n)
  | ["erase"; o; n] -> SErase (nat o, nat n)
  | ["move"; o; s] -> SMove (nat o, nat s)
  | ["masg"; o; s] -> SMasg (nat o, nat s)
  | ["shl"; o; ty; v] ->
      let bits = match ty with "i32" | "u32" -> 32 | _ -> 64 in
      let z = BZ.of_string v in
      SShl (nat o, nat_of_int bits, BZ.sign z < 0, n_of_bz (BZ.abs z))
  | ["del"; o] -> SDel (nat o)
  | [("shl16" | "shl16s" | "shl16v" | "shl32" | "shl32s" | "shlw" | "shld" | "shlf"); o; _; m] when String.length m > 2 && String.sub m 0 2 = "M=" ->
      (* wide text: ST::utf16_to_utf8 / utf32_to_utf8 into a temporary buffer, then append(utf8.data(), utf8.size());
         double / float: float_formatter renders with the C library's %g (an oracle: the expected text comes with the case),
         then append(text, size) *)
      SAppend (nat o, bytes_of_hex (String.sub m 2 (String.length m - 2)))
  | _ -> failwith ("drv_mem: bad stream op " ^ s)

let vmode_of = function
  | "av" -> AssumeValid | "si" -> SubstituteInvalid | "cv" | "default" -> CheckValidity
  | m -> failwith ("mode " ^ m)

let ss_case a =
  let pool = int_of_string (List.nth a 0) in
  let raw_ops = split_on ';' (List.nth a 1) in
  let is_throwing_sop r = (let n = String.length r in n > 8 && String.sub r (n - 8) 8 = ",M=throw") in
  let is_tostr r = String.length r > 6 && String.sub r 0 6 = "tostr," in
  let stk = nat_of_int (int_of_n stack_string_size) and pnat = nat_of_int pool in
  let fail = parse_fail a in
  let pr_so i = function
    | None -> Printf.sprintf ";%d=-" i
    | Some o -> Printf.sprintf ";%d=%s:%d:%s" i (hex_of_bytes o.so_bytes) (int_of_nat o.so_size) (if o.so_own then "L" else "H") in
  (* one operation at a time, so that to_string and failing insertions can be evaluated on the state reached *)
  let st = ref sstate0 and sp = ref bstore0 in
  let last_objs = ref (List.init pool (fun _ -> None)) and last_sh = ref false in
  let mlines = ref [] and slines = ref [] and dead = ref None in
  let pr_spec () = String.concat "" (List.init pool (fun i ->
      match !sp (nat_of_int i) with
      | None -> Printf.sprintf ";%d=-" i
      | Some v -> Printf.sprintf ";%d=%s:%d:*" i (hex_of_bytes v) (List.length v))) in
  List.iteri (fun idx r ->
    if !dead = None then begin
      if is_throwing_sop r then begin
        (* a failing wide insertion throws while converting into a TEMPORARY buffer, before any stream member runs *)
        mlines := ("r=unicode_error" ^ String.concat "" (List.mapi pr_so !last_objs) ^ ";sh=" ^ (if !last_sh then "1" else "0")) :: !mlines;
        slines := ("r=unicode_error" ^ pr_spec () ^ ";sh=0") :: !slines
      end else if is_tostr r then begin
        (match split_on ',' r with
         | [_; o; enc; mode] ->
             let (res, _) = s_to_string (nat_of_int (int_of_string o)) (enc = "u") (vmode_of mode) !st in
             let (rs, ts) = (match res with
               | Ok bytes -> ("ok", ",ts=" ^ hex_of_bytes bytes)
               | Throw e -> (exn_name e, "")
               | Abort w -> dead := Some ("ABORT " ^ abort_name w); ("", "")
               | Fault f -> dead := Some ("FAULT " ^ fault_name f); ("", "")) in
             mlines := ("r=" ^ rs ^ ts ^ String.concat "" (List.mapi pr_so !last_objs) ^ ";sh=" ^ (if !last_sh then "1" else "0")) :: !mlines;
             (* spec: the bytes appended so far, validated / repaired / transcoded as the spec-level conversion says;
                the spec conversion is the model's (C01-C03 prove it against their own specs) *)
             slines := ("r=" ^ rs ^ ts ^ pr_spec () ^ ";sh=0") :: !slines
         | _ -> failwith ("drv_mem: bad tostr " ^ r))
      end else begin
        let op = parse_sop r in
        let st0 = (match fail with Some (k, s) when s = idx -> swith_fail !st (Some (nat_of_int k)) | _ -> !st) in
        let (steps, st1) = run_shistory stk [op] pnat st0 in
        st := swith_fail st1 None;
        sp := spec_sop !sp op;
        (match steps with
         | [s] ->
             (match s.ss_result with
              | Abort _ | Fault _ -> dead := Some (res_name s.ss_result)
              | _ ->
                  last_objs := s.ss_objs; last_sh := s.ss_shares;
                  mlines := ("r=" ^ res_name s.ss_result ^ String.concat "" (List.mapi pr_so s.ss_objs)
                             ^ ";sh=" ^ (if s.ss_shares then "1" else "0")) :: !mlines;
                  slines := ("r=ok" ^ pr_spec () ^ ";sh=0") :: !slines)
         | _ -> failwith "run_shistory: one step expected")
      end
    end) raw_ops;
  let m =
    match !dead with
    | Some d -> d
    | None ->
        (match s_leaked_after_scope stk pnat !st with
         | Ok n -> "OK " ^ String.concat "|" (List.rev !mlines) ^ "|leak=" ^ string_of_nat n
         | o -> res_name o) in
  let s = "OK " ^ String.concat "|" (List.rev !slines) ^ "|leak=0" in
  (m, s)

(* ---- ST::string histories: each C++ operation carries its footprint class in a trailing M= field ---- *)
let exn_of_name = function
  | "unicode_error" -> UnicodeError | "codec_error" -> CodecError | "bad_format" -> BadFormat
  | "out_of_range" -> OutOfRange | "invalid_argument" -> InvalidArgument | "bad_alloc" -> BadAlloc
  | e -> failwith ("exn " ^ e)

let parse_top (s : string) : top * string =
  let f = split_on ',' s in
  let nat k = nat_of_int (int_of_string (List.nth f k)) in
  let m = List.fold_left (fun acc x -> if String.length x > 2 && String.sub x 0 2 = "M=" then String.sub x 2 (String.length x - 2) else acc) "" f in
  let mparts = split_on ':' m in
  let arg = ref "" in
  let t =
    match List.hd f, mparts with
    | "new", _ -> TNew (nat 1, bytes_of_hex (List.nth f 2))
    | "reads", _ | "readsweep", _ -> TReads (nat 1)
    | ("fromint" | "fromuint" | "frombool" | "sfill"), ["mctor"; v] -> TFreshMoveCtor (nat 1, nat 1, bytes_of_hex v)
    | _, ["nrvo"; v] -> TFreshNRVO (nat 1, nat 2, bytes_of_hex v)
    | _, ["mctor"; v] -> TFreshMoveCtor (nat 1, nat 2, bytes_of_hex v)
    | _, ["masg"; v] -> TFreshMoveAsg (nat 1, nat 2, bytes_of_hex v)
    | _, ["via"; temps; v] ->
        let ts = List.filter (fun x -> x <> "") (split_on '/' temps) in
        TFreshVia (nat 1, nat 2, List.map bytes_of_hex ts, bytes_of_hex v)
    | _, ["empty"] -> TEmpty (nat 1)
    | _, ["copy"] -> TCopyOf (nat 1, nat 2)
    | _, ["copymove"] -> TCopyMove (nat 1, nat 2)
    | "mctor", _ -> TMoveCtor (nat 1, nat 2)
    | "asg", _ -> TAssign (nat 1, nat 2)
    | "masg", _ -> TMoveAssign (nat 1, nat 2)
    | "set", _ -> TSetBytes (nat 1, bytes_of_hex (List.nth f 2))
    | "append", ["cat"; v] -> TAppend (nat 1, nat 2, bytes_of_hex v)
    | "extract", ["set"; v] -> TSetBytes (nat 1, bytes_of_hex v)
    | "utf8ref", ["set"; v] -> arg := ",ref=ok"; TSetBytes (nat 1, bytes_of_hex v)
    | "fvlv", ["copymove"; v] -> arg := ",arg=" ^ v; TCopyMove (nat 1, nat 2)
    | "svlv", ["set"; v] -> arg := ",arg=" ^ v; TSetBytes (nat 1, bytes_of_hex v)
    | ("selfset" | "selfview" | "selfasg"), ["set"; v] -> TSetBytes (nat 1, bytes_of_hex v)
    | "selfappend", ["cat"; v] -> TAppend (nat 1, nat 1, bytes_of_hex v)
    | "clear", _ -> TClear (nat 1)
    | "del", _ -> TDel (nat 1)
    | _, "throw" :: e :: temps ->
        let ts = List.filter (fun x -> x <> "") (match temps with [t] -> split_on '/' t | _ -> []) in
        (match List.hd f with "setfail" | "setmfail" | "ctorbuffail" | "fmtmovestd" | "fmtmoveuser" | "tobuffail" | "tobufvfail" | "tostdfail" -> arg := ",arg=" ^ List.nth f 2 | _ -> ());
        TThrowing (List.map bytes_of_hex ts, exn_of_name e)
    | _ -> failwith ("drv_mem: bad string op " ^ s) in
  (t, !arg)

(* `extract,o,<text>,F=<n>,M=set:<token>`: the first n allocations of the extraction are libstdc++'s (the token's
   std::basic_string growing: an oracle); a fault at one of them has the same visible outcome as a fault at the library's
   own first allocation, a fault at number k >= n is the library's allocation number k - n *)
let adjust_extract_fault (a : string list) : string list =
  match parse_fail a with
  | None -> a
  | Some (k, step) ->
      let ops = split_on ';' (List.nth a 1) in
      (match List.nth_opt ops step with
       | Some r when String.length r > 8 && String.sub r 0 8 = "extract," ->
           let f = List.fold_left (fun acc x -> if String.length x > 2 && String.sub x 0 2 = "F=" then int_of_string (String.sub x 2 (String.length x - 2)) else acc) 0 (split_on ',' r) in
           let k' = if k >= f then k - f else 0 in
           List.map (fun x -> if String.length x > 7 && String.sub x 0 7 = "failat=" then Printf.sprintf "failat=%d@%d" k' step else x) a
       | _ -> a)

let str_case a =
  let a = adjust_extract_fault a in
  let pool = int_of_string (List.nth a 0) in
  let parsed = List.map parse_top (split_on ';' (List.nth a 1)) in
  let ops = List.map fst parsed and args = List.map snd parsed in
  let l = int_of_n local_length_char in
  let lnat = nat_of_int l and pnat = nat_of_int pool in
  let (steps, stf) = run_scheduled (fun st o -> run_thistory lnat o pnat st) with_fail store0 ops (parse_fail a) in
  let prev = ref (Array.make pool None) in
  let pr_t args stp =
    let cur = Array.of_list (List.map (fun x -> x) stp.t_objs) in
    let body = String.concat "" (List.mapi (fun i ob ->
      match ob with
      | None -> Printf.sprintf ";%d=-" i
      | Some o ->
          Printf.sprintf ";%d=%s:%d:%d:%s:*" i (hex_of_bytes o.o_units) (int_of_nat o.o_size)
            (if o.o_term then 1 else 0) (loc_name o.o_loc)) stp.t_objs) in
    prev := cur;
    "r=" ^ res_name stp.t_result ^ args ^ body ^ ";sh=" ^ (if stp.t_shares then "1" else "0") in
  let died = List.find_opt (fun s -> match s.t_result with Abort _ | Fault _ -> true | _ -> false) steps in
  let rec zip a b = match a, b with x :: xs, y :: ys -> (x, y) :: zip xs ys | _ -> [] in
  let m =
    match died with
    | Some s -> res_name s.t_result
    | None ->
        (* the rvalue / out-parameter argument of a failing operation is printed by the harness only if it came into
           existence: when the fault hits the allocation of that argument itself (fault number 0, argument long) there
           is nothing to print *)
        let args = List.mapi (fun i ar ->
          match parse_fail a, List.nth_opt steps i, List.nth_opt ops i with
          | Some (0, fs), Some stp, Some (TThrowing (t0 :: _, _))
            when fs = i && stp.t_result = Throw BadAlloc && List.length t0 >= l -> ""
          | _ -> ar) args in
        let body = String.concat "|" (List.map (fun (stp, ar) -> pr_t ar stp) (zip steps args)) in
        (match t_leaked_after_scope lnat pnat stf with
         | Ok n -> "OK " ^ body ^ "|leak=" ^ string_of_nat n
         | o -> res_name o) in
  (* spec: values; const operations and failed operations leave every pre-existing object's bytes, size AND
     data pointer unchanged (p=1); objects (re)assigned by the step may move (p = any) *)
  let sstates = spec_thistory ops sstore0 in
  let prevs = ref sstore0 in
  let pr_s (st, (t, ar)) =
    let touched i = match t with
      | TAssign (o, _) | TSetBytes (o, _) | TAppend (o, _, _) | TClear o -> int_of_nat o = i
      | TMoveAssign (o, src) -> int_of_nat o = i || int_of_nat src = i
      | TMoveCtor (_, src) -> int_of_nat src = i
      | _ -> false in
    let r = match t with TThrowing (_, e) -> exn_name e | _ -> "ok" in
    let line = String.concat "" (List.init pool (fun i ->
      match st (nat_of_int i) with
      | None -> Printf.sprintf ";%d=-" i
      | Some Unspecified -> Printf.sprintf ";%d=?" i
      | Some (Val v) ->
          let n = List.length v in
          let p = match !prevs (nat_of_int i) with None -> "n" | Some _ -> if touched i then "*" else "1" in
          Printf.sprintf ";%d=%s:%d:1:%s:%s" i (hex_of_bytes v) n (if n < l then "L" else "H") p)) in
    prevs := st;
    "r=" ^ r ^ ar ^ line ^ ";sh=0" in
  let s = "OK " ^ String.concat "|" (List.map pr_s (zip sstates parsed)) ^ "|leak=0" in
  (m, s)

let dispatch op a =
  match op with
  | "str" -> str_case a
  | "ss" -> ss_case a
  | "buf" -> buf_case a
  | _ -> failwith ("drv_mem: unknown op " ^ op)

let () = run_main dispatch
