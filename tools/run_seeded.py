#!/usr/bin/env python3
"""Evaluate one seeded change against the checks.

usage: run_seeded.py <seeded dir> [--checks C05,C04] [--keep]

<seeded dir> holds patch.diff, demo.cpp, meta.json.  A scratch worktree of /repo's HEAD is created outside /repo and
/verif, the patch is applied THERE (never to /repo), then:
  1. the repository's own test-suite is built and run against the patched tree (must still pass: 112 tests);
  2. the demonstration is compiled against the pristine and the patched tree (must pass / fail);
  3. the property's check (plus any extra ones) runs with VERIF_REPO=<scratch>; a VIOLATION line means caught.
Results are written back into meta.json under "evaluation"; the worktree and its build output are removed."""
import json
import os
import re
import shutil
import subprocess
import sys
import time

VERIF = os.path.dirname(os.path.dirname(os.path.abspath(__file__)))


def sh(cmd, timeout=3600, cwd=None, env=None):
    p = subprocess.run(cmd, shell=isinstance(cmd, str), cwd=cwd, env=env, stdout=subprocess.PIPE, stderr=subprocess.STDOUT,
                       timeout=timeout, text=True, errors='replace')
    return p.returncode, p.stdout


def main():
    d = os.path.abspath(sys.argv[1])
    extra = []
    keep = '--keep' in sys.argv
    for i, a in enumerate(sys.argv):
        if a == '--checks':
            extra = sys.argv[i + 1].split(',')
    meta = json.load(open(os.path.join(d, 'meta.json')))
    pid = meta['property']
    checks = list(dict.fromkeys([pid] + extra))
    name = os.path.basename(d.rstrip('/'))
    wt = '/tmp/seedrun_%s_%d' % (name, os.getpid())
    res = {'at': time.strftime('%Y-%m-%dT%H:%M:%SZ', time.gmtime()), 'checks': {}}
    try:
        rc, out = sh(['git', '-C', '/repo', 'worktree', 'add', '-f', wt, 'HEAD'])
        assert rc == 0, out
        # demonstration on the pristine tree
        cfg = os.path.join(VERIF, '_work', 'cfg', 'include')
        tsan = 'thread' in open(os.path.join(d, 'demo.cpp')).read()[:600] or pid == 'C20' and 'thread' in open(os.path.join(d, 'demo.cpp')).read()[:4000]
        san = '-fsanitize=thread' if tsan else '-fsanitize=address,undefined -fno-sanitize-recover=all'
        comp = 'g++ -std=c++20 -O1 -g %s -I%s/include -I%s %s/demo.cpp -o %s/demo_bin -lpthread' % (san, wt, cfg, d, wt)
        rc, out = sh(comp)
        res['demo_compiles_pristine'] = rc == 0
        rc, out = sh('timeout 60 %s/demo_bin' % wt)
        res['demo_pristine_rc'] = rc
        # apply the change
        rc, out = sh(['git', '-C', wt, 'apply', os.path.join(d, 'patch.diff')])
        res['patch_applies'] = rc == 0
        if rc != 0:
            res['error'] = out[-2000:]
            raise SystemExit
        rc, out = sh(comp)
        res['demo_compiles_patched'] = rc == 0
        rc, out = sh('timeout 60 %s/demo_bin' % wt)
        res['demo_patched_rc'] = rc
        res['demo_patched_tail'] = out[-600:]
        # the repository's own tests on the patched tree
        b = wt + '/_build'
        rc, out = sh('cmake -G Ninja -S %s -B %s -DCMAKE_BUILD_TYPE=RelWithDebInfo -DCMAKE_CXX_FLAGS=-Wno-error -DST_BUILD_TESTS=ON '
                     '-DFETCHCONTENT_SOURCE_DIR_GTEST=/usr/src/googletest -DFETCHCONTENT_FULLY_DISCONNECTED=ON >/dev/null 2>&1 && '
                     'cmake --build %s -j8 2>&1 | tail -3 && %s/test/st_gtests 2>&1 | tail -3' % (wt, b, b, b), timeout=1800, cwd=wt)
        m = re.search(r'PASSED\s+\]\s+(\d+) tests', out)
        res['tests_passed'] = int(m.group(1)) if m else 0
        res['tests_all_pass'] = bool(m) and 'FAILED' not in out
        shutil.rmtree(b, ignore_errors=True)
        # the checks
        env = dict(os.environ, VERIF_REPO=wt)
        for c in checks:
            t0 = time.time()
            rc, out = sh([os.path.join(VERIF, 'bin/check'), c], env=env, cwd=VERIF, timeout=3600)
            viol = [l for l in out.splitlines() if l.startswith('VIOLATION')]
            res['checks'][c] = {'exit': rc, 'violation_lines': viol, 'summary': out.strip().splitlines()[-1] if out.strip() else '',
                                'wall_s': round(time.time() - t0, 1)}
            # keep the first replay as an illustration
            if viol:
                m2 = re.search(r'replay=(\S+)', viol[0])
                if m2 and os.path.exists(m2.group(1)):
                    res['checks'][c]['replay_head'] = open(m2.group(1)).read()[:1500]
        res['caught_by'] = [c for c in checks if res['checks'][c]['violation_lines']]
        res['caught_with_concrete_input'] = [c for c in checks if any('no-failing-input-found' not in l for l in res['checks'][c]['violation_lines'])]
    finally:
        if not keep:
            sh(['git', '-C', '/repo', 'worktree', 'remove', '--force', wt])
            shutil.rmtree(wt, ignore_errors=True)
            # scratch cfg dir of this run
            import hashlib
            h10 = hashlib.sha1(wt.encode()).hexdigest()[:10]
            shutil.rmtree(os.path.join(VERIF, '_work', 'cfg_' + h10), ignore_errors=True)
            import glob
            for rd in glob.glob(os.path.join(VERIF, '_work', 'run', '*_' + h10)):
                shutil.rmtree(rd, ignore_errors=True)
    # --key NAME stores the result under another key (robustness passes with another VERIF_SEED keep the main evaluation)
    key = 'evaluation'
    for i, a in enumerate(sys.argv):
        if a == '--key':
            key = sys.argv[i + 1]
    res['seed'] = os.environ.get('VERIF_SEED', '1')
    meta[key] = res
    json.dump(meta, open(os.path.join(d, 'meta.json'), 'w'), indent=1)
    print(name, pid, 'tests_pass=%s demo pristine rc=%s patched rc=%s caught_by=%s' %
          (res.get('tests_all_pass'), res.get('demo_pristine_rc'), res.get('demo_patched_rc'), res.get('caught_by')))
    # after a scratch run the generated Coq files must be regenerated from /repo
    import fcntl
    with open(os.path.join(VERIF, '_work', 'gen.lock'), 'w') as lf:
        fcntl.flock(lf, fcntl.LOCK_EX)
        sh([sys.executable, os.path.join(VERIF, 'tools/gen_from_source.py'), '/repo', VERIF])
        sh([sys.executable, os.path.join(VERIF, 'tools/gen_inventory.py'), '/repo', VERIF])


if __name__ == '__main__':
    main()
