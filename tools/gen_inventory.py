#!/usr/bin/env python3
"""Inventory translator (C20): from a clang JSON AST dump of a translation unit including every public header,
harvest (a) every variable with static storage duration declared in the repository's headers, (b) every
`mutable` field, (c) every non-member function called from the headers' code that is not itself declared in
the headers (the C / C++ library surface the code relies on).  Writes coq/Gen/Statics.v.

usage: gen_inventory.py <repo> <verif>"""
import json
import os
import subprocess
import sys
import hashlib
sys.path.insert(0, os.path.dirname(os.path.abspath(__file__)))

HEADERS = ['string', 'string_stream', 'format', 'codecs', 'iostream', 'stdio', 'char_buffer', 'utf_conversion',
           'formatter', 'format_numeric', 'exceptions', 'assert']


def coq_str(s):
    return '"' + s.replace('"', '""') + '"'


def main():
    repo, verif = sys.argv[1], sys.argv[2]
    inc = os.path.realpath(os.path.join(repo, 'include'))
    work = os.path.join(verif, '_work', 'inv')
    os.makedirs(work, exist_ok=True)
    # cache on the content of the headers
    h = hashlib.sha256()
    for fn in sorted(os.listdir(inc)):
        p = os.path.join(inc, fn)
        if os.path.isfile(p):
            h.update(fn.encode())
            h.update(open(p, 'rb').read())
    stamp = os.path.join(work, 'stamp_' + hashlib.sha1(repo.encode()).hexdigest()[:8])
    out_v = os.path.join(verif, 'coq/Gen/Statics.v')
    leaf_v = os.path.join(verif, 'coq/Gen/Leaf.v')
    cache_v = stamp + '.v'
    cache_leaf = stamp + '.leaf.v'
    # the translator itself is part of the cache key
    import leaf_translate
    h.update(open(leaf_translate.__file__, 'rb').read())
    h.update(open(os.path.abspath(__file__), 'rb').read())
    if os.path.exists(stamp) and open(stamp).read() == h.hexdigest() and os.path.exists(cache_v) and os.path.exists(cache_leaf):
        for src, dst in ((cache_v, out_v), (cache_leaf, leaf_v)):
            content = open(src).read()
            if not os.path.exists(dst) or open(dst).read() != content:
                open(dst, 'w').write(content)
        return
    tu = os.path.join(work, 'tu.cpp')
    with open(tu, 'w') as f:
        for x in HEADERS:
            f.write('#include <string_theory/%s>\n' % x)
    cfg = os.path.join(verif, '_work', 'cfg', 'include')
    if repo != '/repo':
        alt = os.path.join(verif, '_work', 'cfg_' + hashlib.sha1(repo.encode()).hexdigest()[:10], 'include')
        if os.path.exists(alt):
            cfg = alt
    if not os.path.exists(os.path.join(cfg, 'st_config.h')):
        # first run of setup: configure quickly with the repository's own cmake
        subprocess.check_call(['cmake', '-S', repo, '-B', os.path.dirname(cfg), '-DST_BUILD_TESTS=OFF'],
                              stdout=subprocess.DEVNULL, stderr=subprocess.DEVNULL)
    txt = subprocess.run(['clang++', '-std=c++20', '-fsyntax-only', '-Xclang', '-ast-dump=json',
                          '-I' + inc, '-I' + cfg, tu], stdout=subprocess.PIPE, stderr=subprocess.PIPE, check=True).stdout.decode()
    root = json.loads(txt)
    statics, mutables, calls = [], [], {}
    const_members = set()
    conv_functions = set()
    string_static_members = set()
    declared_here = set()
    cur_file = ['']

    def in_repo(f):
        return os.path.realpath(f).startswith(inc) if f else False

    def visit(n, parents):
        if not isinstance(n, dict):
            return
        loc = n.get('loc') or {}
        for l in (loc, loc.get('spellingLoc') or {}, loc.get('expansionLoc') or {}):
            if 'file' in l:
                cur_file[0] = l['file']
        rng = (n.get('range') or {}).get('begin') or {}
        for l in (rng, rng.get('spellingLoc') or {}, rng.get('expansionLoc') or {}):
            if 'file' in l:
                cur_file[0] = l['file']
        kind = n.get('kind')
        here = in_repo(cur_file[0])
        line = loc.get('line') or (loc.get('expansionLoc') or {}).get('line') or (loc.get('spellingLoc') or {}).get('line') or 0
        if kind in ('FunctionDecl', 'CXXMethodDecl', 'FunctionTemplateDecl') and here and n.get('name'):
            declared_here.add(n['name'])
            import re as _re
            if kind != 'CXXMethodDecl' and _re.match(r'^[a-z0-9_]+_to_[a-z0-9_]+$', n['name']):
                conv_functions.add(n['name'])
        if kind == 'VarDecl' and here:
            fn_parent = any(p in ('FunctionDecl', 'CXXMethodDecl', 'CXXConstructorDecl', 'CXXDestructorDecl', 'LambdaExpr')
                            for p in parents)
            sc = n.get('storageClass', '')
            static_duration = (sc == 'static') or (not fn_parent and sc != 'extern' and 'CXXRecordDecl' not in parents[-1:]) \
                or (not fn_parent and sc == 'static')
            if static_duration and not (fn_parent and sc != 'static'):
                qt = (n.get('type') or {}).get('qualType', '')
                is_const = bool(n.get('constexpr')) or qt.startswith('const ') or ' const' in qt
                statics.append((n.get('name', '?'), os.path.basename(cur_file[0]), line, is_const,
                                bool(n.get('constexpr')), fn_parent, qt))
        if kind == 'FieldDecl' and here and n.get('mutable'):
            mutables.append((n.get('name', '?'), os.path.basename(cur_file[0]), line))
        if kind == 'DeclRefExpr' and here:
            rd = n.get('referencedDecl') or {}
            if rd.get('kind') == 'FunctionDecl' and rd.get('name'):
                calls[rd['name']] = calls.get(rd['name'], 0) + 1
        if kind == 'CXXRecordDecl' and n.get('name') == 'string' and here and n.get('completeDefinition'):
            access = 'private'
            for c in n.get('inner', []) or []:
                if c.get('kind') == 'AccessSpecDecl':
                    access = c.get('access', access)
                if c.get('kind') in ('CXXMethodDecl', 'FunctionTemplateDecl') and access == 'public' and not c.get('isImplicit'):
                    m = c
                    if c.get('kind') == 'FunctionTemplateDecl':
                        ms = [x for x in c.get('inner', []) if x.get('kind') == 'CXXMethodDecl']
                        if not ms:
                            continue
                        m = ms[0]
                    qt = (m.get('type') or {}).get('qualType', '')
                    is_const = qt.rstrip().endswith('const') or ' const ' in qt.split(')')[-1] + ' '
                    if is_const and m.get('storageClass') != 'static' and m.get('name') and not m['name'].startswith('operator'):
                        const_members.add(m['name'])
                    if m.get('storageClass') == 'static' and m.get('name'):
                        string_static_members.add(m['name'])
        for c in n.get('inner', []) or []:
            visit(c, parents + [kind])

    sys.setrecursionlimit(100000)
    visit(root, [])
    ext_calls = sorted(k for k in calls if k not in declared_here and not k.startswith('operator'))
    statics = sorted(set(statics))
    mutables = sorted(set(mutables))
    lines = ['(* GENERATED by tools/gen_inventory.py from a clang JSON AST dump of a TU including every public header — do not edit *)',
             'From Coq Require Import String List Bool.', 'Import ListNotations.', 'Local Open Scope string_scope.',
             'Record static_decl := mkstatic { sd_name : string; sd_file : string; sd_line : nat; sd_const : bool;',
             '                                  sd_constexpr : bool; sd_local : bool; sd_type : string }.',
             'Definition statics : list static_decl := [']
    lines.append(';\n'.join('  mkstatic %s %s %d %s %s %s %s' % (coq_str(a), coq_str(b), c, str(d).lower(), str(e).lower(),
                                                               str(f).lower(), coq_str(g)) for a, b, c, d, e, f, g in statics))
    lines.append('].')
    lines.append('Definition mutable_fields : list (string * string * nat) := [')
    lines.append(';\n'.join('  (%s, %s, %d)' % (coq_str(a), coq_str(b), c) for a, b, c in mutables))
    lines.append('].')
    lines.append('(* public const non-static member functions of class ST::string (operators excluded) *)')
    lines.append('Definition string_const_members : list string := [')
    lines.append(';\n'.join('  ' + coq_str(c) for c in sorted(const_members)))
    lines.append('].')
    lines.append('(* free conversion functions X_to_Y declared in the headers *)')
    lines.append('Definition conversion_functions : list string := [')
    lines.append(';\n'.join('  ' + coq_str(c) for c in sorted(conv_functions)))
    lines.append('].')
    lines.append('(* public static member functions of ST::string (from_*, fill, ...) *)')
    lines.append('Definition string_static_members : list string := [')
    lines.append(';\n'.join('  ' + coq_str(c) for c in sorted(string_static_members)))
    lines.append('].')
    lines.append('(* non-member functions called from the headers and not declared in them *)')
    lines.append('Definition extern_calls : list string := [')
    lines.append(';\n'.join('  ' + coq_str(c) for c in ext_calls))
    lines.append('].')
    content = '\n'.join(lines) + '\n'
    open(out_v, 'w').write(content)
    open(cache_v, 'w').write(content)
    # leaf functions: C++ -> Gallina (coq/Gen/Leaf.v); a function that cannot be translated is left out, and the
    # bridge theorem that mentions it then no longer compiles
    leaf_text, leaf_errors = leaf_translate.generate(root, inc, cfg)
    for name, err in leaf_errors:
        sys.stderr.write('leaf_translate: %s: %s\n' % (name, err))
    open(leaf_v, 'w').write(leaf_text)
    open(cache_leaf, 'w').write(leaf_text)
    open(stamp, 'w').write(h.hexdigest())


if __name__ == '__main__':
    main()
