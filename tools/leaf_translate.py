#!/usr/bin/env python3
"""Leaf-function translator: C++ (clang JSON AST) -> Gallina.

For a fixed list of small scalar functions of the library's private headers (no loops, no pointers except read-only
array parameters), the function body found in the CURRENT headers is translated into a Gallina definition over Z
with the C++ integer semantics of this platform written out (LP64, signed 8-bit char, wrap-around of unsigned
arithmetic, usual arithmetic conversions as the implicit casts clang has already inserted).  The result is
coq/Gen/Leaf.v; hand-written bridge theorems (coq/*/LeafBridge.v) state that the hand-written model functions
compute the same values, so an edit to one of these functions in the headers changes Gen/Leaf.v and breaks a
proof obligation, independently of any test generation.

Supported: parameters/locals of integer, character, bool and enum type; `const T *` parameters used only as
`p[i]`; if / else / return; local declarations with initialiser; `x = e`, `x += e`, `x -= e`; the operators
+ - * / % << >> & | ^ ~ ! && || < <= > >= == != ?: ; casts between integer types; calls to other translated
functions; enumerators; namespace-scope constexpr integers (evaluated by the compiler).
Loops: a function whose body contains `while (c) body` (or `for (;;) body`) becomes a definition with a leading
`fuel : nat` parameter and result `option Z` (None = fuel exhausted); each loop becomes a Fixpoint on the fuel whose
arguments are the variables in scope, whose `then` branch is the body followed by the recursive call and whose `else`
branch is the rest of the function.  Pointers: a `const T *` parameter is an array `Z -> Z` plus an index (initially
0); a local pointer initialised from one is an index into the same array; `*p`, `*p++`, `++p`, `p + n`, comparisons
and differences of pointers into the same array are supported; a returned pointer is returned as its index, nullptr
as -1.  `x++` / `x--` inside a larger expression is supported when x occurs nowhere else in that expression (its
update is applied after the expression).
A parameter `T *&p` (a pointer the function advances) is an array plus an index parameter, and the function returns
the pair (result, final index); an `end` pointer into the same array is an index parameter (ALIAS_PARAMS); a call
`f(sp, ep)` to such a function binds the pair and updates sp.  `continue`, `do { } while (false)`, `(void)e;`,
`p += n`, casts between byte-pointer types (a view of the array through wrapu 8 / wraps 8), integer locals declared
without initialiser (reading one before it is assigned is rejected) are supported.
A parameter `T *&dest` with a non-const pointee that is used only in statements `*dest++ = e` is a write-only cursor:
the function returns the pair (result, list of the values stored, in order, each converted to T).  The pair of
statements `std::char_traits<char>::copy(dest, A, n); dest += n;` with A a namespace-scope constant array appends the
first n elements of A (its contents are supplied by the compiler).  A call of _ST_PRIVATE::assert_handler (the expansion
of ST_ASSERT) ends the function with the result ext_abort = -1.  `if (dest) S` with dest the output cursor is S: a function
with an output cursor is translated for a non-null output (the null case of cleanup_utf8 / append_chars only skips the
stores).  char_traits::copy(dest, p, n) with p a pointer into a parameter array appends p[0..n-1].  A function-local
`static const char T[] = "..."` is a constant list indexed with nth; a `const void *` parameter is an array of raw
bytes (seen through the character type it is cast to); static_assert declarations are skipped.
Anything else makes the translation of that function fail (reported; the obligation that mentions it then no longer
compiles)."""
import json
import os
import subprocess
import tempfile

# (name, exact qualType of the function) — overloads are told apart by their type
TARGETS = [
    ('cl_fast_lower', 'char (char)'),
    ('cl_fast_upper', 'char (char)'),
    ('utf8_measure', 'size_t (char32_t)'),
    ('utf16_measure', 'size_t (char32_t)'),
    ('error_char', 'char32_t (_ST_PRIVATE::conversion_error_t)'),
    ('char_error', '_ST_PRIVATE::conversion_error_t (char32_t)'),
    ('b64_encode_size', 'size_t (size_t)'),
    ('b64_decode_size', 'ST_ssize_t (size_t, const char *)'),
    ('pad_size', 'size_t (const ST::format_spec &, size_t, _ST_PRIVATE::numeric_type)'),
    ('compare_ci', 'int (const char *, const char *, size_t) noexcept'),
    ('compare_ci', 'int (const char *, size_t, const char *, size_t) noexcept', 'compare_ci_4'),
    ('compare_ci', 'int (const char *, size_t, const char *, size_t, size_t) noexcept', 'compare_ci_5'),
    ('find_ci', 'const char *(const char *, size_t, char)'),
    ('find_ci', 'const char *(const char *, size_t, const char *, size_t)', 'find_ci_sub'),
    ('utf8_measure_from_utf32', 'size_t (const char32_t *, size_t)'),
    ('utf16_measure_from_utf32', 'size_t (const char32_t *, size_t)'),
    ('utf8_measure_from_latin_1', 'size_t (const char *, size_t)'),
    ('validate_utf8', '_ST_PRIVATE::conversion_error_t (const char *, size_t)'),
    ('extract_utf8', 'char32_t (const unsigned char *&, const unsigned char *)'),
    ('extract_utf16', 'char32_t (const char16_t *&, const char16_t *)'),
    ('utf8_measure_from_utf16', 'size_t (const char16_t *, size_t)'),
    ('utf16_measure_from_utf8', 'size_t (const char *, size_t)'),
    ('utf32_measure_from_utf8', 'size_t (const char *, size_t)'),
    ('utf32_measure_from_utf16', 'size_t (const char16_t *, size_t)'),
    ('write_utf8', '_ST_PRIVATE::conversion_error_t (char *&, char32_t)'),
    ('write_utf16', '_ST_PRIVATE::conversion_error_t (char16_t *&, char32_t)'),
    ('utf8_convert_from_latin_1', 'void (char *, const char *, size_t)'),
    ('utf16_convert_from_utf32', '_ST_PRIVATE::conversion_error_t (char16_t *, const char32_t *, size_t, ST::utf_validation_t)'),
    ('utf8_convert_from_utf32', '_ST_PRIVATE::conversion_error_t (char *, const char32_t *, size_t, ST::utf_validation_t)'),
    ('utf32_convert_from_utf8', '_ST_PRIVATE::conversion_error_t (char32_t *, const char *, size_t, ST::utf_validation_t)'),
    ('utf32_convert_from_utf16', '_ST_PRIVATE::conversion_error_t (char32_t *, const char16_t *, size_t, ST::utf_validation_t)'),
    ('utf16_convert_from_utf8', '_ST_PRIVATE::conversion_error_t (char16_t *, const char *, size_t, ST::utf_validation_t)'),
    ('utf16_convert_from_latin_1', 'void (char16_t *, const char *, size_t)'),
    ('utf32_convert_from_latin_1', 'void (char32_t *, const char *, size_t)'),
    ('latin_1_convert_from_utf8', '_ST_PRIVATE::conversion_error_t (char *, const char *, size_t, ST::utf_validation_t, bool)'),
    ('latin_1_convert_from_utf16', '_ST_PRIVATE::conversion_error_t (char *, const char16_t *, size_t, ST::utf_validation_t, bool)'),
    ('latin_1_convert_from_utf32', '_ST_PRIVATE::conversion_error_t (char *, const char32_t *, size_t, ST::utf_validation_t, bool)'),
    ('utf8_convert_from_utf16', '_ST_PRIVATE::conversion_error_t (char *, const char16_t *, size_t, ST::utf_validation_t)'),
    ('append_chars', 'size_t (char *&, const char *, size_t)'),
    ('cleanup_utf8', 'size_t (char *, const char *, size_t)'),
    ('hex_encode', 'void (char *, const void *, size_t) noexcept'),
    ('b64_encode', 'void (char *, const void *, size_t) noexcept'),
]
# a pointer parameter that points into the array of another parameter (one past its end): it is passed as an index
# functions whose first `T *` parameter with a non-const pointee is a write-only cursor (used only as `*p++ = e`)
PLAIN_CURSOR_FUNCS = ('utf8_convert_from_latin_1', 'utf16_convert_from_utf32', 'utf8_convert_from_utf32', 'utf32_convert_from_utf8',
                      'utf32_convert_from_utf16', 'utf16_convert_from_utf8', 'utf16_convert_from_latin_1', 'utf32_convert_from_latin_1',
                      'latin_1_convert_from_utf8', 'latin_1_convert_from_utf16', 'latin_1_convert_from_utf32', 'utf8_convert_from_utf16', 'cleanup_utf8', 'hex_encode', 'b64_encode')
ALIAS_PARAMS = {('extract_utf8', 'end'): 'utf8', ('extract_utf16', 'end'): 'utf16'}
# a translated function that returns a pointer returns it into the array of this parameter
RET_BASE_PARAM = 0


def coq_name(t):
    return t[2] if len(t) > 2 else t[0]

INT_TYPES = {
    'char': (True, 8), 'signed char': (True, 8), 'unsigned char': (False, 8), 'char8_t': (False, 8),
    'char16_t': (False, 16), 'char32_t': (False, 32), 'wchar_t': (True, 32),
    'short': (True, 16), 'unsigned short': (False, 16), 'int': (True, 32), 'unsigned int': (False, 32),
    'long': (True, 64), 'unsigned long': (False, 64), 'long long': (True, 64), 'unsigned long long': (False, 64),
}


class Unsupported(Exception):
    pass


RECORD_PARAMS = ('ST::format_spec',)


def strip_quals(t):
    t = t.strip()
    for q in ('const ', 'volatile '):
        while t.startswith(q):
            t = t[len(q):]
    if t.endswith(' const'):
        t = t[:-6]
    return t.strip()


class Translator:
    def __init__(self, root):
        self.root = root
        self.enums = {}        # id of EnumConstantDecl -> value
        self.enum_types = {}   # enum type name -> (signed, bits)
        self.funcs = {}        # (name, qualType) -> node
        self.ext_consts = {}   # qualified name -> None (to be evaluated)
        self.ext_arrays = {}   # namespace-scope constant arrays whose contents the compiler supplies
        self.named_consts = {} # name -> value (enumerators, named integral constants of case labels)
        self.fields, self.field_order = {}, []
        self.index(root, [])

    def index(self, n, ns):
        if not isinstance(n, dict):
            return
        k = n.get('kind')
        if k == 'NamespaceDecl':
            for c in n.get('inner', []) or []:
                self.index(c, ns + [n.get('name', '')])
            return
        if k == 'EnumDecl':
            val = -1
            for c in n.get('inner', []) or []:
                if c.get('kind') == 'EnumConstantDecl':
                    v = None
                    for e in c.get('inner', []) or []:
                        if e.get('kind') == 'ConstantExpr' and 'value' in e:
                            v = int(e['value'])
                    val = v if v is not None else val + 1
                    self.enums[c['id']] = val
            if n.get('name'):
                fixed = (n.get('fixedUnderlyingType') or {}).get('qualType', 'int')
                self.enum_types['::'.join(ns + [n['name']])] = INT_TYPES.get(strip_quals(fixed), (True, 32))
                self.enum_types[n['name']] = INT_TYPES.get(strip_quals(fixed), (True, 32))
        if k == 'FunctionDecl' and n.get('name') and any(c.get('kind') == 'CompoundStmt' for c in n.get('inner', []) or []):
            self.funcs[(n['name'], (n.get('type') or {}).get('qualType', ''))] = (n, ns)
        for c in n.get('inner', []) or []:
            self.index(c, ns)

    # ---------------------------------------------------------------- types
    def int_type(self, tnode):
        t = tnode or {}
        for key in ('desugaredQualType', 'qualType'):
            q = strip_quals(t.get(key, ''))
            if q in INT_TYPES:
                return INT_TYPES[q]
            if q == 'bool':
                return 'bool'
            if q in self.enum_types:
                return self.enum_types[q]
            if q.startswith('enum '):
                return self.enum_types.get(q[5:], (True, 32))
        raise Unsupported('type %r' % t.get('qualType'))

    def wrap(self, ty, e):
        if ty == 'bool':
            return '(b2z (z2b %s))' % e
        signed, bits = ty
        return '(%s %d %s)' % ('wraps' if signed else 'wrapu', bits, e)

    # ---------------------------------------------------------------- expressions
    def is_ptr(self, n):
        return strip_quals((n.get('type') or {}).get('qualType', '')).endswith('*')

    def ptr_expr(self, n, env):
        """(array, index) of a pointer-valued expression"""
        k = n.get('kind')
        inner = [c for c in (n.get('inner') or []) if isinstance(c, dict)]
        if k == 'ParenExpr' or (k == 'ImplicitCastExpr' and n.get('castKind') in ('LValueToRValue', 'NoOp')):
            return self.ptr_expr(inner[0], env)
        if k == 'CXXNullPtrLiteralExpr' or (k == 'ImplicitCastExpr' and n.get('castKind') == 'NullToPointer'):
            return (None, '(-1)')
        if k == 'CXXStaticCastExpr' and n.get('castKind') == 'BitCast' and \
                strip_quals(strip_quals((inner[0].get('type') or {}).get('qualType', '')).rstrip('*').strip()) == 'void':
            to = strip_quals(strip_quals((n.get('type') or {}).get('qualType', '')).rstrip('*').strip())
            if to not in INT_TYPES or INT_TYPES[to][1] != 8:
                raise Unsupported('cast of void * to %s *' % to)
            base, idx = self.ptr_expr(inner[0], env)
            return ('(fun i_ => %s (%s i_))' % ('wraps 8' if INT_TYPES[to][0] else 'wrapu 8', base), idx)
        if k in ('CXXReinterpretCastExpr', 'CStyleCastExpr') and n.get('castKind') in ('BitCast', 'NoOp'):
            # a view of a byte array through another character type of the same width
            to = strip_quals(strip_quals((n.get('type') or {}).get('qualType', '')).rstrip('*').strip())
            frm = strip_quals(strip_quals((inner[0].get('type') or {}).get('qualType', '')).rstrip('*').strip())
            if to not in INT_TYPES or frm not in INT_TYPES or INT_TYPES[to][1] != 8 or INT_TYPES[frm][1] != 8:
                raise Unsupported('pointer cast from %s to %s' % (frm, to))
            base, idx = self.ptr_expr(inner[0], env)
            if base is None or INT_TYPES[to] == INT_TYPES[frm]:
                return (base, idx)
            return ('(fun i_ => %s (%s i_))' % ('wraps 8' if INT_TYPES[to][0] else 'wrapu 8', base), idx)
        if k == 'ImplicitCastExpr' and n.get('castKind') == 'ArrayToPointerDecay':
            a = inner[0]
            while a.get('kind') == 'ParenExpr':
                a = a['inner'][0]
            rd = a.get('referencedDecl') or {}
            if a.get('kind') == 'DeclRefExpr' and rd.get('kind') == 'VarDecl' and rd.get('id') not in env:
                self.ext_arrays[rd['name']] = None
                return ('(fun i_ => nth (Z.to_nat i_) ext_arr_%s 0)' % rd['name'], '(0)')
            raise Unsupported('array that is not a namespace-scope constant')
        if k == 'DeclRefExpr':
            vid = (n.get('referencedDecl') or {}).get('id')
            if vid in self.ptr_base and vid in env:
                return (self.ptr_base[vid], env[vid])
            raise Unsupported('pointer %s' % (n.get('referencedDecl') or {}).get('name'))
        if k == 'UnaryOperator' and n.get('opcode') in ('++', '--'):
            lhs = inner[0]
            while lhs.get('kind') == 'ParenExpr':
                lhs = lhs['inner'][0]
            base, old = self.ptr_expr(lhs, env)
            vid = lhs['referencedDecl']['id']
            new = '(%s %s 1)' % (old, '+' if n['opcode'] == '++' else '-')
            if self.pending is None:
                raise Unsupported('increment inside an expression in this position')
            self.pending.append((vid, new))
            return (base, old if n.get('isPostfix') else new)
        if k == 'BinaryOperator' and n.get('opcode') in ('+', '-'):
            if self.is_ptr(inner[0]) and not self.is_ptr(inner[1]):
                base, idx = self.ptr_expr(inner[0], env)
                return (base, '(%s %s %s)' % (idx, n['opcode'], self.expr(inner[1], env)))
            if n['opcode'] == '+' and self.is_ptr(inner[1]) and not self.is_ptr(inner[0]):
                base, idx = self.ptr_expr(inner[1], env)
                return (base, '(%s + %s)' % (idx, self.expr(inner[0], env)))
        if k == 'CallExpr':
            return self.call(n, env)
        raise Unsupported('pointer expression %s' % k)

    def target_of(self, rd):
        if rd.get('kind') != 'FunctionDecl':
            return None
        qt = (rd.get('type') or {}).get('qualType', '')
        for t in TARGETS:
            if t[0] == rd.get('name') and t[1] == qt:
                return t
        return None

    def fuelled(self, t, seen=()):
        """does the translation of target t take fuel: it contains a loop or calls a target that does"""
        key = (t[0], t[1])
        if key in seen or key not in self.funcs:
            return False
        node = self.funcs[key][0]
        if has_loop(node):
            return True

        def calls(n):
            if not isinstance(n, dict):
                return False
            if n.get('kind') == 'DeclRefExpr':
                t2 = self.target_of(n.get('referencedDecl') or {})
                if t2 is not None and self.fuelled(t2, seen + (key,)):
                    return True
            return any(calls(c) for c in (n.get('inner') or []))
        return calls(node)

    def call(self, n, env):
        """a call to a translated function: (array of the result if it is a pointer, value)"""
        inner = [c for c in (n.get('inner') or []) if isinstance(c, dict)]
        callee = inner[0]
        while callee.get('kind') in ('ImplicitCastExpr', 'ParenExpr'):
            callee = callee['inner'][0]
        rd = callee.get('referencedDecl') or {}
        t = self.target_of(rd)
        if t is None:
            raise Unsupported('call to %s' % rd.get('name'))
        args, ptrs = [], []
        cparams = [c for c in (self.funcs[(t[0], t[1])][0].get('inner') or []) if isinstance(c, dict) and c.get('kind') == 'ParmVarDecl']
        refs = []
        outcall = False
        for a, cp in zip(inner[1:], cparams):
            cq = strip_quals((cp.get('type') or {}).get('qualType', ''))
            if cq.replace(' ', '').endswith('*&') and not (cp.get('type') or {}).get('qualType', '').strip().startswith('const '):
                # the callee's write-only cursor: must be this function's cursor; the units it stores are appended
                tgt = a
                while tgt.get('kind') in ('ParenExpr', 'ImplicitCastExpr') and tgt.get('castKind', 'NoOp') == 'NoOp':
                    tgt = tgt['inner'][0]
                if tgt.get('kind') != 'DeclRefExpr' or (tgt.get('referencedDecl') or {}).get('id') != self.out_cursor or self.pending is None:
                    raise Unsupported('argument for an output cursor that is not this function\'s cursor')
                outcall = True
                continue
            if cq.replace(' ', '').endswith('*&'):
                tgt = a
                while tgt.get('kind') in ('ParenExpr', 'ImplicitCastExpr') and tgt.get('castKind', 'NoOp') == 'NoOp':
                    tgt = tgt['inner'][0]
                vid = (tgt.get('referencedDecl') or {}).get('id')
                if tgt.get('kind') != 'DeclRefExpr' or vid not in self.ptr_base or vid not in env or self.pending is None:
                    raise Unsupported('argument for a T*& parameter that is not a local pointer variable')
                args += [self.ptr_base[vid], env[vid]]
                ptrs.append((self.ptr_base[vid], env[vid]))
                refs.append(vid)
                continue
            if (t[0], cp.get('name')) in ALIAS_PARAMS:
                base, idx = self.ptr_expr(a, env)
                if not ptrs or base != ptrs[0][0]:
                    raise Unsupported('end pointer into another array')
                args.append(idx)
                continue
            if self.is_ptr(a):
                base, idx = self.ptr_expr(a, env)
                if base is None:
                    raise Unsupported('nullptr passed to a translated function')
                ptrs.append((base, idx))
                args.append(base if idx == '(0)' else '(fun i_ => %s (%s + i_))' % (base, idx))
            else:
                args.append(self.expr(a, env))
        if outcall:
            if refs or self.fuelled(t) or self.binds is None or self.shortcircuit or self.is_ptr(n):
                raise Unsupported('call to a function with an output cursor in this position')
            r = self.fresh('r_' + coq_name(t))
            ws = self.fresh('w_' + coq_name(t))
            self.binds.append((('pair', r, ws), '(src_%s %s)' % (coq_name(t), ' '.join(args))))
            key = ('out', self.out_cursor)
            self.pending.append((key, '(%s ++ %s)' % (env[key], ws)))
        elif refs:
            if len(refs) != 1 or self.fuelled(t) or self.binds is None or self.shortcircuit or self.is_ptr(n):
                raise Unsupported('call to a function with a T*& parameter in this position')
            r = self.fresh('r_' + coq_name(t))
            ni = self.fresh('i_' + self.var_names.get(refs[0], 'p'))
            self.binds.append((('pair', r, ni), '(src_%s %s)' % (coq_name(t), ' '.join(args))))
            self.pending.append((refs[0], ni))
        elif self.fuelled(t):
            if self.binds is None or self.shortcircuit or not self.opt:
                raise Unsupported('call to a function with a loop in this position')
            r = self.fresh('r_' + coq_name(t))
            self.binds.append((r, '(src_%s %s %s)' % (coq_name(t), self.fuel, ' '.join(args))))
        else:
            r = '(src_%s %s)' % (coq_name(t), ' '.join(args))
        if self.is_ptr(n):
            if len(ptrs) <= RET_BASE_PARAM:
                raise Unsupported('pointer result of a call without pointer argument')
            base, idx = ptrs[RET_BASE_PARAM]
            return (base, r if idx == '(0)' else '(if Z.eqb %s (-1) then (-1) else (%s + %s))' % (r, idx, r))
        return (None, r)

    def contains_outcall(self, n):
        if not isinstance(n, dict):
            return False
        if n.get('kind') == 'DeclRefExpr':
            t = self.target_of(n.get('referencedDecl') or {})
            if t is not None and any('*&' in (c.get('type') or {}).get('qualType', '').replace(' ', '')
                                     and not (c.get('type') or {}).get('qualType', '').strip().startswith('const ')
                                     for c in (self.funcs[(t[0], t[1])][0].get('inner') or []) if isinstance(c, dict) and c.get('kind') == 'ParmVarDecl'):
                return True
        return any(self.contains_outcall(c) for c in (n.get('inner') or []))

    def out_actual(self, env):
        return [env[('out', self.out_cursor)]] if self.out_cursor is not None else []

    def result_type(self):
        if self.ref_ptrs:
            return 'Z * Z'
        if self.out_cursor is not None:
            return 'list Z' if self.void else 'Z * list Z'
        return 'Z'

    def with_binds(self, binds, text):
        for name, c in reversed(binds):
            if isinstance(name, tuple):
                text = "(let '(%s, %s) := %s in %s)" % (name[1], name[2], c, text)
            else:
                text = '(match %s with None => None | Some %s => %s end)' % (c, name, text)
        return text

    def count_refs(self, n, vid):
        if not isinstance(n, dict):
            return 0
        c = 1 if n.get('kind') == 'DeclRefExpr' and (n.get('referencedDecl') or {}).get('id') == vid else 0
        return c + sum(self.count_refs(x, vid) for x in (n.get('inner') or []))

    def full_expr(self, n, env, allow_pending=False, ptr=False):
        """value of a full expression and the variable updates (x++ / x--) to apply after it"""
        self.pending = []
        self.binds = []
        try:
            v = self.ptr_expr(n, env) if ptr else self.expr(n, env)
            pend, binds = self.pending, self.binds or []
        finally:
            self.pending = None
            self.binds = None
        for vid, _ in pend:
            if not isinstance(vid, tuple) and self.count_refs(n, vid) != 1:
                raise Unsupported('a variable incremented inside an expression occurs elsewhere in it')
        if pend and not allow_pending:
            raise Unsupported('increment inside an expression in this position')
        if pend and any(not isinstance(b[0], tuple) for b in binds):
            raise Unsupported('increment and call to a function with a loop in one expression')
        return v, pend, binds

    def apply_pending(self, pend, env):
        env = dict(env)
        lets = []
        for vid, new in pend:
            name = self.fresh('out' if isinstance(vid, tuple) else self.var_names.get(vid, 'x'))
            lets.append('let %s := %s in' % (name, new))
            env[vid] = name
        return ' '.join(lets) + (' ' if lets else ''), env

    def expr(self, n, env):
        k = n.get('kind')
        inner = [c for c in (n.get('inner') or []) if isinstance(c, dict)]
        if self.is_ptr(n) and k not in ('CallExpr',):
            return self.ptr_expr(n, env)[1]
        if k == 'UnaryOperator' and n.get('opcode') == '*':
            base, idx = self.ptr_expr(inner[0], env)
            if base is None:
                raise Unsupported('dereference of nullptr')
            return '(%s %s)' % (base, idx)
        if k == 'UnaryOperator' and n.get('opcode') in ('++', '--'):
            lhs = inner[0]
            while lhs.get('kind') == 'ParenExpr':
                lhs = lhs['inner'][0]
            vid = (lhs.get('referencedDecl') or {}).get('id')
            if lhs.get('kind') != 'DeclRefExpr' or vid not in env or self.pending is None:
                raise Unsupported('increment of something that is not a local variable')
            ty = self.int_type(lhs.get('type'))
            old = env[vid]
            new = self.wrap(ty, '(%s %s 1)' % (old, '+' if n['opcode'] == '++' else '-'))
            self.pending.append((vid, new))
            return old if n.get('isPostfix') else new
        if k == 'ConstantExpr' and 'value' in n:
            # an integral constant expression evaluated by clang; keep the constant's name when it has one
            ref = inner[0] if inner else {}
            while ref.get('kind') in ('ImplicitCastExpr', 'ParenExpr') and ref.get('inner'):
                ref = ref['inner'][0]
            name = (ref.get('referencedDecl') or {}).get('name') if ref.get('kind') == 'DeclRefExpr' else None
            if name:
                self.named_consts[name] = int(n['value'])
                return 'ext_' + name
            return '(%d)' % int(n['value'])
        if k in ('ParenExpr', 'ConstantExpr', 'ExprWithCleanups', 'MaterializeTemporaryExpr'):
            return self.expr(inner[0], env)
        if k == 'MemberExpr':
            base = inner[0]
            while base.get('kind') in ('ImplicitCastExpr', 'ParenExpr'):
                base = base['inner'][0]
            rd = base.get('referencedDecl') or {}
            if base.get('kind') != 'DeclRefExpr' or ('rec', rd.get('id')) not in env:
                raise Unsupported('member access on something that is not a record parameter')
            fname = n.get('name', '').lstrip('.')
            key = (rd['id'], fname)
            if key not in self.fields:
                self.int_type(n.get('type'))
                self.fields[key] = 'f_' + fname
                self.field_order.append('f_' + fname)
            return self.fields[key]
        if k == 'IntegerLiteral':
            return '(%d)' % int(n['value'])
        if k == 'CharacterLiteral':
            return '(%d)' % int(n['value'])
        if k == 'CXXBoolLiteralExpr':
            return '1' if n.get('value') else '0'
        if k == 'DeclRefExpr':
            rd = n.get('referencedDecl') or {}
            if rd.get('kind') == 'EnumConstantDecl':
                if rd['id'] not in self.enums:
                    raise Unsupported('enumerator %s' % rd.get('name'))
                self.named_consts[rd.get('name')] = self.enums[rd['id']]
                return 'ext_' + rd.get('name')
            if rd.get('kind') in ('ParmVarDecl', 'VarDecl'):
                if rd['id'] in env:
                    if env[rd['id']] is None:
                        raise Unsupported('read of the uninitialised local %s' % rd.get('name'))
                    return env[rd['id']]
                # a namespace-scope constant: evaluated by the compiler
                name = rd.get('name')
                self.ext_consts[name] = None
                return 'ext_' + name
            raise Unsupported('reference to %s' % rd.get('kind'))
        if k in ('ImplicitCastExpr', 'CStyleCastExpr', 'CXXStaticCastExpr', 'CXXFunctionalCastExpr'):
            ck = n.get('castKind')
            sub = self.expr(inner[0], env)
            if ck in ('LValueToRValue', 'NoOp'):
                return sub
            if ck == 'IntegralCast':
                return self.wrap(self.int_type(n.get('type')), sub)
            if ck == 'IntegralToBoolean':
                return '(b2z (z2b %s))' % sub
            if ck == 'PointerToBoolean':
                return '(b2z (negb (Z.eqb %s (-1))))' % sub
            raise Unsupported('cast kind %s' % ck)
        if k == 'UnaryOperator':
            op = n.get('opcode')
            sub = self.expr(inner[0], env)
            ty = self.int_type(n.get('type'))
            if op == '!':
                return '(b2z (negb (z2b %s)))' % sub
            if op == '-':
                return self.wrap(ty, '(- %s)' % sub)
            if op == '~':
                return self.wrap(ty, '(- %s - 1)' % sub)
            if op == '+':
                return sub
            raise Unsupported('unary %s' % op)
        if k == 'BinaryOperator':
            op = n.get('opcode')
            if op in ('&&', '||'):
                a = b = None
            else:
                a, b = self.expr(inner[0], env), self.expr(inner[1], env)
            cmpops = {'<': 'Z.ltb', '<=': 'Z.leb', '>': 'Z.gtb', '>=': 'Z.geb', '==': 'Z.eqb'}
            if op in cmpops:
                return '(b2z (%s %s %s))' % (cmpops[op], a, b)
            if op == '!=':
                return '(b2z (negb (Z.eqb %s %s)))' % (a, b)
            if op in ('&&', '||'):
                a = self.expr(inner[0], env)
                self.shortcircuit += 1
                try:
                    b = self.expr(inner[1], env)
                finally:
                    self.shortcircuit -= 1
                return '(b2z (z2b %s %s z2b %s))' % (a, op, b)
            ty = self.int_type(n.get('type'))
            arith = {'+': '(%s + %s)', '-': '(%s - %s)', '*': '(%s * %s)', '/': '(Z.quot %s %s)', '%': '(Z.rem %s %s)',
                     '&': '(Z.land %s %s)', '|': '(Z.lor %s %s)', '^': '(Z.lxor %s %s)',
                     '<<': '(Z.shiftl %s %s)', '>>': '(Z.shiftr %s %s)'}
            if op in arith:
                return self.wrap(ty, arith[op] % (a, b))
            raise Unsupported('binary %s' % op)
        if k == 'ConditionalOperator':
            c = self.expr(inner[0], env)
            self.shortcircuit += 1
            try:
                a, b = self.expr(inner[1], env), self.expr(inner[2], env)
            finally:
                self.shortcircuit -= 1
            return '(if z2b %s then %s else %s)' % (c, a, b)
        if k == 'ArraySubscriptExpr':
            base, idx = inner[0], inner[1]
            while base.get('kind') in ('ImplicitCastExpr', 'ParenExpr'):
                base = base['inner'][0]
            rd = base.get('referencedDecl') or {}
            if base.get('kind') == 'DeclRefExpr' and rd.get('id') in self.local_arrays:
                return '(nth (Z.to_nat %s) %s 0)' % (self.expr(idx, env), self.local_arrays[rd['id']])
            if base.get('kind') != 'DeclRefExpr' or rd.get('id') not in env or rd.get('id') not in self.ptr_base:
                raise Unsupported('subscript of something that is not a pointer into a parameter array')
            off = env[rd['id']]
            if off == '(0)':
                return '(%s %s)' % (self.ptr_base[rd['id']], self.expr(idx, env))
            return '(%s (%s + %s))' % (self.ptr_base[rd['id']], off, self.expr(idx, env))
        if k == 'CallExpr':
            callee = inner[0]
            while callee.get('kind') in ('ImplicitCastExpr', 'ParenExpr'):
                callee = callee['inner'][0]
            rd = callee.get('referencedDecl') or {}
            if rd.get('kind') == 'FunctionDecl' and rd.get('name') in ('min', 'max') and len(inner) == 3 \
                    and (rd.get('type') or {}).get('qualType', '').count('&') == 3 and not self.is_ptr(inner[1]):
                # std::min / std::max of two integers of one type
                return '(Z.%s %s %s)' % (rd['name'], self.expr(inner[1], env), self.expr(inner[2], env))
            if self.is_ptr(n):
                return self.ptr_expr(n, env)[1]
            return self.call(n, env)[1]
        raise Unsupported('expression %s' % k)

    # ---------------------------------------------------------------- statements
    def always_returns(self, s):
        k = s.get('kind')
        inner = [c for c in (s.get('inner') or []) if isinstance(c, dict)]
        if k in ('ReturnStmt', 'ContinueStmt') or is_assert_call(s):
            return True
        if k == 'CompoundStmt':
            return any(self.always_returns(c) for c in inner)
        if k == 'IfStmt':
            return len(inner) >= 3 and self.always_returns(inner[1]) and self.always_returns(inner[2])
        return False

    # ---- statements without `return` that update local variables: if / switch / assignment / ++ / --
    def switch_groups(self, s):
        """[(labels or None for default, [statements])] of a switch whose groups all end in break"""
        inner = [c for c in (s.get('inner') or []) if isinstance(c, dict)]
        body = inner[-1]
        groups, cur = [], None
        for c in [x for x in (body.get('inner') or []) if isinstance(x, dict)]:
            k = c.get('kind')
            if k in ('CaseStmt', 'DefaultStmt'):
                if cur is not None and cur[1]:
                    raise Unsupported('switch group that falls through')
                labels = cur[0] if cur is not None else []
                node = c
                while node.get('kind') in ('CaseStmt', 'DefaultStmt'):
                    sub = [x for x in (node.get('inner') or []) if isinstance(x, dict)]
                    if node['kind'] == 'CaseStmt':
                        labels = labels + [self.expr(sub[0], {})]
                        node = sub[-1]
                    else:
                        labels = labels + [None]
                        node = sub[-1]
                cur = (labels, [] if node.get('kind') == 'BreakStmt' else [node])
                if node.get('kind') == 'BreakStmt':
                    groups.append(cur)
                    cur = None
            elif k == 'BreakStmt':
                if cur is None:
                    raise Unsupported('break outside a switch group')
                groups.append(cur)
                cur = None
            else:
                if cur is None:
                    raise Unsupported('statement before the first case label')
                cur[1].append(c)
        if cur is not None:
            groups.append(cur)
        return inner[0], groups

    def assigned(self, s):
        """ids of the local variables a statement without returns assigns"""
        if s is None:
            return []
        k = s.get('kind')
        inner = [c for c in (s.get('inner') or []) if isinstance(c, dict)]
        if k == 'CompoundStmt':
            out = []
            for c in inner:
                out += self.assigned(c)
            return out
        if (k in ('BinaryOperator', 'CompoundAssignOperator') and n_is_assign(s)) or n_is_incdec(s):
            lhs = inner[0]
            while lhs.get('kind') == 'ParenExpr':
                lhs = lhs['inner'][0]
            if lhs.get('kind') != 'DeclRefExpr':
                raise Unsupported('assignment to something that is not a local variable')
            return [lhs['referencedDecl']['id']]
        if k == 'IfStmt':
            return self.assigned(inner[1]) + (self.assigned(inner[2]) if len(inner) > 2 else [])
        if k == 'SwitchStmt':
            out = []
            for _, stmts in self.switch_groups(s)[1]:
                for c in stmts:
                    out += self.assigned(c)
            return out
        if k == 'NullStmt':
            return []
        raise Unsupported('statement %s inside a conditional update' % k)

    def update_value(self, s, vid, env):
        """value of local vid after the return-free statement s (env maps vid to its current value)"""
        if s is None:
            return env[vid]
        k = s.get('kind')
        inner = [c for c in (s.get('inner') or []) if isinstance(c, dict)]
        if k == 'CompoundStmt':
            env = dict(env)
            for c in inner:
                env[vid] = self.update_value(c, vid, env)
            return env[vid]
        if k == 'NullStmt':
            return env[vid]
        if k == 'IfStmt':
            cond = self.expr(inner[0], env)
            tv = self.update_value(inner[1], vid, env)
            ev = self.update_value(inner[2], vid, env) if len(inner) > 2 else env[vid]
            return '(if z2b %s then %s else %s)' % (cond, tv, ev)
        if k == 'SwitchStmt':
            cond_node, groups = self.switch_groups(s)
            cond = self.expr(cond_node, env)
            default = env[vid]
            arms = []
            for labels, stmts in groups:
                e2 = dict(env)
                for c in stmts:
                    e2[vid] = self.update_value(c, vid, e2)
                if None in labels:
                    default = e2[vid]
                real = [l for l in labels if l is not None]
                if real:
                    arms.append((real, e2[vid]))
            out = default
            for real, val in reversed(arms):
                test = ' || '.join('Z.eqb (%s) %s' % (cond, l) for l in real)
                out = '(if %s then %s else %s)' % (test, val, out)
            return out
        return self.assign_value(s, env)

    def stmts(self, lst, env):
        if not lst:
            if self.void and self.out_cursor is not None:
                v = env[('out', self.out_cursor)]
                return '(Some %s)' % v if self.opt else v
            raise Unsupported('control reaches the end of the function')
        s, rest = lst[0], lst[1:]
        k = s.get('kind')
        inner = [c for c in (s.get('inner') or []) if isinstance(c, dict)]
        if k == 'CompoundStmt':
            return self.stmts(inner + rest, env)
        if k == 'NullStmt':
            return self.stmts(rest, env)
        if is_assert_call(s):
            v = 'ext_abort'
            if self.ref_ptrs:
                raise Unsupported('assertion in a function with a T*& parameter')
            if self.out_cursor is not None and not self.void:
                v = '(%s, %s)' % (v, env[('out', self.out_cursor)])
            elif self.out_cursor is not None:
                # a void function whose only result is what it stored: the abort is marked by a unit no store can produce
                v = '(%s ++ [ext_abort_unit])' % env[('out', self.out_cursor)]
            return '(Some %s)' % v if self.opt else v
        if k == 'ContinueStmt':
            if not self.loop_stack:
                raise Unsupported('continue outside a loop')
            inc, cont = self.loop_stack[-1]
            return self.stmts(([inc] if inc is not None else []) + [cont], env)
        if k == 'DoStmt':
            cond = inner[1]
            while cond.get('kind') in ('ImplicitCastExpr', 'ParenExpr'):
                cond = cond['inner'][0]
            is_false = (cond.get('kind') == 'CXXBoolLiteralExpr' and not cond.get('value')) or \
                       (cond.get('kind') == 'IntegerLiteral' and int(cond.get('value', '1')) == 0)
            if not is_false:
                raise Unsupported('do loop other than do { } while (false)')
            if contains_kind(inner[0], ('ContinueStmt', 'BreakStmt')):
                raise Unsupported('break / continue inside do { } while (false)')
            return self.stmts([inner[0]] + rest, env)
        if k == '__continue__':
            return '(%s %s)' % (s['lname'], ' '.join(["fuel'"] + self.arrays + [env[i] for i in s['ids']] + self.out_actual(env)))
        if k == 'ReturnStmt':
            v, pend, binds = self.full_expr(inner[0], env, allow_pending=bool(self.ref_ptrs))
            lets, env2 = self.apply_pending(pend, env)
            if self.ref_ptrs:
                v = '%s(%s, %s)' % (lets, v, env2[self.ref_ptrs[0]])
            elif self.out_cursor is not None:
                v = '(%s, %s)' % (v, env[('out', self.out_cursor)])
            return self.with_binds(binds, '(Some %s)' % v) if self.opt else self.with_binds(binds, v)
        if k in ('WhileStmt', 'ForStmt'):
            if not self.opt:
                raise Unsupported('loop in a function translated without fuel')
            if k == 'WhileStmt' and len(inner) != 2:
                raise Unsupported('while with a condition variable')
            if k == 'ForStmt' and (len(inner) != 5 or inner[0].get('kind') or inner[1].get('kind')):
                raise Unsupported('for loop with an init statement or a condition variable')
            inc_node = None
            if k == 'WhileStmt':
                cond_node, body = inner[0], inner[1]
            else:
                # for (; cond; inc) body  ==  while (cond) { body; inc; }   (no `continue` is supported anyway)
                cond_node = inner[2] if inner[2].get('kind') else None
                inc_node = inner[3] if inner[3].get('kind') else None
                body = inner[4] if inc_node is None else {'kind': 'CompoundStmt', 'inner': [inner[4], inc_node]}
            self.loop_count += 1
            lname = 'src_%s_loop%d' % (self.cur_name, self.loop_count)
            ids = [i for i in env if not isinstance(i, tuple)]
            formals, env2 = [], {}
            for i in ids:
                f = 'l_' + self.var_names.get(i, 'x%d' % len(formals))
                formals.append(f)
                env2[i] = f
            call = '(%s %s)' % (lname, ' '.join([self.fuel] + self.arrays + [env[i] for i in ids] + self.out_actual(env)))
            if self.out_cursor is not None:
                env2[('out', self.out_cursor)] = 'l_out'
            saved = self.fuel
            self.fuel = "fuel'"
            cont = {'kind': '__continue__', 'lname': lname, 'ids': ids}
            self.loop_stack.append((inc_node, cont))
            if cond_node is not None:
                cond, pend, binds = self.full_expr(cond_node, env2, allow_pending=True)
                lets, env3 = self.apply_pending(pend, env2)
                btext = self.stmts([body, cont], env3)
                top = self.loop_stack.pop()
                rtext = self.stmts(rest, env3)
                self.loop_stack.append(top)
                text = self.with_binds(binds, '(if z2b %s then %s%s else %s%s)' % (cond, lets, btext, lets, rtext))
            else:
                text = self.stmts([body, cont], env2)
            self.loop_stack.pop()
            self.fuel = saved
            self.loop_defs.append(
                "Fixpoint %s (fuel : nat) %s {struct fuel} : option (%s) :=\n  match fuel with\n  | O => None\n  | S fuel' =>\n  %s\n  end."
                % (lname, ' '.join(['(%s : Z -> Z)' % a for a in self.arrays] + ['(%s : Z)' % f for f in formals]
                                   + (['(l_out : list Z)'] if self.out_cursor is not None else [])), self.result_type(), text))
            return call
        if k == 'DeclStmt':
            if not inner:
                return self.stmts(rest, env)
            d = inner[0]
            more = dict(s)
            more['inner'] = inner[1:]
            if d.get('kind') == 'StaticAssertDecl':
                return self.stmts([more] + rest, env)
            if d.get('kind') != 'VarDecl':
                raise Unsupported('declaration %s' % d.get('kind'))
            init = [c for c in (d.get('inner') or []) if isinstance(c, dict)]
            if d.get('storageClass') == 'static' and init and init[0].get('kind') == 'StringLiteral' \
                    and strip_quals((d.get('type') or {}).get('qualType', '')).startswith('char['):
                lit = json.loads(init[0]['value']) if init[0].get('value', '').startswith('"') else None
                if lit is None or any(ord(ch) > 127 for ch in lit):
                    raise Unsupported('string literal of the local array %s' % d.get('name'))
                self.local_arrays[d['id']] = '[%s]' % '; '.join('(%d)' % ord(ch) for ch in lit + '\0')
                return self.stmts([more] + rest, env)
            env = dict(env)
            self.var_names[d['id']] = d['name']
            if not init:
                self.int_type(d.get('type'))
                env[d['id']] = None           # reading it before an assignment is rejected
                return self.stmts([more] + rest, env)
            if strip_quals((d.get('type') or {}).get('qualType', '')).endswith('*'):
                (base, v), pend, binds = self.full_expr(init[0], env, allow_pending=True, ptr=True)
                if base is None:
                    raise Unsupported('local pointer initialised with nullptr')
                self.ptr_base[d['id']] = base
            else:
                v, pend, binds = self.full_expr(init[0], env, allow_pending=True)
            name = self.fresh(d['name'])
            env[d['id']] = name
            lets, env = self.apply_pending(pend, env)
            return self.with_binds(binds, 'let %s := %s in %s\n  %s' % (name, v, lets, self.stmts([more] + rest, env)))
        if k == 'IfStmt' and self.out_cursor is not None and is_ref_to(inner[0], self.out_cursor):
            return self.stmts([inner[1]] + rest, env)
        if k == 'IfStmt':
            then = inner[1]
            els = inner[2] if len(inner) > 2 else None
            if self.always_returns(then) and (els is None or self.always_returns(els)):
                cond, _, binds = self.full_expr(inner[0], env)
                t = self.stmts([then], env)
                e = self.stmts([els] if els is not None else rest, env)
                return self.with_binds(binds, '(if z2b %s then %s else %s)' % (cond, t, e))
        if k == 'IfStmt' and (contains_kind(s, ('ReturnStmt', 'ContinueStmt')) or contains_assert(s) or
                              (self.out_cursor is not None and (contains_store(s, self.out_cursor) or self.contains_outcall(s)))):
            # some path returns, some falls through: the rest of the block is translated in both branches
            cond, _, binds = self.full_expr(inner[0], env)
            t = self.stmts([inner[1]] + rest, env)
            e = self.stmts(([inner[2]] if len(inner) > 2 else []) + rest, env)
            return self.with_binds(binds, '(if z2b %s then %s else %s)' % (cond, t, e))
        if k == 'SwitchStmt' and (contains_kind(s, ('ReturnStmt',)) or contains_assert(s) or
                                  (self.out_cursor is not None and (contains_store(s, self.out_cursor) or self.contains_outcall(s)))):
            # switch whose groups store through the cursor, return or assert (none falls through, each ends in `break`;
            # switch_groups rejects anything else): a chain of tests on the once-evaluated selector, and the rest of the
            # block is translated after every group
            if contains_kind(inner[-1], ('ContinueStmt', 'WhileStmt', 'ForStmt')):
                raise Unsupported('loop or continue inside a switch')
            cond_node, groups = self.switch_groups(s)
            for _, body in groups:
                if any(contains_kind(c, ('BreakStmt',)) for c in body):
                    raise Unsupported('break nested inside a switch group')
            cond, _, binds = self.full_expr(cond_node, env)
            sel = self.fresh('sel')
            out = None
            for labels, body in groups:
                if None in labels:
                    out = self.stmts(body + rest, env)
            if out is None:
                out = self.stmts(rest, env)
            for labels, body in reversed(groups):
                real = [l for l in labels if l is not None]
                if real:
                    test = ' || '.join('Z.eqb %s %s' % (sel, l) for l in real)
                    out = '(if %s then %s else %s)' % (test, self.stmts(body + rest, env), out)
            return self.with_binds(binds, 'let %s := %s in\n  %s' % (sel, cond, out))
        if self.out_cursor is not None and k == 'BinaryOperator' and s.get('opcode') == '=' and is_cursor_store(inner[0], self.out_cursor):
            v, pend, binds = self.full_expr(inner[1], env, allow_pending=True)
            lets, env2 = self.apply_pending(pend, env)
            env2[('out', self.out_cursor)] = '(%s ++ [%s])' % (env[('out', self.out_cursor)], v)
            return self.with_binds(binds, lets + self.stmts(rest, env2))
        if self.out_cursor is not None and k == 'CallExpr' and call_name(s) == 'copy' and len(inner) == 4 \
                and is_ref_to(inner[1], self.out_cursor):
            arr = inner[2]
            while arr.get('kind') in ('ImplicitCastExpr', 'ParenExpr'):
                arr = arr['inner'][0]
            rd = arr.get('referencedDecl') or {}
            nlen, _, _ = self.full_expr(inner[3], env)
            env2 = dict(env)
            key = ('out', self.out_cursor)
            if arr.get('kind') == 'DeclRefExpr' and rd.get('id') in self.ptr_base and rd.get('id') in env:
                base, idx = self.ptr_expr(inner[2], env)
                env2[key] = '(%s ++ map (fun j_ => %s (%s + Z.of_nat j_)) (seq 0 (Z.to_nat %s)))' % (env[key], base, idx, nlen)
            elif arr.get('kind') == 'DeclRefExpr' and rd.get('kind') == 'VarDecl' and rd.get('id') not in env:
                self.ext_arrays[rd['name']] = None
                env2[key] = '(%s ++ firstn (Z.to_nat %s) ext_arr_%s)' % (env[key], nlen, rd['name'])
            else:
                raise Unsupported('copy from something that is neither a namespace-scope array nor a pointer parameter')
            env2[('copylen',)] = nlen
            return self.stmts(rest, env2)
        if self.out_cursor is not None and k == 'CompoundAssignOperator' and s.get('opcode') == '+=' and is_ref_to(inner[0], self.out_cursor):
            e, _, _ = self.full_expr(inner[1], env)
            if env.get(('copylen',)) != e:
                raise Unsupported('advance of the output cursor that does not follow a copy of the same length')
            env2 = dict(env)
            del env2[('copylen',)]
            return self.stmts(rest, env2)
        if k == 'CStyleCastExpr' and n_cast_to_void(s):
            _, pend, binds = self.full_expr(inner[0], env, allow_pending=True)
            lets, env2 = self.apply_pending(pend, env)
            return self.with_binds(binds, '%s%s' % (lets, self.stmts(rest, env2)))
        if s.get('kind') == 'CompoundAssignOperator' and s.get('opcode') in ('+=', '-=') and self.is_ptr(inner[0]):
            lhs = inner[0]
            while lhs.get('kind') == 'ParenExpr':
                lhs = lhs['inner'][0]
            vid = (lhs.get('referencedDecl') or {}).get('id')
            if lhs.get('kind') != 'DeclRefExpr' or vid not in env or vid not in self.ptr_base:
                raise Unsupported('update of a pointer that is not a local variable')
            e, _, binds = self.full_expr(inner[1], env)
            name = self.fresh(self.var_names.get(vid, 'p'))
            env2 = dict(env)
            env2[vid] = name
            return self.with_binds(binds, 'let %s := (%s %s %s) in\n  %s' % (name, env[vid], s['opcode'][0], e, self.stmts(rest, env2)))
        if n_is_assign(s) and s.get('opcode') == '=' and self.is_ptr(inner[0]):
            lhs = inner[0]
            while lhs.get('kind') == 'ParenExpr':
                lhs = lhs['inner'][0]
            vid = (lhs.get('referencedDecl') or {}).get('id')
            if lhs.get('kind') != 'DeclRefExpr' or vid not in env or vid not in self.ptr_base:
                raise Unsupported('assignment to a pointer that is not a local variable')
            (base, v), _, binds = self.full_expr(inner[1], env, ptr=True)
            if base is not None and base != self.ptr_base[vid]:
                raise Unsupported('pointer assigned a pointer into another array')
            env = dict(env)
            name = self.fresh(self.var_names.get(vid, 'p'))
            env[vid] = name
            return self.with_binds(binds, 'let %s := %s in\n  %s' % (name, v, self.stmts(rest, env)))
        if k in ('IfStmt', 'SwitchStmt') or (k in ('BinaryOperator', 'CompoundAssignOperator') and n_is_assign(s)) or n_is_incdec(s):
            vs = set(self.assigned(s))
            if len(vs) != 1:
                raise Unsupported('update of %d variables in one statement' % len(vs))
            vid = vs.pop()
            if vid not in env:
                raise Unsupported('update of a non-local')
            pend, binds = [], []
            if n_is_assign(s):
                # x op= e where e may contain y++ / y-- (y other than x, occurring once) and calls that advance a pointer
                self.pending, self.binds = [], []
                try:
                    val = self.update_value(s, vid, env)
                    pend, binds = self.pending, self.binds
                finally:
                    self.pending, self.binds = None, None
                for pv, _ in pend:
                    if isinstance(pv, tuple):
                        continue
                    if pv == vid or self.count_refs(s, pv) != 1:
                        raise Unsupported('a variable incremented inside an expression occurs elsewhere in it')
            else:
                val = self.update_value(s, vid, env)
            env = dict(env)
            name = self.fresh(self.var_names.get(vid) or env[vid].rstrip("0123456789").rstrip('_'))
            env[vid] = name
            lets, env = self.apply_pending(pend, env)
            return self.with_binds(binds, 'let %s := %s in %s\n  %s' % (name, val, lets, self.stmts(rest, env)))
        raise Unsupported('statement %s' % k)

    def assign_value(self, s, env):
        inner = [c for c in (s.get('inner') or []) if isinstance(c, dict)]
        if n_is_incdec(s):
            if self.is_ptr(inner[0]):
                return '(%s %s 1)' % (self.ptr_expr(inner[0], env)[1], '+' if s.get('opcode') == '++' else '-')
            ty = self.int_type(inner[0].get('type'))
            x = self.expr(inner[0], env)
            return self.wrap(ty, '(%s %s 1)' % (x, '+' if s.get('opcode') == '++' else '-'))
        lhs_ty = self.int_type(inner[0].get('type'))
        rhs = self.expr(inner[1], env)
        op = s.get('opcode')
        if op == '=':
            return rhs
        lhs = self.expr(inner[0], env)
        comp = self.int_type(s.get('computeResultType') or s.get('type'))
        lhs_c = self.wrap(self.int_type(s.get('computeLHSType') or s.get('type')), lhs)
        table = {'+=': '(%s + %s)', '-=': '(%s - %s)', '*=': '(%s * %s)', '&=': '(Z.land %s %s)', '|=': '(Z.lor %s %s)',
                 '^=': '(Z.lxor %s %s)'}
        if op not in table:
            raise Unsupported('assignment operator %s' % op)
        return self.wrap(lhs_ty, self.wrap(comp, table[op] % (lhs_c, rhs)))

    def fresh(self, base):
        if not base.startswith('v_'):
            base = 'v_' + base
        self.counter = getattr(self, 'counter', 0) + 1
        return '%s_%d' % (base, self.counter)

    # ---------------------------------------------------------------- functions
    def function(self, name, qt, cname=None):
        if (name, qt) not in self.funcs:
            cands = [k[1] for k in self.funcs if k[0] == name]
            raise Unsupported('function %s with type %r not found (have: %s)' % (name, qt, cands))
        n, ns = self.funcs[(name, qt)]
        env, params = {}, []
        body = None
        self.fields, self.field_order = {}, []
        self.ptr_base, self.var_names, self.arrays = {}, {}, []
        self.loop_defs, self.loop_count, self.cur_name, self.fuel, self.pending = [], 0, cname or name, 'fuel', None
        self.binds, self.shortcircuit, self.loop_stack, self.ref_ptrs, self.out_cursor = None, 0, [], [], None
        self.local_arrays = {}
        self.opt = self.fuelled((name, qt))
        for c in n.get('inner', []) or []:
            if c.get('kind') == 'ParmVarDecl':
                q = strip_quals((c.get('type') or {}).get('qualType', ''))
                if q.rstrip('& ').strip() in RECORD_PARAMS:
                    # a record passed by reference: each field read becomes a parameter (in order of first use)
                    env[('rec', c['id'])] = True
                    params.append(('rec', c['id']))
                    continue
                self.var_names[c['id']] = c.get('name', 'arg%d' % len(params))
                if q.replace(' ', '').endswith('*&') and not (c.get('type') or {}).get('qualType', '').strip().startswith('const '):
                    # write-only cursor
                    self.out_cursor = c['id']
                    env[('out', c['id'])] = '[]'
                    continue
                if q.endswith('*') and not (c.get('type') or {}).get('qualType', '').strip().startswith('const ') \
                        and self.out_cursor is None and name in PLAIN_CURSOR_FUNCS:
                    self.out_cursor = c['id']
                    env[('out', c['id'])] = '[]'
                    continue
                if q.replace(' ', '').endswith('*&'):
                    pname = 'p_' + c['name']
                    params.append('(%s : Z -> Z)' % pname)
                    params.append('(v_%s : Z)' % c['name'])
                    self.ptr_base[c['id']] = pname
                    self.arrays.append(pname)
                    env[c['id']] = 'v_' + c['name']
                    self.ref_ptrs.append(c['id'])
                    continue
                if (name, c.get('name')) in ALIAS_PARAMS:
                    other = [i for i in self.ptr_base if self.var_names.get(i) == ALIAS_PARAMS[(name, c['name'])]]
                    if not other or not q.endswith('*'):
                        raise Unsupported('alias parameter %s' % c.get('name'))
                    params.append('(v_%s : Z)' % c['name'])
                    self.ptr_base[c['id']] = self.ptr_base[other[0]]
                    env[c['id']] = 'v_' + c['name']
                    continue
                if q.endswith('*'):
                    pname = 'p_' + c.get('name', 'arg%d' % len(params))
                    params.append('(%s : Z -> Z)' % pname)
                    self.ptr_base[c['id']] = pname
                    self.arrays.append(pname)
                    env[c['id']] = '(0)'
                    continue
                self.int_type(c.get('type'))
                pname = 'v_' + c.get('name', 'arg%d' % len(params))
                params.append('(%s : Z)' % pname)
                env[c['id']] = pname
            elif c.get('kind') == 'CompoundStmt':
                body = c
        ret = (n.get('type') or {}).get('qualType', '').split('(')[0].strip()
        self.void = ret == 'void'
        if self.void and self.out_cursor is None:
            raise Unsupported('void function without an output cursor')
        if not ret.endswith('*') and not self.void:
            self.int_type({'qualType': ret, 'desugaredQualType': {'size_t': 'unsigned long', 'ST_ssize_t': 'long'}.get(ret, ret)})
        if self.opt and any(isinstance(pp, tuple) for pp in params):
            raise Unsupported('record parameter in a function with a loop')
        self.counter = 0
        text = self.stmts([body], env)
        plist = []
        for pp in params:
            if isinstance(pp, tuple):
                plist += ['(%s : Z)' % f for f in self.field_order]
            else:
                plist.append(pp)
        if self.opt:
            if self.ref_ptrs:
                raise Unsupported('loop in a function with a T*& parameter')
            return '\n\n'.join(self.loop_defs + ['Definition src_%s (fuel : nat) %s : option (%s) :=\n  %s.' % (cname or name, ' '.join(plist), self.result_type(), text)])
        return 'Definition src_%s %s : %s :=\n  %s.' % (cname or name, ' '.join(plist), self.result_type(), text)


def has_loop(n):
    if not isinstance(n, dict):
        return False
    if n.get('kind') in ('WhileStmt', 'ForStmt', 'DoStmt'):
        return True
    return any(has_loop(c) for c in (n.get('inner') or []))


def contains_kind(n, kinds):
    if not isinstance(n, dict):
        return False
    if n.get('kind') in kinds:
        return True
    return any(contains_kind(c, kinds) for c in (n.get('inner') or []))


def is_cursor_store(lhs, vid):
    """*dest++ with dest the write-only cursor"""
    while lhs.get('kind') == 'ParenExpr':
        lhs = lhs['inner'][0]
    if lhs.get('kind') != 'UnaryOperator' or lhs.get('opcode') != '*':
        return False
    x = lhs['inner'][0]
    while x.get('kind') in ('ParenExpr', 'ImplicitCastExpr'):
        x = x['inner'][0]
    if x.get('kind') != 'UnaryOperator' or x.get('opcode') != '++' or not x.get('isPostfix'):
        return False
    y = x['inner'][0]
    while y.get('kind') == 'ParenExpr':
        y = y['inner'][0]
    return y.get('kind') == 'DeclRefExpr' and (y.get('referencedDecl') or {}).get('id') == vid


def is_assert_call(s):
    return isinstance(s, dict) and s.get('kind') == 'CallExpr' and call_name(s) == 'assert_handler'


def contains_assert(n):
    if not isinstance(n, dict):
        return False
    if is_assert_call(n):
        return True
    return any(contains_assert(c) for c in (n.get('inner') or []))


def call_name(n):
    inner = [c for c in (n.get('inner') or []) if isinstance(c, dict)]
    c = inner[0] if inner else {}
    while c.get('kind') in ('ImplicitCastExpr', 'ParenExpr'):
        c = c['inner'][0]
    return (c.get('referencedDecl') or {}).get('name')


def is_ref_to(n, vid):
    while n.get('kind') in ('ImplicitCastExpr', 'ParenExpr'):
        n = n['inner'][0]
    return n.get('kind') == 'DeclRefExpr' and (n.get('referencedDecl') or {}).get('id') == vid


def contains_store(n, vid):
    if not isinstance(n, dict):
        return False
    if n.get('kind') == 'BinaryOperator' and n.get('opcode') == '=' and n.get('inner') and is_cursor_store(n['inner'][0], vid):
        return True
    return any(contains_store(c, vid) for c in (n.get('inner') or []))


def n_cast_to_void(s):
    return s.get('castKind') == 'ToVoid'


def n_is_assign(s):
    return s.get('kind') == 'CompoundAssignOperator' or (s.get('kind') == 'BinaryOperator' and s.get('opcode') == '=')


def n_is_incdec(s):
    return s.get('kind') == 'UnaryOperator' and s.get('opcode') in ('++', '--')


PRELUDE = '''(* GENERATED by tools/leaf_translate.py from the clang AST of the current headers — do not edit.
   C++ integer semantics written out over Z: wrapu / wraps = conversion to an unsigned / signed type of the given
   width (two's complement, as on this platform); b2z / z2b = bool <-> integer. *)
From Coq Require Import ZArith Bool List.
Import ListNotations.
Local Open Scope Z_scope.
Definition wrapu (bits : Z) (x : Z) : Z := x mod 2 ^ bits.
Definition wraps (bits : Z) (x : Z) : Z := (x + 2 ^ (bits - 1)) mod 2 ^ bits - 2 ^ (bits - 1).
Definition b2z (b : bool) : Z := if b then 1 else 0.
Definition z2b (x : Z) : bool := negb (x =? 0).
Definition ext_abort : Z := (-1).
Definition ext_abort_unit : Z := (-4096).
'''


# constants the bridge theorems refer to by name even when the translated bodies do not mention them
EXTRA_CONSTS = {'digit_default': 'ST::digit_default', 'digit_dec': 'ST::digit_dec', 'digit_hex': 'ST::digit_hex',
                'digit_hex_upper': 'ST::digit_hex_upper', 'digit_oct': 'ST::digit_oct', 'digit_bin': 'ST::digit_bin',
                'digit_char': 'ST::digit_char', 'numeric_positive': '_ST_PRIVATE::numeric_positive',
                'numeric_negative': '_ST_PRIVATE::numeric_negative', 'numeric_zero': '_ST_PRIVATE::numeric_zero',
                'check_validity': 'ST::check_validity', 'substitute_invalid': 'ST::substitute_invalid',
                'assume_valid': 'ST::assume_valid', 'badchar_substitute': '_ST_PRIVATE::badchar_substitute'}


def eval_constants(names, inc, cfg, namespaces=('_ST_PRIVATE', 'ST')):
    """namespace-scope constexpr integers, evaluated by the compiler"""
    out = {}
    if not names:
        return out
    with tempfile.TemporaryDirectory() as d:
        src = os.path.join(d, 'c.cpp')
        with open(src, 'w') as f:
            f.write('#include <string_theory/string>\n#include <string_theory/codecs>\n#include <string_theory/format>\n#include <cstdio>\n')
            f.write('template <class T> static void show(const char *n, T v) { std::printf("%s %lld\\n", n, (long long)v); }\n')
            f.write('int main() {\n')
            for n in sorted(names):
                f.write('  show("%s", %s);\n' % (n, names[n] or ('_ST_PRIVATE::' + n)))
            f.write('}\n')
        exe = os.path.join(d, 'c')
        p = subprocess.run(['g++', '-std=c++20', '-I' + inc, '-I' + cfg, src, '-o', exe], stdout=subprocess.PIPE, stderr=subprocess.STDOUT)
        if p.returncode != 0:
            raise Unsupported('cannot evaluate constants %s: %s' % (sorted(names), p.stdout.decode()[-400:]))
        for line in subprocess.run([exe], stdout=subprocess.PIPE).stdout.decode().splitlines():
            k, v = line.split()
            out[k] = int(v)
    return out


def eval_arrays(names, inc, cfg):
    out = {}
    if not names:
        return out
    with tempfile.TemporaryDirectory() as d:
        src = os.path.join(d, 'a.cpp')
        with open(src, 'w') as f:
            f.write('#include <string_theory/string>\n#include <string_theory/codecs>\n#include <string_theory/format>\n#include <cstdio>\n')
            f.write('int main() {\n')
            for n in sorted(names):
                f.write('  std::printf("%s"); for (size_t i = 0; i < sizeof(_ST_PRIVATE::%s) / sizeof(_ST_PRIVATE::%s[0]); ++i) '
                        'std::printf(" %%lld", (long long)_ST_PRIVATE::%s[i]); std::printf("\\n");\n' % (n, n, n, n))
            f.write('}\n')
        exe = os.path.join(d, 'a')
        p = subprocess.run(['g++', '-std=c++20', '-I' + inc, '-I' + cfg, src, '-o', exe], stdout=subprocess.PIPE, stderr=subprocess.STDOUT)
        if p.returncode != 0:
            raise Unsupported('cannot evaluate arrays %s: %s' % (sorted(names), p.stdout.decode()[-400:]))
        for line in subprocess.run([exe], stdout=subprocess.PIPE).stdout.decode().splitlines():
            t = line.split()
            out[t[0]] = [int(x) for x in t[1:]]
    return out


def generate(root, inc, cfg):
    """returns (coq text, list of (function, error))"""
    tr = Translator(root)
    defs, errors = [], []
    for t in TARGETS:
        name, qt = t[0], t[1]
        try:
            defs.append((coq_name(t), tr.function(name, qt, coq_name(t))))
        except Unsupported as e:
            errors.append((name, str(e)))
        except (KeyError, IndexError, TypeError) as e:
            errors.append((name, 'unexpected AST shape: %r' % (e,)))
    consts = {}
    try:
        want = dict(tr.ext_consts)
        want.update(EXTRA_CONSTS)
        consts = eval_constants(want, inc, cfg)
        # a named constant seen in the AST must have the value the compiler gives it
        for k, v in tr.named_consts.items():
            if k in consts and consts[k] != v:
                errors.append(('<constants>', 'constant %s: AST says %d, compiler says %d' % (k, v, consts[k])))
    except Unsupported as e:
        errors.append(('<constants>', str(e)))
    lines = [PRELUDE]
    try:
        for k, vals in sorted(eval_arrays(tr.ext_arrays, inc, cfg).items()):
            lines.append('Definition ext_arr_%s : list Z := [%s].' % (k, '; '.join('(%d)' % v for v in vals)))
    except Unsupported as e:
        errors.append(('<arrays>', str(e)))
    for k in sorted(consts):
        lines.append('Definition ext_%s : Z := (%d).' % (k, consts[k]))
    for k in sorted(tr.named_consts):
        if k not in consts:
            lines.append('Definition ext_%s : Z := (%d).' % (k, tr.named_consts[k]))
    lines.append('')
    for name, d in defs:
        lines.append(d)
        lines.append('')
    for name, e in errors:
        lines.append('(* NOT TRANSLATED: %s — %s *)' % (name, e.replace('*)', '* )')))
    return '\n'.join(lines) + '\n', errors
