"""vlib — orchestration shared by every check (see DESIGN.md section 2 and 5).

One run of a check:
  1. regenerate coq/Gen/*.v from the repository's headers (translator)
  2. full .vo build of Properties/<id>.vo (+ the group's extraction); the
     Properties file is always recompiled so that Print Assumptions is captured
  3. build the OCaml driver from the extracted model + spec oracle
  4. compile the C++ harness against the repository's CURRENT working tree
  5. generate cases (corpus first, then directed, then seeded random)
  6. run harness (child process, restarted after every abort / sanitizer report /
     hang) and the model driver on the same case file
  7. three-way comparison  impl / Model / Spec ; verdict ; evidence ; exit code
"""
import fcntl
import hashlib
import importlib
import json
import os
import random
import re
import shutil
import subprocess
import sys
import time

VERIF = os.path.dirname(os.path.dirname(os.path.abspath(__file__)))
REPO = os.environ.get('VERIF_REPO', '/repo')
# evidence/ and replays/ describe /repo itself; a run against a scratch copy (VERIF_REPO) writes elsewhere
_SCR = None if os.path.realpath(REPO) == '/repo' else os.path.join(os.path.dirname(os.path.dirname(os.path.abspath(__file__))), '_work', 'scratch_out')
WORK = os.path.join(VERIF, '_work')
REPLAY_DIR = os.path.join(_SCR, 'replays') if _SCR else os.path.join(VERIF, 'replays')
EVID_DIR = os.path.join(_SCR, 'evidence') if _SCR else os.path.join(VERIF, 'evidence')
COQ = os.path.join(VERIF, 'coq')

CXX = ['g++', '-std=c++20', '-O1', '-g', '-fno-omit-frame-pointer', '-Wno-deprecated-declarations']
SAN = ['-fsanitize=address,undefined', '-fno-sanitize-recover=all']

ASSERT_TAGS = [
    ('String data buffer is too large', 'Huge'),
    ('buffer cannot be constructed with non-zero size and NULL data', 'NullData'),
    ('Input character out of range', 'ConvRange'),
    ('Char formatting does not currently support padding', 'CharPad'),
    ('Format buffer too small', 'FloatBuf'),
    ('Not enough space for format string', 'FloatFmt'),
    ('Split character should be in range', 'SplitChar'),
    ('split called with null splitter', 'SplitNull'),
    ('strlen passed null buffer', 'StrlenNull'),
    ("Conversion didn't match expected length", 'CodecLen'),
    ('Unexpected bytes left after encoding loop', 'B64Tail'),
    ('parse_format() called with no format', 'ParseNoFmt'),
    ('Invalid digit class', 'DigitClass'),
]


def log(*a):
    print(*a, file=sys.stderr, flush=True)


class Lock:
    def __init__(self, name):
        os.makedirs(WORK, exist_ok=True)
        self.path = os.path.join(WORK, name + '.lock')

    def __enter__(self):
        self.f = open(self.path, 'w')
        fcntl.flock(self.f, fcntl.LOCK_EX)
        return self

    def __exit__(self, *a):
        fcntl.flock(self.f, fcntl.LOCK_UN)
        self.f.close()


def sh(cmd, timeout=None, cwd=None, env=None):
    p = subprocess.run(cmd, cwd=cwd, env=env, stdout=subprocess.PIPE, stderr=subprocess.STDOUT,
                       timeout=timeout, text=True, errors='replace')
    return p.returncode, p.stdout


def file_hash(paths):
    h = hashlib.sha256()
    for p in paths:
        try:
            with open(p, 'rb') as f:
                h.update(f.read())
        except FileNotFoundError:
            h.update(b'<missing>')
    return h.hexdigest()


# ---------------------------------------------------------------- preparation
def cfg_dir():
    """cmake-configured st_config.h lives in a directory keyed by the repository path, so runs against
    scratch copies (VERIF_REPO) do not disturb each other"""
    if REPO == '/repo':
        return os.path.join(WORK, 'cfg')
    return os.path.join(WORK, 'cfg_' + hashlib.sha1(REPO.encode()).hexdigest()[:10])


def prepare_repo():
    """translator + st_config.h from the repository's own cmake feature detection"""
    with Lock('prepare' + ('' if REPO == '/repo' else hashlib.sha1(REPO.encode()).hexdigest()[:10])):
        rc, out = sh([sys.executable, os.path.join(VERIF, 'tools/gen_from_source.py'), REPO, VERIF], timeout=300)
        tmsg = ''
        if rc != 0:
            # the tie "regenerated from source" is broken; the harness is still configured and built so that the
            # violation search can run the implementation against the Spec oracle (with the last good generated files)
            tmsg = 'translator failed:\n' + out
        cfg = cfg_dir()
        stamp = os.path.join(cfg, 'stamp')
        want = file_hash([os.path.join(REPO, 'CMakeLists.txt'), os.path.join(REPO, 'include/st_config.h.in')]) + REPO
        have = open(stamp).read() if os.path.exists(stamp) else ''
        if have != want or not os.path.exists(os.path.join(cfg, 'include/st_config.h')):
            shutil.rmtree(cfg, ignore_errors=True)
            os.makedirs(cfg)
            rc, out = sh(['cmake', '-S', REPO, '-B', cfg, '-DST_BUILD_TESTS=OFF'], timeout=300)
            if rc != 0 or not os.path.exists(os.path.join(cfg, 'include/st_config.h')):
                return False, 'cmake configure failed:\n' + out
            open(stamp, 'w').write(want)
    if tmsg:
        return False, tmsg
    return True, ''


def forbidden_scan():
    """no Axiom/Parameter/Admitted/... anywhere in the development"""
    pat = re.compile(r'^\s*(Axiom|Axioms|Parameter|Parameters|Conjecture|Admitted|Admit Obligations|Hypothesis|Hypotheses)\b'
                     r'|\badmit\b|Unset Guard Checking|Unset Positivity|Unset Universe Checking|bypass_check|type-in-type'
                     r'|impredicative-set')
    hits = []
    for root, _, files in os.walk(COQ):
        for fn in files:
            if not fn.endswith('.v'):
                continue
            p = os.path.join(root, fn)
            depth = 0   # Hypothesis/Variable inside a Section are fine
            for i, line in enumerate(open(p, errors='replace'), 1):
                s = re.sub(r'\(\*.*?\*\)', '', line)
                if re.match(r'^\s*Section\b', s):
                    depth += 1
                if re.match(r'^\s*End\b', s) and depth > 0:
                    depth -= 1
                m = pat.search(s)
                if m:
                    if m.group(1) in ('Hypothesis', 'Hypotheses') and depth > 0:
                        continue
                    hits.append('%s:%d: %s' % (os.path.relpath(p, VERIF), i, line.strip()))
                if re.match(r'^\s*(Variable|Variables)\b', s) and depth == 0:
                    hits.append('%s:%d: %s' % (os.path.relpath(p, VERIF), i, line.strip()))
    return hits


def coq_build(targets, force=()):
    """full .vo build (never -vos).  `force` = .vo files removed first so that coqc
    re-runs and prints their Print Assumptions output."""
    with Lock('coq'):
        for f in force:
            for ext in ('.vo', '.vok', '.vos', '.glob'):
                try:
                    os.remove(os.path.join(COQ, f[:-3] + ext))
                except FileNotFoundError:
                    pass
        cmd = [os.path.join(VERIF, 'bin/coqmake'), 'main', '-k', '-j16'] + list(targets)
        t0 = time.time()
        rc, out = sh(['timeout', '3000'] + cmd, timeout=3100)
        return rc == 0, out, ' '.join(['bin/coqmake', 'main', '-k', '-j16'] + list(targets)), time.time() - t0


def parse_assumptions(out, vfile):
    """returns (n_theorems, {theorem: assumptions text}) for a Properties file"""
    src = open(os.path.join(COQ, vfile)).read()
    src_nc = re.sub(r'\(\*.*?\*\)', '', src, flags=re.S)
    theorems = re.findall(r'^\s*Theorem\s+([A-Za-z0-9_\']+)', src_nc, flags=re.M)
    printed = re.findall(r'^\s*Print Assumptions\s+([A-Za-z0-9_\'.]+)\s*\.', src_nc, flags=re.M)
    # coqc prints one block per Print Assumptions, in order
    blocks, cur = [], None
    for line in out.splitlines():
        if line.strip() == 'Closed under the global context' or line.strip() == 'Axioms:':
            if cur is not None:
                blocks.append(cur)
            cur = [line.strip()]
        elif re.match(r'^(COQC|COQDEP|make|File |Error|Warning)', line):
            if cur is not None:
                blocks.append(cur)
            cur = None
        elif cur is not None:
            cur.append(line.rstrip())
    if cur is not None:
        blocks.append(cur)
    res = {}
    for name, blk in zip(printed, blocks):
        res[name] = '\n'.join(blk).strip()
    return theorems, res


def build_driver(group):
    """extracted model + spec oracle + hand-written driver -> _work/bin/drv_<group>"""
    with Lock('drv_' + group):
        ocd = os.path.join(WORK, 'ocaml')
        os.makedirs(ocd, exist_ok=True)
        os.makedirs(os.path.join(WORK, 'bin'), exist_ok=True)
        exv = 'Extract/Ex%s.vo' % group.capitalize()
        ml = os.path.join(ocd, 'ex_%s.ml' % group)
        force = [] if os.path.exists(ml) else [exv]
        ok, out, _, _ = coq_build([exv], force=force)
        if not ok or not os.path.exists(ml):
            return None, 'extraction failed:\n' + out[-4000:]
        srcs = [ml, os.path.join(VERIF, 'ocaml/common.ml'), os.path.join(VERIF, 'ocaml/drv_%s.ml' % group)]
        exe = os.path.join(WORK, 'bin', 'drv_' + group)
        stamp = exe + '.stamp'
        want = file_hash(srcs)
        if os.path.exists(exe) and os.path.exists(stamp) and open(stamp).read() == want:
            return exe, ''
        full = os.path.join(ocd, 'drv_%s_full.ml' % group)
        with open(full, 'w') as f:
            f.write('module BZ = Z\nopen Ex_%s\n' % group)
            f.write(open(srcs[1]).read())
            f.write(open(srcs[2]).read())
        rc, out = sh(['ocamlfind', 'ocamlopt', '-package', 'zarith', '-linkpkg', '-w', '-a', '-O3']
                     + ['ex_%s.mli' % group, 'ex_%s.ml' % group, 'drv_%s_full.ml' % group, '-o', exe],
                     cwd=ocd, timeout=600)
        if rc != 0:
            return None, 'ocaml build failed:\n' + out[-4000:]
        open(stamp, 'w').write(want)
        return exe, ''


def build_harness(group, outdir, tag='', flags=(), san=None):
    """always recompiled: the library is header-only, the harness IS the build of /repo"""
    os.makedirs(outdir, exist_ok=True)
    exe = os.path.join(outdir, 'h_%s%s' % (group, ('_' + tag) if tag else ''))
    cmd = CXX + (list(san) if san is not None else SAN) + list(flags) + [
        '-I' + os.path.join(REPO, 'include'), '-I' + os.path.join(cfg_dir(), 'include'),
        '-I' + os.path.join(WORK, 'gen'), '-I' + os.path.join(VERIF, 'harness'),
        os.path.join(VERIF, 'harness/h_%s.cpp' % group), '-o', exe, '-lpthread']
    rc, out = sh(cmd, timeout=900)
    if rc != 0:
        return None, out[-6000:]
    return exe, ''


# ---------------------------------------------------------------- running
def classify_crash(stderr_tail, rc):
    t = stderr_tail
    m = re.search(r'^\S+:\d+: (.+)$', t, flags=re.M)
    if 'AddressSanitizer' in t or 'LeakSanitizer' in t:
        if 'attempting double-free' in t:
            return 'FAULT DoubleFree'
        if 'attempting free on address which was not malloc' in t or 'bad-free' in t:
            return 'FAULT FreeNonHeap'
        if 'heap-use-after-free' in t:
            return 'FAULT UseAfterFree'
        if 'exceeds maximum supported size' in t or 'allocation-size-too-big' in t or 'out of memory' in t:
            return 'FAULT AllocTooBig'
        if 'buffer-overflow' in t or 'stack-buffer-underflow' in t or 'container-overflow' in t \
           or 'use-after-poison' in t or 'stack-use-after' in t:
            if re.search(r'^WRITE of size', t, flags=re.M):
                return 'FAULT OOBWrite'
            return 'FAULT OOBRead'
        if 'new-delete-type-mismatch' in t or 'alloc-dealloc-mismatch' in t:
            return 'FAULT FreeNonHeap'
        if 'LeakSanitizer' in t or 'detected memory leaks' in t:
            return 'FAULT Leak'
        if 'SEGV' in t:
            return 'FAULT NullDeref'
        return 'FAULT Asan'
    if 'ThreadSanitizer' in t:
        return 'FAULT DataRace'
    if 'runtime error:' in t:
        if 'negation of' in t:
            return 'FAULT UBSignedNeg'
        return 'FAULT UBOther'
    if m:
        for text, tag in ASSERT_TAGS:
            if text in m.group(1):
                return 'ABORT ' + tag
        return 'ABORT Other'
    if 'terminate called' in t:
        return 'FAULT Terminate'
    if rc in (-11, 139):
        return 'FAULT NullDeref'
    return 'FAULT Crash(rc=%s)' % rc


def run_harness(exe, casefile, ids, per_case_timeout=5, env_extra=None, total_timeout=3000, max_crashes=400):
    """run the harness over the whole file in a child; on death, classify, record, restart
    after the failing case.  ids = list of case ids in file order (one per line)."""
    env = dict(os.environ)
    env['ASAN_OPTIONS'] = 'detect_leaks=1:exitcode=23:allocator_may_return_null=0:max_allocation_size_mb=8192:' \
                          'detect_stack_use_after_return=0:print_summary=0'
    env['UBSAN_OPTIONS'] = 'print_stacktrace=0:halt_on_error=1'
    env['LSAN_OPTIONS'] = 'exitcode=23'
    env['TSAN_OPTIONS'] = 'halt_on_error=1:exitcode=66:second_deadlock_stack=1'
    if env_extra:
        env.update(env_extra)
    results = {}
    crashes = 0
    start = 0
    t_end = time.time() + total_timeout
    errpath = casefile + '.stderr'
    while start < len(ids):
        with open(errpath, 'w') as ef:
            try:
                p = subprocess.run([exe, casefile, str(start), str(per_case_timeout)], stdout=subprocess.PIPE, stderr=ef,
                                   env=env, text=True, errors='replace',
                                   timeout=max(30, min(t_end - time.time(), 3000)))
                rc, out = p.returncode, p.stdout
            except subprocess.TimeoutExpired as e:
                rc, out = -999, (e.stdout or b'').decode(errors='replace') if isinstance(e.stdout, bytes) else (e.stdout or '')
        done = 0
        for line in out.splitlines():
            sp = line.split(' ', 1)
            if len(sp) == 2 and sp[0] in IDSET(ids):
                results[sp[0]] = sp[1].strip()
        # how far did we get?
        nxt = start
        while nxt < len(ids) and ids[nxt] in results:
            nxt += 1
        if nxt >= len(ids):
            if rc != 0:
                # died after the last case (e.g. leak report at exit): attribute to the run as a whole
                err = open(errpath, errors='replace').read()
                results['@exit'] = classify_crash(err[-8000:], rc)
            break
        if rc == 3 and nxt > start and results.get(ids[nxt - 1]) == 'FAULT Hang':
            # the harness reported a per-case timeout itself and exited: continue after it
            crashes += 1
            start = nxt
            if crashes >= max_crashes:
                for j in range(start, len(ids)):
                    results.setdefault(ids[j], 'NOTRUN')
                break
            continue
        # case ids[nxt] did not produce a result: it crashed
        err = open(errpath, errors='replace').read()
        k = err.rfind('@@CASE ')
        tail = err[k:] if k >= 0 else err
        if rc == -999:
            results[ids[nxt]] = 'FAULT Hang'
        else:
            results[ids[nxt]] = classify_crash(tail[:20000], rc)
        crashes += 1
        start = nxt + 1
        if time.time() > t_end or crashes >= max_crashes:
            # enough evidence: the remaining cases are not run (a mutation that breaks everything would
            # otherwise cost one process restart per case)
            for j in range(start, len(ids)):
                results.setdefault(ids[j], 'NOTRUN')
            break
    return results, crashes


_idset_cache = {}


def IDSET(ids):
    k = id(ids)
    if k not in _idset_cache:
        _idset_cache.clear()
        _idset_cache[k] = set(ids)
    return _idset_cache[k]


def run_model(drv, casefile, timeout=3000):
    p = subprocess.run([drv, casefile], stdout=subprocess.PIPE, stderr=subprocess.PIPE, text=True, errors='replace',
                       timeout=timeout, env=dict(os.environ, OCAMLRUNPARAM='l=8G'))
    m, s = {}, {}
    for line in p.stdout.splitlines():
        sp = line.split(' ', 2)
        if len(sp) < 3:
            continue
        (m if sp[1] == 'M' else s)[sp[0]] = sp[2].strip()
    return m, s, (p.returncode, p.stderr[-2000:])


# ---------------------------------------------------------------- the check
class Check:
    pid = None            # 'C14'
    group = None          # harness/h_<group>.cpp, ocaml/drv_<group>.ml, coq/Extract/Ex<Group>.v
    properties_file = None  # default Properties/<pid>.v
    extra_coq_targets = ()
    per_case_timeout = 5
    level = 'proof'
    quick_budget_s = 60
    partial = None        # text: what the theorems do not cover
    modelled_not_verified = ()

    # --- to override
    def gen(self, rng, tier):
        """yield case strings 'op arg...' (ids are added by the driver)"""
        raise NotImplementedError

    def variants(self):
        """harness builds: tag -> extra compiler flags; cases prefixed '@tag ' go to that build"""
        return {'': []}

    def sanitizers(self, tag):
        return None       # default ASan+UBSan

    def same(self, case, impl, model):
        """correspondence: does the implementation behave as the Model predicts?"""
        return impl == model

    def allowed(self, case, impl, spec):
        """property: is the observed behaviour allowed by the Spec on this input?
        default: equal, with '*' in the spec line matching any single token"""
        if impl == spec:
            return True
        a, b = impl.split(), spec.split()
        if len(a) != len(b):
            return False
        return all(y == '*' or x == y for x, y in zip(a, b))

    def nontrivial(self, case, impl):
        return True

    def known(self, case, impl, spec):
        """return the id of the listed known finding this violation belongs to, or None"""
        return None

    def shrink_candidates(self, case):
        """smaller variants of a failing case (for ddmin-style shrinking); default none"""
        return []

    def summarize(self, cases, impl):
        """distribution counters for the evidence"""
        d = {}
        for c in cases:
            op = c.split()[0]
            d[op] = d.get(op, 0) + 1
        return {'ops': d}


def load_known():
    p = os.path.join(VERIF, 'known_findings.json')
    if not os.path.exists(p):
        return {'known': [], 'fixed': []}
    return json.load(open(p))


def corpus_cases(pid):
    d = os.path.join(VERIF, 'corpus', pid)
    out = []
    if os.path.isdir(d):
        for fn in sorted(os.listdir(d)):
            if fn.endswith('.case'):
                for line in open(os.path.join(d, fn)):
                    line = line.strip()
                    if line and not line.startswith('#'):
                        out.append(line)
    return out


def write_cases(path, cases, prefix='c'):
    ids = []
    with open(path, 'w') as f:
        for i, c in enumerate(cases):
            cid = '%s%d' % (prefix, i)
            ids.append(cid)
            f.write('%s %s\n' % (cid, c))
    return ids


def execute(chk, cases, rundir, exes, drv):
    """run implementation + model on `cases`; returns per-case triples"""
    by_variant = {}
    for i, c in enumerate(cases):
        tag = ''
        body = c
        if c.startswith('@'):
            tag, body = c[1:].split(' ', 1)
        by_variant.setdefault(tag, []).append((i, body))
    impl = {}
    crashes = 0
    exit_notes = []
    for tag, lst in by_variant.items():
        cf = os.path.join(rundir, 'cases_%s.txt' % (tag or 'main'))
        ids = write_cases(cf, [b for _, b in lst])
        res, cr = run_harness(exes[tag], cf, ids, per_case_timeout=chk.per_case_timeout)
        crashes += cr
        if '@exit' in res:
            exit_notes.append((tag, res['@exit']))
        for (i, _), cid in zip(lst, ids):
            impl[i] = res.get(cid, 'FAULT NoResult')
    cf = os.path.join(rundir, 'cases_model.txt')
    bodies = [c.split(' ', 1)[1] if c.startswith('@') else c for c in cases]
    ids = write_cases(cf, bodies)
    m, s, (rc, err) = run_model(drv, cf)
    model = {i: m.get(cid, 'FAULT ModelNoResult') for i, cid in enumerate(ids)}
    spec = {i: s.get(cid, 'FAULT SpecNoResult') for i, cid in enumerate(ids)}
    if rc != 0:
        log('model driver exit %s: %s' % (rc, err))
    return impl, model, spec, crashes, exit_notes


def run_check(chk, tier, seed, replay=None):
    t0 = time.time()
    pid = chk.pid
    # one run directory per (repository, property): concurrent runs of the same check against different scratch
    # copies do not share files; two runs of the same check against the same tree are serialised
    rundir = os.path.join(WORK, 'run', pid if _SCR is None else pid + '_' + hashlib.sha1(REPO.encode()).hexdigest()[:10])
    run_lock = Lock('run_' + os.path.basename(rundir))
    run_lock.__enter__()
    shutil.rmtree(rundir, ignore_errors=True)
    os.makedirs(rundir)
    os.makedirs(REPLAY_DIR, exist_ok=True)
    os.makedirs(EVID_DIR, exist_ok=True)
    problems = []          # things that make the run a VIOLATION without a concrete input
    trusted = []

    # translator + proofs + extraction under one lock: a run against a scratch copy (VERIF_REPO) regenerates
    # coq/Gen/*.v and must not interleave with another run's build
    gen_lock = Lock('gen')
    gen_lock.__enter__()
    try:
        ok, msg = prepare_repo()
        if not ok:
            problems.append(('setup', msg))

        hits = forbidden_scan()
        if hits:
            problems.append(('forbidden', 'forbidden declarations in the development:\n' + '\n'.join(hits)))

        # --- proofs
        pfile = chk.properties_file or ('Properties/%s.v' % pid)
        pvo = pfile[:-2] + '.vo'
        ok, out, checker_cmd, coq_s = coq_build([pvo] + list(chk.extra_coq_targets), force=[pvo])
        open(os.path.join(rundir, 'coq.log'), 'w').write(out)
        theorems, assumptions = parse_assumptions(out, pfile)
        obligations = len(theorems)
        discharged = len([t for t in theorems if t in assumptions]) if ok else 0
        broken = []
        if not ok:
            for m in re.finditer(r'File "\./([^"]+)", line (\d+).*?\n(Error.*?)(?=\nmake|\nFile|\Z)', out, flags=re.S):
                broken.append('%s:%s %s' % (m.group(1), m.group(2), ' '.join(m.group(3).split())[:300]))
            problems.append(('proof', 'proof obligations no longer check: ' + ('; '.join(broken) or out[-1500:])))
        axioms = sorted(set(a for v in assumptions.values() if v.startswith('Axioms') for a in re.findall(r'^\s*([A-Za-z0-9_.\']+)\s*:', v, flags=re.M)))

        # --- executables
        drv, msg = build_driver(chk.group)
        if drv is None:
            problems.append(('driver', msg))
    finally:
        gen_lock.__exit__(None, None, None)
    exes = {}
    for tag, flags in chk.variants().items():
        exe, msg = build_harness(chk.group, rundir, tag, flags, san=chk.sanitizers(tag))
        if exe is None:
            problems.append(('harness', 'harness does not compile against the repository (%s):\n%s' % (tag, msg)))
        exes[tag] = exe

    cases, impl, model, spec = [], {}, {}, {}
    crashes = 0
    exit_notes = []
    rng = random.Random(seed)
    if drv and all(exes.values()):
        if replay:
            cases = [l.split(' ', 1)[1].strip() for l in open(replay) if l.startswith('CASE ')]
        else:
            seen = set()
            budget_cases = []
            for c in corpus_cases(pid) + list(chk.gen(rng, tier)):
                if c not in seen:
                    seen.add(c)
                    budget_cases.append(c)
            cases = budget_cases
        impl, model, spec, crashes, exit_notes = execute(chk, cases, rundir, exes, drv)

    # --- verdict
    known_list = [k for k in load_known().get('known', []) if k.get('property') == pid]
    known_ids = {k['id'] for k in known_list}
    viol, corr, known_hits = [], [], {}
    notrun = 0
    for i, c in enumerate(cases):
        if impl[i] == 'NOTRUN':
            notrun += 1
            continue
        a_ok = chk.allowed(c, impl[i], spec[i])
        s_ok = chk.same(c, impl[i], model[i])
        if not a_ok:
            kid = chk.known(c, impl[i], spec[i])
            if kid is not None and kid in known_ids:
                known_hits.setdefault(kid, []).append(i)
            else:
                viol.append(i)
        elif not s_ok:
            corr.append(i)
    for tag, note in exit_notes:
        problems.append(('exit', 'harness build "%s" died after the last case: %s' % (tag or 'main', note)))

    lines = []
    exit_code = 0
    for kid, idxs in sorted(known_hits.items()):
        what = [k for k in known_list if k['id'] == kid][0].get('what', kid)
        lines.append('KNOWN-FINDING: property=%s %s (%d cases this run, e.g. %s -> %s)' %
                     (pid, what, len(idxs), cases[idxs[0]], impl[idxs[0]]))

    def write_replay(name, body_cases, header):
        path = os.path.join(REPLAY_DIR, '%s-%s.case' % (pid, name))
        with open(path, 'w') as f:
            f.write('# %s\n' % header)
            for i in body_cases:
                f.write('CASE %s\n# observed: %s\n# spec:     %s\n# model:    %s\n' % (cases[i], impl[i], spec[i], model[i]))
        return path

    if viol:
        # shrink the first failing case
        first = viol[0]
        shrunk = shrink(chk, cases[first], rundir, exes, drv)
        h = hashlib.sha1(cases[first].encode()).hexdigest()[:10]
        path = write_replay(h, viol[:20], 'property %s violated: observed behaviour differs from the Spec (seed %d, tier %s)'
                            % (pid, seed, tier))
        if shrunk and shrunk != cases[first]:
            with open(path, 'a') as f:
                f.write('# shrunk form of the first case:\nCASE %s\n' % shrunk)
        lines.append('VIOLATION property=%s replay=%s' % (pid, path))
        exit_code = 1
    elif corr or problems:
        # correspondence or proof broken, no failing input among this run's cases: search harder
        found = None
        if drv and all(exes.values()) and not replay:
            found = search_violation(chk, rundir, exes, drv, seed, known_ids)
        if found:
            c, a, s, m = found
            h = hashlib.sha1(c.encode()).hexdigest()[:10]
            path = os.path.join(REPLAY_DIR, '%s-%s.case' % (pid, h))
            with open(path, 'w') as f:
                f.write('# property %s violated (found by the violation search after a broken %s)\n' %
                        (pid, 'correspondence' if corr else 'obligation'))
                f.write('CASE %s\n# observed: %s\n# spec:     %s\n# model:    %s\n' % (c, a, s, m))
            lines.append('VIOLATION property=%s replay=%s' % (pid, path))
        else:
            path = os.path.join(REPLAY_DIR, '%s-unproved.case' % pid)
            with open(path, 'w') as f:
                f.write('# property %s is no longer shown to hold; no failing input found\n' % pid)
                for kind, msg in problems:
                    f.write('# BROKEN %s: %s\n' % (kind, msg.replace('\n', '\n#   ')))
                for i in corr[:20]:
                    f.write('# BROKEN correspondence (Model/%s):\nCASE %s\n# observed: %s\n# model:    %s\n# spec:     %s\n' %
                            (chk.group, cases[i], impl[i], model[i], spec[i]))
            lines.append('VIOLATION property=%s replay=%s no-failing-input-found' % (pid, path))
        exit_code = 1

    # --- evidence
    distinct = set()
    for i, c in enumerate(cases):
        if chk.nontrivial(c, impl[i]):
            distinct.add(hashlib.sha1(c.encode()).hexdigest())
    outcome_hist = {}
    for i in impl:
        k = ' '.join(impl[i].split()[:2]) if not impl[i].startswith('OK') else 'OK'
        outcome_hist[k] = outcome_hist.get(k, 0) + 1
    sample_idx = sorted(set([0, len(cases) // 3, (2 * len(cases)) // 3, len(cases) - 1]) & set(range(len(cases))))
    samples = [{'case': cases[i][:400], 'impl': impl[i][:400], 'model': model[i][:400], 'spec': spec[i][:400]} for i in sample_idx]
    samples += [{'obligation': t, 'assumptions': assumptions.get(t, 'NOT CHECKED')} for t in theorems[:40]]
    trusted = [
        'Coq 8.16.1 kernel and VM (vm_compute / vm_cast_no_check for finite sweeps); native_compute not used',
        'axioms reported by Print Assumptions: ' + (', '.join(axioms) if axioms else 'none (every property theorem is closed under the global context)'),
        'translator tools/gen_from_source.py (tables, constants) and its C++ static_assert echo',
        'extraction: ExtrOcamlBasic only (bool, option, unit, list, prod, sumbool, sumor mapped to OCaml types); no Extract Constant; N/Z/positive/nat stay extracted inductives; OCaml 4.13.1 + zarith for I/O conversion',
        'correspondence check: harness/h_%s.cpp, ocaml/drv_%s.ml, tools/vlib.py, g++ 12 with ASan/UBSan as observers' % (chk.group, chk.group),
    ] + list(chk.modelled_not_verified)
    ev = {
        'property_id': pid, 'tier': tier, 'seed': seed, 'level': chk.level,
        'coverage': {
            'obligations': obligations, 'discharged': discharged, 'checker_cmd': checker_cmd,
            'trusted_base': trusted,
            'theorems': theorems, 'assumptions': assumptions, 'broken_obligations': broken,
            'evaluations': len(cases), 'distinct_nontrivial': len(distinct),
            'rule': getattr(chk, 'rule', chk.__doc__ or ''),
            'samples': samples,
            'distribution': dict(chk.summarize(cases, impl), outcomes=outcome_hist),
            'impl_crashes_observed': crashes, 'cases_not_run_after_crash_cap': notrun,
            'correspondence_disagreements': len(corr), 'spec_violations': len(viol),
            'known_findings_hit': {k: len(v) for k, v in known_hits.items()},
            'exhaustive': False,
            'coq_build_s': round(coq_s, 1),
            'partial': chk.partial or '',
            'repo': REPO,
        },
        'assumptions': list(chk.modelled_not_verified),
        'wall_s': round(time.time() - t0, 1),
        'violations': len(viol) + (1 if (exit_code and not viol) else 0),
    }
    with open(os.path.join(EVID_DIR, pid + '.json'), 'w') as f:
        json.dump(ev, f, indent=1)
    for l in lines:
        print(l)
    print('%s %s tier=%s seed=%d cases=%d obligations=%d/%d corr_diff=%d spec_viol=%d known=%d wall=%.1fs' %
          (pid, 'PASS' if exit_code == 0 else 'FAIL', tier, seed, len(cases), discharged, obligations, len(corr), len(viol),
           sum(len(v) for v in known_hits.values()), time.time() - t0))
    return exit_code


def shrink(chk, case, rundir, exes, drv, rounds=40):
    """greedy shrinking with the check's own candidate generator"""
    cur = case
    for _ in range(rounds):
        cands = list(chk.shrink_candidates(cur))[:64]
        if not cands:
            break
        impl, model, spec, _, _ = execute(chk, cands, rundir, exes, drv)
        nxt = None
        for i, c in enumerate(cands):
            if impl[i] != 'NOTRUN' and not chk.allowed(c, impl[i], spec[i]) and chk.known(c, impl[i], spec[i]) is None:
                nxt = c
                break
        if nxt is None:
            break
        cur = nxt
    return cur


def search_violation(chk, rundir, exes, drv, seed, known_ids, rounds=3):
    """implementation against the Spec oracle on the thorough generator, several seeds"""
    for r in range(rounds):
        rng = random.Random(seed * 7919 + r + 1)
        cases = list(dict.fromkeys(chk.gen(rng, 'thorough')))
        impl, model, spec, _, _ = execute(chk, cases, rundir, exes, drv)
        for i, c in enumerate(cases):
            if impl[i] != 'NOTRUN' and not chk.allowed(c, impl[i], spec[i]):
                kid = chk.known(c, impl[i], spec[i])
                if kid is None or kid not in known_ids:
                    return c, impl[i], spec[i], model[i]
    return None


def main(argv):
    import argparse
    ap = argparse.ArgumentParser()
    ap.add_argument('pid')
    ap.add_argument('--tier', default=os.environ.get('VERIF_TIER', 'quick'))
    ap.add_argument('--replay')
    a = ap.parse_args(argv)
    seed = int(os.environ.get('VERIF_SEED', '1'))
    sys.path.insert(0, os.path.join(VERIF, 'checks'))
    mod = importlib.import_module(a.pid)
    chk = mod.CHECK
    return run_check(chk, a.tier, seed, a.replay)
