#!/usr/bin/env python3
"""Regenerate the seeded-change table of DESIGN.md (between the SEEDED-TABLE markers) from seeded/*/meta.json."""
import glob
import json
import os
import re

V = os.path.dirname(os.path.dirname(os.path.abspath(__file__)))
rows = ['| seeded change | round | what it changes (one line) | caught by | replay | note |', '|---|---|---|---|---|---|']
n = caught = concrete = strengthened = 0
for d in sorted(glob.glob(os.path.join(V, 'seeded', '*'))):
    m = json.load(open(os.path.join(d, 'meta.json')))
    e = m.get('evaluation', {})
    name = os.path.basename(d)
    rnd = (int(name.split('-')[1]) + 1) // 2
    summ = ' '.join(str(m.get('summary', '')).split())[:150].replace('|', '/')
    cb = e.get('caught_by') or []
    cc = e.get('caught_with_concrete_input') or []
    n += 1
    caught += bool(cb)
    concrete += bool(cc)
    strengthened += 'history' in m
    rows.append('| `%s` | %d | %s | %s | %s | %s |' % (name, rnd, summ, ', '.join(cb) or 'MISSED',
                                                     'concrete' if cc else ('no-failing-input' if cb else '-'),
                                                     'strengthened' if 'history' in m else ''))
table = '\n'.join(rows)
p = os.path.join(V, 'DESIGN.md')
s = open(p).read()
block = '<!-- SEEDED-TABLE-BEGIN -->\n%s\n\n%d changes; caught %d; with a concrete failing input %d; generator or harness strengthened for %d.\n<!-- SEEDED-TABLE-END -->' % (table, n, caught, concrete, strengthened)
if '<!-- SEEDED-TABLE-BEGIN -->' in s:
    s = re.sub(r'<!-- SEEDED-TABLE-BEGIN -->.*?<!-- SEEDED-TABLE-END -->', lambda _: block, s, flags=re.S)
else:
    s = re.sub(r'\| seeded change \| what it changes.*?(?=\n\n\n# Part II)', lambda _: block, s, flags=re.S)
open(p, 'w').write(s)
print(n, caught, concrete, strengthened)
