#!/usr/bin/env python3
"""writes MANIFEST.json from the table below; a property is claimed only when checks/<id>.py and
coq/Properties/<id>.v exist."""
import json, os
V = os.path.dirname(os.path.dirname(os.path.abspath(__file__)))
P = {l['id']: l for l in map(json.loads, open(os.path.join(V, 'properties.jsonl')))}

TECH = 'Coq 8.16 theorems over a hand-written Gallina model (Spec/Model/Theorems); model tied to /repo by a correspondence check (extracted OCaml model + spec oracle vs ASan/UBSan harness compiled from the working tree) and by tables/constants regenerated from the headers'

LEVEL = {
 'C14': ('proof', 'Theorems (all byte arrays, unbounded length): the transcribed encoders equal the RFC 4648 / two-hex-digit specification, lengths are 2n and 4*ceil(n/3), and both decoders invert both encoders; alphabet/value tables are regenerated from the header on every run and the table facts are closed by vm_compute. The transcription is tied to the code by running model, spec oracle and the real library on every byte value in every group position, every length class and seeded arrays.', 'DESIGN.md section 6 C14'),
 'C15': ('proof', 'Theorems (all input strings, all output sizes): the transcribed caller-buffer decoders return a non-negative count exactly on valid input that fits, never write at an index >= output_size, report the length implied by size and padding for a null output, and the allocating forms throw codec_error exactly on invalid input. Tie: exhaustive short strings over a mixed alphabet, all two-group padding shapes, every byte in every position, output sizes around the decoded length, under ASan with exact-size buffers.', 'DESIGN.md section 6 C15'),
}
LEVEL['C05'] = ('proof', 'Theorems for a parametric small-buffer limit L >= 1 (instantiated with the four limits harvested from the headers): an ownership invariant (short => data() is the object\'s own array with NUL at [size]; long => a live heap block of size+1 cells with NUL at [size] referenced by no other object; every live block owned by a live buffer) holds initially and is re-established by every member (default/copy/move/(ptr,len)/(count,fill) construction, destruction, clear, copy and move assignment incl. self, allocate, allocate(n,fill), user writes); every member returns normally (double free, free of in-object storage, out-of-bounds access, use of released storage are Fault values of the model and are proved unreachable) and changes the abstract values exactly as a plain value store says (a moved-from object keeps SOME valid value); lifted by induction to every finite well-formed history; an observer sees size, content, terminator and storage class; no two objects share storage; end of scope leaves no live block. The transcription (Mem/Buffer.v) is tied to include/st_charbuffer.h by running whole histories (directed size-class products + seeded) for all four element types against the real library under ASan/UBSan with allocation counting, observing every live object after every operation.', 'DESIGN.md section 6 C05')
LEVEL['C08'] = ('proof', 'Theorems for all strings (size < 2^63-1), ALL start values in the ssize_t range and ALL counts / n below 2^64: the transcribed substr/left/right (mixed signed/unsigned arithmetic with the wrap written out) equal the clamped-range specification and never request an oversized allocation or read outside the string; the three trim walks equal dropWhile on the stated sides for any C-string charset and subjects with embedded NUL; all twelve before/after overloads equal their specifications in both case modes, before ++ occurrence ++ after reassembles the original, overloads agree. Tie: 185k (quick) / 860k (thorough) cases through the real library under ASan: every size class, start in {SSIZE_MIN..SSIZE_MAX boundary set}, counts up to SIZE_MAX, n over 0..2*size+1 and near SIZE_MAX, separators of length 0-3 in all overload forms.', 'DESIGN.md section 6 C08')
LEVEL['C09'] = ('proof', 'Theorems for all subjects, separators, patterns, replacements and every max_splits: the three transcribed split overloads equal the left-to-right non-overlapping cut specification (at most max+1 pieces; join inverts split for any separator incl. empty; the const char* overload throws unicode_error exactly when the separator has a high byte and a piece is ill-formed, never on well-formed text); tokenize returns exactly the maximal non-empty delimiter-free runs; replace equals the specification with length size + k*(|to|-|from|), its two scans agree (no out-of-bounds write, nothing unwritten) and its re-validation step is characterised exactly; every model terminates (fuel sufficiency). Tie: exhaustive short subjects over an alphabet with NUL/high bytes against separators up to length 3 (150k quick / 1.6M thorough cases) through the real library under ASan with a per-case timeout.', 'DESIGN.md section 6 C09')
NOTE = {}
DEFAULT_NOTE = 'Trusted: Coq kernel + VM; translator for tables/constants; ExtrOcamlBasic extraction and the OCaml driver; the C++ harness, g++ and the sanitizers as observers; the C++ semantics of the transcribed statements (LP64, signed char, 32-bit wchar_t) are modelled, not verified. See DESIGN.md section 8.'

checks, na = [], []
for pid in sorted(P):
    have = os.path.exists(os.path.join(V, 'checks', pid + '.py')) and os.path.exists(os.path.join(V, 'coq/Properties', pid + '.v'))
    if have and pid in LEVEL:
        cat, text, ref = LEVEL[pid]
        checks.append({
            'property_id': pid,
            'quick_cmd': 'bin/check %s --tier quick' % pid,
            'thorough_cmd': 'bin/check %s --tier thorough' % pid,
            'evidence_file': 'evidence/%s.json' % pid,
            'replay_cmd_template': 'bin/check %s --replay {path}' % pid,
            'engine': 'coq-correspondence',
            'level_claimed': {'category': cat, 'text': text, 'design_ref': ref},
            'level_note': NOTE.get(pid, DEFAULT_NOTE),
            'technique': TECH,
        })
    else:
        na.append({'property_id': pid, 'reason': 'check not built yet in this round (the technique applies; see DESIGN.md section 6); not claimed until its theorems and correspondence run'})

m = {
 'version': 1,
 'setup_cmd': 'bin/setup',
 'hooks': {'guard': 'ST_VERIF_HOOKS', 'enable': 'no source hook is compiled into /repo: aborts, sanitizer reports and hangs are observed from outside by running the harness in a child process; the guard name is reserved and unused',
           'baseline_off_cmd': 'cmake --build /repo/_build -j16 && /repo/_build/test/st_gtests', 'source_commits': [], 'add_only': True},
 'engines': [{'name': 'coq-correspondence', 'path': 'bin/check', 'serves_properties': [c['property_id'] for c in checks],
              'kind_free_text': 'Coq 8.16.1 proofs (coq/), translator (tools/gen_from_source.py), extracted OCaml model/spec drivers (ocaml/), C++ sanitizer harnesses (harness/), orchestration tools/vlib.py'}],
 'checks': checks,
 'notes': 'Family: machine-checked proof in Rocq/Coq. Every claimed property has Properties/<id>.v (statements only, each closed by exact + Print Assumptions) and a correspondence check; see DESIGN.md.',
 'not_applicable': na,
}
json.dump(m, open(os.path.join(V, 'MANIFEST.json'), 'w'), indent=1)
print('claimed:', [c['property_id'] for c in checks])
