#!/usr/bin/env python3
"""hand-made mutations used to probe generator depth: handmut.py <name> <file> <old> <new> <checks comma>"""
import os, subprocess, sys
name, f, old, new, checks = sys.argv[1:6]
wt = '/tmp/hm_' + name
subprocess.run(['git', '-C', '/repo', 'worktree', 'add', '-f', wt, 'HEAD'], stdout=subprocess.DEVNULL, stderr=subprocess.DEVNULL)
try:
    p = os.path.join(wt, 'include', f)
    s = open(p).read()
    assert s.count(old) >= 1, 'pattern not found'
    open(p, 'w').write(s.replace(old, new, 1))
    for c in checks.split(','):
        out = subprocess.run(['/verif/bin/check', c], env=dict(os.environ, VERIF_REPO=wt), cwd='/verif', stdout=subprocess.PIPE, stderr=subprocess.STDOUT, text=True).stdout
        lines = out.strip().splitlines()
        print(name, c, 'CAUGHT' if any(l.startswith('VIOLATION') for l in lines) else 'MISSED', '|', lines[-1] if lines else '')
finally:
    subprocess.run(['git', '-C', '/repo', 'worktree', 'remove', '--force', wt], stdout=subprocess.DEVNULL, stderr=subprocess.DEVNULL)
    subprocess.run([sys.executable, '/verif/tools/gen_from_source.py', '/repo', '/verif'])
