"""shared by C01 / C02 / C03: route tables, test-side encoders, generators, and the
comparison rules of the utf group (harness/h_utf.cpp, ocaml/drv_utf.ml)."""
import itertools
import re
import vlib

WCHAR_W = 8          # hex digits per wchar_t unit on this platform (harness/driver agree via Gen/Consts)

# fn -> (source kind, target kind, takes a mode, takes the Latin-1 `sub` flag)
FREE = {
    'utf16_to_utf8': ('16', '8', True, False), 'utf32_to_utf8': ('32', '8', True, False),
    'wchar_to_utf8': ('w', '8', True, False), 'latin_1_to_utf8': ('l1', '8', False, False),
    'utf8_to_utf16': ('8', '16', True, False), 'utf32_to_utf16': ('32', '16', True, False),
    'wchar_to_utf16': ('w', '16', True, False), 'latin_1_to_utf16': ('l1', '16', False, False),
    'utf8_to_utf32': ('8', '32', True, False), 'utf16_to_utf32': ('16', '32', True, False),
    'wchar_to_utf32': ('w', '32', True, False), 'latin_1_to_utf32': ('l1', '32', False, False),
    'utf8_to_wchar': ('8', 'w', True, False), 'utf16_to_wchar': ('16', 'w', True, False),
    'utf32_to_wchar': ('32', 'w', True, False), 'latin_1_to_wchar': ('l1', 'w', False, False),
    'utf8_to_latin_1': ('8', 'l1', True, True), 'utf16_to_latin_1': ('16', 'l1', True, True),
    'utf32_to_latin_1': ('32', 'l1', True, True), 'wchar_to_latin_1': ('w', 'l1', True, True),
}
STR_FROM = {
    'str_from_utf8': ('8', '8', True, False), 'str_from_utf16': ('16', '8', True, False),
    'str_from_utf32': ('32', '8', True, False), 'str_from_wchar': ('w', '8', True, False),
    'str_from_latin_1': ('l1', '8', False, False),
}
STR_TO = {
    'str_to_utf8': ('8', '8', False, False), 'str_to_utf16': ('8', '16', False, False),
    'str_to_utf32': ('8', '32', False, False), 'str_to_wchar': ('8', 'w', False, False),
    'str_to_latin_1': ('8', 'l1', False, True),
}
LIT = {'str_lit_utf8': ('8', '8', False, False)}
ALL_FN = dict(FREE, **STR_FROM, **STR_TO, **LIT)

SRC_WIDTH = {'8': 2, '16': 4, '32': 8, 'w': WCHAR_W, 'l1': 2}
MODES = ('av', 'si', 'cv')

# routes that take an explicit mode / that exist only with the configured default
STR_ROUTES_MODE = ['ptr', 'buf', 'std', 'view', 'ctor', 'ctorbuf', 'ctorstd', 'ctorview',
                   'set', 'setbuf', 'setstd', 'setview']
STR_ROUTES_DEFAULT_ONLY = ['assign', 'assignstd', 'assignview']
STR_ROUTES_U8 = ['u8', 'u8std', 'u8view', 'u8ctor', 'u8set', 'u8ctorview', 'setmove', 'ctormove',
                 'aliasset', 'aliasview', 'aliasu8']
STR_ROUTES_U8_DEFAULT_ONLY = ['u8assignstd', 'aliasasg']
STR_TO_ROUTES = ['to', 'tobuf', 'std', 'stdref']


def src_kind(fn):
    k = ALL_FN[fn][0]
    return '32' if k == 'w' else k      # 32-bit wchar_t


def tgt_kind(fn):
    k = ALL_FN[fn][1]
    return '32' if k == 'w' else k


def width(fn):
    return SRC_WIDTH[ALL_FN[fn][0]]


# ---------------------------------------------------------------- test-side encoders (tolerant)
def g8(c):
    if c < 0x80:
        return [c]
    if c < 0x800:
        return [0xC0 | (c >> 6), 0x80 | (c & 0x3F)]
    if c < 0x10000:
        return [0xE0 | (c >> 12), 0x80 | ((c >> 6) & 0x3F), 0x80 | (c & 0x3F)]
    return [0xF0 | ((c >> 18) & 7), 0x80 | ((c >> 12) & 0x3F), 0x80 | ((c >> 6) & 0x3F), 0x80 | (c & 0x3F)]


def g16(c):
    if c < 0x10000:
        return [c]
    c -= 0x10000
    return [0xD800 | ((c >> 10) & 0x3FF), 0xDC00 | (c & 0x3FF)]


def encode(kind, scalars):
    """standard encoding of a scalar sequence, by Python's own codecs (independent of the Coq Spec)"""
    s = ''.join(map(chr, scalars))
    if kind == '8':
        return list(s.encode('utf-8'))
    if kind == '16':
        b = s.encode('utf-16-be')
        return [(b[i] << 8) | b[i + 1] for i in range(0, len(b), 2)]
    if kind == '32':
        return list(scalars)
    if kind == 'l1':
        return list(s.encode('latin-1'))
    raise ValueError(kind)


def hexu(units, w):
    if not units:
        return '.'
    fmt = '%%0%dx' % w
    return ''.join(fmt % (u & ((1 << (4 * w)) - 1)) for u in units)


def unhex(tok, w):
    if tok in ('.', '-'):
        return []
    return [int(tok[i:i + w], 16) for i in range(0, len(tok), w)]


def case(fn, route, mode, sub, units, scalars=None, tag=None):
    """one case line; `mode` is av|si|cv|default:xx|_ ; sub is 0|1|_"""
    w = width(fn)
    u = units if isinstance(units, str) else hexu(units, w)
    line = '%s.%s %s %s %s' % (fn, route, mode, sub, u)
    if scalars is not None:
        line += ' =' + (''.join('%08x' % c for c in scalars))
    if tag:
        line = '@%s %s' % (tag, line)
    return line


def parse(case_line):
    """-> dict(tag, op, fn, route, mode, sub, units tok, extra) or dict(enum=...)"""
    t = case_line.split()
    tag = ''
    if t and t[0].startswith('@'):
        tag = t[0][1:]
        t = t[1:]
    if t[0] == 'shutdown':
        return {'tag': tag, 'enum': False, 'fn': 'shutdown', 'route': 'ptr', 'mode': '_', 'sub': '_', 'units': '00', 'extra': []}
    if t[0] == 'ENUM':
        fn, _, route = t[2].partition('.')
        return {'tag': tag, 'enum': True, 'domain': t[1], 'fn': fn, 'route': route or 'ptr', 'mode': t[3], 'sub': t[4],
                'lo': int(t[5], 0), 'hi': int(t[6], 0)}
    fn, _, route = t[0].partition('.')
    return {'tag': tag, 'enum': False, 'fn': fn, 'route': route or 'ptr', 'mode': t[1], 'sub': t[2], 'units': t[3],
            'extra': t[4:]}


def eff_mode(p):
    """the validation mode a case runs under"""
    fn = p['fn']
    if fn in STR_TO or fn in LIT or p['route'] == 'lit':
        return 'av'
    m = p['mode']
    if m.startswith('default:'):
        m = m[8:]
    return 'cv' if m == '_' else m


# ---------------------------------------------------------------- comparison rules
OK_RE = re.compile(r'^OK (\.|[0-9a-f]+) size=(\d+) term=1$')


def ok_shape(line):
    m = OK_RE.match(line)
    if not m:
        return False
    n = int(m.group(2))
    if m.group(1) == '.':
        return n == 0
    return n > 0 and len(m.group(1)) % n == 0 and len(m.group(1)) // n in (2, 4, 8)


class UtfCheck(vlib.Check):
    group = 'utf'
    per_case_timeout = 120
    any_allows_throw = False      # C03: assume_valid on malformed input may also throw unicode_error

    def variants(self):
        return {'': []}

    def allowed(self, case, impl, spec):
        if case.split()[-1] == 'shutdown':
            return impl == spec
        if spec == 'ANYOK':
            return ok_shape(impl) or (self.any_allows_throw and impl == 'THROW unicode_error')
        if spec == 'ANY':
            return ok_shape(impl) or impl == 'THROW unicode_error'
        if spec.startswith('OK n='):          # digest mode
            a, b = impl.split(), spec.split()
            if len(a) != 4 or a[0] != 'OK' or a[1] != b[1]:
                return False
            k = 3 if self.shape_only else 2
            return b[k].endswith('=*') or a[k] == b[k]
        if self.shape_only:
            return self.allowed_shape(impl, spec)
        return impl == spec

    shape_only = False            # C03 constrains outcome class, size and terminator, not the units

    def allowed_shape(self, impl, spec):
        """C03: a safe outcome, and when both sides hold a buffer, the same size"""
        if impl == 'THROW unicode_error':
            return True
        if not ok_shape(impl):
            return False
        if spec.startswith('OK '):
            return impl.split()[-2:] == spec.split()[-2:]
        return True

    def same(self, case, impl, model):
        if model.endswith(' ~'):
            # the property fixes no content here: compare the safety clauses only
            m = model[:-2]
            if impl == m:
                return True
            if m.startswith('OK '):
                return ok_shape(impl)
            return ok_shape(impl) or impl == 'THROW unicode_error'
        return impl == model

    def nontrivial(self, case, impl):
        p = parse(case)
        if p['enum']:
            return p['hi'] > p['lo']
        return p['units'] not in ('.', '-')

    def shrink_candidates(self, case):
        if case.split()[-1] == 'shutdown':
            return
        p = parse(case)
        pre = ('@%s ' % p['tag']) if p['tag'] else ''
        if p['enum']:
            lo, hi = p['lo'], p['hi']
            head = '%sENUM %s %s.%s %s %s' % (pre, p['domain'], p['fn'], p['route'], p['mode'], p['sub'])
            if hi - lo > 1:
                mid = (lo + hi) // 2
                yield '%s %d %d' % (head, lo, mid)
                yield '%s %d %d' % (head, mid, hi)
            elif hi - lo == 1:
                us = enum_item(p['domain'], src_kind(p['fn']), lo)
                if us is not None:
                    yield pre + case_line_units(p, us)
            return
        w = width(p['fn'])
        u = unhex(p['units'], w)
        if len(u) > 1 and not p['extra']:
            for i in range(len(u)):
                yield pre + case_line_units(p, u[:i] + u[i + 1:])

    def summarize(self, cases, impl):
        d, modes, enum_items = {}, {}, 0
        for c in cases:
            p = parse(c)
            key = ('ENUM ' + p['domain'] + ' ' if p['enum'] else '') + p['fn']
            d[key] = d.get(key, 0) + 1
            modes[eff_mode(p)] = modes.get(eff_mode(p), 0) + 1
            if p['enum']:
                enum_items += p['hi'] - p['lo']
        return {'ops': d, 'modes': modes, 'enumerated_items_in_digest_mode': enum_items}


def case_line_units(p, units):
    return '%s.%s %s %s %s' % (p['fn'], p['route'], p['mode'], p['sub'], hexu(units, width(p['fn'])))


CB16 = [0x00, 0x7F, 0x80, 0xBF, 0xC0, 0xC1, 0xC2, 0xDF, 0xE0, 0xEF, 0xF0, 0xF4, 0xF5, 0xF7, 0xF8, 0xFF]


def enum_item(domain, kind, i):
    """mirror of item() in harness/h_utf.cpp and ocaml/drv_utf.ml"""
    if domain in ('scalar', 'cp'):
        if domain == 'scalar' and 0xD800 <= i <= 0xDFFF:
            return None
        if kind == '8':
            return g8(i) if i < 0x200000 else None
        if kind == '16':
            return g16(i) if i < 0x110000 else None
        if kind == '32':
            return [i]
        return [i] if i < 0x100 else None
    if domain.startswith('bytes'):
        k = int(domain[5:])
        return [(i >> (8 * (k - 1 - j))) & 0xFF for j in range(k)]
    if domain == 'cb4':
        return [CB16[(i >> 12) & 15], CB16[(i >> 8) & 15], CB16[(i >> 4) & 15], CB16[i & 15]]
    if domain == 'u16x2':
        return [(i >> 16) & 0xFFFF, i & 0xFFFF]
    if domain == 'u16x3':
        return [(i >> 32) & 0xFFFF, (i >> 16) & 0xFFFF, i & 0xFFFF]
    raise ValueError(domain)


def enum_case(domain, fn, route, mode, sub, lo, hi, tag=None):
    line = 'ENUM %s %s.%s %s %s %d %d' % (domain, fn, route, mode, sub, lo, hi)
    return ('@%s %s' % (tag, line)) if tag else line


# ---------------------------------------------------------------- value sets
B_SCALARS = [0x0, 0x7F, 0x80, 0x7FF, 0x800, 0xD7FF, 0xE000, 0xFFFF, 0x10000, 0x10FFFF]
B_NONSCALARS = [0xD800, 0xDBFF, 0xDC00, 0xDFFF, 0x110000, 0x1FFFFF, 0x3FFFFF, 0x400000, 0x7FFFFFFF, 0xFFFFFFFF]
NEIGHBOURS = [0x41, 0xE9, 0x20AC, 0x1F600]          # 1-, 2-, 3-, 4-byte neighbours
SURR_UNITS = [0x0041, 0xD7FF, 0xD800, 0xDBFF, 0xDC00, 0xDFFF, 0xE000, 0xFFFF, 0x0000]
U32_EXTRA = [0x400001, 0x400002, 0x400003, 0x400004, 0x400005, 0x80000000, 0xFFFD, 0xFF, 0x100]


def positions(v, neighbours=NEIGHBOURS):
    """v alone, and first / interior / last next to each neighbour width"""
    yield [v]
    for n in neighbours:
        yield [v, n]
        yield [n, v]
        yield [n, v, n]


def rand_scalar(rng):
    k = rng.random()
    if k < 0.25:
        return rng.randrange(0x80)
    if k < 0.45:
        return rng.randrange(0x80, 0x800)
    if k < 0.75:
        c = rng.randrange(0x800, 0x10000 - 0x800)
        return c if c < 0xD800 else c + 0x800
    return rng.randrange(0x10000, 0x110000)


def rand_scalars(rng, n):
    return [rand_scalar(rng) for _ in range(n)]


def routes_for(fn, with_default=False):
    """(route, needs_default) pairs for a function"""
    if fn in FREE:
        r = ['ptr', 'buf']
        if ALL_FN[fn][0] == '8':
            r.append('u8')
        if ALL_FN[fn][3]:
            r.append('ptrmode')
        return r
    if fn == 'str_from_latin_1':
        return ['ptr', 'buf', 'cstr']
    if fn in STR_FROM:
        r = list(STR_ROUTES_MODE) + ['cstr', 'ctorcstr', 'setcstr']
        if fn == 'str_from_utf8':
            r += STR_ROUTES_U8
        return r
    if fn in STR_TO:
        r = list(STR_TO_ROUTES)
        if fn == 'str_to_utf8':
            r.append('u8std')
        return r
    if fn in LIT:
        return ['lit', 'u8lit']
    raise ValueError(fn)


def default_only_routes(fn):
    if fn in STR_FROM and fn != 'str_from_latin_1':
        r = list(STR_ROUTES_DEFAULT_ONLY) + ['assigncstr', 'plus', 'rplus', 'pluseq']
        if fn == 'str_from_utf8':
            r += STR_ROUTES_U8_DEFAULT_ONLY
        return r
    return []


def modes_for(fn):
    return MODES if ALL_FN[fn][2] else ('_',)


def subs_for(fn):
    return ('0', '1') if ALL_FN[fn][3] else ('_',)


def ok_for_route(route, units):
    """cstr routes take the length from the terminator: no embedded NUL"""
    if route in ('cstr', 'assigncstr', 'ctorcstr', 'setcstr', 'plus', 'rplus', 'pluseq', 'aliasasg'):
        return 0 not in units
    return True


def all_calls(fn, units, scalars=None, modes=None, routes=None, lit=True):
    """the case lines for one input through every route x mode x sub of `fn`"""
    out = []
    rts = routes if routes is not None else routes_for(fn)
    for route in rts:
        if not ok_for_route(route, units):
            continue
        for mode in (modes if modes is not None else modes_for(fn)):
            if not ALL_FN[fn][2]:
                mode = '_'
            for sub in subs_for(fn):
                if route == 'ptrmode' and sub == '0':
                    continue
                out.append(case(fn, route, mode, sub, units, scalars))
            if not ALL_FN[fn][2]:
                break
    if lit and fn in ('str_from_utf16', 'str_from_utf32', 'str_from_wchar') and (modes is None or 'av' in modes) and routes is None:
        out.append(case(fn, 'lit', 'av', '_', units, scalars))
    return out


def default_calls(fn, units, dm, tag, scalars=None):
    """mode-omitting overloads, routed to the build whose ST_DEFAULT_VALIDATION is dm"""
    out = []
    if not ALL_FN[fn][2]:
        return out
    for route in routes_for(fn) + default_only_routes(fn):
        if route == 'ptrmode' or not ok_for_route(route, units):
            continue
        sub = '1' if ALL_FN[fn][3] else '_'
        out.append(case(fn, route, 'default:' + dm, sub, units, scalars, tag=tag))
    return out


# ---------------------------------------------------------------- malformed-input generators
BASES = [
    [0x41, 0xE9, 0x20AC, 0x1F600],
    [0x1F600, 0x20AC, 0xE9, 0x41],
    [0x7F, 0x80, 0x7FF, 0x800, 0xFFFF, 0x10000, 0x10FFFF],
    [0xE9, 0xE9, 0x1F600, 0x1F600, 0x20AC, 0x20AC, 0x41],
    [0x10FFFF, 0x0, 0xD7FF, 0xE000],
]
FLIP8 = [0x00, 0x7F, 0x80, 0xBF, 0xC0, 0xC2, 0xDF, 0xE0, 0xED, 0xEF, 0xF0, 0xF4, 0xF5, 0xF7, 0xF8, 0xFF]
FLIP16 = [0x0041, 0xD800, 0xDBFF, 0xDC00, 0xDFFF, 0xFFFF]
FLIP32 = [0x41, 0xD800, 0xDFFF, 0x10FFFF, 0x110000, 0x400000, 0x400001, 0xFFFFFFFF]


def mutations(units, flips, rng=None, max_flips=None):
    """valid text cut at every unit; one unit deleted / duplicated / replaced"""
    n = len(units)
    for k in range(n + 1):
        yield units[:k]
        if k:
            yield units[k:]
    for i in range(n):
        yield units[:i] + units[i + 1:]
        yield units[:i + 1] + units[i:]
        fl = flips if max_flips is None or rng is None else rng.sample(flips, max_flips)
        for f in fl:
            if f != units[i]:
                yield units[:i] + [f] + units[i + 1:]
            yield units[:i] + [f] + units[i:]          # malformed unit embedded


def rand_bytes_biased(rng, n):
    out = []
    for _ in range(n):
        k = rng.random()
        if k < 0.25:
            out.append(rng.randrange(0x80))
        elif k < 0.55:
            out.append(rng.randrange(0x80, 0xC0))
        elif k < 0.7:
            out.append(rng.randrange(0xC0, 0xE0))
        elif k < 0.82:
            out.append(rng.randrange(0xE0, 0xF0))
        elif k < 0.92:
            out.append(rng.randrange(0xF0, 0xF8))
        else:
            out.append(rng.randrange(0xF8, 0x100))
    return out


def rand_mostly_valid(kind, rng, n):
    """valid text with a few random damages"""
    u = encode(kind, rand_scalars(rng, n)) if kind != '32' else rand_scalars(rng, n)
    for _ in range(rng.choice([0, 1, 1, 2, 3])):
        if not u:
            break
        i = rng.randrange(len(u))
        k = rng.random()
        if k < 0.3:
            del u[i]
        elif k < 0.5:
            u.insert(i, u[i])
        elif kind == '8':
            u[i] = rng.choice(FLIP8)
        elif kind == '16':
            u[i] = rng.choice(FLIP16)
        else:
            u[i] = rng.choice(FLIP32 + B_NONSCALARS)
    return u


def rand_units16(rng, n):
    out = []
    for _ in range(n):
        k = rng.random()
        if k < 0.3:
            out.append(rng.randrange(0xD800, 0xDC00))
        elif k < 0.6:
            out.append(rng.randrange(0xDC00, 0xE000))
        else:
            out.append(rng.choice([0x41, 0xE9, 0x20AC, 0xD7FF, 0xE000, 0xFFFF, rng.randrange(0x10000)]))
    return out


def rand_units32(rng, n):
    out = []
    for _ in range(n):
        k = rng.random()
        if k < 0.5:
            out.append(rand_scalar(rng))
        elif k < 0.7:
            out.append(rng.choice(B_NONSCALARS + U32_EXTRA))
        elif k < 0.85:
            out.append(rng.randrange(0x110000, 0x200000))
        else:
            out.append(rng.randrange(1 << 32))
    return out


FN_BY_SRC = {
    '8': ['utf8_to_utf16', 'utf8_to_utf32', 'utf8_to_wchar', 'utf8_to_latin_1', 'str_from_utf8'],
    '16': ['utf16_to_utf8', 'utf16_to_utf32', 'utf16_to_wchar', 'utf16_to_latin_1', 'str_from_utf16'],
    '32': ['utf32_to_utf8', 'utf32_to_utf16', 'utf32_to_wchar', 'utf32_to_latin_1', 'str_from_utf32',
           'wchar_to_utf8', 'wchar_to_utf16', 'wchar_to_utf32', 'wchar_to_latin_1', 'str_from_wchar'],
    'l1': ['latin_1_to_utf8', 'latin_1_to_utf16', 'latin_1_to_utf32', 'latin_1_to_wchar', 'str_from_latin_1'],
}
STR_TO_FNS = ['str_to_utf8', 'str_to_utf16', 'str_to_utf32', 'str_to_wchar', 'str_to_latin_1']


def malformed_inputs(kind, rng, tier):
    """directed malformed / boundary inputs for a source kind ('8', '16', '32'); lists of units"""
    seen = set()

    def emit(u):
        t = tuple(u)
        if t not in seen:
            seen.add(t)
            return True
        return False

    out = []
    if kind == '8':
        # boundary values (tolerated forms included) in every position next to every width
        for v in B_SCALARS + [x for x in B_NONSCALARS if x < 0x200000] + [0x110000 - 1, 0x10FFFF + 1]:
            for seq in positions(v):
                u = sum((g8(c) for c in seq), [])
                if emit(u):
                    out.append(u)
        # overlong forms
        for u in ([0xC0, 0x80], [0xC1, 0xBF], [0xE0, 0x80, 0x80], [0xE0, 0x9F, 0xBF], [0xF0, 0x80, 0x80, 0x80],
                  [0xF0, 0x8F, 0xBF, 0xBF], [0xF7, 0xBF, 0xBF, 0xBF], [0xF4, 0x90, 0x80, 0x80], [0xED, 0xA0, 0x80],
                  [0xED, 0xBF, 0xBF],
                  # F8..FF are never lead bytes, whatever follows (5/6-byte forms of the old definition)
                  [0xF8, 0x80, 0x80, 0x80], [0xF8, 0x88, 0x80, 0x80, 0x80], [0xFB, 0xBF, 0xBF, 0xBF], [0xFC, 0x84, 0x80, 0x80, 0x80, 0x80],
                  [0xFE, 0x80, 0x80, 0x80], [0xFF, 0xBF, 0xBF, 0xBF], [0xF7, 0x80, 0x80], [0xF0, 0x80, 0x80], [0xE0, 0x80], [0xC2]):
            for pre in ([], [0x41], [0xC3, 0xA9]):
                for post in ([], [0x41], [0xE2, 0x82, 0xAC]):
                    if emit(pre + u + post):
                        out.append(pre + u + post)
        for base in BASES:
            for u in mutations(encode('8', base), FLIP8, rng, 6 if tier == 'quick' else None):
                if emit(u):
                    out.append(u)
    elif kind == '16':
        for n in (1, 2, 3):
            for t in itertools.product(SURR_UNITS, repeat=n):
                if emit(t):
                    out.append(list(t))
        for base in BASES:
            for u in mutations(encode('16', base), FLIP16):
                if emit(u):
                    out.append(u)
    else:
        vals = B_SCALARS + B_NONSCALARS + U32_EXTRA
        for v in vals:
            for seq in positions(v):
                if emit(seq):
                    out.append(seq)
        for a in vals:
            for b in vals:
                if emit([a, b]):
                    out.append([a, b])
        for base in BASES[:3]:
            for u in mutations(list(base), FLIP32, rng, 4 if tier == 'quick' else None):
                if emit(u):
                    out.append(u)
    return out


# ---------------------------------------------------------------- block-wise shapes
# A word-at-a-time / SIMD-style rewrite of a pass goes wrong at a particular offset inside a block, in a
# particular block, or only when a whole block is "interesting".  These generators put the interesting unit
# at every offset of otherwise-ASCII text (so every offset modulo 8 and 16, in the first / a middle / the
# last block and in the scalar tail), and build fully non-ASCII blocks of the usual block lengths.
BLOCK_LENS_FULL = (7, 8, 9, 15, 16, 17, 31, 32, 33)
WIDE = (0xE9, 0x20AC, 0x1F600)          # 2-, 3-, 4-byte scalars (UTF-16: 1, 1, 2 units)


def block_scalars():
    """well-formed scalar sequences (C01; also fed to C02/C03 as well-formed input)"""
    out = []
    for k in range(40):
        for v in WIDE:
            s = [0x61 + (i % 26) for i in range(40)]
            s[k] = v
            out.append(s)
    for n in (63, 64, 65):
        for k in sorted(set([0, 7, 8, 15, 16, 31, 32, 47, 48, 55, 56, 57, n - 9, n - 8, n - 2, n - 1])):
            for v in (WIDE[k % 3], 0x80, 0x10FFFF)[:2]:
                s = [0x41 + (i % 26) for i in range(n)]
                s[k] = v
                out.append(s)
    for n in BLOCK_LENS_FULL:
        for v in WIDE + (0x7FF, 0xFFFF, 0x10000):
            out.append([v] * n)
        out.append([WIDE[i % 3] for i in range(n)])
    for n in (8, 16, 24, 32, 40, 64):          # exact multiples: no scalar tail after the last block
        out.append([0x61] * n)
        out.append([0x61] * (n - 1) + [0x1F600])
        out.append([0xE9] + [0x61] * (n - 1))
    return out


def block_latin1():
    """Latin-1 byte strings: one byte >= 0x80 at every offset of a 40-byte string, all-high strings"""
    out = []
    for k in range(40):
        for v in (0x80, 0xFF, 0xE9)[: 2 if k % 2 else 3]:
            s = [0x61 + (i % 26) for i in range(40)]
            s[k] = v
            out.append(s)
    for n in BLOCK_LENS_FULL + (39, 40, 41, 63, 64, 65):
        out.append([0x80 + ((i * 37) % 128) for i in range(n)])
        out.append([0xFF] * n)
        out.append([0x61] * n)
    for n in (63, 64, 65):
        for k in (0, 7, 8, 31, 32, 55, 56, n - 8, n - 1):
            s = [0x41] * n
            s[k] = 0xC0 + (k % 64)
            out.append(s)
    return out


LONG_LENS = (255, 256, 257, 300, 511, 512, 513, 1023, 1024, 1025, 4097)


def long_latin1():
    """Latin-1 byte strings of 255..4097 bytes: uniform runs (a per-lane counter of a word-at-a-time measure wraps
    at 256 / 65536 equal units) and mixtures"""
    out = []
    for n in LONG_LENS:
        out.append([0xE9] * n)
        out.append([0x80 + ((i * 37) % 128) for i in range(n)])
        out.append([0x41] * n)
        out.append([0xE9 if i % 2 else 0x41 for i in range(n)])
        out.append([0x41] * (n - 256) + [0xFF] * 256 if n >= 256 else [0xFF] * n)
    return out


def long_scalars():
    """scalar sequences of 255..4097 characters: uniform runs of each encoded width, and a cycle of all widths"""
    out = []
    for n in LONG_LENS:
        for c in (0x41, 0xE9, 0x20AC, 0x1F600, 0x10FFFF):
            out.append([c] * n)
        cyc = [0x41, 0xE9, 0x20AC, 0x1F600, 0x7F, 0x80, 0x7FF, 0x800, 0xFFFF, 0x10000]
        out.append([cyc[i % len(cyc)] for i in range(n)])
    return out


def long_malformed(kind):
    """unit sequences of 255..1025 units: uniform runs of one malformed unit / of one well-formed wide character
    (per-lane counters of a block-wise measure wrap at 256 equal units), and alternations of both"""
    out = []
    if kind == '8':
        bads, goods = ([0x80], [0xC3], [0xF8], [0xFF]), ([0xC3, 0xA9], [0xE2, 0x82, 0xAC], [0xF0, 0x9F, 0x98, 0x80])
    elif kind == '16':
        bads, goods = ([0xD800], [0xDC00]), ([0xE9], [0x20AC], [0xD83D, 0xDE00])
    else:
        bads, goods = ([0x110000], [0xFFFFFFFF]), ([0xE9], [0x20AC], [0x1F600])
    for n in (255, 256, 257, 511, 512, 513, 1025):
        for b in bads:
            out.append((b * n)[:n])
            out.append(([0x41] * (n - 1)) + b)
        for g in goods:
            out.append(g * n)
        out.append([x for i in range(n) for x in (bads[i % len(bads)] if i % 3 == 0 else goods[i % len(goods)])])
    return out


def block_malformed(kind):
    """a malformed unit at every offset of 40 units of ASCII; truncated forms at the end of block-length text"""
    out = []
    if kind == '8':
        bads = ([0x80], [0xC3], [0xF8], [0xE2, 0x82], [0xF0, 0x9F, 0x98], [0xED, 0xA0, 0x80], [0xF4, 0x90, 0x80, 0x80])
    elif kind == '16':
        bads = ([0xD800], [0xDC00], [0xDFFF, 0xD800])
    else:
        bads = ([0x110000], [0xFFFFFFFF], [0x400001], [0xD800])
    for k in range(40):
        for bi, bad in enumerate(bads):
            if bi >= 3 and k % 3:
                continue
            s = [0x61 + (i % 26) for i in range(40)]
            out.append(s[:k] + bad + s[k + 1:])
    for n in (8, 16, 24, 32, 40, 64):
        for bad in bads:
            out.append([0x61] * (n - len(bad)) + bad)          # the form ends exactly at the end of the input
            out.append([0x61] * n + bad[:1])                   # ... one unit into the next block
    for n in (8, 16, 32):
        for bad in bads[:3]:
            out.append((bad * n)[:n])
    return out
