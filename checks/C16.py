"""C16: string_stream content equals the concatenation of everything appended.
Cases: whole histories over a pool of ST::string_stream objects; after EVERY operation
raw_buffer()[0,size()) of every live stream is observed, plus where the buffer lives and whether two
streams overlap; at the end everything is destroyed and live new[] blocks must be back to baseline."""
import vlib
from mem_gen import consts, rand_units


def fields(line):
    if not line.startswith('OK '):
        return None
    return [st.split(';') for st in line[3:].split('|')]


APPENDS = ['app', 'app', 'app', 'app.cstr', 'app.auto', 'app.st', 'app.std', 'app.view', 'app.u8']


def rbytes(rng, n, nul_ok=True):
    out = []
    for _ in range(n):
        r = rng.random()
        if r < 0.7:
            v = rng.randrange(0x20, 0x7F)
        elif r < 0.75 and nul_ok:
            v = 0
        else:
            v = rng.randrange(1, 256)
        out.append('%02x' % v)
    return ''.join(out) or '.'


import struct

# doubles / floats whose %g renderings have every length from 1 to 13 characters (the longest possible: sign, six
# significant digits, three-digit exponent); the expected text is the C library's %g (Python's % operator formats
# doubles identically; NaN is avoided because its sign is printed differently)
G_DOUBLES = [0.0, 5.0, -3.0, 12.5, -0.25, 1234.5, 1e6, -1e6, 123456.0, 1234567.0, -1234567.0, 1.5e-5, -1.25e-7,
             1.23456789e100, -1.23456789e100, -1.23456789e-100, 1.7976931348623157e308, -1.7976931348623157e308,
             2.2250738585072014e-308, -2.2250738585072014e-308, 5e-324, -5e-324, float('inf'), float('-inf'), -0.0]


def g_double(v):
    return '0x%016x' % struct.unpack('<Q', struct.pack('<d', v))[0], ('%g' % v).encode().hex()


def g_float(v):
    f = struct.unpack('<f', struct.pack('<f', v))[0]
    return '0x%08x' % struct.unpack('<I', struct.pack('<f', v))[0], ('%g' % f).encode().hex()


def float_op(rng, o):
    v = rng.choice(G_DOUBLES)
    if rng.random() < 0.3 and abs(v) < 3e38:
        b, t = g_float(v)
        return 'shlf,%d,%s,M=%s' % (o, b, t), len(t) // 2
    b, t = g_double(v)
    return 'shld,%d,%s,M=%s' % (o, b, t), len(t) // 2


def gen_history(rng, stk, pool=3, nops=12):
    live, size = set(), {}
    ops = []
    targets = [1, 2, stk - 1, stk, stk + 1, 2 * stk - 1, 2 * stk, 2 * stk + 1, 4 * stk, 4 * stk + 1, 3000]

    def app_len(cur):
        r = rng.random()
        if r < 0.45:
            t = rng.choice(targets)           # land exactly on / next to a capacity boundary
            if t > cur:
                return t - cur
        if r < 0.8:
            return rng.choice([0, 1, 2, 5, 17, 100, 255, 256, 257])
        return rng.choice([600, 1025, 3000])
    for _ in range(nops):
        dead = [i for i in range(pool) if i not in live]
        ch = []
        if dead:
            ch += ['new'] * 3
            if live:
                ch += ['move'] * 3
        if live:
            ch += ['app'] * 8 + ['appc'] * 3 + ['shl'] * 2 + ['flt'] * 2 + ['shlc', 'trunc', 'trunc', 'erase', 'erase', 'masg', 'masg', 'masg', 'del', 'tostr', 'tostr', 'wide']
        op = rng.choice(ch)
        if op == 'new':
            o = rng.choice(dead); ops.append('new,%d' % o); live.add(o); size[o] = 0
        elif op == 'move':
            o = rng.choice(dead); s = rng.choice(sorted(live))
            ops.append('move,%d,%d' % (o, s)); live.add(o); size[o] = size[s]; size[s] = 0
        elif op == 'masg':
            o = rng.choice(sorted(live)); s = rng.choice(sorted(live))
            ops.append('masg,%d,%d' % (o, s))
            if o != s:
                size[o] = size[s]; size[s] = 0
        elif op == 'app':
            o = rng.choice(sorted(live)); n = app_len(size[o]); v = rng.choice(APPENDS)
            nul_ok = v not in ('app.cstr', 'app.auto')
            ops.append('%s,%d,%s' % (v, o, rbytes(rng, n, nul_ok))); size[o] += n
        elif op == 'appc':
            o = rng.choice(sorted(live)); n = app_len(size[o])
            ops.append('appc,%d,%d,%d' % (o, rng.choice([0x2A, 0, 0xE9, 0x20]), n)); size[o] += n
        elif op == 'shlc':
            o = rng.choice(sorted(live)); ops.append('shlc,%d,%d' % (o, rng.choice([0x41, 0xC3, 0]))); size[o] += 1
        elif op == 'shl':
            o = rng.choice(sorted(live))
            ty = rng.choice(['i32', 'u32', 'i64', 'u64', 'ill', 'ull'])
            rngs = {'i32': (-2**31, 2**31 - 1), 'u32': (0, 2**32 - 1), 'i64': (-2**63, 2**63 - 1),
                    'u64': (0, 2**64 - 1), 'ill': (-2**63, 2**63 - 1), 'ull': (0, 2**64 - 1)}[ty]
            v = rng.choice([rngs[0], rngs[1], 0, 1, rngs[0] + 1, rngs[1] - 1, rng.randrange(rngs[0], rngs[1] + 1),
                            max(rngs[0], -1), 10, 99, 100, 999999999, 1000000000])
            v = min(max(v, rngs[0]), rngs[1])
            ops.append('shl,%d,%s,%d' % (o, ty, v)); size[o] += len(str(v))
        elif op == 'flt':
            o = rng.choice(sorted(live)); t, n = float_op(rng, o); ops.append(t); size[o] += n
        elif op == 'trunc':
            o = rng.choice(sorted(live)); n = rng.choice([0, 1, size[o] // 2, max(size[o] - 1, 0), size[o], size[o] + 1, 255, 256])
            ops.append('trunc,%d,%d' % (o, n)); size[o] = min(size[o], n)
        elif op == 'erase':
            o = rng.choice(sorted(live)); n = rng.choice([0, 1, size[o] // 2, max(size[o] - 1, 0), size[o], size[o] + 1])
            ops.append('erase,%d,%d' % (o, n)); size[o] = size[o] - n if n < size[o] else 0
        elif op == 'tostr':
            o = rng.choice(sorted(live))
            ops.append('tostr,%d,%s,%s' % (o, rng.choice(['u', 'u', 'l']), rng.choice(['cv', 'si', 'av', 'default'])))
        elif op == 'wide':
            o = rng.choice(sorted(live))
            cps = [rng.choice([0x41, 0xE9, 0x7FF, 0x800, 0x20AC, 0xFFFD, 0x10000, 0x1F600, 0x10FFFF]) for _ in range(rng.choice([1, 2, 5, 40]))]
            u8 = ''.join(chr(c) for c in cps).encode('utf-8').hex()
            if rng.random() < 0.5:
                u = ''.join(chr(c) for c in cps).encode('utf-16-be').hex()
                ops.append('%s,%d,%s,M=%s' % (rng.choice(['shl16', 'shl16s', 'shl16v']), o, u, u8))
            else:
                u = ''.join('%08x' % c for c in cps)
                ops.append('%s,%d,%s,M=%s' % (rng.choice(['shl32', 'shl32s', 'shlw']), o, u, u8))
            size[o] += len(u8) // 2
        elif op == 'del':
            o = rng.choice(sorted(live)); ops.append('del,%d' % o); live.discard(o)
    return ops


def directed(stk):
    out = []
    for first in (0, 1, stk - 1, stk, stk + 1, 2 * stk, 2 * stk + 1, 5 * stk):
        a = '61' * first or '.'
        # growth across every boundary, then truncate / erase, then moves in both storage modes
        out.append(['new,0', 'app,0,' + a, 'appc,0,98,1', 'appc,0,99,%d' % stk, 'trunc,0,%d' % stk, 'erase,0,1', 'del,0'])
        out.append(['new,0', 'app,0,' + a, 'move,1,0', 'app,0,7a', 'app,1,79', 'del,0', 'del,1'])
        out.append(['new,0', 'app,0,' + a, 'move,1,0', 'app,1,79', 'app,0,7a', 'del,1', 'del,0'])
        out.append(['new,0', 'new,1', 'app,0,' + a, 'app,1,6262', 'masg,1,0', 'app,0,7a', 'app,1,79', 'masg,0,1', 'del,0', 'del,1'])
        out.append(['new,0', 'new,1', 'app,0,' + a, 'appc,1,120,%d' % (3 * stk), 'masg,1,0', 'appc,0,121,%d' % (2 * stk), 'del,1', 'del,0'])
        out.append(['new,0', 'app,0,' + a, 'masg,0,0', 'app,0,7a', 'masg,0,0', 'del,0'])
        out.append(['new,0', 'app,0,' + a, 'appc,0,0,0', 'app,0,.', 'shl,0,i32,-2147483648', 'shl,0,ill,-9223372036854775808',
                    'shl,0,ull,18446744073709551615', 'shl,0,u32,0', 'del,0'])
    out.append(['new,0', 'appc,0,65,3000', 'appc,0,66,3000', 'trunc,0,100', 'appc,0,67,8000', 'del,0'])
    for fill in (0, 1, stk - 2, stk - 1, stk, stk + 1, 2 * stk):
        base = ['new,0'] + (['appc,0,97,%d' % fill] if fill else [])
        tost = ['tostr,0,u,cv', 'tostr,0,u,si', 'tostr,0,u,av', 'tostr,0,u,default', 'tostr,0,l,cv']
        out.append(base + ['app,0,c3a9'] + tost + ['app,0,e282'] + tost + ['trunc,0,%d' % (fill + 1)] + tost + ['del,0'])
        out.append(base + ['shl16s,0,00e9d83dde00,M=c3a9f09f9880', 'shl32s,0,0001f600000020ac,M=f09f9880e282ac', 'shlw,0,00000041,M=41']
                   + tost + ['app,0,ff'] + tost + ['del,0'])
    # integer insertion with every remaining capacity 0..21 below each boundary, for texts of 1..20 characters with and
    # without a sign (the sign and the digits are appended separately: each must be accounted for)
    for cap in (stk, 2 * stk, 4 * stk):
        for rem in range(0, 22):
            ops = ['new,0', 'appc,0,97,%d' % (cap - rem)]
            for ty, v in (('i32', -1), ('i32', -12345), ('i32', -2147483648), ('ill', -9223372036854775808), ('i64', -999999999),
                          ('ull', 18446744073709551615), ('u32', 0), ('i64', 12345678901234)):
                ops.append('shl,0,%s,%d' % (ty, v))
                ops.append('appc,0,98,1')
                ops.append('trunc,0,%d' % (cap - rem))
            ops += ['shl,0,i32,-77', 'app,0,7a7a7a', 'del,0']
            out.append(ops)
    # floating-point insertion with every remaining capacity 0..16 below each boundary, for renderings of every length
    for cap in (stk, 2 * stk, 4 * stk):
        for rem in range(0, 17):
            ops = ['new,0', 'appc,0,97,%d' % (cap - rem)]
            for v in (-1.23456789e100, 5.0, -2.2250738585072014e-308, 1234.5):
                b, t = g_double(v)
                ops.append('shld,0,%s,M=%s' % (b, t))
                ops.append('trunc,0,%d' % (cap - rem))
            b, t = g_float(-1.17549435e-38)
            ops += ['shlf,0,%s,M=%s' % (b, t), 'tostr,0,u,cv', 'del,0']
            out.append(ops)
    return out


class C16(vlib.Check):
    pid = 'C16'
    group = 'mem'
    per_case_timeout = 2
    rule = ('directed: first append of every size class around the 256-byte in-object capacity and the doubling boundaries, '
            'then growth, truncate, erase, move construction / move assignment (incl. self) in both storage modes followed by '
            'use of BOTH objects, integer insertion of the extreme values; seeded random well-formed histories (12-20 operations '
            'over 3 slots) whose appends are aimed at landing exactly on / next to capacity boundaries, through the append, '
            'operator<<(const char*), ST::string, std::string, string_view, u8string and char overloads, insertion of UTF-16/UTF-32/'
            'wchar_t text (modelled by composing with the transcoder model), and to_string(utf8|latin1, mode) evaluated on '
            'well-formed and ill-formed contents at every fill level around the capacity. '
            'non-trivial = history with >= 3 operations; distinct = distinct case line')
    modelled_not_verified = ('operator new[]/delete[]', 'std::char_traits copy/move/assign',
                             'size_t overflow of m_size + added_size (appends near 2^64 bytes) is outside the model',
                             'operator<< for float/double: the %g text is the C library\'s (an oracle supplied with the case, C13\'s subject); the '
                             'model is append(text); integer insertion uses Num/Digits.uint_format')

    def gen(self, rng, tier):
        stk = consts()['stack_string_size']
        for h in directed(stk):
            yield 'ss 3 ' + ';'.join(h)
        n = 500 if tier == 'quick' else 24000
        for _ in range(n):
            h = gen_history(rng, stk, 3, rng.choice([8, 12, 20]))
            if h:
                yield 'ss 3 ' + ';'.join(h)

    def allowed(self, case, impl, spec):
        a, b = fields(impl), fields(spec)
        if a is None or b is None or len(a) != len(b):
            return False
        for sa, sb in zip(a, b):
            if len(sa) != len(sb):
                return False
            for fa, fb in zip(sa, sb):
                if fa == fb:
                    continue
                if fb.endswith(':*') and fa.rsplit(':', 1)[0] == fb[:-2]:
                    continue
                return False
        return True

    def same(self, case, impl, model):
        # where the bytes live (in-object vs heap) is a capacity-policy detail the property does not
        # constrain: only 'F' (inside ANOTHER object) is distinguished from own storage
        import re
        norm = lambda l: re.sub(r':[LH](?=;|\||$)', ':S', l)
        return norm(impl) == norm(model)

    def nontrivial(self, case, impl):
        return case.count(';') >= 2

    def shrink_candidates(self, case):
        t = case.split()
        ops = t[2].split(';')
        for i in range(len(ops)):
            c = ops[:i] + ops[i + 1:]
            if c and ok_hist(c):
                yield ' '.join(t[:2] + [';'.join(c)])


def ok_hist(ops):
    live = set()
    for op in ops:
        f = op.split(',')
        o = int(f[1])
        if f[0] in ('new', 'move'):
            if o in live or (f[0] == 'move' and int(f[2]) not in live):
                return False
            live.add(o)
        else:
            if o not in live or (f[0] == 'masg' and int(f[2]) not in live):
                return False
            if f[0] == 'del':
                live.discard(o)
    return True


CHECK = C16()
