"""ST::string history generator shared by C04 (value semantics), C18 (failed operations), C19 (allocation
faults).  Each operation is written once for both sides: the C++ harness reads the positional fields, the
model driver reads the trailing M= field (the operation's memory footprint class and, where a new value
is produced, that value — computed here from the operation's documented meaning on the generator's own
copy of the pool)."""
import os
import re

L = 16
WS = b' \t\r\n'
ALPHA = b'abcxyzABCXYZ 0123456789-_,;'


def hx(b):
    return b.hex() if b else '.'


def rstr(rng, n):
    return bytes(rng.choice(ALPHA) for _ in range(n))


SIZES = [0, 1, 2, L - 1, L, L + 1, 40]


class Pool:
    def __init__(self, rng, pool=4):
        self.rng = rng
        self.pool = pool
        self.val = {}          # live slot -> bytes or None (moved-from: unspecified)
        self.ops = []

    def dead(self):
        return [i for i in range(self.pool) if i not in self.val]

    def known(self):
        return [i for i, v in self.val.items() if v is not None]

    # ---- constructors of new values
    def new(self, o, b):
        self.ops.append('new,%d,%s' % (o, hx(b)))
        self.val[o] = b

    def const_op(self, name, res, src):
        """a const member of src producing a string into the dead slot res"""
        rng = self.rng
        v = self.val[src]
        n = len(v)
        if name == 'substr':
            start = rng.choice([0, 0, 1, n // 2, max(n - 1, 0), n, n + 1])
            count = rng.choice([0, 1, n // 2, n, n + 5, 2 ** 64 - 1])
            op = 'substr,%d,%d,%d,%d' % (res, src, start, count)
            if start > n:
                cls, out = 'empty', b''
            else:
                c = min(count, n - start)
                if start == 0 and c == n:
                    cls, out = 'copy', v
                else:
                    cls, out = 'nrvo', v[start:start + c]
        elif name in ('left', 'right'):
            k = rng.choice([0, 1, n // 2, max(n - 1, 0), n, n + 1, 2 * n + 1])
            op = '%s,%d,%d,%d' % (name, res, src, k)
            kk = min(k, n)
            if kk == n:
                cls, out = 'copy', v
            else:
                cls, out = 'nrvo', (v[:kk] if name == 'left' else v[n - kk:])
        elif name in ('upper', 'lower'):
            op = '%s,%d,%d' % (name, res, src)
            cls, out = 'nrvo', (v.upper() if name == 'upper' else v.lower())
        elif name == 'trim':
            op = 'trim,%d,%d' % (res, src)
            if n == 0:
                cls, out = 'empty', b''
            else:
                t = v.strip(WS)
                if t == v:
                    cls, out = 'copy', v
                else:
                    cls, out = 'nrvo', t
        elif name == 'plus':
            other = rng.choice(self.known())
            op = 'plus,%d,%d,%d' % (res, src, other)
            cls, out = 'mctor', v + self.val[other]
        elif name == 'replace':
            if n and rng.random() < 0.6:
                i = rng.randrange(n)
                frm = v[i:i + rng.choice([1, 2, 3])]
            else:
                frm = rng.choice([b'', b'QQ', b'zzzz'])
            to = rng.choice([b'', b'#', b'<->', frm, rstr(rng, 20)])
            op = 'replace,%d,%d,%s,%s' % (res, src, hx(frm), hx(to))
            if n == 0 or len(frm) == 0:
                cls, out = 'copy', v
            else:
                cls, out = 'masg', v.replace(frm, to)
        elif name == 'replace_self':
            op = 'replace_self,%d,%d' % (res, src)
            cls, out = ('copy', v) if n == 0 else ('masg', v)
        elif name == 'utf8':
            op = 'utf8,%d,%d' % (res, src)
            cls, out = 'copymove', v
        elif name in ('before_first', 'after_last'):
            ch = rng.choice(list(v) + [0x7E]) if n else 0x7E
            op = '%s,%d,%d,%d' % (name, res, src, ch)
            if name == 'before_first':
                i = v.find(bytes([ch]))
                cls, out = ('copy', v) if i < 0 else ('nrvo', v[:i])
            else:
                i = v.rfind(bytes([ch]))
                cls, out = ('copy', v) if i < 0 else ('nrvo', v[i + 1:])
        elif name == 'split0':
            ch = rng.choice([c for c in v if 0 < c < 0x80] + [0x7E]) if n else 0x7E
            op = 'split0,%d,%d,%d' % (res, src, ch)
            cls, out = 'mctor', v.split(bytes([ch]))[0]
        elif name in ('hexenc', 'b64enc', 'hexrt', 'fmt', 'via16', 'via32', 'sstr'):
            # results built through temporaries: M=via:<temporaries, in allocation order>:<result>.  A temporary
            # shorter than the small-buffer limit allocates nothing.  Blocks that are not char buffers (the
            # std::function closures of ST::format, UTF-16/32 buffers, stream growth) are stood for by dummies
            # of a length with the same allocate / do-not-allocate class.
            if any(c >= 0x80 for c in v):
                return self.const_op('copy', res, src)
            import base64 as _b64
            big = b'\0' * 40
            op = '%s,%d,%d' % (name, res, src)
            if name == 'hexenc':
                temps, out = [v], v.hex().encode()
            elif name == 'b64enc':
                temps, out = [v], _b64.b64encode(v)
            elif name == 'hexrt':
                temps, out = [v, v.hex().encode()], v
            elif name == 'fmt':
                temps, out = [big, big], v + b'|' + v.rjust(8)
            elif name == 'via16':
                temps, out = [v], v
            elif name == 'via32':
                temps, out = [big if n >= 12 else b''], v
            else:
                reps = rng.choice([1, 2, 3, 4])
                total = reps * (n + 5)
                if total > 512:
                    reps, total = 1, n + 5
                op += ',%d' % reps
                temps, out = ([big] if total > 256 else []), (v + b'12345') * reps
            cls = 'via:' + '/'.join(hx(t) for t in temps if t)
        elif name == 'empty':
            op = 'empty,%d' % res
            cls, out = 'empty', b''
        elif name == 'copy':
            op = 'copy,%d,%d' % (res, src)
            cls, out = 'copy', v
        else:
            raise ValueError(name)
        m = cls if cls in ('empty', 'copy', 'copymove') else '%s:%s' % (cls, hx(out))
        if cls.startswith('via:') and not out:
            m = cls + ':.'
        self.ops.append(op + ',M=' + m)
        self.val[res] = out

    def self_op(self, o, kind=None):
        """s.set(s.c_str() + k, n), s.set(s.view(k, n)), s = s.c_str() + k, s += s.c_str() + k: the argument lies
        inside the target's own storage (a proper sub-range unless k = 0 and n = size)"""
        rng = self.rng
        v = self.val[o]
        if any(c >= 0x80 for c in v):
            return
        n = len(v)
        k = rng.choice([0, 1, n // 2, max(n - 1, 0)]) if n else 0
        k = min(k, n)
        cnt = min(rng.choice([0, 1, (n - k) // 2, n - k]), n - k)
        kind = kind or rng.choice(['selfset', 'selfview', 'selfasg', 'selfappend'])
        if kind in ('selfasg', 'selfappend') and 0 in v:
            kind = 'selfset'
        if kind in ('selfset', 'selfview'):
            out = v[k:k + cnt]
            self.ops.append('%s,%d,%d,%d,M=set:%s' % (kind, o, k, cnt, hx(out)))
        elif kind == 'selfasg':
            out = v[k:]
            self.ops.append('selfasg,%d,%d,M=set:%s' % (o, k, hx(out)))
        else:
            out = v + v[k:]
            self.ops.append('selfappend,%d,%d,M=cat:%s' % (o, k, hx(out)))
        self.val[o] = out

    CONST = ['substr', 'substr', 'left', 'right', 'upper', 'lower', 'trim', 'plus', 'replace', 'replace',
             'replace_self', 'utf8', 'before_first', 'after_last', 'split0', 'empty', 'copy', 'copy',
             'hexenc', 'b64enc', 'hexrt', 'fmt', 'via16', 'via32', 'sstr']

    def step(self):
        rng = self.rng
        dead, known, live = self.dead(), self.known(), sorted(self.val)
        ch = []
        if dead:
            ch += ['new'] * 3
            if known:
                ch += ['const'] * 8
            if live:
                ch += ['mctor'] * 2
        if live:
            ch += ['reads'] * 2 + ['asg'] * 2 + ['masg'] * 3 + ['set'] * 2 + ['clear', 'del', 'del']
            if known:
                ch += ['self'] * 2
            if known:
                ch += ['append'] * 3
        k = rng.choice(ch)
        if k == 'new':
            self.new(rng.choice(dead), rstr(rng, rng.choice(SIZES)))
        elif k == 'const':
            self.const_op(rng.choice(self.CONST), rng.choice(dead), rng.choice(known))
        elif k == 'reads':
            o = rng.choice(known) if known else None
            if o is not None:
                self.ops.append('reads,%d' % o)
        elif k == 'self':
            o = rng.choice(known)
            r = rng.random()
            if r < 0.6:
                self.self_op(o)
            elif r < 0.75:
                nv = rstr(rng, rng.choice(SIZES))
                self.ops.append('utf8ref,%d,%s,M=set:%s' % (o, hx(nv), hx(nv)))
                self.val[o] = nv
            elif r < 0.9 or not dead:
                src = rng.choice(known)
                self.ops.append('svlv,%d,%d,M=set:%s' % (o, src, hx(self.val[src])))
                self.val[o] = self.val[src]
            else:
                src, res = rng.choice(known), rng.choice(dead)
                self.ops.append('fvlv,%d,%d,M=copymove:%s' % (res, src, hx(self.val[src])))
                self.val[res] = self.val[src]
        elif k == 'mctor':
            o, s = rng.choice(dead), rng.choice(live)
            self.ops.append('mctor,%d,%d' % (o, s))
            self.val[o] = self.val[s]
            self.val[s] = None
        elif k == 'asg':
            o, s = rng.choice(live), rng.choice(live)
            self.ops.append('asg,%d,%d' % (o, s))
            self.val[o] = self.val[s]
        elif k == 'masg':
            o, s = rng.choice(live), rng.choice(live)
            self.ops.append('masg,%d,%d' % (o, s))
            if o != s:
                self.val[o] = self.val[s]
                self.val[s] = None
        elif k == 'set':
            o = rng.choice(live)
            b = rstr(rng, rng.choice(SIZES))
            self.ops.append('set,%d,%s' % (o, hx(b)))
            self.val[o] = b
        elif k == 'append':
            o, s = rng.choice(known), rng.choice(known)     # o += s, s may be o itself
            cat = self.val[o] + self.val[s]
            self.ops.append('append,%d,%d,M=cat:%s' % (o, s, hx(cat)))
            self.val[o] = cat
        elif k == 'clear':
            o = rng.choice(live)
            self.ops.append('clear,%d' % o)
            self.val[o] = b''
        elif k == 'del':
            o = rng.choice(live)
            self.ops.append('del,%d' % o)
            del self.val[o]

    def finish(self):
        for o in sorted(self.val):
            self.ops.append('del,%d' % o)
        self.val = {}
        return self.ops


def random_history(rng, nops=12, pool=4):
    p = Pool(rng, pool)
    for _ in range(nops):
        p.step()
    return p.finish()


def directed_histories(rng):
    """every const operation on a source of every size class; the result is then mutated / destroyed and the
    source re-read; the source is then mutated / destroyed and the result re-read; self-referential calls"""
    out = []
    for n in SIZES:
        for name in sorted(set(Pool.CONST)):
            for order in (0, 1):
                p = Pool(rng, 4)
                p.new(0, rstr(rng, n) if name != 'trim' else b'  ' + rstr(rng, max(n - 4, 0)) + b'\t ')
                p.new(2, rstr(rng, 20))
                p.const_op(name, 1, 0)
                p.ops.append('reads,0')
                if order == 0:
                    p.ops += ['set,1,5a5a5a5a5a5a5a5a5a5a5a5a5a5a5a5a5a5a', 'reads,0', 'del,1', 'reads,0', 'append,0,2,M=cat:%s' % hx(p.val[0] + p.val[2]), 'del,0', 'del,2']
                else:
                    cat = p.val[0] + p.val[2]
                    p.ops += ['append,0,2,M=cat:%s' % hx(cat), 'reads,1', 'del,0', 'reads,1', 'set,1,41', 'del,1', 'del,2']
                out.append(p.ops)
        for rep in range(2):
            p = Pool(rng, 4)
            v0 = rstr(rng, n)
            p.new(0, v0)
            p.new(1, rstr(rng, 20))
            nv = rstr(rng, 18 if rep else 3)
            p.ops.append('utf8ref,0,%s,M=set:%s' % (hx(nv), hx(nv))); p.val[0] = nv
            p.ops.append('fvlv,2,0,M=copymove:%s' % hx(nv)); p.val[2] = nv
            p.ops.append('svlv,1,0,M=set:%s' % hx(nv)); p.val[1] = nv
            p.ops += ['reads,0', 'reads,1', 'reads,2', 'del,0', 'del,1', 'del,2']
            out.append(p.ops)
        for kind in ('selfset', 'selfview', 'selfasg', 'selfappend'):
            for rep in range(2):
                p = Pool(rng, 4)
                p.new(0, rstr(rng, n))
                p.new(1, rstr(rng, 20))
                p.self_op(0, kind)
                p.ops.append('reads,0')
                p.self_op(0, kind)
                p.ops += ['reads,0', 'reads,1', 'del,0', 'del,1']
                out.append(p.ops)
        v = rstr(rng, n)
        out.append(['new,0,' + hx(v), 'asg,0,0', 'reads,0', 'append,0,0,M=cat:' + hx(v + v), 'reads,0',
                    'replace_self,1,0,M=' + ('copy' if not v else 'masg:' + hx(v + v)), 'masg,0,0', 'del,0', 'del,1'])
        out.append(['new,0,' + hx(v), 'copy,1,0,M=copy', 'mctor,2,0', 'set,0,71', 'reads,1', 'masg,1,2', 'reads,0', 'del,2', 'del,1', 'del,0'])
    return out


# ---------------------------------------------------------------- failing operations (C18)
BAD_UTF8 = [b'\x80', b'abc\xc3', b'\xe2\x82', b'xy\xff', b'\xf0\x9f\x98', b'ok\xc0\x20tail', b'\xf8\x88\x80\x80\x80',
            b'a' * 20 + b'\xbf', b'\xed\xa0' + b'z' * 30]
BAD_U16 = ['d800', '0041dc00', 'd83d0041', '00410042d800', 'dc00' + '0061' * 20]
BAD_U32 = ['00110000', '0000004100110000', 'ffffffff', '7fffffff' + '00000061' * 20]
BAD_HEX = [b'abc', b'zz', b'0g', b'12345', b'00' * 20 + b'x0', b'4', b'\x80\x80']
BAD_B64 = [b'abc', b'A===', b'====', b'QUJD!AAA', b'AA=A', b'\xff\xff\xff\xff', b'QUJD' * 8 + b'A', b'QQ=QQQ==']
FMT_FAIL = [('unterminated', 'bad_format'), ('badchar', 'bad_format'), ('missing', 'out_of_range'),
            ('index', 'out_of_range'), ('noarg', 'out_of_range'), ('badutf8', 'unicode_error')]
# failing format calls whose argument is passed as an rvalue (std::move): every sink front end
FMT_MOVE_FAIL = [('unterminated', 'bad_format'), ('badchar', 'bad_format'), ('missing', 'out_of_range'),
                 ('index', 'out_of_range'), ('badutf8', 'unicode_error'), ('latin1', 'out_of_range'),
                 ('printf', 'bad_format'), ('writef', 'out_of_range')]


def failing_op(pool):
    """append one throwing operation to pool.ops; nothing in pool.val changes (that is the property)"""
    rng = pool.rng
    live = sorted(pool.val)
    known = pool.known()
    o = rng.choice(live)
    kind = rng.choice(['setfail', 'setfail', 'setcfail', 'ctorfail', 'appfail', 'plusfail', 'set16fail', 'set32fail',
                       'from16fail', 'hexfail', 'b64fail', 'fmtfail', 'latin1fail', 'setmfail', 'ctorbuffail',
                       'fmtmovefail', 'fmtmovefail', 'fmtmovestd', 'fmtmoveuser'])
    if kind in ('setfail', 'setcfail', 'ctorfail', 'setmfail', 'ctorbuffail'):
        b = rng.choice(BAD_UTF8)
        if kind == 'setcfail':
            b = b.replace(b'\x00', b'')
        pool.ops.append('%s,%d,%s,M=throw:unicode_error:%s' % (kind, o, hx(b), hx(b)))
    elif kind in ('appfail', 'plusfail'):
        if not known:
            return
        o = rng.choice(known)
        cp = rng.choice([0x110000, 0x7FFFFFFF, 0xFFFFFFFF, 0x200000])
        pool.ops.append('%s,%d,%d,M=throw:unicode_error:%s' % (kind, o, cp, hx(pool.val[o] + b'\0\0\0')))
    elif kind in ('set16fail', 'from16fail'):
        u = rng.choice(BAD_U16)
        pool.ops.append('%s,%d,%s,M=throw:unicode_error:%s' % (kind, o, u, hx(b'\0' * (3 * (len(u) // 4)))))
    elif kind == 'set32fail':
        u = rng.choice(BAD_U32)
        pool.ops.append('%s,%d,%s,M=throw:unicode_error:%s' % (kind, o, u, hx(b'\0' * (3 * (len(u) // 8)))))
    elif kind == 'hexfail':
        b = rng.choice(BAD_HEX)
        temps = hx(b) + ('' if len(b) % 2 else '/' + hx(b'\0' * (len(b) // 2)))
        pool.ops.append('hexfail,%d,%s,M=throw:codec_error:%s' % (o, hx(b), temps))
    elif kind == 'b64fail':
        b = rng.choice(BAD_B64)
        pool.ops.append('b64fail,%d,%s,M=throw:codec_error:%s' % (o, hx(b), hx(b)))
    elif kind == 'fmtfail':
        k, e = rng.choice(FMT_FAIL)
        if k != 'noarg' and not known:
            return
        if k != 'noarg':
            o = rng.choice(known)
        pool.ops.append('fmtfail,%d,%s,M=throw:%s:' % (o, k, e))
    elif kind == 'fmtmovefail':
        if not known:
            return
        o = rng.choice(known)
        k, e = rng.choice(FMT_MOVE_FAIL)
        # the callee keeps copies of the argument while it runs (by-value parameter, closure): temporaries
        pool.ops.append('fmtmovefail,%d,%s,M=throw:%s:%s/%s' % (o, k, e, hx(pool.val[o]), hx(pool.val[o])))
    elif kind == 'fmtmoveuser':
        b = rstr(rng, rng.choice(SIZES))
        k, e = rng.choice([('missing', 'out_of_range'), ('later', 'bad_format'), ('open', 'bad_format')])
        pool.ops.append('fmtmoveuser,%d,%s,%s,M=throw:%s:%s/%s' % (o, hx(b), k, e, hx(b), hx(b)))
    elif kind == 'fmtmovestd':
        b = rstr(rng, rng.choice(SIZES))
        pool.ops.append('fmtmovestd,%d,%s,%s,M=throw:%s:%s' % (o, hx(b), *rng.choice([('missing', 'out_of_range'), ('open', 'bad_format')]), hx(b)))
    elif kind == 'latin1fail':
        # needs a string holding a character >= U+0100
        dead = pool.dead()
        if not dead:
            return
        d = dead[0]
        v = rng.choice([b'\xc4\x80', b'abc\xe2\x82\xac', b'x' * 20 + b'\xf0\x9f\x98\x80'])
        pool.new(d, v)
        pool.ops.append('latin1fail,%d,M=throw:unicode_error:%s' % (d, hx(b'\0' * len(v))))
        # the out-parameter forms: the caller's buffer / std::string holds a previous value of some size class
        for k in ('tobuffail', 'tobufvfail', 'tostdfail'):
            prev = rstr(rng, rng.choice(SIZES))
            pool.ops.append('%s,%d,%s,M=throw:unicode_error:%s/%s' % (k, d, hx(prev), hx(prev), hx(b'\0' * len(v))))
        # the non-ASCII helper string does not stay in the pool (later byte-level operations on it, e.g. a replace
        # that cuts a multi-byte character, legitimately throw from result validation)
        pool.ops.append('reads,%d' % d)
        pool.ops.append('del,%d' % d)
        del pool.val[d]


def tailored_failing_ops(pool, o):
    """failing conversions whose would-be UTF-8 result has exactly the target's current byte length (an
    implementation that converts in place / reuses storage when sizes match would corrupt the target), with the
    invalid unit after a valid prefix that differs from the current text"""
    v = pool.val.get(o)
    if v is None or len(v) < 3:
        return
    n = len(v)
    pre = n - 3                      # an unpaired surrogate / out-of-range unit measures 3 bytes
    u16 = ''.join('%04x' % (0x58 + (i % 3)) for i in range(pre)) + 'd800'
    u16m = ''.join('%04x' % (0x58 + (i % 3)) for i in range(pre // 2)) + 'dc00' + ''.join('0059' for _ in range(pre - pre // 2))
    u32 = ''.join('%08x' % (0x58 + (i % 3)) for i in range(pre)) + '00110000'
    tmp = hx(b'\0' * n)
    for kind, u in (('set16fail', u16), ('from16fail', u16), ('set16fail', u16m), ('set32fail', u32)):
        pool.ops.append('%s,%d,%s,M=throw:unicode_error:%s' % (kind, o, u, tmp))
    # same-length ill-formed UTF-8: valid prefix, bad tail
    b = bytes((0x58 + (i % 3)) for i in range(n - 1)) + b'\xc3'
    pool.ops.append('setfail,%d,%s,M=throw:unicode_error:%s' % (o, hx(b), hx(b)))
    pool.ops.append('setcfail,%d,%s,M=throw:unicode_error:%s' % (o, hx(b), hx(b)))


def failing_history(rng, nops=10, pool=4):
    p = Pool(rng, pool)
    for _ in range(nops):
        if p.val and rng.random() < 0.4:
            if rng.random() < 0.3 and p.known():
                tailored_failing_ops(p, rng.choice(p.known()))
            else:
                failing_op(p)
        else:
            p.step()
    return p.finish()


def directed_failing(rng):
    """every failing operation against a target of every size class, followed by normal use of the target"""
    out = []
    for n in SIZES:
        for reps in range(3):
            p = Pool(rng, 4)
            p.new(0, rstr(rng, n))
            p.new(1, rstr(rng, 25))
            for _ in range(6):
                failing_op(p)
            tailored_failing_ops(p, 0)
            tailored_failing_ops(p, 1)
            if reps == 0:
                for k, e in FMT_MOVE_FAIL:
                    for o in (0, 1):
                        p.ops.append('fmtmovefail,%d,%s,M=throw:%s:%s/%s' % (o, k, e, hx(p.val[o]), hx(p.val[o])))
                b = bytes(p.val[0])
                for k, e in (('missing', 'out_of_range'), ('open', 'bad_format')):
                    p.ops.append('fmtmovestd,0,%s,%s,M=throw:%s:%s' % (hx(b), k, e, hx(b)))
                for k, e in (('missing', 'out_of_range'), ('later', 'bad_format'), ('open', 'bad_format')):
                    p.ops.append('fmtmoveuser,0,%s,%s,M=throw:%s:%s/%s' % (hx(b), k, e, hx(b), hx(b)))
                bad = BAD_UTF8[0]
                p.ops.append('setmfail,0,%s,M=throw:unicode_error:%s' % (hx(bad), hx(bad)))
                p.ops.append('ctorbuffail,0,%s,M=throw:unicode_error:%s' % (hx(bad), hx(bad)))
            p.ops.append('reads,0')
            cat = p.val[0] + p.val[1] if p.val.get(0) is not None else None
            if cat is not None:
                p.ops.append('append,0,1,M=cat:%s' % hx(cat))
                p.val[0] = cat
            out.append(p.finish())
    return out
