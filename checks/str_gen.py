"""ST::string history generator shared by C04 (value semantics), C18 (failed operations), C19 (allocation
faults).  Each operation is written once for both sides: the C++ harness reads the positional fields, the
model driver reads the trailing M= field (the operation's memory footprint class and, where a new value
is produced, that value — computed here from the operation's documented meaning on the generator's own
copy of the pool)."""
import os
import re

L = 16
WS = b' \t\r\n'
ALPHA = b'abcxyzABCXYZ 0123456789-_,;'


def hx(b):
    return b.hex() if b else '.'


def rstr(rng, n):
    return bytes(rng.choice(ALPHA) for _ in range(n))


SIZES = [0, 1, 2, L - 1, L, L + 1, 40]


class Pool:
    def __init__(self, rng, pool=4):
        self.rng = rng
        self.pool = pool
        self.val = {}          # live slot -> bytes or None (moved-from: unspecified)
        self.ops = []

    def dead(self):
        return [i for i in range(self.pool) if i not in self.val]

    def known(self):
        return [i for i, v in self.val.items() if v is not None]

    # ---- constructors of new values
    def new(self, o, b):
        self.ops.append('new,%d,%s' % (o, hx(b)))
        self.val[o] = b

    def const_op(self, name, res, src):
        """a const member of src producing a string into the dead slot res"""
        rng = self.rng
        v = self.val[src]
        n = len(v)
        if name == 'substr':
            start = rng.choice([0, 0, 1, n // 2, max(n - 1, 0), n, n + 1])
            count = rng.choice([0, 1, n // 2, n, n + 5, 2 ** 64 - 1])
            op = 'substr,%d,%d,%d,%d' % (res, src, start, count)
            if start > n:
                cls, out = 'empty', b''
            else:
                c = min(count, n - start)
                if start == 0 and c == n:
                    cls, out = 'copy', v
                else:
                    cls, out = 'nrvo', v[start:start + c]
        elif name in ('left', 'right'):
            k = rng.choice([0, 1, n // 2, max(n - 1, 0), n, n + 1, 2 * n + 1])
            op = '%s,%d,%d,%d' % (name, res, src, k)
            kk = min(k, n)
            if kk == n:
                cls, out = 'copy', v
            else:
                cls, out = 'nrvo', (v[:kk] if name == 'left' else v[n - kk:])
        elif name in ('upper', 'lower'):
            op = '%s,%d,%d' % (name, res, src)
            cls, out = 'nrvo', (v.upper() if name == 'upper' else v.lower())
        elif name == 'trim':
            op = 'trim,%d,%d' % (res, src)
            if n == 0:
                cls, out = 'empty', b''
            else:
                t = v.strip(WS)
                if t == v:
                    cls, out = 'copy', v
                else:
                    cls, out = 'nrvo', t
        elif name == 'plus':
            other = rng.choice(self.known())
            op = 'plus,%d,%d,%d' % (res, src, other)
            cls, out = 'mctor', v + self.val[other]
        elif name == 'replace':
            if n and rng.random() < 0.6:
                i = rng.randrange(n)
                frm = v[i:i + rng.choice([1, 2, 3])]
            else:
                frm = rng.choice([b'', b'QQ', b'zzzz'])
            to = rng.choice([b'', b'#', b'<->', frm, rstr(rng, 20)])
            op = 'replace,%d,%d,%s,%s' % (res, src, hx(frm), hx(to))
            if n == 0 or len(frm) == 0:
                cls, out = 'copy', v
            else:
                cls, out = 'masg', v.replace(frm, to)
        elif name == 'replace_self':
            op = 'replace_self,%d,%d' % (res, src)
            cls, out = ('copy', v) if n == 0 else ('masg', v)
        elif name == 'utf8':
            op = 'utf8,%d,%d' % (res, src)
            cls, out = 'copymove', v
        elif name in ('before_first', 'after_last'):
            ch = rng.choice(list(v) + [0x7E]) if n else 0x7E
            op = '%s,%d,%d,%d' % (name, res, src, ch)
            if name == 'before_first':
                i = v.find(bytes([ch]))
                cls, out = ('copy', v) if i < 0 else ('nrvo', v[:i])
            else:
                i = v.rfind(bytes([ch]))
                cls, out = ('copy', v) if i < 0 else ('nrvo', v[i + 1:])
        elif name == 'split0':
            ch = rng.choice([c for c in v if 0 < c < 0x80] + [0x7E]) if n else 0x7E
            op = 'split0,%d,%d,%d' % (res, src, ch)
            cls, out = 'mctor', v.split(bytes([ch]))[0]
        elif name == 'empty':
            op = 'empty,%d' % res
            cls, out = 'empty', b''
        elif name == 'copy':
            op = 'copy,%d,%d' % (res, src)
            cls, out = 'copy', v
        else:
            raise ValueError(name)
        m = cls if cls in ('empty', 'copy', 'copymove') else '%s:%s' % (cls, hx(out))
        self.ops.append(op + ',M=' + m)
        self.val[res] = out

    CONST = ['substr', 'substr', 'left', 'right', 'upper', 'lower', 'trim', 'plus', 'replace', 'replace',
             'replace_self', 'utf8', 'before_first', 'after_last', 'split0', 'empty', 'copy', 'copy']

    def step(self):
        rng = self.rng
        dead, known, live = self.dead(), self.known(), sorted(self.val)
        ch = []
        if dead:
            ch += ['new'] * 3
            if known:
                ch += ['const'] * 8
            if live:
                ch += ['mctor'] * 2
        if live:
            ch += ['reads'] * 2 + ['asg'] * 2 + ['masg'] * 3 + ['set'] * 2 + ['clear', 'del', 'del']
            if known:
                ch += ['append'] * 3
        k = rng.choice(ch)
        if k == 'new':
            self.new(rng.choice(dead), rstr(rng, rng.choice(SIZES)))
        elif k == 'const':
            self.const_op(rng.choice(self.CONST), rng.choice(dead), rng.choice(known))
        elif k == 'reads':
            o = rng.choice(known) if known else None
            if o is not None:
                self.ops.append('reads,%d' % o)
        elif k == 'mctor':
            o, s = rng.choice(dead), rng.choice(live)
            self.ops.append('mctor,%d,%d' % (o, s))
            self.val[o] = self.val[s]
            self.val[s] = None
        elif k == 'asg':
            o, s = rng.choice(live), rng.choice(live)
            self.ops.append('asg,%d,%d' % (o, s))
            self.val[o] = self.val[s]
        elif k == 'masg':
            o, s = rng.choice(live), rng.choice(live)
            self.ops.append('masg,%d,%d' % (o, s))
            if o != s:
                self.val[o] = self.val[s]
                self.val[s] = None
        elif k == 'set':
            o = rng.choice(live)
            b = rstr(rng, rng.choice(SIZES))
            self.ops.append('set,%d,%s' % (o, hx(b)))
            self.val[o] = b
        elif k == 'append':
            o, s = rng.choice(known), rng.choice(known)     # o += s, s may be o itself
            cat = self.val[o] + self.val[s]
            self.ops.append('append,%d,%d,M=cat:%s' % (o, s, hx(cat)))
            self.val[o] = cat
        elif k == 'clear':
            o = rng.choice(live)
            self.ops.append('clear,%d' % o)
            self.val[o] = b''
        elif k == 'del':
            o = rng.choice(live)
            self.ops.append('del,%d' % o)
            del self.val[o]

    def finish(self):
        for o in sorted(self.val):
            self.ops.append('del,%d' % o)
        self.val = {}
        return self.ops


def random_history(rng, nops=12, pool=4):
    p = Pool(rng, pool)
    for _ in range(nops):
        p.step()
    return p.finish()


def directed_histories(rng):
    """every const operation on a source of every size class; the result is then mutated / destroyed and the
    source re-read; the source is then mutated / destroyed and the result re-read; self-referential calls"""
    out = []
    for n in SIZES:
        for name in sorted(set(Pool.CONST)):
            for order in (0, 1):
                p = Pool(rng, 4)
                p.new(0, rstr(rng, n) if name != 'trim' else b'  ' + rstr(rng, max(n - 4, 0)) + b'\t ')
                p.new(2, rstr(rng, 20))
                p.const_op(name, 1, 0)
                p.ops.append('reads,0')
                if order == 0:
                    p.ops += ['set,1,5a5a5a5a5a5a5a5a5a5a5a5a5a5a5a5a5a5a', 'reads,0', 'del,1', 'reads,0', 'append,0,2,M=cat:%s' % hx(p.val[0] + p.val[2]), 'del,0', 'del,2']
                else:
                    cat = p.val[0] + p.val[2]
                    p.ops += ['append,0,2,M=cat:%s' % hx(cat), 'reads,1', 'del,0', 'reads,1', 'set,1,41', 'del,1', 'del,2']
                out.append(p.ops)
        v = rstr(rng, n)
        out.append(['new,0,' + hx(v), 'asg,0,0', 'reads,0', 'append,0,0,M=cat:' + hx(v + v), 'reads,0',
                    'replace_self,1,0,M=' + ('copy' if not v else 'masg:' + hx(v + v)), 'masg,0,0', 'del,0', 'del,1'])
        out.append(['new,0,' + hx(v), 'copy,1,0,M=copy', 'mctor,2,0', 'set,0,71', 'reads,1', 'masg,1,2', 'reads,0', 'del,2', 'del,1', 'del,0'])
    return out
