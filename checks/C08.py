"""C08: slicing returns the clamped byte range for every position, count and separator.
substr / left / right over every size class with start and count at the integer limits,
the three trims over a small alphabet incl. NUL, the twelve before/after overloads (char,
const char*, char8_t*, ST::string) over exhaustive small subjects x separators of length 0..3,
both case modes."""
import vlib
from slice_gen import *

SEPS_CS = [b'', b'a', b'-', b'aa', b'a-', b'-a', b'--', b'aaa', b'a-a', b'-a-', b'---', b'aaaaaaa']
SEPS_CI = [b'A', b'a', b'aA', b'Aa', b'-A', b'a-A', b'AAA', b'Z', b'[', b'@']
SEPS_NUL = [b'\x00', b'a\x00', b'\x00a', b'\x00\x00']
OPS = ('bf', 'af', 'bl', 'al')


class C08(vlib.Check):
    pid = 'C08'
    group = 'slice'
    per_case_timeout = 5
    rule = ('substr: every size class (0,1,15,16,17,40, plain and with NUL/high bytes) x start in {SSIZE_MIN, -size-1, -size, -1, 0, 1, '
            'size-1, size, size+1, SSIZE_MAX, ...} x count in {0, 1, size, size+1, SIZE_MAX-start-1 .. SIZE_MAX, 2^63-1 .. 2^63+1}; all '
            '(start,count) in a window around [-size-2, size+2] for sizes <= 5; left/right with n in 0..2*size+1 and at the limits; '
            'trim_left/trim_right/trim over all subjects of length <= 5 (thorough 6) over {space, a, NUL, x} x 5 charsets + default; '
            'before/after: all subjects of length <= 5 (quick; thorough 6) over {a,-,NUL} and {a,A,-} x separators of length 0..3 '
            '(self-overlapping, longer than subject, with NUL for the char / ST::string forms) x 4 ops x forms c/z/u/s x both case modes, '
            'plus a seeded sample of longer subjects (up to 300 bytes) with separators cut from the subject. '
            'non-trivial = non-empty subject; distinct = distinct case line')
    modelled_not_verified = (
        'ST::string::from_validated, the copy constructor (return *this) and char_buffer::allocate + char_traits::copy are modelled as '
        'exact-size arrays with bounds-checked reads (their own behaviour is C04/C05\'s subject)',
        'the find primitives are the shared Str/Model.v (C07\'s subject); this group proves what it needs about them itself',
        'negative-start clamp: a start below -size is clamped to 0 and `count` bytes are taken from there (DESIGN.md reading of the property)',
    )

    def gen(self, rng, tier):
        thorough = tier == 'thorough'
        # a soak of consecutive calls on one thread (results may not depend on how many calls went before)
        yield 'soak 600'
        strs = class_strings(rng)
        # ---- substr at the limits
        for s in strs:
            n = len(s)
            starts = sorted(set([SSIZE_MIN, SSIZE_MIN + 1, -n - 2, -n - 1, -n, -n + 1, -2, -1, 0, 1, 2, n - 1, n, n + 1,
                                 n + 2, 1 << 32, SSIZE_MAX - 1, SSIZE_MAX]))
            for st in starts:
                counts = set([0, 1, 2, max(n - 1, 0), n, n + 1, (1 << 63) - 1, 1 << 63, (1 << 63) + 1, SIZE_MAX - 1, SIZE_MAX,
                              SIZE_MAX - n, SIZE_MAX - n + 1, SIZE_MAX - n - 1])
                for d in (-2, -1, 0, 1, 2):
                    counts.add((SIZE_MAX - st + d) % (1 << 64))
                    counts.add((SIZE_MAX - (st % (1 << 64)) + d) % (1 << 64))
                for c in sorted(counts):
                    yield 'substr %s %d %d' % (hx(s), st, c)
            for k in sorted(set(list(range(0, 2 * n + 3)) + [SIZE_MAX, SIZE_MAX - 1, SIZE_MAX - n, 1 << 63, (1 << 63) - 1, SSIZE_MAX + n])):
                yield 'left %s %d' % (hx(s), k)
                yield 'right %s %d' % (hx(s), k)
        # ---- every (start, count) in a window, small sizes
        for n in range(0, 6 if not thorough else 9):
            s = b'abcdefghi'[:n]
            for st in range(-n - 2, n + 3):
                for c in list(range(0, n + 3)) + [SIZE_MAX - k for k in range(0, n + 3)]:
                    yield 'substr %s %d %d' % (hx(s), st, c)
        # ---- trim
        sets = ['=', '20', '6120', '.', '7809200a', '8020']
        for s in words(b' a\x00x', 6 if thorough else 5):
            for cset in (sets if len(s) <= 4 or thorough else sets[:3]):
                yield 'trim_left %s %s' % (hx(s), cset)
                yield 'trim_right %s %s' % (hx(s), cset)
                yield 'trim %s %s' % (hx(s), cset)
        for s in strs:
            for cset in ('=', '6162', hx(bytes(set(s) - {0}))):
                for op in ('trim_left', 'trim_right', 'trim'):
                    yield '%s %s %s' % (op, hx(s), cset)
        for _ in range(300 if not thorough else 5000):
            n = rng.choice([1, 2, 3, 7, 15, 16, 17, 30, 40])
            s = rand_bytes(rng, n, b' \t\r\n\x00ab\x80')
            cset = rng.choice(['=', '20', '090a', '80200a', '6120'])
            yield '%s %s %s' % (rng.choice(['trim_left', 'trim_right', 'trim']), hx(s), cset)
        # ---- before / after, exhaustive small
        maxlen = 6 if thorough else 5
        subj_cs = list(words(b'a-\x00', maxlen))
        subj_ci = list(words(b'aA-', maxlen))
        for s in subj_cs:
            for sep in SEPS_CS + SEPS_NUL:
                for c in self.ba_cases(s, sep, ('cs',)):
                    yield c
        for s in subj_ci:
            for sep in SEPS_CI:
                for c in self.ba_cases(s, sep, ('cs', 'ci')):
                    yield c
        for s in strs[:6]:
            for op in OPS:
                yield '%s_z %s - cs' % (op, hx(s))
                yield '%s_u %s - ci' % (op, hx(s))
        # ---- seeded: medium subjects over a small alphabet (quick) and long ones
        # long separators (8..17 bytes: word-at-a-time comparison territory) with near-occurrences that differ only in
        # bit 5 of a letter (matches case-insensitively only), of a non-letter, of NUL / space or of a high byte (never)
        flip_classes = [b'abcXYZ', b'[{@`', b'\x00 ', b'\xc9\xe9\xc1\xda', b'_\x7f', b'19']
        for n in (8, 9, 15, 16, 17):
            for ci_flip in flip_classes:
                for rep in range(2 if not thorough else 10):
                    base = bytes(rng.choice(b'abcxyz019,;') for _ in range(n))
                    pos = rng.randrange(n)
                    sep = bytearray(base)
                    sep[pos] = rng.choice(ci_flip)
                    sep = bytes(sep)
                    near = bytearray(sep)
                    near[pos] ^= 0x20
                    near = bytes(near)
                    subj = b'p' + near + b'-' + sep + b'q' + near.swapcase() + b'r'
                    for c in self.ba_cases(subj, sep, ('cs', 'ci')):
                        yield c
                    for c in self.ba_cases(b'p' + near + b'q', sep, ('cs', 'ci')):
                        yield c
        # long subjects: the separator straddling every 1 KiB boundary counted from either end
        for subj, sep, o in block_boundary_subjects(rng, thorough):
            for c in self.ba_cases(subj, sep, ('cs',)):
                yield c
            for c in self.ba_cases(subj.swapcase(), sep, ('ci',)):
                yield c
        for _ in range(1500 if not thorough else 30000):
            n = rng.choice([5, 6, 7, 8, 15, 16, 17, 18, 31, 40, 100, 300]) if rng.random() < 0.3 else rng.randrange(5, 10)
            s = rand_bytes(rng, n, rng.choice([b'ab', b'aA-', b'ab\x00', b'abcABC\xc3\xa9\x00-']))
            k = rng.random()
            if k < 0.6:
                i = rng.randrange(n)
                sep = s[i:i + rng.choice([1, 1, 2, 2, 3, 5])]
            elif k < 0.8:
                sep = rand_bytes(rng, rng.choice([1, 2, 3]), b'abA-')
            else:
                sep = s + b'a' if k < 0.9 else b''
            if rng.random() < 0.3:
                sep = sep.swapcase()
            for c in self.ba_cases(s, sep, (rng.choice(['cs', 'ci']),)):
                yield c

    @staticmethod
    def ba_cases(s, sep, modes):
        h, p = hx(s), hx(sep)
        for cs in modes:
            for op in OPS:
                yield '%s_s %s %s %s' % (op, h, p, cs)
                if len(sep) == 1:
                    yield '%s_c %s %s %s' % (op, h, p, cs)
                if cstr_ok(sep):
                    yield '%s_z %s %s %s' % (op, h, p, cs)
                    if len(sep) >= 2 or not s:
                        yield '%s_u %s %s %s' % (op, h, p, cs)
                elif len(sep) > 1:
                    # a C string with an embedded NUL: the overload sees only the part before it
                    yield '%s_z %s %s %s' % (op, h, p, cs)

    def same(self, case, impl, model):
        if model == 'FAULT AllocTooBig' and impl in ('THROW bad_alloc', 'FAULT AllocTooBig'):
            return True
        return impl == model

    def nontrivial(self, case, impl):
        t = case.split()
        return len(t) > 1 and t[1] != '.'

    def shrink_candidates(self, case):
        t = case.split()
        if t[0] in ('substr', 'left', 'right'):
            return shrink_hex_args(case, (1,))
        return shrink_hex_args(case, (1, 2))

    def summarize(self, cases, impl):
        d = super().summarize(cases, impl)
        sizes = {}
        for c in cases:
            t = c.split()
            if t[0] == 'soak':
                continue
            n = len(unhx(t[1]))
            k = str(n) if n in (0, 1, 15, 16, 17, 40) else ('2-14' if n < 15 else '18+')
            sizes[k] = sizes.get(k, 0) + 1
        d['subject_size'] = sizes
        return d


CHECK = C08()
