"""C01: well-formed text transcodes losslessly and to the standard encoding.
Every case is a sequence of Unicode scalar values; the source units are produced by Python's
own codecs, the expected result is the Coq Spec's standard encoding of the same scalars
(the driver also checks that both encoders agree on the source)."""
import vlib
from utf_gen import *


class C01(UtfCheck):
    pid = 'C01'
    rule = ('well-formed input only. directed: every boundary scalar {0,7F,80,7FF,800,D7FF,E000,FFFF,10000,10FFFF} alone and '
            'first/interior/last next to a 1-,2-,3-,4-byte neighbour, through every function x every route (.ptr .buf .u8 .std '
            '.view .ctor* .set* .assign* .cstr .lit .to .tobuf .std) x every validation mode x both Latin-1 flags; all 256 '
            'Latin-1 bytes in every position to UTF-8/16/32/wchar and back; block-wise shapes (a wide character / a byte >= 0x80 '
            'at every offset 0..39 of 40 units of ASCII, in the first/middle/last block of 63..65 units, whole blocks of 7..33 wide '
            'characters, exact multiples of 8) through every function; digest enumeration of one-character strings over '
            'scalar ranges (quick: blocks around every width boundary + seeded blocks; thorough: every scalar value through '
            'every function); seeded random sequences of mixed widths with random route/mode. '
            'expected = Spec standard encoding (utf8_enc/utf16_enc by range, / and mod). non-trivial = non-empty input; '
            'distinct = distinct case line')
    partial = ('every conversion function and from_*/to_* member of the AST inventory is bound to its transcription (Utf/ApiCoverage.v); the '
               'OVERLOADS of each (pointer / buffer / std string / view / constructor / set / assignment, with and without size and '
               'mode) are the harness route table (utf_gen.routes_for), not a Coq obligation. 16-bit wchar_t instantiations are not '
               'compiled on this platform and not claimed (the model selects the branch from Gen/Consts.sizeof_wchar).')
    modelled_not_verified = (
        'C++ semantics of the transcribed statements (LP64, 32-bit signed wchar_t, integer promotions) are modelled, not verified',
        'ST::buffer<T> construction/assignment/allocate are modelled as exact-size arrays with a terminator (their own behaviour is C05)',
        'std::basic_string / string_view glue is exercised by the harness but not modelled separately (same model function as the pointer route)',
    )

    def gen(self, rng, tier):
        quick = tier == 'quick'
        # use of the library during program and thread shutdown (after its own statics / thread_locals are gone)
        yield 'shutdown'
        # 1. boundary scalars in every position, every function/route/mode
        seqs = []
        for b in B_SCALARS:
            seqs.extend(positions(b))
        seqs.append([])
        for sc in seqs:
            for kind, fns in FN_BY_SRC.items():
                if kind == 'l1':
                    continue
                u = encode(kind, sc)
                for fn in fns:
                    if ALL_FN[fn][1] == 'l1':
                        continue
                    for c in all_calls(fn, u, sc):
                        yield c
            u8 = encode('8', sc)
            for fn in STR_TO_FNS:
                if fn == 'str_to_latin_1':
                    continue
                for c in all_calls(fn, u8, sc):
                    yield c
            for c in all_calls('str_lit_utf8', u8, sc):
                yield c
        # 2. Latin-1: all 256 bytes, every position, to every UTF form and back
        for b in range(256):
            for sc in ([b], [0x41, b], [b, 0xE9], [0xE9, b, 0x41]):
                for fn in FN_BY_SRC['l1']:
                    for c in all_calls(fn, sc, sc, routes=None if b in (0, 0x7F, 0x80, 0xFF, 0xE9) else ['ptr']):
                        yield c
                for kind, fns in FN_BY_SRC.items():
                    if kind == 'l1':
                        continue
                    for fn in fns:
                        if ALL_FN[fn][1] != 'l1':
                            continue
                        u = encode(kind, sc)
                        for c in all_calls(fn, u, sc, routes=None if b in (0, 0x7F, 0x80, 0xFF) else ['ptr']):
                            yield c
                yield case('str_to_latin_1', 'to', '_', '1', encode('8', sc), sc)
                yield case('str_to_latin_1', 'std', '_', '0', encode('8', sc), sc)
        # 2b. block-wise shapes: the wide character at every offset of 40 units of ASCII, in the first / middle / last
        #     block of 63..65 units, whole blocks of wide characters; every function, pointer route (exact-size block)
        #     with the mode rotating, buffer / ST::string routes for a third of them
        for i, sc in enumerate(block_scalars()):
            for kind, fns in FN_BY_SRC.items():
                if kind == 'l1':
                    continue
                u = encode(kind, sc)
                for fn in fns:
                    if ALL_FN[fn][1] == 'l1':
                        continue
                    yield case(fn, 'ptr', MODES[i % 3], '_', u, sc)
                    if i % 3 == 0:
                        yield case(fn, 'buf', MODES[(i // 3) % 3], '_', u, sc)
            if i % 2 == 0:
                u8 = encode('8', sc)
                for fn in STR_TO_FNS[1:4]:
                    yield case(fn, 'to', '_', '_', u8, sc)
        for i, b in enumerate(block_latin1()):
            for fn in FN_BY_SRC['l1']:
                yield case(fn, 'ptr', '_', '_', b, b)
                if i % 4 == 0:
                    yield case(fn, 'buf', '_', '_', b, b)
            for kind in ('8', '16', '32'):
                fn = {'8': 'utf8_to_latin_1', '16': 'utf16_to_latin_1', '32': 'utf32_to_latin_1'}[kind]
                yield case(fn, 'ptr', MODES[i % 3], str(i % 2), encode(kind, b), b)
            if i % 4 == 0:
                yield case('wchar_to_latin_1', 'ptr', MODES[i % 3], '1', encode('32', b), b)
                yield case('str_to_latin_1', 'to', '_', '1', encode('8', b), b)
        # 2c. long inputs (255..4097 units): uniform runs and mixtures, every function, pointer route; ST::string routes
        for i, sc in enumerate(long_scalars()):
            if quick and len(sc) > 1100 and i % 3:
                continue
            for kind, fns in FN_BY_SRC.items():
                if kind == 'l1':
                    continue
                u = encode(kind, sc)
                for fn in fns:
                    if ALL_FN[fn][1] == 'l1':
                        continue
                    yield case(fn, 'ptr', MODES[i % 3], '_', u, sc)
            if i % 2 == 0:
                u8 = encode('8', sc)
                for fn in STR_TO_FNS[1:4]:
                    yield case(fn, 'to', '_', '_', u8, sc)
        for i, b in enumerate(long_latin1()):
            for fn in FN_BY_SRC['l1']:
                yield case(fn, 'ptr', '_', '_', b, b)
                if i % 2 == 0:
                    yield case(fn, 'buf', '_', '_', b, b)
            for kind in ('8', '16', '32'):
                fn = {'8': 'utf8_to_latin_1', '16': 'utf16_to_latin_1', '32': 'utf32_to_latin_1'}[kind]
                yield case(fn, 'ptr', MODES[i % 3], str(i % 2), encode(kind, b), b)
            yield case('str_to_latin_1', 'to', '_', '1', encode('8', b), b)
        # 3. default-mode overloads (this build: check_validity)
        for sc in ([0x41, 0xE9, 0x20AC, 0x1F600], [0x10FFFF], []):
            for kind, fns in FN_BY_SRC.items():
                if kind == 'l1':
                    continue
                for fn in fns:
                    if ALL_FN[fn][1] == 'l1':
                        continue
                    for c in default_calls(fn, encode(kind, sc), 'cv', None, sc):
                        yield c
        # 4. one-character strings over scalar ranges, digest mode
        main = ['utf8_to_utf16', 'utf8_to_utf32', 'utf16_to_utf8', 'utf16_to_utf32', 'utf32_to_utf8', 'utf32_to_utf16']
        others = [f for f in list(FREE) + list(STR_FROM) if f not in main and ALL_FN[f][0] != 'l1' and ALL_FN[f][1] != 'l1']
        if quick:
            blocks = [(0, 0x1000), (0xD000, 0xE800), (0xF800, 0x10800), (0x10F800, 0x110000)]
            for _ in range(4):
                lo = rng.randrange(0x10800, 0x10F000)
                blocks.append((lo, lo + 0x800))
            for fn in main + others:
                for i, (lo, hi) in enumerate(blocks):
                    mode = MODES[(i + len(fn)) % 3]
                    yield enum_case('scalar', fn, 'ptr', mode, '_', lo, hi)
        else:
            step = 0x22000
            for fi, fn in enumerate(main + others):
                for lo in range(0, 0x110000, step):
                    hi = min(lo + step, 0x110000)
                    # the six main pairs: check_validity over every scalar, the other two modes on alternating blocks
                    ms = ('cv', MODES[(lo // step) % 2]) if fn in main else (MODES[(fi + lo // step) % 3],)
                    for mode in ms:
                        yield enum_case('scalar', fn, 'ptr', mode, '_', lo, hi)
            for fn in STR_TO_FNS[:4]:
                for lo in range(0, 0x110000, step):
                    yield enum_case('scalar', fn, 'to', '_', '_', lo, min(lo + step, 0x110000))
        # 5. seeded random sequences, random function / route / mode
        nrand = 1500 if quick else 30000
        kinds = ['8', '16', '32']
        for _ in range(nrand):
            n = rng.choice([1, 1, 2, 3, 4, 5, 7, 8, 15, 16, 17, 31, 40])
            sc = rand_scalars(rng, n)
            kind = rng.choice(kinds)
            fn = rng.choice([f for f in FN_BY_SRC[kind] if ALL_FN[f][1] != 'l1'])
            calls = all_calls(fn, encode(kind, sc), sc)
            for c in rng.sample(calls, min(3, len(calls))):
                yield c
            if rng.random() < 0.3:
                fn = rng.choice(STR_TO_FNS[:4])
                yield case(fn, rng.choice(routes_for(fn)), '_', '_', encode('8', sc), sc)
        if not quick:
            for n in (1000, 5000):
                sc = rand_scalars(rng, n)
                for kind in kinds:
                    for fn in FN_BY_SRC[kind][:3]:
                        yield case(fn, 'ptr', rng.choice(MODES), '_', encode(kind, sc), sc)


CHECK = C01()
