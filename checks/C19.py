"""C19: allocation failure propagates cleanly and leaves every object destructible.
Cases: buffer, string and string_stream histories in which ONE allocation of ONE designated operation is made to
throw std::bad_alloc (global operator new replaced in the harness; `failat=<k>@<step>`); after the failed operation
every live object is observed, then read through the const battery, assigned to and destroyed; live new[] blocks
must be back to baseline."""
import random
import vlib
from str_gen import *
from mem_gen import limits, rand_units, consts
import C04
import C05
import C16


def parse(line):
    if not line.startswith('OK '):
        return None
    body = line[3:].split('|')
    return [st.split(';') for st in body]


def objs_of(step):
    d = {}
    for f in step[1:]:
        k, _, v = f.partition('=')
        d[k] = v
    return d


def valid_obj(v, L, kind):
    if v == '-':
        return True
    parts = v.split(':')
    if kind == 'ss':
        return len(parts) == 3
    size, term, loc = int(parts[1]), parts[2], parts[3]
    return term == '1' and loc == ('L' if size < L else 'H')


class C19(vlib.Check):
    pid = 'C19'
    group = 'mem'
    per_case_timeout = 3
    partial = ('the allocator and std::vector (split/tokenize growth: libstdc++ strong guarantee) are oracles; the theorems cover '
               'the order of allocate / release / commit in the library\'s own buffer, string and string_stream code')
    rule = ('for each allocating operation (buffer: (ptr,len)/(count,fill)/copy construction, copy assignment, allocate, '
            'allocate(n,fill) in all four element types; string: from_validated, set, copy, =, +=, substr/left/right/to_upper/'
            'to_lower/trim/operator+/replace/to_utf8/before_first/after_last, and results built through temporaries: hex/base64 '
            'encode and decode, ST::format, UTF-16/UTF-32 round trips, string_stream insertion + to_string; stream: every growing append) with target and '
            'source in both storage modes, the fault that makes its k-th allocation (k = 0, 1; 0..3 for operations with several allocations) throw; then every object is '
            'observed, read, assigned to and destroyed. Oracle = the property itself evaluated on the implementation\'s own '
            'observations (target previous-or-empty, others unchanged, all valid, nothing shared, no leak). '
            'a sweep over the whole battery of const members and free functions (about 100 calls) with its k-th allocation failing, for every k until a run completes (a noexcept function that allocates would end the process; leaks are counted); failing operations (ill-formed data) under a fault schedule; '
            'non-trivial = a case whose faulted operation actually threw')
    modelled_not_verified = ('operator new/new[] replaced by counting / failing wrappers over malloc (the k-th allocation inside the '
                             'designated operation throws std::bad_alloc)', 'std::vector (split/tokenize) is an oracle: its blocks are faulted like any other allocation, the model stands for them by dummy temporaries',
                             'allocations made by the harness itself while building arguments are kept outside the fault window '
                             'or avoided by construction')

    # ------------------------------------------------------------------ generators
    def gen(self, rng, tier):
        reps = 1 if tier == 'quick' else 30
        lim = limits()
        # --- buffers
        for ty, L in lim.items():
            cls = [0, 1, L - 1, L, L + 1, 3 * L]
            for _ in range(reps):
                for a in cls:
                    for b in cls:
                        ua, ub = rand_units(rng, ty, a), rand_units(rng, ty, b)
                        tail = 'write,0,0,88;asg,1,0;alloc,0,%d,66;del,0;del,1' % (L + 2)
                        for k in (0, 1):
                            yield 'buf %s 4 new,0,%s;new,1,%s;asg,0,1;%s failat=%d@2' % (ty, ua, ub, tail, k)
                            yield 'buf %s 4 new,0,%s;new,1,%s;alloc,0,%d,67;%s failat=%d@2' % (ty, ua, ub, b, tail, k)
                            yield 'buf %s 4 new,0,%s;new,1,%s;allocfill,0,%d,67;%s failat=%d@2' % (ty, ua, ub, b, tail, k)
                    ua = rand_units(rng, ty, a)
                    for k in (0, 1):
                        yield 'buf %s 4 new,1,%s;new,0,%s;clear,1;del,1 failat=%d@1' % (ty, ua, ua, k)
                        yield 'buf %s 4 new,1,%s;copy,0,1;clear,1;del,1 failat=%d@1' % (ty, ua, k)
                        yield 'buf %s 4 new,1,%s;fill,0,%d,65;clear,1;del,1 failat=%d@1' % (ty, ua, a, k)
        # --- element counts no allocator grants (2^62 and more, incl. counts whose byte size wraps around): the request
        #     must fail with bad_alloc and leave the buffer as it was, never be mistaken for a short one
        for ty, L in lim.items():
            width = {'c': 1, 'w': 4, 'u16': 2, 'u32': 4}[ty]
            base = (2 ** 64) // width if width > 1 else 2 ** 62
            for cnt in (base, base + 1, base + 3, 2 ** 62 + 5, 2 ** 63 + (7 if width > 1 else -9)):
                for first in (3, 3 * L):
                    ua = rand_units(rng, ty, first)
                    tail = 'write,0,0,88;alloc,0,%d,66;del,0' % (L + 2)
                    yield 'buf %s 4 new,0,%s;alloc,0,%d,67;%s failat=0@1' % (ty, ua, cnt, tail)
                    yield 'buf %s 4 new,0,%s;allocfill,0,%d,67;%s failat=0@1' % (ty, ua, cnt, tail)
                    yield 'buf %s 4 new,1,%s;fill,0,%d,65;clear,1;del,1 failat=0@1' % (ty, ua, cnt)
        # --- strings: a C04-style prefix, one faulted allocating operation, then use of everything
        n = 300 if tier == 'quick' else 60000
        for _ in range(n):
            c = self.string_case(rng)
            if c:
                yield c
        # --- every operation with several allocations, source short / at the limit / long, every allocation faulted
        for name in ('hexenc', 'b64enc', 'hexrt', 'fmt', 'via16', 'via32', 'sstr'):
            for size in (3, 11, 12, 15, 16, 40, 120):
                for k in ((0, 1) if name == 'fmt' else (0, 1, 2, 3)):
                    p = Pool(rng, 4)
                    p.new(0, rstr(rng, size))
                    p.new(1, rstr(rng, 20))
                    step = len(p.ops)
                    p.const_op(name, 2, 0)
                    for o in (0, 1):
                        p.ops.append('set,%d,%s' % (o, hx(rstr(rng, rng.choice([2, 20])))))
                    p.ops += ['reads,0', 'del,0', 'del,1']
                    yield 'str 4 %s failat=%d@%d' % (';'.join(p.ops), k, step)
        # --- every const member / free function of the battery under a fault at its k-th allocation, for all k
        for v in (b'', b'abc', rstr(rng, 15), rstr(rng, 16), rstr(rng, 40), rstr(rng, 300), 'h\u00e9llo \u20ac \U0001F600 end'.encode(),
                  ('\u20ac' * 20).encode(), b' 12345 ', b'true', b'-1.5e10', b'a,b,,c;d e'):
            yield 'str 4 new,0,%s;new,1,%s;readsweep,0;reads,0;set,0,%s;reads,1;del,0;del,1' % (hx(v), hx(rstr(rng, 20)), hx(rstr(rng, 20)))
        # --- operations that throw by themselves (ill-formed data) while an allocation of one of their temporaries is
        #     made to fail: bad_alloc instead of the operation's own exception, same guarantees
        #     (the last temporary stands for the block that holds the exception's message: std::runtime_error copies it)
        bad_long = b'a' * 20 + b'\xbf'
        bad_short = b'ab\xc3'
        msg = '00' * 40
        for tgt in (3, 16, 40):
            for bad in (bad_long, bad_short):
                for kind in ('setfail', 'setmfail', 'ctorbuffail', 'setcfail', 'ctorfail'):
                    for k in (0, 1, 2):
                        ops = ['new,0,' + hx(rstr(rng, tgt)), 'new,1,' + hx(rstr(rng, 20)),
                               '%s,0,%s,M=throw:unicode_error:%s/%s' % (kind, hx(bad), hx(bad), msg),
                               'reads,0', 'set,0,' + hx(rstr(rng, 20)), 'del,0', 'del,1']
                        yield 'str 4 %s failat=%d@2' % (';'.join(ops), k)
            for bad in (b'00' * 20 + b'x0', b'4' * 33, b'zz'):
                temps = hx(bad) + ('' if len(bad) % 2 else '/' + hx(b'\0' * (len(bad) // 2))) + '/' + msg
                for k in (0, 1, 2, 3):
                    ops = ['new,0,' + hx(rstr(rng, tgt)), 'hexfail,0,%s,M=throw:codec_error:%s' % (hx(bad), temps),
                           'reads,0', 'set,0,' + hx(rstr(rng, 20)), 'del,0']
                    yield 'str 4 %s failat=%d@1' % (';'.join(ops), k)
        # --- the static constructors from numbers: the text is heap allocated from 16 characters on, which for the narrow
        #     types happens only in small bases (so nothing about them may be declared non-throwing)
        def digits(v, base, upper=False):
            ds = '0123456789abcdefghijklmnopqrstuvwxyz'
            if upper:
                ds = ds.upper()
            n, out = abs(v), ''
            while True:
                out = ds[n % base] + out
                n //= base
                if n == 0:
                    break
            return ('-' if v < 0 else '') + out
        for ty, lo, hi in (('short', -2 ** 15, 2 ** 15 - 1), ('int', -2 ** 31, 2 ** 31 - 1), ('long', -2 ** 63, 2 ** 63 - 1), ('llong', -2 ** 63, 2 ** 63 - 1)):
            for base in (2, 3, 4, 8, 10, 16, 36):
                for v in (lo, hi, lo // 2, 16384, -16384, 32768, 0, -1):
                    if not lo <= v <= hi:
                        continue
                    t = digits(v, base).encode()
                    for k in (0, 1):
                        yield 'str 4 new,1,%s;fromint,0,%s,%d,%d,M=mctor:%s;reads,1;del,1 failat=%d@1' % (hx(rstr(rng, 20)), ty, v, base, hx(t), k)
        for ty, hi in (('ushort', 2 ** 16 - 1), ('uint', 2 ** 32 - 1), ('ulong', 2 ** 64 - 1), ('ullong', 2 ** 64 - 1)):
            for base in (2, 3, 4, 10, 16):
                for v in (hi, hi // 2 + 1, 32768, 0):
                    if v > hi:
                        continue
                    t = digits(v, base, True).encode()
                    yield 'str 4 new,1,%s;fromuint,0,%s,%d,%d,M=mctor:%s;reads,1;del,1 failat=0@1' % (hx(rstr(rng, 20)), ty, v, base, hx(t))
        for b in (0, 1):
            yield 'str 4 new,1,6162;frombool,0,%d,M=mctor:%s;reads,1 failat=0@1' % (b, hx(b'true' if b else b'false'))
        for n in (0, 15, 16, 40):
            for k in (0, 1):
                yield 'str 4 new,1,6162;sfill,0,%d,120,M=mctor:%s;reads,1 failat=%d@1' % (n, hx(b'x' * n), k)
        # --- stream extraction into a string, every allocation faulted (the token's std::basic_string growth first — F
        #     allocations of libstdc++, an oracle — then the library's own)
        for n in (5, 15, 16, 20, 30, 31, 40, 100):
            tok = rstr(rng, n).replace(b' ', b'_')
            grow = 1 if n > 15 else 0      # libstdc++ appends the token in one piece (it reads up to 128 characters at a time)
            for k in range(0, grow + 2):
                for tgt in (3, 40):
                    ops = ['new,0,' + hx(rstr(rng, tgt)), 'new,1,' + hx(rstr(rng, 20)),
                           'extract,0,%s,F=%d,M=set:%s' % (hx(b'  ' + tok + b' rest'), grow, hx(tok)),
                           'reads,0', 'set,0,' + hx(rstr(rng, 20)), 'del,0', 'del,1']
                    yield 'str 4 %s failat=%d@2' % (';'.join(ops), k)
        # --- split: the pieces and the vector's storage are allocated in turn (std::vector is an oracle: its blocks are
        #     stood for by dummies); with at least two pieces there are at least two allocations, each of them faulted
        for size in (5, 17, 40, 90):
            for k in (0, 1):
                for rep in range(2):
                    v = bytearray(rstr(rng, size))
                    for pos in sorted(rng.sample(range(1, size - 1), rng.choice([1, 2, 3]))):
                        v[pos] = 0x7c
                    v = bytes(v)
                    first = v.split(b'|')[0]
                    big = '00' * 40
                    ops = ['new,0,' + hx(v), 'new,1,' + hx(rstr(rng, 20)),
                           'split0,2,0,124,M=via:%s/%s:%s' % (big, big, hx(first)),
                           'set,0,' + hx(rstr(rng, 20)), 'set,1,' + hx(rstr(rng, 2)), 'reads,0', 'del,0', 'del,1']
                    yield 'str 4 %s failat=%d@2' % (';'.join(ops), k)
        # --- streams
        stk = consts()['stack_string_size']
        for first in (0, 1, stk - 1, stk, 2 * stk, 2 * stk + 1, 5 * stk):
            for add in (1, stk, stk + 1, 4 * stk):
                for k in (0, 1):
                    a = '61' * first or '.'
                    yield 'ss 3 new,0;app,0,%s;appc,0,98,%d;app,0,7a;trunc,0,3;appc,0,99,%d;del,0 failat=%d@2' % (a, add, 3 * stk, k)
                    yield 'ss 3 new,0;new,1;app,0,%s;app,0,%s;masg,1,0;app,0,79;app,1,78;del,0;del,1 failat=%d@3' % (a, '62' * add, k)
        # a heap-backed stream that has been emptied / shortened / moved, then a growing append whose allocation fails
        # (an implementation that releases the old block first "because there is nothing to copy" dangles here)
        for cap_fill in (stk + 1, 2 * stk + 1, 5 * stk):
            for shrink in ('trunc,0,0', 'erase,0,%d' % (cap_fill + 5), 'trunc,0,1', 'erase,0,%d' % (cap_fill - 1), 'trunc,0,%d' % stk):
                for grow in (4 * cap_fill, 16 * stk):
                    for k in (0, 1):
                        yield ('ss 3 new,0;appc,0,97,%d;%s;appc,0,98,%d;app,0,7a;trunc,0,2;app,0,79;del,0 failat=%d@3'
                               % (cap_fill, shrink, grow, k))
                        yield ('ss 3 new,0;new,1;appc,0,97,%d;%s;masg,1,0;appc,1,98,%d;app,1,7a;app,0,79;del,0;del,1 failat=%d@5'
                               % (cap_fill, shrink, grow, k))

        # a growth request far beyond what any allocator grants (count >= 2^32), made to fail: the request must
        # reach the allocator undiminished (an implementation that narrows the size computes a small or no growth,
        # does not fail, and writes the full count)
        for fill in (0, 5, stk - 1, stk + 7, 3 * stk):
            for cnt in (2 ** 32, 2 ** 32 + 16, 5 * 2 ** 30 + 7, 2 ** 40, 2 ** 62 + 3):
                ops = ['new,0'] + (['appc,0,97,%d' % fill] if fill else []) + ['appc,0,98,%d' % cnt, 'app,0,7a', 'trunc,0,2', 'app,0,79', 'del,0']
                yield 'ss 3 %s failat=0@%d' % (';'.join(ops), 2 if fill else 1)

    ALLOC_CONST = ['substr', 'left', 'right', 'upper', 'lower', 'trim', 'plus', 'replace', 'replace_self', 'utf8',
                   'before_first', 'after_last', 'copy',
                   # results built through temporaries: several allocations, each of them faulted
                   'hexenc', 'b64enc', 'hexrt', 'hexrt', 'fmt', 'fmt', 'via16', 'via32', 'sstr', 'sstr']

    def string_case(self, rng):
        p = Pool(rng, 4)
        for _ in range(rng.choice([2, 3, 5])):
            p.step()
        # make sure there is a known long and a known short string
        for size in (rng.choice([17, 40]), rng.choice([0, 3, 15])):
            d = p.dead()
            if d:
                p.new(d[0], rstr(rng, size))
        known, dead, live = p.known(), p.dead(), sorted(p.val)
        if not known:
            return None
        step = len(p.ops)
        kind = rng.choice(['const'] * 6 + ['set', 'asg', 'append', 'new'])
        before = dict(p.val)
        if kind == 'const' and dead:
            p.const_op(rng.choice(self.ALLOC_CONST), dead[0], rng.choice(known))
            f = p.ops[-1].split(',')
            if f[0] == 'replace' and (len(f[3]) >= 32 or len(f[4]) >= 32):
                return None     # long from/to arguments would allocate inside the fault window (harness artefact)
        elif kind == 'set':
            o = rng.choice(live)
            b = rstr(rng, rng.choice([0, 5, 16, 30]))
            p.ops.append('set,%d,%s' % (o, hx(b)))
            p.val[o] = b
        elif kind == 'asg':
            o, s = rng.choice(live), rng.choice(known)
            p.ops.append('asg,%d,%d' % (o, s))
            p.val[o] = p.val[s]
        elif kind == 'append':
            o, s = rng.choice(known), rng.choice(known)
            cat = p.val[o] + p.val[s]
            p.ops.append('append,%d,%d,M=cat:%s' % (o, s, hx(cat)))
            p.val[o] = cat
        elif kind == 'new' and dead:
            p.new(dead[0], rstr(rng, rng.choice([3, 16, 33])))
        else:
            return None
        # after the (possibly failed) operation: read, assign to and destroy everything.  The values after a
        # failure are not the spec values, so only operations whose outcome does not depend on them follow.
        # (a result slot of a failed construction does not exist: only objects that lived before are used)
        for o in sorted(before):
            p.ops.append('set,%d,%s' % (o, hx(rstr(rng, rng.choice([2, 20])))))
        for o in sorted(before):
            p.ops.append('del,%d' % o)
        k = rng.choice([0, 0, 0, 1])
        fop = p.ops[step].split(',')[0]
        if fop in ('hexenc', 'b64enc', 'hexrt', 'via16', 'via32', 'sstr'):
            k = rng.choice([0, 1, 1, 2, 2, 3])
        elif fop == 'fmt':
            k = rng.choice([0, 1])      # the closures' blocks come first; the model stands for them by two dummies
        return 'str 4 %s failat=%d@%d' % (';'.join(p.ops), k, step)

    # ------------------------------------------------------------------ oracles
    def same(self, case, impl, model):
        kind = case.split()[0]
        if kind == 'str':
            return C04.steps_ok(C04.parse(impl), C04.parse(model), False)
        if kind == 'ss':
            return C16.CHECK.same(case, impl, model)
        return impl == model

    def fault_pos(self, case):
        t = case.split()
        f = [x for x in t if x.startswith('failat=')][0]
        k, step = f[7:].split('@')
        ops = (t[3] if t[0] == 'buf' else t[2]).split(';')
        return int(k), int(step), ops

    def allowed(self, case, impl, spec):
        """the property, evaluated on the implementation's own observations"""
        t = case.split()
        kind = t[0]
        L = limits()[t[1]] if kind == 'buf' else 16
        a = parse(impl)
        if a is None:
            return False
        if 'failat=' not in case:
            # no designated fault (the sweep over the const battery injects its faults itself): plain spec run
            return kind == 'str' and C04.steps_ok(a, parse(spec), True)
        k, fstep, ops = self.fault_pos(case)
        if len(a) != len(ops) + 1 or a[-1] != ['leak=0']:
            return False
        b = parse(spec)
        threw = a[fstep][0].startswith('r=bad_alloc')
        for i, st in enumerate(a[:-1]):
            r = st[0].split(',')[0]
            own = None
            if i == fstep and ',M=throw:' in ops[i]:
                own = 'r=' + ops[i].split(',M=throw:')[1].split(':')[0]     # the exception the operation throws by itself
            if r not in ('r=ok', 'r=bad_alloc', own) or (r == 'r=bad_alloc' and i != fstep):
                return False
            if st[-1] != 'sh=0':
                return False
            for f in st[1:-1]:
                if not valid_obj(f.partition('=')[2], L, kind):
                    return False
        if not threw:
            # the designated allocation does not exist (k beyond the operation's allocations): plain spec run
            if kind == 'buf':
                return C05.CHECK.allowed(case, impl, spec)
            if kind == 'ss':
                return C16.CHECK.allowed(case, impl, spec)
            return C04.steps_ok(a, b, True)
        # before the fault: exactly the spec
        for i in range(fstep):
            sa, sb = a[i], b[i]
            if kind == 'str':
                if not all(C04.field_ok(x, y, True) for x, y in zip(sa, sb)):
                    return False
            elif kind == 'ss':
                if not C16.CHECK.allowed('', 'OK ' + ';'.join(sa), 'OK ' + ';'.join(sb)):
                    return False
            elif not C05.CHECK.allowed(case, 'OK ' + ';'.join(sa), 'OK ' + ';'.join(sb)):
                return False
        # the failed operation: target previous-or-empty (a constructor's result does not exist), others unchanged
        prev = objs_of(a[fstep - 1]) if fstep > 0 else {}
        cur = objs_of(a[fstep])
        op = ops[fstep].split(',')
        target = op[1]
        strip = (lambda v: v.rsplit(':', 1)[0]) if kind == 'str' else (lambda v: v)
        for key, v in cur.items():
            if key == 'sh':
                continue
            pv = prev.get(key, '-')
            if key == target:
                if pv == '-':
                    if v != '-':
                        return False            # a failed constructor leaves no object
                elif strip(v) != strip(pv) and not strip(v).startswith('.:0:'):
                    return False                # previous value or empty
            elif strip(v) != strip(pv):
                return False
            if kind == 'str' and key != target and v != '-' and not v.endswith(':1'):
                return False                    # data() of every other string is where it was
        return True

    def nontrivial(self, case, impl):
        return 'r=bad_alloc' in impl or 'readsweep' in case


CHECK = C19()
