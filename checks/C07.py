"""C07: searching returns exactly the first / last occurrence.
Every find / find_last / contains / starts_with / ends_with overload (char, const char*,
(pointer,length), ST::string) in both case modes, for haystacks and needles with embedded NUL and
bytes >= 0x80, start / max in {0..size+1, 2^63, SIZE_MAX}.  `sweep` cases enumerate all needles
over an alphabet against one haystack on both sides and compare a digest; a differing digest is
narrowed to a single find/findl/has line by the shrinker."""
import vlib
from cmpfind_gen import *

S3 = '616241'          # a b A  (one letter pair differing in case only)
S5 = '61624100c3'      # + NUL + a high byte
S6 = '61624100c3e3'    # + the high byte that differs from c3 by 0x20 (must NOT fold)


def positions(size):
    return list(range(size + 2)) + [1 << 63, SIZE_MAX]


def rand_text(rng, n, alpha):
    return [rng.choice(alpha) for _ in range(n)]


class C07(vlib.Check):
    pid = 'C07'
    group = 'cmpfind'
    quick_budget_s = 90
    per_case_timeout = 20
    rule = ('exhaustive (digest mode, every needle x both case modes x every start/max in {0..size+1, 2^63, SIZE_MAX} x '
            'the p/s/z/char needle forms of find and find_last, plus contains/starts_with/ends_with): all haystacks of '
            'length <= 6 over {a,b,A} against all needles of length <= 3 (thorough: length <= 7 against <= 4 and length 8 '
            'against <= 3); all haystacks of length <= 4 over {a,b,A,NUL,C3} against needles of length <= 2 (thorough: '
            '<= 5 against <= 3, 3000 sampled of length 6 against <= 2) and a seeded sample of longer ones (up to 24) over '
            '{a,b,A,NUL,C3,E3} against needles of length <= 2; directed line cases: null / empty needle, empty haystack, needle == '
            'haystack, needle longer than haystack, self-overlapping needles, first-unit hit whose rest runs past the end, '
            'limits cutting an occurrence, NUL in haystack / needle, all 256 byte values as one-unit needle; seeded long '
            'haystacks (up to 600) with planted needles. non-trivial = haystack and needle non-empty; distinct = distinct case line')
    modelled_not_verified = (
        'ST::string::from_validated modelled as an exact-size array with a readable terminator (C05)',
        'std::char_traits<char>::find/compare/length (memchr, memcmp, strlen) modelled from their specification',
        '(pointer,length) needles: count <= size of the array pointed to (caller precondition); pointer wrap-around of '
        '`cp + needle_size` for count near SIZE_MAX is outside the model',
    )

    def gen(self, rng, tier):
        thorough = tier == 'thorough'
        # --- directed line cases
        direct = [
            ('.', '.'), ('.', '61'), ('.', '-'), ('61', '.'), ('61', '-'), ('61', '61'), ('61', '6161'), ('6162', '6162'),
            ('6162', '616263'), ('61616162', '616162'), ('6161616161', '6161'), ('6162616261', '626162'), ('61626162', '6162'),
            ('616261', '6161'), ('61626300', '6300'), ('6162630064', '00'), ('6100620063', '0062'), ('6100620063', '6200'),
            ('61620061', '6100'), ('61c362c3', 'c3'), ('61c362e3', 'e3'), ('61c362e3', 'c3'), ('41624142', '6142'),
            ('41424344', '6364'), ('5a7a5b7b', '7a'), ('5a7a5b7b', '5b'), ('405b607b', '60'), ('405b607b', '40'),
            ('6161616161616161616161616161616162', '61616162'), ('6162636465666768696a6b6c6d6e6f7071', '7071'),
            ('6162636465666768696a6b6c6d6e6f7071', '707172'), ('616263', '63'), ('616263', '6364'), ('616263', '61626364'),
        ]
        for h, n in direct:
            size = len(unhex(h))
            for cs in 'si':
                for p in positions(size):
                    yield 'find %s %s %s %d' % (cs, h, n, p)
                    yield 'findl %s %s %s %d' % (cs, h, n, p)
                yield 'has %s %s %s' % (cs, h, n)
        for v in range(256):
            h = '61%02x62%02x' % (v, v ^ 0x20)
            for cs in 'si':
                yield 'find %s %s %02x 0' % (cs, h, v)
                yield 'findl %s %s %02x %d' % (cs, h, v, SIZE_MAX)
                yield 'has %s %s %02x' % (cs, h, v)
        # --- long haystacks: an occurrence straddling every 1 KiB boundary counted from either end
        for h, n, o in block_boundary_subjects(rng, False, light=not thorough):   # the extracted model is quadratic in the subject
            size = len(h)
            for cs in 'si':
                hh = h if cs == 's' else h.swapcase()
                for p0 in (0, o):
                    yield 'find %s %s %s %d' % (cs, hx(hh), hx(n), p0)
                for mx in (size, o + len(n)):
                    yield 'findl %s %s %s %d' % (cs, hx(hh), hx(n), mx)
                yield 'has %s %s %s' % (cs, hx(hh), hx(n))
        # --- operands of megabytes on a thread with a small stack
        yield 'bigfind 1500000'
        yield 'bigfind 300000'
        # --- exhaustive sweeps (digest mode)
        a3 = [0x61, 0x62, 0x41]
        for h in strings_upto(a3, 8 if thorough else 6):
            nmax = 3 if (not thorough or len(h) == 8) else 4
            yield 'sweep %s %s 0 %d' % (hx(h), S3, needle_count(3, nmax))
        a5 = [0x61, 0x62, 0x41, 0x00, 0xc3]
        for h in strings_upto(a5, 5 if thorough else 4):
            if all(c in a3 for c in h) and h:
                continue        # already covered above with longer needles
            yield 'sweep %s %s 0 %d' % (hx(h), S5, needle_count(5, 3 if thorough else 2))
        a6 = a5 + [0xe3]
        if thorough:
            for _ in range(3000):
                yield 'sweep %s %s 0 %d' % (hx(rand_text(rng, 6, a5)), S5, needle_count(5, 2))
        for _ in range(600 if not thorough else 6000):
            h = rand_text(rng, rng.choice([5, 6, 7, 8, 9, 12, 15, 16, 17, 24]), a6)
            yield 'sweep %s %s 0 %d' % (hx(h), S6, needle_count(6, 2))
        # --- seeded long haystacks with planted needles
        for _ in range(700 if not thorough else 10000):
            alpha = rng.choice([a6, [0x61, 0x62], list(range(256)), [0x61, 0x41, 0x00]])
            n = rand_text(rng, rng.choice([1, 2, 3, 4, 7, 16, 17, 40]), alpha)
            size = rng.choice([1, 2, 15, 16, 17, 31, 64, 100, 255, 256, 600])
            h = rand_text(rng, size, alpha)
            for _k in range(rng.randrange(0, 4)):
                var = [c ^ 0x20 if (0x41 <= c <= 0x5a or 0x61 <= c <= 0x7a) and rng.random() < 0.3 else c for c in n]
                at = rng.randrange(0, len(h) + 1)
                h = h[:at] + var[:rng.choice([len(var), len(var), max(len(var) - 1, 0)])] + h[at:]
            if rng.random() < 0.2:
                h = h + n[:max(len(n) - 1, 0)]          # a hit whose rest runs past the end
            size = len(h)
            cs = rng.choice('si')
            ps = [0, rng.randrange(size + 1), max(size - 1, 0), size, size + 1, SIZE_MAX, rng.randrange(size + 1)]
            for p in ps[:3 if not thorough else 7]:
                yield 'find %s %s %s %d' % (cs, hx(h), hx(n), p)
                yield 'findl %s %s %s %d' % (cs, hx(h), hx(n), p)
            yield 'has %s %s %s' % (cs, hx(h), hx(n))
            yield 'has %s %s %s' % (cs, hx(h), hx(h[:len(n)]))
            yield 'has %s %s %s' % (cs, hx(h), hx(h[max(size - len(n), 0):]))

    def nontrivial(self, case, impl):
        t = case.split()
        if t[0] == 'sweep':
            return t[1] != '.'
        if t[0] in ('bigfind', 'shutdown'):
            return True
        return t[2] not in ('.', '-') and t[3] not in ('.', '-')

    def shrink_candidates(self, case):
        t = case.split()
        if t[0] in ('bigfind', 'shutdown'):
            return
        if t[0] == 'sweep':
            h, alpha, lo, hi = t[1], t[2], int(t[3]), int(t[4])
            if hi - lo > 1:
                mid = (lo + hi) // 2
                yield 'sweep %s %s %d %d' % (h, alpha, lo, mid)
                yield 'sweep %s %s %d %d' % (h, alpha, mid, hi)
            else:
                n = needle_tok(alpha, lo)
                size = len(unhex(h))
                for cs in 'si':
                    yield 'has %s %s %s' % (cs, h, n)
                    for p in positions(size):
                        yield 'find %s %s %s %d' % (cs, h, n, p)
                        yield 'findl %s %s %s %d' % (cs, h, n, p)
        elif t[0] in ('find', 'findl', 'has'):
            for i in (2, 3):
                if t[i] in ('.', '-'):
                    continue
                for s in drop_one(t[i]):
                    yield ' '.join(t[:i] + [s] + t[i + 1:])

    def summarize(self, cases, impl):
        d = {}
        evals = 0
        hits = 0
        for i, c in enumerate(cases):
            op = c.split()[0]
            d[op] = d.get(op, 0) + 1
            if op == 'sweep':
                _, k = kv(impl[i])
                evals += int(k.get('n', 0))
                hits += int(k.get('hits', 0))
        return {'ops': d, 'sweep_evaluations': evals, 'sweep_hits_p_route': hits}


CHECK = C07()
