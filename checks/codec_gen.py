"""generators shared by C14 and C15 (hex / base64)"""
B64 = b'ABCDEFGHIJKLMNOPQRSTUVWXYZabcdefghijklmnopqrstuvwxyz0123456789+/'
HEXD = b'0123456789abcdefABCDEF'


def hx(b):
    return b.hex() if len(b) else '.'


def rand_bytes(rng, n):
    return bytes(rng.randrange(256) for _ in range(n))


def boundary_bytes():
    return [0x00, 0x01, 0x03, 0x04, 0x0F, 0x10, 0x3F, 0x40, 0x7F, 0x80, 0xBF, 0xC0, 0xF0, 0xFC, 0xFE, 0xFF]
