"""C14: hex/base64 encodings are standard and decode back to the original bytes.
Cases: byte arrays -> encode (pointer and buffer overloads) -> decode (allocating and
caller-buffer form); upper-case hex.  Every byte value in every position of a 3-byte
group, every length mod 3, lengths crossing the SSO limit of the result."""
import vlib
from codec_gen import *


class C14(vlib.Check):
    pid = 'C14'
    group = 'codec'
    rule = ('directed: each of 256 byte values in each position of a 3-byte group with boundary neighbours, as the final group and as a '
            'non-final group (extra tail byte), '
            'all lengths 0..70, null/zero-size; seeded random arrays; each array goes through hex_enc, b64_enc, '
            'their buffer overloads, and the decoders applied to the reference encoding (round trip). '
            'non-trivial = non-empty input; distinct = distinct case line')
    modelled_not_verified = ('ST::string::from_validated / char_buffer::allocate are modelled as exact-size arrays '
                             '(their own behaviour is C05\'s subject)',)

    def gen(self, rng, tier):
        yield 'shutdown'      # use of the library during program / thread shutdown (harness probe)
        import base64
        arrays = [b'']
        for pos in range(3):
            for v in range(256):
                for nb in (0x00, 0xFF, 0x5A):
                    g = [nb, nb, nb]
                    g[pos] = v
                    arrays.append(bytes(g))
                    # the same group followed by a tail byte: it then goes through the
                    # full-group loops of encoder and decoder, not only the final-group code
                    arrays.append(bytes(g) + bytes([nb]))
        for n in range(0, 71):
            arrays.append(rand_bytes(rng, n))
        nrand = 300 if tier == 'quick' else 6000
        for _ in range(nrand):
            arrays.append(rand_bytes(rng, rng.choice([1, 2, 3, 4, 5, 6, 7, 11, 12, 13, 15, 16, 17, 23, 24, 25, 47, 48, 49, 100, 255, 256, 257])))
        if tier == 'thorough':
            for n in (1000, 3000, 4097):
                arrays.append(rand_bytes(rng, n))
            for a in range(256):
                for b in boundary_bytes():
                    arrays.append(bytes([a, b]))
                    arrays.append(bytes([b, a, b]))
        yield 'hex_enc - 0'
        yield 'hex_enc - 3'
        yield 'b64_enc - 0'
        yield 'b64_enc - 2'
        yield 'hex_enc 0011 0'
        for a in arrays:
            h = hx(a)
            yield 'hex_enc ' + h
            yield 'b64_enc ' + h
            if len(a) in (0, 1, 2, 3, 7, 8, 9, 11, 12, 13, 16, 33):
                yield 'hex_enc_buf ' + h
                yield 'b64_enc_buf ' + h
            # round trips: decode the standard encodings
            he = a.hex().encode()
            be = base64.b64encode(a)
            yield 'hex_dec ' + hx(he)
            yield 'hex_dec ' + hx(he.upper())
            yield 'b64_dec ' + hx(be)
            yield 'hex_dec_buf %s %d' % (hx(he), len(a))
            yield 'b64_dec_buf %s %d' % (hx(be), len(a))
            if len(a) <= 20 or len(a) in (47, 48, 49):
                # the caller-buffer round trip with a roomier / "unbounded" stated size
                for o in (len(a) + 1, 2 ** 31, 2 ** 63 - 1, 2 ** 63, 2 ** 64 - 1):
                    yield 'hex_dec_buf %s %d' % (hx(he), o)
                    yield 'b64_dec_buf %s %d' % (hx(be), o)

    def nontrivial(self, case, impl):
        t = case.split()
        return len(t) > 1 and t[1] not in ('.', '-')

    def shrink_candidates(self, case):
        t = case.split()
        if len(t) >= 2 and t[1] not in ('.', '-') and len(t[1]) > 2:
            h = t[1]
            step = 2
            for i in range(0, len(h), step):
                yield ' '.join([t[0], (h[:i] + h[i + step:]) or '.'] + t[2:])


CHECK = C14()
