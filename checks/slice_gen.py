"""generators shared by C08 and C09 (slicing / split / replace)"""
import itertools

SIZE_MAX = (1 << 64) - 1
SSIZE_MAX = (1 << 63) - 1
SSIZE_MIN = -(1 << 63)
SIZE_CLASSES = (0, 1, 15, 16, 17, 40)


def hx(b):
    return bytes(b).hex() if len(b) else '.'


def unhx(t):
    return b'' if t in ('.', '-') else bytes.fromhex(t)


def rand_bytes(rng, n, alphabet=None):
    if alphabet is None:
        return bytes(rng.randrange(256) for _ in range(n))
    return bytes(rng.choice(alphabet) for _ in range(n))


def words(alphabet, maxlen, minlen=0):
    """all byte strings over `alphabet` (bytes) with minlen <= length <= maxlen, shortest first"""
    for n in range(minlen, maxlen + 1):
        for tup in itertools.product(alphabet, repeat=n):
            yield bytes(tup)


def class_strings(rng):
    """one plain, one with embedded NUL / high bytes, per size class"""
    out = []
    for n in SIZE_CLASSES:
        plain = bytes((0x61 + (i % 26)) for i in range(n))
        out.append(plain)
        if n:
            mixed = bytearray(rand_bytes(rng, n, b'ab \t\x00\x80\xc3\xa9zZ'))
            mixed[rng.randrange(n)] = 0
            out.append(bytes(mixed))
    return out


def cstr_ok(b):
    """usable as a C-string argument without changing its meaning"""
    return 0 not in b


def shrink_hex_args(case, positions):
    """drop one byte from one of the hex arguments at the given token positions"""
    t = case.split()
    for p in positions:
        if p < len(t) and t[p] not in ('.', '-', '=') and len(t[p]) >= 2:
            h = t[p]
            for i in range(0, len(h), 2):
                yield ' '.join(t[:p] + [(h[:i] + h[i + 2:]) or '.'] + t[p + 1:])


def block_boundary_subjects(rng, thorough=False, light=False):
    """long subjects (just above 1, 2 and nearly 3 KiB) with ONE occurrence of a multi-byte pattern placed so that it
    straddles, touches or just misses an offset of the form 1024*k counted from the start, or size - 1024*k counted
    from the end (a search that works block by block — forwards or backwards — loses exactly these), optionally with an
    earlier decoy occurrence; yields (subject, pattern, offset)"""
    out = []
    for L in ((1025, 2049) if light else (1025, 2049, 3001) if not thorough else (1025, 2049, 3001, 4097)):
        for pat in ((b'##', b'Aa') if light else (b'##', b'Sep', b'Aa', b'abcd')):
            m = len(pat)
            marks = set()
            for k in (1, 2, 3):
                for b in (1024 * k, L - 1024 * k):
                    if 0 < b < L:
                        for o in range(b - m, b + 2):
                            if 0 <= o <= L - m:
                                marks.add(o)
            marks |= {0, L - m}
            for o in sorted(marks):
                filler = bytearray(0x78 for _ in range(L))     # 'x': occurs in no pattern
                filler[o:o + m] = pat
                out.append((bytes(filler), pat, o))
                if o > 40 and (o % 3 == 0 or (thorough and o % 3 == 1)):
                    f2 = bytearray(filler)
                    f2[7:7 + m] = pat                          # an earlier occurrence: the wrong answer of a lossy search
                    out.append((bytes(f2), pat, o))
    return out
