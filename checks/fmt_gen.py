"""generators and comparison helpers shared by C10, C11, C17 (group fmt)"""
import itertools

ALPHA14 = [b'{', b'}', b'_', b'.', b'&', b'0', b'1', b'9', b'+', b'-', b' ', b'x', b'c', b'Z']

INT_TYPES = {            # token -> (signed, bits)
    'i8': (True, 8), 'u8': (False, 8), 'i16': (True, 16), 'u16': (False, 16),
    'i32': (True, 32), 'u32': (False, 32), 'l': (True, 64), 'ul': (False, 64),
    'll': (True, 64), 'ull': (False, 64),
}
PERMITTED = ('bad_format', 'out_of_range', 'unicode_error', 'invalid_argument')


def hx(b):
    return b.hex() if len(b) else '.'


def lo_hi(signed, bits):
    return (-(1 << (bits - 1)), (1 << (bits - 1)) - 1) if signed else (0, (1 << bits) - 1)


def clamp(v, signed, bits):
    lo, hi = lo_hi(signed, bits)
    return min(max(v, lo), hi)


def int_values(signed, bits, radixes=(2, 8, 10, 16)):
    """0, +-1, +-radix^k +-1, min, max of the type"""
    lo, hi = lo_hi(signed, bits)
    vs = {0, 1, lo, hi, hi - 1, lo + 1 if signed else 2}
    if signed:
        vs.add(-1)
    for r in radixes:
        p = r
        while p <= hi + 1:
            for d in (-1, 0, 1):
                for sg in ((1, -1) if signed else (1,)):
                    v = sg * (p + d)
                    if lo <= v <= hi:
                        vs.add(v)
            p *= r
    return sorted(vs)


def int_arg(tok, v):
    return '%s:%d' % (tok, v)


def rand_int_arg(rng, tok=None):
    tok = tok or rng.choice(list(INT_TYPES))
    signed, bits = INT_TYPES[tok]
    lo, hi = lo_hi(signed, bits)
    k = rng.random()
    if k < 0.3:
        v = rng.choice([0, 1, lo, hi, 65, 255, 0x10FFFF, 0x110000, 0xD800, -1, 0xE9, 0x20AC, 0x1F600])
    elif k < 0.6:
        v = rng.randrange(-300, 300)
    else:
        v = rng.randrange(lo, hi + 1)
    return int_arg(tok, clamp(v, signed, bits))


FLOAT_BITS = ['0000000000000000', '8000000000000000', '3ff0000000000000', 'bff8000000000000', '400921fb54442d18',
              '7ff0000000000000', 'fff0000000000000', '7ff8000000000000', '54b249ad2594c37d', '0000000000000001',
              '7fefffffffffffff', '3fb999999999999a', '412e848000000000', 'c0c3880000000000']


def rand_text(rng, n=None, ascii_only=False):
    n = rng.choice([0, 1, 2, 3, 5, 8]) if n is None else n
    if ascii_only:
        return bytes(rng.randrange(0x20, 0x7f) for _ in range(n))
    out = bytearray()
    while len(out) < n:
        k = rng.random()
        if k < 0.6:
            out.append(rng.randrange(0x20, 0x7f))
        elif k < 0.75:
            out += chr(rng.choice([0xE9, 0x20AC, 0x1F600, 0x7FF, 0x800, 0xFFFF, 0x10000, 0x10FFFF])).encode('utf-8', 'surrogatepass')
        else:
            out.append(rng.randrange(1, 256))
    return bytes(out)


def rand_arg(rng, allow_float=True, text=None):
    k = rng.random()
    if k < 0.45:
        return rand_int_arg(rng)
    if k < 0.52:
        return 'c:%d' % rng.choice([65, 0, -1, -23, 127, -128, rng.randrange(-128, 128)])
    if k < 0.57:
        return 'wc:%d' % rng.choice([65, 0x20AC, 0x1F600, -1, 0x10FFFF, 0x110000, -2147483648, 2147483647])
    if k < 0.62:
        return 'c32:%d' % rng.choice([65, 0x20AC, 0x1F600, 0x10FFFF, 0x110000, 0xFFFFFFFF, 0x80000000, 0xD800])
    if k < 0.67:
        return 'b:%d' % rng.randrange(2)
    if k < 0.9 or not allow_float:
        t = text if text is not None else rand_text(rng)
        kind = rng.choice(['s', 'S', 'ss'])
        if kind == 's':
            t = t.replace(b'\x00', b'')
        return '%s:%s' % (kind, hx(t))
    if k < 0.92:
        return 'sn'
    return 'f64:' + rng.choice(FLOAT_BITS)


def may_char_pad(fmt):
    """syntactic over-approximation of 'some field is a padded character conversion'"""
    return b'c' in fmt and any(ch in fmt for ch in b'0123456789_')


def all_strings(alpha, maxlen):
    for n in range(0, maxlen + 1):
        for tup in itertools.product(alpha, repeat=n):
            yield b''.join(tup)


def cuts(s):
    for i in range(len(s)):
        yield s[:i]


def fmt_case(sink, mode, fmt, args):
    return ' '.join(['format', sink, mode, '-' if fmt is None else hx(fmt)] + list(args))


def outcome_class(line):
    """'OK' | 'THROW x' | 'ABORT tag' | 'FAULT kind'"""
    t = line.split()
    if not t:
        return 'FAULT empty'
    if t[0] == 'OK':
        return 'OK'
    return ' '.join(t[:2])


def allowed_set(spec):
    """classes permitted by an 'ALLOW ...' spec line"""
    out = set()
    for tok in spec.split()[1:]:
        if tok.startswith('ABORT:'):
            out.add('ABORT ' + tok[6:])
        else:
            out.add('THROW ' + tok)
    return out


def class_allowed(impl, spec):
    """C10's reading of the spec line: only the outcome class is constrained"""
    ic = outcome_class(impl)
    if spec.startswith('ALLOW'):
        return ic in allowed_set(spec)
    return ic == outcome_class(spec)


def shrink_format_case(case):
    """drop one format byte / one argument / simplify"""
    t = case.split()
    if len(t) < 4 or t[0] != 'format':
        return
    fmt = t[3]
    args = t[4:]
    if fmt not in ('.', '-') and len(fmt) > 2:
        for i in range(0, len(fmt), 2):
            yield ' '.join(t[:3] + [(fmt[:i] + fmt[i + 2:]) or '.'] + args)
    for i in range(len(args)):
        yield ' '.join(t[:4] + args[:i] + args[i + 1:])
    for i, a in enumerate(args):
        if ':' in a:
            k, v = a.split(':', 1)
            if k in ('s', 'S', 'ss') and v != '.' and len(v) > 2:
                yield ' '.join(t[:4] + args[:i] + [k + ':' + v[2:]] + args[i + 1:])
