"""C10: the format-string parser is total and memory-safe on every format string.
Cases: every string over the 14-symbol alphabet { } _ . & 0 1 9 + - space x c Z up to length 4
(quick) / 5 plus a seeded sample of length 6 (thorough) as a format string in an exact-size block
(only the NUL follows it: an over-read is an ASan report), with 0..4 arguments; seeded strings
over all 255 non-zero bytes, each also cut at every position; the null format; strtol probes
validating the libc model.  Compared: outcome CLASS only (output / which exception / abort /
fault); the bytes are C11's subject."""
import itertools
import vlib
from fmt_gen import *


class C10(vlib.Check):
    pid = 'C10'
    group = 'fmt'
    per_case_timeout = 10
    rule = ('exhaustive: all strings over the 14-symbol alphabet { } _ . & 0 1 9 + - sp x c Z of length <= 4 plus all of length 5 starting with "{" (quick) / '
            'all of length <= 5 + 400k seeded of length 6 starting with "{" (thorough), each with no argument and with 1-2 arguments (strings that could hit the '
            'documented character-padding assertion get a text argument, a bounded sample of them an integer so that the '
            'abort itself is observed); directed: lookahead sites at the end of the string ("{_", "{.", "{&", "{", "}", '
            '"{{", "{1"), widths/indices around int overflow (2^31, 2^32+1, 2^63, 20 digits), &0, &N beyond the arguments, '
            'signs/blanks after . and &; seeded: strings over all 255 non-zero bytes biased to the syntax bytes, every '
            'prefix of each, 0-4 arguments of all 18 argument types; strtol probes (glibc vs Fmt/Strtol.v). Widths above '
            '5000 are not generated (memory; a width >= 2^28 additionally trips the ST_HUGE_BUFFER_SIZE assertion in '
            'to_string, which the model predicts as ABORT Huge). Compared by outcome class; which of bad_format / '
            'out_of_range is raised when both apply is not compared. non-trivial = format contains "{" or "}"; '
            'distinct = distinct case line')
    partial = ('parser_outcomes lists one outcome the property does not: the ST_HUGE_BUFFER_SIZE assertion for an output of '
               '2^28 bytes or more (theorems huge_only_big, parser_outcomes_strict_refuted; known finding huge-output-assert)')
    modelled_not_verified = (
        'strtol(.,&end,10): Fmt/Strtol.v from the C standard, validated against glibc by the strtol op on every run',
        'floating-point text is the C library\'s (oracle: OCaml Printf -> printf); C10 only uses that it is non-empty',
        'ST::string_stream (the string sink\'s buffer) is modelled as a byte list (its own behaviour is C16\'s subject)',
        'two to four arguments are passed as a tagged value whose format_type forwards to the library\'s overload for the '
        'real type; single arguments are passed with their real C++ type',
    )

    def variants(self):
        return {'': ['-DH_FMT_STRING_ONLY']}

    def gen(self, rng, tier):
        quick = tier == 'quick'
        # ---- directed
        yield fmt_case('string', 'default', None, [])
        yield fmt_case('string', 'default', None, ['i32:1'])
        # known finding huge-output-assert: one output of exactly 2^28 bytes (512 MB peak in the harness, 0.3 s)
        yield fmt_case('string', 'default', b'{268435456}', ['i32:1'])
        directed = [b'', b'{', b'}', b'{{', b'}}', b'{}', b'{_', b'{_}', b'{_x', b'{_x}', b'{.', b'{.}', b'{.5', b'{.5}',
                    b'{&', b'{&}', b'{&1', b'{&1}', b'{&0}', b'{&2}', b'{&9}', b'{&-1}', b'{& 1}', b'{&+1}', b'{. 3}',
                    b'{.-3}', b'{.+3}', b'{.\t\n\v\f\r 3}', b'{1', b'{1}', b'{10', b'{0', b'{0}', b'{00}', b'{x', b'{Z}',
                    b'{c}', b'{1c}', b'{_xc}', b'{0c}', b'{c0}', b'{c5}', b'{ }', b'{-}', b'{+}', b'{#}', b'{<}', b'{>}',
                    b'{2147483647c', b'{&2147483647}', b'{&2147483648}', b'{&4294967296}', b'{&4294967297}',
                    b'{&4294967298}', b'{&9223372036854775807}', b'{&9223372036854775808}', b'{&99999999999999999999}',
                    b'{&-9223372036854775808}', b'{&-99999999999999999999}', b'{4294967297}', b'{4294967296}',
                    b'{9223372036854775807}', b'{99999999999999999999}', b'{.4294967297}', b'{.99999999999999999999}',
                    b'{.-99999999999999999999}', b'{.2147483648}', b'a{{b}}c{}d', b'}{', b'}}{', b'{{{', b'{{{}', b'{}}',
                    b'{}}}', b'{}{', b'{}{}', b'{}{}{}', b'{}{}{}{}{}', b'{&1}{}{&1}', b'{&2}{}{}', b'{}{&1}{}',
                    b'{_\xc3}', b'{_\xff}', b'{_{}', b'{_}}', b'{__}', b'{_0}', b'{5_}', b'{.}x', b'{&}x', b'{.x}',
                    b'{&x}', b'{.&1}', b'{&.1}', b'{1.2&1}', b'{12345}', b'{5000}', b'{.5000}', b'{<5>6}', b'{e}', b'{f}',
                    b'{E}', b'{.3f}', b'{+.2e}', b'{10.3f}', b'{\x01}', b'{\xff}', b'\xff{\x80}', b'{1 }', b'{1 2}',
                    b'{.1 }', b'{. }', b'{.  ', b'{&  ', b'{. +', b'{.+', b'{.-', b'{&-', b'{.+}', b'{.-}', b'{&+}']
        arglists = [[], ['i32:65'], ['s:41'], ['i32:-7', 'ull:18446744073709551615'], ['S:c3a9', 'b:1', 'c:-23'],
                    ['f64:400921fb54442d18'], ['i8:-128', 'u8:255', 'i16:-32768', 'u16:65535'], ['sn'], ['ss:.', 'wc:8364'],
                    ['c32:128512', 'l:-9223372036854775808'], ['f64:54b249ad2594c37d'], ['i32:-2147483648', 'll:-9223372036854775808'],
                    ['ull:4294967361']]
        for f in directed:
            for al in arglists:
                yield fmt_case('string', 'default', f, al)
            for m in ('check', 'substitute', 'assume'):
                yield fmt_case('string', m, f, ['S:c3', 's:a9', 'i32:233'])
        # ---- strtol probes (validate the libc model)
        probes = [b'', b'0', b'1', b'12x', b' 12', b'\t\n\v\f\r 12', b'+12', b'-12', b'+-12', b'-+1', b'- 1', b'+', b'-', b' ',
                  b'x', b'0x10', b'00012', b'2147483647', b'2147483648', b'4294967296', b'9223372036854775807',
                  b'9223372036854775808', b'-9223372036854775808', b'-9223372036854775809', b'99999999999999999999999',
                  b'-99999999999999999999999', b'\x0c5', b'\x1c5', b'\x855', b'\xa05', b'1\xff', b' +0}', b'12}', b'9 9']
        for p in probes:
            yield 'strtol ' + hx(p)
        for _ in range(100 if quick else 2000):
            n = rng.choice([1, 2, 3, 5, 8, 19, 20, 21])
            yield 'strtol ' + hx(bytes(rng.choice(b' \t+-0123456789019x}\x0b\xa0') for _ in range(n)))
        # ---- exhaustive over the 14-symbol alphabet
        maxlen = 4 if quick else 5
        abort_budget = [60 if quick else 400]

        def with_args(f):
            yield fmt_case('string', 'default', f, [])
            if b'{' not in f:
                return
            nf = f.count(b'{')
            if may_char_pad(f):
                yield fmt_case('string', 'default', f, ['s:41'] * min(nf, 4))
                if abort_budget[0] > 0 and rng.random() < 0.25:
                    abort_budget[0] -= 1
                    yield fmt_case('string', 'default', f, ['i32:65'] * min(nf, 4))
            else:
                yield fmt_case('string', 'default', f, ['i32:65'])
                if nf >= 2 or b'&' in f:
                    yield fmt_case('string', 'default', f, ['u8:200', 's:4142'])
        for f in all_strings(ALPHA14, maxlen):
            yield from with_args(f)
            # the same string through a user-defined format_writer that keeps scanning after a caught bad_format
            if b'{' in f:
                yield 'writer_retry ' + hx(f)
        if quick:
            # every length-5 string that starts a field
            for tup in itertools.product(ALPHA14, repeat=4):
                yield from with_args(b'{' + b''.join(tup))
        if not quick:
            for _ in range(400000):
                f = b'{' + b''.join(rng.choice(ALPHA14) for _ in range(5))
                yield from with_args(f)
        # ---- seeded strings over all 255 non-zero bytes, cut at every position
        syntax = b'{}_.&0123456789+- xXdobcfeE<>#'
        nrand = 1500 if quick else 30000
        for _ in range(nrand):
            n = rng.choice([1, 2, 3, 4, 5, 6, 8, 12, 20])
            b = bytearray()
            for _ in range(n):
                k = rng.random()
                b.append(rng.choice(syntax) if k < 0.7 else rng.randrange(1, 256))
            if rng.random() < 0.7:
                b.insert(rng.randrange(len(b) + 1), 0x7b)
            f = bytes(b)
            nargs = rng.choice([0, 1, 1, 2, 3, 4])
            if may_char_pad(f) and (abort_budget[0] <= 0 or rng.random() < 0.8):
                args = [rand_arg(rng, text=rand_text(rng)).replace('i32:', 'i32:') for _ in range(nargs)]
                args = [a if a.split(':')[0] in ('s', 'S', 'ss', 'b', 'sn', 'f64') else 'S:' + hx(rand_text(rng, 2)) for a in args]
            else:
                args = [rand_arg(rng) for _ in range(nargs)]
                if may_char_pad(f):
                    abort_budget[0] -= 1
            mode = rng.choice(['default', 'default', 'check', 'substitute', 'assume'])
            yield fmt_case('string', mode, f, args)
            yield 'writer_retry ' + hx(f)
            if len(args) <= 3:
                yield 'throwsink %s %s' % (hx(f), ' '.join(args))
        for t in (b'', b'abc', b'x' * 15, b'x' * 16, b'y' * 40):
            yield 'fmtref ' + hx(t)
        for f, args in ((b'abc{}def', ['i32:1']), (b'{}{}{}', ['s:6162', 'i32:5', 'b:1']), (b'0123456789{>20}', ['s:7a']), (b'{', []), (b'plain', [])):
            for _ in range(8):
                yield 'throwsink %s %s' % (hx(f), ' '.join(args))
            for c in cuts(f):
                yield fmt_case('string', mode, c, args)

    def same(self, case, impl, model):
        if case.startswith(('strtol', 'writer_retry', 'throwsink', 'fmtref')):
            return impl == model
        ic, mc = outcome_class(impl), outcome_class(model)
        if ic == mc:
            return True
        # which of the two is raised when a format is both malformed and short of arguments is not
        # constrained (the unambiguous cases are decided by `allowed` against the Spec)
        both = ('THROW bad_format', 'THROW out_of_range')
        return ic in both and mc in both

    def allowed(self, case, impl, spec):
        if case.startswith(('strtol', 'writer_retry', 'throwsink', 'fmtref')):
            return impl == spec
        return class_allowed(impl, spec)

    def known(self, case, impl, spec):
        # only: observed the ST_HUGE_BUFFER_SIZE assertion AND the output really is >= 2^28 bytes
        if impl == 'ABORT Huge' and 'raw_size=' in spec:
            try:
                if int(spec.split('raw_size=')[1].split()[0]) >= (1 << 28):
                    return 'huge-output-assert'
            except ValueError:
                pass
        return None

    def nontrivial(self, case, impl):
        t = case.split()
        if t[0] != 'format':
            return True
        return t[3] not in ('.', '-') and ('7b' in t[3] or '7d' in t[3])

    def shrink_candidates(self, case):
        return shrink_format_case(case)

    def summarize(self, cases, impl):
        d = {'ops': {}, 'nargs': {}, 'fmt_len': {}}
        for c in cases:
            t = c.split()
            d['ops'][t[0]] = d['ops'].get(t[0], 0) + 1
            if t[0] == 'format':
                k = str(len(t) - 4)
                d['nargs'][k] = d['nargs'].get(k, 0) + 1
                n = 0 if t[3] in ('.', '-') else len(t[3]) // 2
                k = str(n) if n <= 6 else '7+'
                d['fmt_len'][k] = d['fmt_len'].get(k, 0) + 1
        return d


CHECK = C10()
