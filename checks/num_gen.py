"""generators shared by C12 and C13 (integers <-> text, floating point wrappers)"""
import ctypes
import struct

STYPES = {'short': 16, 'int': 32, 'long': 64, 'llong': 64}
UTYPES = {'ushort': 16, 'uint': 32, 'ulong': 64, 'ullong': 64}
BITS = dict(STYPES, **UTYPES, schar=8, uchar=8)
DIGITS = '0123456789abcdefghijklmnopqrstuvwxyz'


def hx(b):
    return b.hex() if len(b) else '.'


def is_unsigned(ty):
    return ty.startswith('u')


def trange(ty):
    b = BITS[ty]
    return (0, (1 << b) - 1) if is_unsigned(ty) else (-(1 << (b - 1)), (1 << (b - 1)) - 1)


def boundary_values(ty, base):
    """{0, +-1, +-b^k +-1, min, min+1, max, max-1} clipped to the type"""
    lo, hi = trange(ty)
    vals = {0, 1, -1, 2, -2, lo, lo + 1, hi, hi - 1, base - 1, base, -base, 9, 10, 11, 35, 36, 37, -36}
    p = base
    while p <= (1 << 64):
        for d in (-1, 0, 1):
            vals.add(p + d)
            vals.add(-p + d)
        p *= base
    for k in (7, 8, 15, 16, 31, 32, 63, 64):
        for d in (-1, 0, 1):
            vals.add((1 << k) + d)
            vals.add(-(1 << k) + d)
    return sorted(v for v in vals if lo <= v <= hi)


def to_base(v, base, upper=False):
    """reference rendering used only to build PARSER inputs (never as an oracle)"""
    if v == 0:
        return '0'
    s = ''
    n = abs(v)
    while n:
        s = DIGITS[n % base] + s
        n //= base
    if upper:
        s = s.upper()
    return ('-' if v < 0 else '') + s


# ---------------------------------------------------------------- libc through ctypes (strtod / strtof only)
_libc = ctypes.CDLL(None)
_libc.strtod.restype = ctypes.c_double
_libc.strtod.argtypes = [ctypes.c_char_p, ctypes.POINTER(ctypes.c_char_p)]
_libc.strtof.restype = ctypes.c_float
_libc.strtof.argtypes = [ctypes.c_char_p, ctypes.POINTER(ctypes.c_char_p)]


def _scan(fn, text, pack, unpack):
    cstr = text.split(b'\0')[0]
    buf = ctypes.create_string_buffer(cstr + b'\0')
    endp = ctypes.c_char_p()
    base = ctypes.cast(buf, ctypes.c_void_p).value
    v = fn(ctypes.cast(buf, ctypes.c_char_p), ctypes.byref(endp))
    end = ctypes.cast(endp, ctypes.c_void_p).value - base
    return struct.unpack(unpack, struct.pack(pack, v))[0], end


def strtod_ref(text):
    """(bit pattern, end offset) of the platform's strtod on the C string `text` denotes"""
    return _scan(_libc.strtod, text, '<d', '<Q')


def strtof_ref(text):
    return _scan(_libc.strtof, text, '<f', '<I')


def dbits(x):
    return struct.unpack('<Q', struct.pack('<d', x))[0]


def fbits(x):
    return struct.unpack('<I', struct.pack('<f', x))[0]
