"""history generators for the memory properties (C05 buffers; C16 streams; C19 faults)"""
import os
import re

VERIF = os.path.dirname(os.path.dirname(os.path.abspath(__file__)))


def consts():
    d = {}
    for m in re.finditer(r'Definition (\w+) : N := (\d+)\.', open(os.path.join(VERIF, 'coq/Gen/Consts.v')).read()):
        d[m.group(1)] = int(m.group(2))
    return d


def limits():
    c = consts()
    return {'c': c['local_length_char'], 'w': c['local_length_wchar'], 'u16': c['local_length_char16'],
            'u32': c['local_length_char32']}


WIDTH = {'c': 2, 'w': 8, 'u16': 4, 'u32': 8}
MAXV = {'c': 0xFF, 'w': 0x7FFFFFFF, 'u16': 0xFFFF, 'u32': 0xFFFFFFFF}


def rand_units(rng, ty, n):
    w = WIDTH[ty]
    if n == 0:
        return '.'
    out = []
    for _ in range(n):
        r = rng.random()
        if r < 0.6:
            v = rng.randrange(0x20, 0x7F)
        elif r < 0.7:
            v = 0
        elif r < 0.85:
            v = rng.randrange(0x80, min(MAXV[ty], 0x10FFFF) + 1)
        else:
            v = rng.randrange(0, MAXV[ty] + 1)
        out.append('%0*x' % (w, v))
    return ''.join(out)


def size_classes(L):
    return [0, 1, L - 1, L, L + 1, 3 * L, 2, L - 2, 2 * L]


def gen_buf_history(rng, ty, L, pool=4, nops=10):
    """a well-formed random history: constructs only dead slots, uses only live ones"""
    live = set()
    sizes = {}
    ops = []
    cls = size_classes(L)

    def pick_size():
        return rng.choice(cls[:6]) if rng.random() < 0.85 else rng.choice(cls)
    for _ in range(nops):
        dead = [i for i in range(pool) if i not in live]
        choices = []
        if dead:
            choices += ['new'] * 3 + ['fill', 'def']
            if live:
                choices += ['copy'] * 2 + ['move'] * 3
        if live:
            choices += ['asg'] * 3 + ['masg'] * 4 + ['alloc'] * 2 + ['allocfill', 'write', 'clear', 'del', 'del'] + ['swap'] * 2
        op = rng.choice(choices)
        if op in ('new', 'fill', 'def', 'copy', 'move'):
            o = rng.choice(dead)
            if op == 'new':
                n = pick_size()
                ops.append('new,%d,%s' % (o, rand_units(rng, ty, n)))
                sizes[o] = n
            elif op == 'fill':
                n = pick_size()
                ops.append('fill,%d,%d,%d' % (o, n, rng.choice([0x41, 0, 0x7A, min(MAXV[ty], 0xE9)])))
                sizes[o] = n
            elif op == 'def':
                ops.append('def,%d' % o)
                sizes[o] = 0
            else:
                s = rng.choice(sorted(live))
                ops.append('%s,%d,%d' % (op, o, s))
                sizes[o] = sizes[s]
                if op == 'move':
                    sizes[s] = 0
            live.add(o)
        elif op in ('asg', 'masg'):
            o = rng.choice(sorted(live))
            s = rng.choice(sorted(live))      # self-assignment included
            ops.append('%s,%d,%d' % (op, o, s))
            if op == 'asg':
                sizes[o] = sizes[s]
            elif o != s:
                sizes[o], sizes[s] = sizes[s], sizes[o]
        elif op == 'swap':
            o = rng.choice(sorted(live))
            s = rng.choice(sorted(live))
            ops.append('swap,%d,%d' % (o, s))
            sizes[o], sizes[s] = sizes[s], sizes[o]
        elif op in ('alloc', 'allocfill'):
            o = rng.choice(sorted(live))
            n = pick_size()
            ops.append('%s,%d,%d,%d' % (op, o, n, rng.choice([0x42, 0x30, 0])))
            sizes[o] = n
        elif op == 'write':
            o = rng.choice(sorted(live))
            if sizes[o] > 0:
                ops.append('write,%d,%d,%d' % (o, rng.choice([0, sizes[o] - 1, sizes[o] // 2]), rng.choice([0x58, 0, 0x7E])))
        elif op == 'clear':
            o = rng.choice(sorted(live))
            ops.append('clear,%d' % o)
            sizes[o] = 0
        elif op == 'del':
            o = rng.choice(sorted(live))
            ops.append('del,%d' % o)
            live.discard(o)
    return ops


def directed_buf_histories(ty, L):
    """every (target class x source class) for each binary operation, destruction in both orders"""
    import random
    rng = random.Random(12345)
    cls = [0, 1, L - 1, L, L + 1, 3 * L]
    out = []
    for a in cls:
        for b in cls:
            ua, ub = rand_units(rng, ty, a), rand_units(rng, ty, b)
            for binop in ('asg', 'masg'):
                for order in (('del,0', 'del,1'), ('del,1', 'del,0')):
                    out.append(['new,0,' + ua, 'new,1,' + ub, '%s,0,1' % binop, 'write,0,0,88', 'write,1,0,89'] + list(order))
                # use after move / copy: reassign both sides afterwards
                out.append(['new,0,' + ua, 'new,1,' + ub, '%s,0,1' % binop, 'alloc,1,%d,66' % a, 'asg,0,1', 'clear,1', 'del,0', 'del,1'])
        ua = rand_units(rng, ty, a)
        for ctor in ('copy', 'move'):
            out.append(['new,0,' + ua, '%s,1,0' % ctor, 'write,1,0,88', 'write,0,0,89', 'del,0', 'del,1'])
            out.append(['new,0,' + ua, '%s,1,0' % ctor, 'del,1', 'alloc,0,%d,67' % (L + 2), 'del,0'])
            out.append(['new,0,' + ua, '%s,1,0' % ctor, 'new,2,' + rand_units(rng, ty, L + 3), 'masg,0,2', 'asg,2,1', 'del,0', 'del,1', 'del,2'])
        for selfop in ('asg', 'masg'):
            out.append(['new,0,' + ua, '%s,0,0' % selfop, 'write,0,0,90', 'del,0'])
        for n in cls:
            out.append(['new,0,' + ua, 'alloc,0,%d,68' % n, 'allocfill,0,%d,69' % a, 'clear,0', 'del,0'])
        out.append(['fill,0,%d,65' % a, 'copy,1,0', 'clear,0', 'del,0', 'del,1'])
    out.append(['newnull,0,0', 'copy,1,0', 'del,0', 'del,1'])
    out.append(['def,0', 'def,1', 'masg,0,1', 'asg,1,0', 'del,1', 'del,0'])
    return out
