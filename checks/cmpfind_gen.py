"""helpers shared by C06 and C07 (comparison / searching)"""
import itertools

SIZE_MAX = (1 << 64) - 1


def hx(b, width=2):
    if isinstance(b, (bytes, bytearray)):
        return b.hex() if len(b) else '.'
    return ''.join('%0*x' % (width, u) for u in b) if len(b) else '.'


def unhex(tok, width=2):
    if tok in ('.', '-'):
        return []
    return [int(tok[i:i + width], 16) for i in range(0, len(tok), width)]


def strings_upto(alpha, maxlen, minlen=0):
    for n in range(minlen, maxlen + 1):
        for tup in itertools.product(alpha, repeat=n):
            yield list(tup)


def kv(line):
    """'OK a=1 b=x' -> ('OK', {'a': '1', 'b': 'x'}); other outcomes -> (line, {})"""
    t = line.split()
    if not t or t[0] != 'OK':
        return line, {}
    d = {}
    for x in t[1:]:
        if '=' in x:
            k, v = x.split('=', 1)
            d[k] = v
        else:
            d['_'] = x
    return 'OK', d


def tok_ok(impl_v, spec_v):
    if spec_v == '*':
        return True
    if spec_v == 'nz':
        return impl_v in ('1', '-1')
    return impl_v == spec_v


def drop_one(tok, width=2):
    u = unhex(tok, width)
    for i in range(len(u)):
        yield hx(u[:i] + u[i + 1:], width)


def needle_count(alpha_len, maxlen):
    return sum(alpha_len ** k for k in range(1, maxlen + 1))


def needle_tok(alpha_hex, k):
    a = len(alpha_hex) // 2
    length, block = 1, a
    while k >= block:
        k -= block
        block *= a
        length += 1
    digs = []
    for _ in range(length):
        digs.append(k % a)
        k //= a
    digs.reverse()
    return ''.join(alpha_hex[2 * d:2 * d + 2] for d in digs)


def block_boundary_subjects(rng, thorough=False, light=False):
    """long subjects (just above 1, 2 and nearly 3 KiB) with ONE occurrence of a multi-byte pattern placed so that it
    straddles, touches or just misses an offset of the form 1024*k counted from the start, or size - 1024*k counted
    from the end (a search that works block by block — forwards or backwards — loses exactly these), optionally with an
    earlier decoy occurrence; yields (subject, pattern, offset)"""
    out = []
    for L in ((1025, 2049) if light else (1025, 2049, 3001) if not thorough else (1025, 2049, 3001, 4097)):
        for pat in ((b'##', b'Aa') if light else (b'##', b'Sep', b'Aa', b'abcd')):
            m = len(pat)
            marks = set()
            for k in (1, 2, 3):
                for b in (1024 * k, L - 1024 * k):
                    if 0 < b < L:
                        for o in range(b - m, b + 2):
                            if 0 <= o <= L - m:
                                marks.add(o)
            marks |= {0, L - m}
            for o in sorted(marks):
                filler = bytearray(0x78 for _ in range(L))     # 'x': occurs in no pattern
                filler[o:o + m] = pat
                out.append((bytes(filler), pat, o))
                if o > 40 and (o % 3 == 0 or (thorough and o % 3 == 1)):
                    f2 = bytearray(filler)
                    f2[7:7 + m] = pat                          # an earlier occurrence: the wrong answer of a lossy search
                    out.append((bytes(f2), pat, o))
    return out
