"""C09: split, tokenize and replace partition the text exactly; join inverts split.
The three split overloads (char, const char* with its per-piece re-validation, char8_t*, ST::string),
tokenize, replace in all overload forms, fill; exhaustive small subjects (incl. NUL) against
separators of length 0..3 (empty, self-overlapping, longer than the subject), max_splits in
{0,1,2,SIZE_MAX}, replacements growing and shrinking across the SSO limit."""
import vlib
from slice_gen import *

SEPS = [b'', b'a', b',', b'aa', b'a,', b',a', b',,', b'aaa', b'a,a', b',,,', b'aaaaaaaaa']
SEPS_CI = [b'A', b'a', b'aA', b'Aa', b',A', b'AAA', b'a,A']
SEPS_NUL = [b'\x00', b'a\x00', b'\x00\x00']
MAXES = (0, 1, 2, SIZE_MAX)
TOS = [b'', b'x', b'a', b'aa', b'xyz', b',', b'A']


class C09(vlib.Check):
    pid = 'C09'
    group = 'slice'
    per_case_timeout = 3
    rule = ('split: all subjects of length <= 6 (quick; thorough 8) over {a, comma, NUL} x separators of length 0..3 (empty, self-overlapping '
            '"aa", longer than the subject, with NUL for the ST::string form) x max_splits in {0,1,2,SIZE_MAX} x forms char / const char* / '
            'char8_t* / ST::string, case-sensitive; the same over {a,A,comma} with mixed-case separators in both case modes; high-byte '
            'separators against well-formed and malformed UTF-8 subjects (per-piece re-validation of the const char* form); split(char) with '
            'bytes 0x00, 0x80.. (assert); tokenize over all subjects of length <= 6 (thorough 8) over {a, space, NUL, tab} x 4 delimiter sets; '
            'replace: the same small subjects x from in separators x to in {"", shorter, equal, longer} in all seven overload forms, results '
            'crossing the SSO limit (14..18 bytes) by growth and shrinkage, from_validated garbage subjects (validation of the result); fill '
            'for counts 0..40 and large; seeded long cases (up to 400 bytes). non-trivial = non-empty subject; distinct = distinct case line')
    modelled_not_verified = (
        'ST::string::from_validated, the copy constructor (return *this), std::vector growth and char_buffer::allocate + char_traits::copy '
        'are modelled as exact-size arrays with bounds-checked reads/writes (their own behaviour is C04/C05\'s subject)',
        'the find primitives are the shared Str/Model.v (C07\'s subject); this group proves what it needs about them itself',
        'utf_validation_t substitute_invalid for the const char* replace overloads is not exercised (cleanup_utf8_buffer is the utf group\'s subject)',
    )

    def gen(self, rng, tier):
        yield 'shutdown'      # use of the library during program / thread shutdown (harness probe)
        thorough = tier == 'thorough'
        # a soak of consecutive calls on one thread (results may not depend on how many calls went before)
        yield 'soak 70000'
        # ---- split, exhaustive small
        maxlen = 8 if thorough else 6
        empties = 0
        for s in words(b'a,\x00', maxlen):
            h = hx(s)
            for sep in SEPS + SEPS_NUL:
                p = hx(sep)
                for mx in MAXES:
                    if not sep and 0 in s and mx == SIZE_MAX:
                        # the empty separator on text with NUL at unlimited max_splits: a hang on the unrepaired tree;
                        # a handful of these is enough (each costs a per-case timeout there)
                        empties += 1
                        if empties > 3:
                            continue
                    if len(s) > 5 and mx == 1 and len(sep) != 2:
                        continue
                    yield 'split_s %s %s %d cs' % (h, p, mx)
                    if cstr_ok(sep):
                        yield 'split_z %s %s %d cs' % (h, p, mx)
                        if len(sep) == 1:
                            yield 'split_c %s %s %d cs' % (h, p, mx)
                        if len(sep) == 2 and mx == 2:
                            yield 'split_u %s %s %d cs' % (h, p, mx)
        for s in words(b'aA,', 6 if thorough else 4):
            h = hx(s)
            for sep in SEPS_CI:
                p = hx(sep)
                for mx in (1, SIZE_MAX):
                    for cs in ('cs', 'ci'):
                        yield 'split_s %s %s %d %s' % (h, p, mx, cs)
                        yield 'split_z %s %s %d %s' % (h, p, mx, cs)
                        if len(sep) == 1:
                            yield 'split_c %s %s %d %s' % (h, p, mx, cs)
        # ---- split(char) precondition, null splitter
        for ch in (0x00, 0x01, 0x2c, 0x7f, 0x80, 0xc3, 0xff):
            yield 'split_c 612c62 %02x 18446744073709551615 cs' % ch
            yield 'split_c . %02x 1 ci' % ch
        yield 'split_z 612c62 - 5 cs'
        yield 'split_u . - 0 cs'
        # ---- high-byte separators: per-piece re-validation of the const char* form
        utf = [b'', b'\xc3\xa9', b'a\xc3\xa9b', b'\xc3\xa9\xc3\xa9', b'\xe2\x82\xac', b'x\xe2\x82\xacy\xc3\xa9', b'\xf0\x9f\x98\x80',
               b'\xc3', b'\xa9', b'a\xc3', b'\xe2\x82', b'\xc3\xa9\xa9', b'\xc3\xc3\xa9', b'\xff', b'\xf0\x9f\x98', b'\xe2\xa9\x82\xac',
               b'\xc3\xa9\x00\xc3\xa9', b'\xa9\xc3\xa9', b'\xc3\xa9\xc3']
        hseps = [b'\xc3\xa9', b'\xa9', b'\xc3', b'\x82', b'\xe2\x82\xac', b'\x82\xac', b'\xff', b'a\xc3']
        for s in utf:
            for sep in hseps:
                for mx in (0, 1, SIZE_MAX):
                    yield 'split_z %s %s %d cs' % (hx(s), hx(sep), mx)
                    yield 'split_s %s %s %d cs' % (hx(s), hx(sep), mx)
                yield 'split_u %s %s %d ci' % (hx(s), hx(sep), SIZE_MAX)
        # ---- tokenize
        dsets = ['=', '20', '2009', '.', '61']
        for s in words(b'a \x00\t', 8 if thorough else 6):
            for d in (dsets if len(s) <= 4 or thorough else dsets[:2]):
                yield 'tokenize %s %s' % (hx(s), d)
        # delimiter membership must be exact on all 256 byte values: every subject byte against delimiter sets,
        # in particular bytes that alias a delimiter modulo 128, differ from it in one bit, or are its neighbours
        for dset in ([0x20], [0x20, 0x09, 0x0d, 0x0a], [0x3a], [0x2c, 0x3b], [0x7f], [0x01]):
            dh = ''.join('%02x' % d for d in dset)
            probe = set()
            for d in dset:
                probe |= {d ^ 0x80, d ^ 0x20, d ^ 0x40, d ^ 0x01, (d + 1) & 0xFF, (d - 1) & 0xFF, d | 0x80, d & 0x7F}
            probe -= set(dset)
            probe.discard(0)
            for b in sorted(probe):
                yield 'tokenize %s %s' % (hx(bytes([0x61, b, 0x62, dset[0], b, b, 0x63])), dh)
                yield 'tokenize %s %s' % (hx(bytes([b, 0x61, dset[-1], dset[0], 0x62, b])), dh)
        if thorough:
            for b in range(1, 256):
                yield 'tokenize %s 2009' % hx(bytes([0x61, b, 0x62, 0x20, b, 0x63]))
        # ---- replace, exhaustive small
        rl = 6 if thorough else 4
        for s in words(b'a,\x00', rl):
            h = hx(s)
            for fr in SEPS[:10] + SEPS_NUL[:2]:
                for to in TOS:
                    yield 'replace_ss %s %s %s cs' % (h, hx(fr), hx(to))
                if cstr_ok(fr) and len(s) <= 3:
                    yield 'replace_zz %s %s 78 cs check' % (h, hx(fr))
                    yield 'replace_sz %s %s 7879 cs assume' % (h, hx(fr))
                    yield 'replace_zs %s %s . cs check' % (h, hx(fr))
        for s in words(b'aA,', rl):
            for fr in SEPS_CI:
                for to in (b'', b'x', b'aA', b'xyz'):
                    yield 'replace_ss %s %s %s ci' % (hx(s), hx(fr), hx(to))
                    if len(s) == rl:
                        yield 'replace_ss %s %s %s cs' % (hx(s), hx(fr), hx(to))
        # ---- replace across the SSO limit: result sizes 13..19 by growth and by shrinkage
        for k in range(0, 10):
            for unit, fr, to in ((b'ab', b'b', b'bcd'), (b'abc', b'bc', b''), (b'a', b'a', b'aa'), (b'xyz-', b'xyz', b'q'),
                                 (b'aa', b'aa', b'a'), (b'ab', b'ab', b'abab')):
                s = unit * k
                for tail in (b'', b'-', unit[:1]):
                    yield 'replace_ss %s %s %s cs' % (hx(s + tail), hx(fr), hx(to))
                    yield 'replace_zz %s %s %s ci check' % (hx(s + tail), hx(fr), hx(to))
        for n in range(12, 20):
            s = b'a' * n
            for fr, to in ((b'a', b'b'), (b'a', b''), (b'aa', b'a'), (b'a', b'aa'), (b'aaa', b'xxxx'), (b'aaaa', b'xxx')):
                yield 'replace_ss %s %s %s cs' % (hx(s), hx(fr), hx(to))
        # ---- null / validation modes of the C-string overloads
        for s in (b'', b'abcabc', b'\xffabc', b'ab\x00ab'):
            for fr in ('-', '.', '62', 'ff', '6263'):
                for to in ('-', '.', '78', 'c3', 'c3a9'):
                    for v in ('check', 'assume'):
                        yield 'replace_zz %s %s %s cs %s' % (hx(s), fr, to, v)
                        yield 'replace_uu %s %s %s cs %s' % (hx(s), fr, to, v)
                        if fr != '-':
                            yield 'replace_sz %s %s %s ci %s' % (hx(s), fr, to, v)
                            yield 'replace_su %s %s %s cs %s' % (hx(s), fr, to, v)
                        if to != '-':
                            yield 'replace_zs %s %s %s cs %s' % (hx(s), fr, to, v)
                            yield 'replace_us %s %s %s ci %s' % (hx(s), fr, to, v)
        # ---- garbage subjects: the result is re-validated (throws even when nothing matches)
        for s in utf:
            for fr, to in ((b'a', b'b'), (b'zz', b'y'), (b'\xa9', b''), (b'\xc3', b'\xc3\xa9'), (b'\xc3\xa9', b'e'), (b'', b'x'),
                           (b'\xff', b'?'), (b'\xa9\xa9', b'\xa9')):
                yield 'replace_ss %s %s %s cs' % (hx(s), hx(fr), hx(to))
        # ---- fill
        for n in list(range(0, 41)) + [255, 256, 257, 5000, 70000]:
            yield 'fill %d 41' % n
            if n in (0, 1, 2, 15, 16, 17):
                for c in (0x00, 0x7f, 0x80, 0xc3, 0xff):
                    yield 'fill %d %02x' % (n, c)
        # ---- long separators / patterns (8..17 bytes: word-at-a-time comparison territory) whose near-occurrences in
        # the subject differ from them only in bit 5 of some bytes: ASCII letters (must match case-insensitively only),
        # non-letters such as '[' / '{', '@' / '`', NUL / space, and high bytes such as C9 / E9 (must never match)
        flip_classes = [b'abcXYZ', b'[{@`', b'\x00 ', b'\xc9\xe9\xc1\xda', b'_\x7f', b'19']
        for n in (8, 9, 15, 16, 17):
            for ci_flip in flip_classes:
                for rep in range(2 if not thorough else 12):
                    base = bytes(rng.choice(b'abcxyz019,;') for _ in range(n))
                    pos = rng.randrange(n)
                    sep = bytearray(base)
                    sep[pos] = rng.choice(ci_flip)
                    if rng.random() < 0.5:
                        sep[(pos + 3) % n] = rng.choice(ci_flip)
                    sep = bytes(sep)
                    near = bytearray(sep)
                    near[pos] ^= 0x20
                    near = bytes(near)
                    subj = b'p' + near + b'-' + sep + b'q' + near.swapcase() + b'r'
                    for cs in ('cs', 'ci'):
                        yield 'split_s %s %s %d %s' % (hx(subj), hx(sep), SIZE_MAX, cs)
                        yield 'replace_ss %s %s %s %s' % (hx(subj), hx(sep), hx(b'#'), cs)
                        if cstr_ok(sep) and cstr_ok(subj) and all(c < 0x80 for c in subj):
                            yield 'split_z %s %s %d %s' % (hx(subj), hx(sep), 2, cs)
        # ---- long subjects: an occurrence straddling every 1 KiB boundary counted from either end of the subject and
        #      from the end of the previous occurrence (split / replace restart their search there)
        for subj, sep, o in block_boundary_subjects(rng, thorough):
            for cs in ('cs', 'ci'):
                sj = subj if cs == 'cs' else subj.swapcase()
                for mx in (1, SIZE_MAX):
                    yield 'split_s %s %s %d %s' % (hx(sj), hx(sep), mx, cs)
                yield 'split_z %s %s %d %s' % (hx(sj), hx(sep), SIZE_MAX, cs)
                yield 'replace_ss %s %s %s %s' % (hx(sj), hx(sep), hx(b'<->'), cs)
        # ---- seeded
        for _ in range(1200 if not thorough else 25000):
            n = rng.choice([6, 7, 9, 12, 15, 16, 17, 18, 31, 33, 40, 100, 400]) if rng.random() < 0.4 else rng.randrange(4, 12)
            s = rand_bytes(rng, n, rng.choice([b'ab', b'aA,', b'ab\x00', b'abcABC,;\x00 ', b'ab\xc3\xa9']))
            k = rng.random()
            if k < 0.6:
                i = rng.randrange(n)
                sep = s[i:i + rng.choice([1, 1, 2, 2, 3, 4])]
            elif k < 0.85:
                sep = rand_bytes(rng, rng.choice([1, 2, 3]), b'abA,')
            else:
                sep = s + b'a'
            if rng.random() < 0.3:
                sep = sep.swapcase()
            cs = rng.choice(['cs', 'ci'])
            mx = rng.choice([0, 1, 2, 3, 5, n, SIZE_MAX, SIZE_MAX - 1, 1 << 63])
            what = rng.random()
            if what < 0.45:
                yield 'split_s %s %s %d %s' % (hx(s), hx(sep), mx, cs)
                if cstr_ok(sep):
                    yield 'split_z %s %s %d %s' % (hx(s), hx(sep), mx, cs)
                    if len(sep) == 1 and sep[0] < 0x80:
                        yield 'split_c %s %s %d %s' % (hx(s), hx(sep), mx, cs)
            elif what < 0.9:
                to = rng.choice([b'', sep[:1], sep + sep, b'x' * rng.randrange(0, 6), sep.swapcase(), sep[::-1]])
                yield 'replace_ss %s %s %s %s' % (hx(s), hx(sep), hx(to), cs)
                if cstr_ok(sep) and cstr_ok(to):
                    yield 'replace_%s %s %s %s %s %s' % (rng.choice(['zz', 'sz', 'zs', 'uu', 'su', 'us']), hx(s), hx(sep), hx(to), cs,
                                                       rng.choice(['check', 'assume']))
            else:
                yield 'tokenize %s %s' % (hx(s), rng.choice(['=', '2c', '2c3b20', hx(bytes(set(sep) - {0}))]))

    def nontrivial(self, case, impl):
        t = case.split()
        return t[0] == 'fill' or (len(t) > 1 and t[1] != '.')

    def shrink_candidates(self, case):
        t = case.split()
        if t[0] == 'fill':
            return []
        if t[0].startswith('replace'):
            return shrink_hex_args(case, (1, 2, 3))
        return shrink_hex_args(case, (1, 2))

    def summarize(self, cases, impl):
        d = super().summarize(cases, impl)
        sizes, seplen = {}, {}
        for c in cases:
            t = c.split()
            if t[0] in ('fill', 'soak', 'shutdown'):
                continue
            n = len(unhx(t[1]))
            k = str(n) if n < 9 else ('9-15' if n < 16 else '16-18' if n < 19 else '19+')
            sizes[k] = sizes.get(k, 0) + 1
            if t[0].startswith('split') or t[0].startswith('replace'):
                m = len(unhx(t[2]))
                seplen[m] = seplen.get(m, 0) + 1
        d['subject_size'] = sizes
        d['separator_len'] = seplen
        return d


CHECK = C09()
