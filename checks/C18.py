"""C18: a failed operation leaves its target and its arguments unchanged.
Cases: ST::string histories in which operations that throw ST::unicode_error / ST::codec_error /
ST::bad_format / std::out_of_range are interleaved with normal ones; after EVERY operation every live
string is observed (bytes, size, terminator, storage class, whether data() moved), the rvalue argument of
a failed set is printed, and live new[] blocks must be back to baseline at the end."""
import vlib
from str_gen import *
from C04 import StrCheck


class C18(StrCheck):
    pid = 'C18'
    rule = ('directed: each failing operation (set / operator= from ill-formed UTF-8 as rvalue buffer, C string, constructor; '
            '+= and + with a code point above U+10FFFF; set / from_utf16 / set from ill-formed UTF-16 and UTF-32; to_latin_1 '
            'without substitution; hex_decode / base64_decode of bad input; ST::format with unterminated / unknown / missing / '
            'out-of-range / ill-formed pieces) against targets of every size class, six in a row, followed by normal use of '
            'the target; seeded random histories mixing failing (40%) and succeeding operations. '
            'non-trivial = >= 4 operations')

    def gen(self, rng, tier):
        for h in directed_failing(rng):
            yield 'str 4 ' + ';'.join(h)
        n = 400 if tier == 'quick' else 8000
        for _ in range(n):
            yield 'str 4 ' + ';'.join(failing_history(rng, rng.choice([8, 12, 16])))


CHECK = C18()
