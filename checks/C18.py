"""C18: a failed operation leaves its target and its arguments unchanged.
Cases: ST::string histories in which operations that throw ST::unicode_error / ST::codec_error /
ST::bad_format / std::out_of_range are interleaved with normal ones; after EVERY operation every live
string is observed (bytes, size, terminator, storage class, whether data() moved), the rvalue argument of
a failed set is printed, and live new[] blocks must be back to baseline at the end."""
import vlib
from str_gen import *
from mem_gen import consts
from C04 import StrCheck
import C16


class C18(StrCheck):
    pid = 'C18'
    rule = ('directed: each failing operation (set / operator= from ill-formed UTF-8 as rvalue buffer, C string, constructor; '
            'failing conversions tailored so that the would-be result has exactly the target\'s byte length and the invalid '
            'unit follows a valid prefix; string_stream insertion of valid and ill-formed UTF-16/UTF-32/wchar_t text at '
            'fill levels around every capacity boundary; += and + with a code point above U+10FFFF; set / from_utf16 / set from ill-formed UTF-16 and UTF-32; to_latin_1 '
            'without substitution; hex_decode / base64_decode of bad input; ST::format with unterminated / unknown / missing / '
            'out-of-range / ill-formed pieces) against targets of every size class, six in a row, followed by normal use of '
            'the target; seeded random histories mixing failing (40%) and succeeding operations. '
            'non-trivial = >= 4 operations')

    def gen(self, rng, tier):
        for h in directed_failing(rng):
            yield 'str 4 ' + ';'.join(h)
        # long ill-formed inputs (1025 .. 3000 units: beyond any on-stack staging area of a conversion): the failure path
        # of a long conversion must release whatever it allocated (live blocks are counted at the end of each case)
        for n16 in (1025, 1500, 3000):
            for where in ('end', 'mid'):
                units = ['0061'] * n16
                units[n16 - 1 if where == 'end' else n16 // 2] = 'd800'
                u16 = ''.join(units)
                u32 = ''.join(('00000061' if i != (n16 - 1 if where == 'end' else n16 // 2) else '00110000') for i in range(n16))
                u8 = '61' * (n16 - 1) + 'c3' if where == 'end' else '61' * (n16 // 2) + 'ff' + '61' * (n16 // 2)
                tmp = hx(b'\0' * (3 * n16))
                for tgt in (3, 40):
                    ops = ['new,0,' + hx(rstr(rng, tgt)), 'new,1,' + hx(rstr(rng, 20))]
                    for kind, u in (('set16fail', u16), ('from16fail', u16), ('set32fail', u32)):
                        ops.append('%s,0,%s,M=throw:unicode_error:%s' % (kind, u, tmp))
                    for kind in ('setfail', 'setmfail', 'ctorbuffail', 'ctorfail'):
                        ops.append('%s,0,%s,M=throw:unicode_error:%s' % (kind, u8, u8))
                    ops += ['reads,0', 'reads,1', 'del,0', 'del,1']
                    yield 'str 4 ' + ';'.join(ops)
        n = 400 if tier == 'quick' else 48000
        for _ in range(n):
            yield 'str 4 ' + ';'.join(failing_history(rng, rng.choice([8, 12, 16])))
        # string_stream: insertion of wide text, valid and ill-formed, with the stream filled to every position
        # around its capacity boundaries (a failing insertion must leave the stream unchanged and leak nothing,
        # also when its would-be result needs a growth)
        stk = consts()['stack_string_size']
        bad16 = ['d800', '00300031003200330034003500360037d800', 'dc0000410042', '0041' * 40 + 'd83d']
        bad32 = ['00110000', '00000041' * 12 + 'ffffffff']
        good16 = [('00e900410042', 'c3a94142'), ('d83dde00', 'f09f9880'), ('0041' * 30, '41' * 30)]
        good32 = [('0001f600', 'f09f9880'), ('000020ac00000041', 'e282ac41')]
        fills = [0, 1, stk - 12, stk - 6, stk - 1, stk, stk + 1, 2 * stk - 6, 2 * stk - 2, 2 * stk, 4 * stk - 5]
        if tier == 'thorough':
            fills += list(range(stk - 16, stk + 2)) + list(range(2 * stk - 16, 2 * stk + 2))
        for fill in fills:
            ops = ['new,0', 'appc,0,120,%d' % fill] if fill else ['new,0']
            for op, u in [('shl16', bad16[0]), ('shl16s', bad16[1]), ('shl16v', bad16[2]), ('shl16s', bad16[3]),
                          ('shl32', bad32[0]), ('shl32s', bad32[1]), ('shlw', bad32[1])]:
                ops.append('%s,0,%s,M=throw' % (op, u))
            for op, (u, m) in [('shl16', good16[0]), ('shl16s', good16[1]), ('shl16v', good16[2]), ('shl32s', good32[0]), ('shlw', good32[1])]:
                ops.append('%s,0,%s,M=%s' % (op, u, m))
            ops.append('shl16s,0,%s,M=throw' % bad16[1])
            ops += ['app,0,7a', 'move,1,0', 'shl32s,0,%s,M=throw' % bad32[1], 'shl32s,1,%s,M=throw' % bad32[1], 'app,0,79', 'del,0', 'del,1']
            yield 'ss 3 ' + ';'.join(ops)


    def allowed(self, case, impl, spec):
        if case.startswith('ss '):
            return C16.CHECK.allowed(case, impl, spec)
        return StrCheck.allowed(self, case, impl, spec)

    def same(self, case, impl, model):
        if case.startswith('ss '):
            return C16.CHECK.same(case, impl, model)
        return StrCheck.same(self, case, impl, model)


CHECK = C18()
