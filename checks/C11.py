"""C11: formatted output equals the specified rendering of literals, fields and padding.
Cases: the product alignment x pad x zero flag x '#' x '+' x radix class x width in
{0, len-1, len, len+1, len+sign+prefix-1 .. +1, 40} x boundary values of the ten integer types;
character class over code-point boundaries and out-of-range values of every integer width; text
(const char*, ST::string, std::string, bool) around width and precision, including a precision that
cuts a UTF-8 sequence; &N permutations against sequential fields; literal braces; floating point
through the libc oracle.  Compared: the bytes."""
import vlib
from fmt_gen import *

ALIGN = [b'', b'<', b'>']
PADS = [b'', b'_*', b'0', b'_*0', b'0_*', b'_ ']
CLASSES = [(b'', 10), (b'd', 10), (b'x', 16), (b'X', 16), (b'o', 8), (b'b', 2)]


def ndigits(v, radix):
    v = abs(v)
    n = 1
    while v >= radix:
        v //= radix
        n += 1
    return n


class C11(vlib.Check):
    pid = 'C11'
    group = 'fmt'
    per_case_timeout = 10
    rule = ('product of alignment {none,<,>} x pad {none,_*,0,_*0,0_*,_space} x # x + x class {none,d,x,X,o,b} (432 flag '
            'sets, flags also emitted in a second order) x width {0,len-1,len,len+1,len+sign+prefix-1,len+sign+prefix,'
            'len+sign+prefix+1,40} x values drawn from {0,+-1,+-radix^k+-1,min,max} of i8,u8,i16,u16,i32,u32,long,ulong,'
            'long long,ulong long (quick: 24 (type, value, width) draws per flag set, thorough: 400); {c} over code-point boundaries '
            '0,7F,80,7FF,800,D7FF,D800,DFFF,E000,FFFF,10000,10FFFF,110000,-1,min,max,2^32+0x41 for every integer type, char, '
            'wchar_t, char32_t, plus padded {c} (documented abort); text of length 0..6 (ASCII and multi-byte) x precision '
            '{none,0,len-1,len,len+1} x width {0,len-1,len,len+1,40} x alignment x pad for const char*, ST::string, '
            'std::string, bool; &N permutations of 2-4 fields against sequential fields; doubled braces around fields; '
            'doubles {0,-0,1,-1.5,pi,inf,-inf,nan,1e100,denormal,DBL_MAX,...} x {none,f,e,E} x precision x width x + x '
            'alignment through the libc oracle; seeded random field soups. Compared: exact bytes (size, terminator). '
            'non-trivial = at least one field; distinct = distinct case line')
    partial = ('floating-point digits are the C library\'s (oracle shared by model and spec): for doubles the theorem covers sign '
               'flag, precision, class letter and padding, not the digits (C13)')
    modelled_not_verified = (
        'strtol(.,&end,10) inside fields: Fmt/Strtol.v (validated against glibc in C10)',
        'floating-point digits are the C library\'s: model and spec use the same oracle (OCaml Printf -> printf); what is '
        'checked for doubles is the wrapper (sign flag, precision, class letter, padding side), digits are C13\'s subject',
        'ST::string_stream / from_utf8 validation modelled functionally (C16 / C02)',
        'two to four arguments are passed as a tagged value forwarding to the library\'s format_type; single arguments '
        'with their real C++ type',
    )

    def variants(self):
        return {'': ['-DH_FMT_STRING_ONLY']}

    def gen(self, rng, tier):
        yield 'shutdown'      # use of the library during program / thread shutdown (harness probe)
        quick = tier == 'quick'
        per = 24 if quick else 400
        pool = {}
        for tok, (sg, bits) in INT_TYPES.items():
            pool[tok] = int_values(sg, bits)
        toks = list(INT_TYPES)
        # ---- a few fixed points first
        for f, a in [(b'{}', ['i32:0']), (b'{}', ['i32:-2147483648']), (b'{}', ['l:-9223372036854775808']),
                     (b'{x}', ['ll:-9223372036854775808']), (b'{#b}', ['i8:-128']), (b'{c}', ['ull:4294967361']),
                     (b'{c}', ['ll:-4294967231']), (b'{c}', ['c:-23']), (b'{c}', ['u8:233']), (b'{f}', ['f64:54b249ad2594c37d']),
                     (b'{.70f}', ['f64:400921fb54442d18']), (b'{08.3f}', ['f64:c00921fb54442d18']),
                     (b'{+#010x}', ['u16:48879']), (b'{<#10o}|', ['i16:-8']), (b'{>_.6}', ['s:6162'])]:
            yield fmt_case('string', 'default', f, a)
        # ---- integers: the flag product
        for al in ALIGN:
            for pd in PADS:
                for hs in (b'', b'#'):
                    for pl in (b'', b'+'):
                        for cl, radix in CLASSES:
                            for k in range(per):
                                tok = toks[(k + rng.randrange(len(toks))) % len(toks)]
                                v = rng.choice(pool[tok])
                                ln = ndigits(v, radix)
                                extra = (1 if (v < 0 or pl) else 0) + (0 if (v == 0 or not hs) else {16: 2, 2: 2, 8: 1, 10: 0}[radix])
                                widths = [0, ln - 1, ln, ln + 1, ln + extra - 1, ln + extra, ln + extra + 1, 40]
                                w = widths[k % len(widths)] if k >= len(widths) or True else 0
                                w = rng.choice(widths) if k >= 8 else widths[k]
                                ws = (b'%d' % w) if w > 0 else b''
                                if k % 2 == 0:
                                    f = b'{' + al + pd + hs + pl + cl + ws + b'}'
                                else:
                                    f = b'{' + cl + pl + hs + al + pd + ws + b'}'
                                yield fmt_case('string', 'default', b'[' + f + b']', [int_arg(tok, v)])
        # ---- char / wchar_t / char32_t as numbers and as characters
        for v in (0, 1, 65, 127, -1, -23, -128):
            for f in (b'{}', b'{x}', b'{+5}', b'{#o}', b'{c}', b'{b}', b'{04}'):
                yield fmt_case('string', 'default', f, ['c:%d' % v])
        for v in (0, 65, 0x20AC, 0x1F600, 0x10FFFF, 0x110000, -1, -2147483648, 2147483647, 0xD800):
            for f in (b'{}', b'{x}', b'{c}', b'{+#X}', b'{12}'):
                yield fmt_case('string', 'default', f, ['wc:%d' % v])
        for v in (0, 65, 0x20AC, 0x1F600, 0x10FFFF, 0x110000, 0x7FFFFFFF, 0x80000000, 0xFFFFFFFF, 0xDFFF):
            for f in (b'{}', b'{x}', b'{c}', b'{+#X}', b'{12}'):
                yield fmt_case('string', 'default', f, ['c32:%d' % v])
        # ---- the character class over every integer type
        cps = [0, 0x41, 0x7F, 0x80, 0x7FF, 0x800, 0xD7FF, 0xD800, 0xDFFF, 0xE000, 0xFFFF, 0x10000, 0x10FFFF, 0x110000,
               0x1FFFFF, -1, -0x41, 0x100000041, -0xFFFFFFBF, 0x7FFFFFFF, 0x80000000, 0xFFFFFFFF, 0x8000000000000041]
        for tok, (sg, bits) in INT_TYPES.items():
            lo, hi = lo_hi(sg, bits)
            for v in sorted(set([clamp(c, sg, bits) for c in cps] + [c for c in cps if lo <= c <= hi] + [lo, hi])):
                yield fmt_case('string', 'default', b'{c}', [int_arg(tok, v)])
                yield fmt_case('string', 'assume', b'<{c}>', [int_arg(tok, v)])
        for f in (b'{1c}', b'{c2}', b'{_*c}', b'{0c}', b'{c0}'):
            yield fmt_case('string', 'default', f, ['i32:65'])
            yield fmt_case('string', 'default', f, ['s:41'])
        # ---- text around width and precision
        texts = [b'', b'a', b'ab', b'abcdef', 'é'.encode(), 'a€b'.encode(), '\U0001F600x'.encode(), b'\xff\xfe', b'a{b}']
        for t in texts:
            ln = len(t)
            for prec in [None, 0, ln - 1, ln, ln + 1]:
                if prec is not None and prec < 0:
                    continue
                body = ln if prec is None else min(ln, prec)
                for w in sorted(set([0, body - 1, body, body + 1, 40])):
                    if w < 0:
                        continue
                    for al in ALIGN:
                        for pd in (b'', b'_*', b'0'):
                            f = b'{' + al + pd + ((b'%d' % w) if w else b'') + ((b'.%d' % prec) if prec is not None else b'') + b'}'
                            kinds = ['s', 'S', 'ss'] if not quick else [rng.choice(['s', 'S', 'ss'])]
                            for kind in kinds:
                                yield fmt_case('string', rng.choice(['default', 'assume', 'substitute']) if quick else 'default',
                                               b'|' + f + b'|', ['%s:%s' % (kind, hx(t))])
                            if not quick:
                                yield fmt_case('string', 'assume', b'|' + f + b'|', ['S:' + hx(t)])
        for b in (0, 1):
            for f in (b'{}', b'{3}', b'{4}', b'{5}', b'{6}', b'{>6}', b'{<6}', b'{_*8}', b'{.2}', b'{.0}', b'{6.3}', b'{>06.3}', b'{x}', b'{c}', b'{+}'):
                yield fmt_case('string', 'default', f, ['b:%d' % b])
        yield fmt_case('string', 'default', b'{}{5}|', ['sn', 'sn'])
        # ---- a user-defined argument type whose formatter calls ST::format itself (nested call) and then renders the
        #      text under the field's flags: after literal text and other fields, with width / alignment / pad / precision
        for t in (b'(1,2)', b'', b'(-3,40)', b'x' * 20, 'p\u00e9'.encode()):
            for f in (b'{}', b'p={} end', b'{>9}', b'{<9}|', b'{_*>12}', b'{.3}', b'{04}|{_*>9}|{}', b'{}{}', b'{&2}{&1}', b'[{>30}]'):
                nargs = f.count(b'{')
                args = ['n:' + hx(t)] if nargs == 1 else (['i32:7', 'n:' + hx(t), 'b:1'][:max(nargs, 2)] if b'&' not in f else ['n:' + hx(t), 'n:' + hx(t[::-1])])
                if f == b'{}{}':
                    args = ['n:' + hx(t), 'n:' + hx(t)]
                yield fmt_case('string', 'default', f, args)
        # ---- widths and texts that cross the 256-byte in-object capacity of the output stream and its doublings:
        #      padding and content land on both sides of every boundary, after a literal prefix of varying length
        for w in (250, 255, 256, 257, 300, 511, 512, 513, 1000, 1025):
            for pre in (b'', b'ab', b'x' * 7):
                for f, a in ((b'{>%d}' % w, 'i32:-12345'), (b'{<%d}|' % w, 'ull:18446744073709551615'), (b'{0%d}' % w, 'i16:-7'),
                             (b'{#0%dx}' % w, 'u32:48879'), (b'{_*>%d}' % w, 's:' + hx(b'text')), (b'{_.<%d}|' % w, 'S:' + hx('a€b'.encode())),
                             (b'{%d}' % w, 'b:1'), (b'{>%d.3f}' % w, 'f64:400921fb54442d18'), (b'{+%db}' % w, 'i8:-128')):
                    yield fmt_case('string', 'default', pre + f, [a])
        for n in (250, 255, 256, 257, 300, 512, 513, 1100):
            t = bytes(0x61 + (i % 26) for i in range(n))
            for f in (b'{}', b'[{}]', b'{.%d}|' % (n - 1), b'{>%d}' % (n + 3), b'{<%d.%d}|' % (n + 2, n // 2), b'{}{}'):
                for kind in ('s', 'S', 'ss'):
                    yield fmt_case('string', 'default', f, ['%s:%s' % (kind, hx(t))] * (2 if f == b'{}{}' else 1))
        # ---- &N against sequential fields
        argsets = [['i32:1', 's:62', 'u8:3', 'S:64'], ['s:61', 'i32:-2'], ['b:1', 'c:66', 'ull:7'], ['i32:5']]
        fields = [b'{}', b'{&1}', b'{&2}', b'{&3}', b'{&4}', b'{&5}', b'{&0}', b'{x}', b'{&2x}', b'{3&1}', b'{&1_*3}']
        for args in argsets:
            for a in fields:
                for b2 in fields:
                    yield fmt_case('string', 'default', a + b'-' + b2, args)
                    if not quick or rng.random() < 0.3:
                        for c3 in fields[:6]:
                            yield fmt_case('string', 'default', a + b2 + b',' + c3, args)
            for _ in range(20 if quick else 300):
                n = rng.choice([2, 3, 4, 5])
                f = b''.join(rng.choice(fields) + rng.choice([b'', b' ', b'{{', b'}}', b'}', b'x']) for _ in range(n))
                yield fmt_case('string', 'default', f, args)
        # ---- literal braces
        for f in (b'{{', b'}}', b'{{}}', b'}}{{', b'{{{}}}', b'{{{}', b'{}}}', b'a}b', b'}', b'a{{b}}c{}d{{', b'{{{{{}}}}}', b'}}}', b'{}}'):
            yield fmt_case('string', 'default', f, ['i32:7'])
        # ---- doubles through the libc oracle
        fl = FLOAT_BITS if not quick else FLOAT_BITS[:10]
        for bits in fl:
            for cl in (b'', b'f', b'e', b'E'):
                for pr in (b'', b'.0', b'.3', b'.17'):
                    for wd in (b'', b'12', b'40'):
                        for fg in (b'', b'+', b'<', b'_*', b'0', b'<+_#'):
                            if quick and rng.random() < 0.6:
                                continue
                            yield fmt_case('string', 'default', b'{' + fg + wd + pr + cl + b'}', ['f64:' + bits])
        for f in (b'{f}', b'{.70f}', b'{.300e}', b'{80.60f}', b'{<80.60f}|', b'{.1000f}'):
            for bits in ('54b249ad2594c37d', '7fefffffffffffff', '400921fb54442d18', 'ffefffffffffffff'):
                yield fmt_case('string', 'default', f, ['f64:' + bits])
        # ---- seeded soups
        flagch = b'<>#+xXdob0123456789'
        for _ in range(2000 if quick else 80000):
            nf = rng.choice([1, 1, 2, 3])
            f = b''
            args = []
            for _ in range(nf):
                f += bytes(rng.randrange(0x20, 0x7f) for _ in range(rng.choice([0, 0, 1, 3]))).replace(b'{', b'{{').replace(b'}', b'}}')
                body = bytes(rng.choice(flagch) for _ in range(rng.choice([0, 1, 2, 3, 5])))
                if rng.random() < 0.2:
                    body += b'_' + bytes([rng.choice(b'*.-0 x~')])
                if rng.random() < 0.2:
                    body += b'.%d' % rng.randrange(0, 12)
                if rng.random() < 0.15:
                    body += b'&%d' % rng.randrange(0, 5)
                f += b'{' + body + b'}'
                args.append(rand_arg(rng))
            yield fmt_case('string', rng.choice(['default', 'assume']), f, args[:4])

    def same(self, case, impl, model):
        return impl == model

    def allowed(self, case, impl, spec):
        if spec.startswith('ALLOW'):
            return class_allowed(impl, spec)
        return vlib.Check.allowed(self, case, impl, spec)

    def nontrivial(self, case, impl):
        t = case.split()
        return t[0] == 'format' and '7b' in t[3]

    def shrink_candidates(self, case):
        return shrink_format_case(case)

    def summarize(self, cases, impl):
        d = {'arg_kinds': {}, 'nargs': {}}
        for c in cases:
            t = c.split()
            k = str(len(t) - 4)
            d['nargs'][k] = d['nargs'].get(k, 0) + 1
            for a in t[4:]:
                kk = a.split(':')[0]
                d['arg_kinds'][kk] = d['arg_kinds'].get(kk, 0) + 1
        return d


CHECK = C11()
