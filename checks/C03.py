"""C03: conversions are total and memory-safe on arbitrary input.
Arbitrary garbage, every truncation point, empty and null input, in exact-size heap blocks under
ASan/UBSan; result: size() units + terminator, or ST::unicode_error; never an abort, a sanitizer
report or a hang; size = size of the reference transcoding under the same mode."""
import vlib
from utf_gen import *


class C03(UtfCheck):
    pid = 'C03'
    quick_budget_s = 90
    any_allows_throw = True
    shape_only = True
    rule = ('inputs in exact-size malloc blocks (pointer, char8_t, string_view, constructor and set routes read the block '
            'itself, so an over-read hits an ASan redzone); harness prints size(), the units and the terminator, the driver '
            'adds ABORT/FAULT for assertion aborts, sanitizer reports and hangs. directed: empty and null input on every '
            'function and route; digest enumeration of all byte strings of length 1, 2 (thorough: 3) and the 16 class-boundary '
            'bytes in all 4-tuples; valid text of every width mix cut at every unit and with one unit deleted / duplicated / '
            'replaced; boundary scalars and non-scalars in every position; surrogate-boundary strings of length <= 3; '
            'UTF-32 boundary values incl. 0x400000.. (the in-band error bit) and 0xFFFFFFFF; result sizes around the '
            'short-buffer limit (15/16/17 units) and long inputs; block-wise shapes (a malformed unit / a wide character / a Latin-1 '
            'high byte at every offset 0..39 of 40 units of ASCII, forms ending at and just past multiples of 8, whole blocks); seeded random garbage. expected = reference transcoding '
            '(Tokens.spec_conv): exact under substitute_invalid and on well-formed input, unicode_error under check_validity '
            'on malformed input; under assume_valid on malformed input only the safety clauses (size = units held, terminator, '
            'no fault). non-trivial = non-empty input; distinct = distinct case line')
    modelled_not_verified = (
        'C++ semantics of the transcribed statements (LP64, 32-bit signed wchar_t, integer promotions) are modelled, not verified',
        'ST::buffer<T>::allocate is modelled as an array of exactly the requested size plus terminator (C05)',
        'over-reads inside ST::char_buffer copies (ST::string UTF-8 routes validate a NUL-terminated copy) are not observable by ASan; '
        'those passes are covered by the model theorems and by result comparison only',
        'inputs of 2^28 units or more (HUGE assertion) are outside the property and not run',
    )
    partial = ('size_term holds by construction in the model (a result IS the list of units; the terminator cell is written by '
               'ST::buffer::allocate, C05) and is observed on the implementation by the harness (size=, term=). passes_agree for the '
               'Latin-1 sources is part of total_safe rather than a separate statement. Inputs of 2^28 units or more abort by the '
               'documented HUGE assertion (beyond_the_bound) and are outside the property.')

    def gen(self, rng, tier):
        quick = tier == 'quick'
        # use of the library during program and thread shutdown (after its own statics / thread_locals are gone)
        yield 'shutdown'
        # ---- empty and null input: every function, every route, every mode
        for fn in list(FREE) + list(STR_FROM):
            for c in all_calls(fn, []):
                yield c
            for route in ('ptr',) + (('u8',) if ALL_FN[fn][0] == '8' else ()) + (('ctor', 'set') if fn in STR_FROM and fn != 'str_from_latin_1' else ()):
                for mode in modes_for(fn):
                    for sub in subs_for(fn):
                        yield case(fn, route, mode, sub, '-')
        for fn in STR_TO_FNS:
            for c in all_calls(fn, []):
                yield c
        # ---- exhaustive short byte strings / class-boundary tuples (pointer route: exact-size block)
        for fn in FN_BY_SRC['8']:
            for mode in MODES:
                for sub in subs_for(fn):
                    yield enum_case('bytes1', fn, 'ptr', mode, sub, 0, 256)
                    if quick and (fn == 'utf8_to_wchar' or (sub == '0' and mode == 'av')):
                        continue
                    for lo in range(0, 65536, 16384):
                        yield enum_case('bytes2', fn, 'ptr', mode, sub, lo, lo + 16384)
                    if quick and (fn in ('utf8_to_wchar', 'utf8_to_latin_1') and not (sub == '0' and mode == 'cv')):
                        continue
                    for lo in range(0, 65536, 16384):
                        yield enum_case('cb4', fn, 'ptr', mode, sub, lo, lo + 16384)
        for fn in ('str_to_utf16', 'str_to_utf32', 'str_to_latin_1'):
            for lo in range(0, 65536, 16384):
                yield enum_case('bytes2', fn, 'to', '_', '1' if fn == 'str_to_latin_1' else '_', lo, lo + 16384)
        if not quick:
            # all 3-byte strings with a first byte C0..FF (see C02), 4.2 M per route
            for fn, mode, sub in (('utf8_to_utf16', 'av', '_'), ('utf8_to_utf32', 'cv', '_'), ('utf8_to_latin_1', 'si', '1'),
                                  ('str_from_utf8', 'si', '_')):
                for lo in range(0xC00000, 1 << 24, 1 << 19):
                    yield enum_case('bytes3', fn, 'ptr', mode, sub, lo, lo + (1 << 19))
            for k, first in enumerate(SURR_UNITS):
                for fi, fn in enumerate(FN_BY_SRC['16']):
                    yield enum_case('u16x2', fn, 'ptr', MODES[(k + fi) % 3], '1' if ALL_FN[fn][3] else '_', first << 16, (first << 16) + 65536)
        for fi, fn in enumerate(FN_BY_SRC['32']):
            sub = '1' if ALL_FN[fn][3] else '_'
            for mode in MODES:
                rngs = [(0xD000, 0xE800), (0x10F000, 0x110000), (0x110000, 0x111000), (0x3FF800, 0x400800), (0xFFFFF800, 0x100000000)]
                for lo, hi in rngs:
                    if fn in ('utf32_to_wchar', 'wchar_to_utf32') and lo > 0x10FFFF and mode == 'cv':
                        # plain-copy routes: whether check_validity must reject is C02's question (known finding there);
                        # the digest cannot separate "safe" from "same decision", so these ranges run under av/si only
                        continue
                    yield enum_case('cp', fn, 'ptr', mode, sub, lo, hi)
            if not quick and fn in ('utf32_to_utf8', 'utf32_to_utf16', 'utf32_to_latin_1', 'wchar_to_utf16', 'wchar_to_latin_1', 'str_from_wchar'):
                for lo in range(0, 0x110000, 0x22000):
                    yield enum_case('cp', fn, 'ptr', MODES[(fi + lo // 0x22000) % 3], sub, lo, lo + 0x22000)
        # ---- directed malformed inputs, block-reading routes
        block_routes = {'ptr', 'u8', 'view', 'ctor', 'ctorview', 'set', 'setview', 'u8view', 'u8ctor', 'u8set', 'u8ctorview', 'ptrmode'}
        for kind in ('8', '16', '32'):
            inputs = malformed_inputs(kind, rng, tier)
            allf = FN_BY_SRC[kind]
            for i, u in enumerate(inputs):
                k = len(allf)
                fns = allf if not quick else [allf[(i + j * 2) % k] for j in range(2 if k == 5 else 3)]
                for fn in fns:
                    rts = [r for r in routes_for(fn) if r in block_routes]
                    route = 'ptr' if (i % 2) else rts[(i // 2) % len(rts)]
                    for mode in MODES:
                        for sub in subs_for(fn):
                            if route == 'ptrmode' and sub == '0':
                                continue
                            yield case(fn, route, mode, sub, u)
                if kind == '8' and (i % 2 == 0 or not quick):
                    for fn in STR_TO_FNS:
                        for sub in subs_for(fn):
                            yield case(fn, routes_for(fn)[i % len(routes_for(fn))], '_', sub, u)
        # ---- block-wise shapes (word-at-a-time rewrites): a malformed unit, and a well-formed wide character, at every
        #      offset of 40 units of ASCII; forms ending exactly at / one unit past a block boundary; whole blocks
        for kind in ('8', '16', '32'):
            shaped = block_malformed(kind) + [encode(kind, sc) for sc in block_scalars()] + long_malformed(kind)
            for i, u in enumerate(shaped):
                allf = FN_BY_SRC[kind]
                fns = allf if not quick else [allf[(i + j * 2) % len(allf)] for j in range(2)]
                for fn in fns:
                    for mode in (MODES if not quick else (MODES[i % 3], 'cv')):
                        for sub in subs_for(fn)[: 1 if quick else 2]:
                            yield case(fn, 'ptr', mode, sub, u)
                if kind == '8' and i % 4 == 0:
                    for fn in STR_TO_FNS[1:]:
                        yield case(fn, 'to', '_', '1' if fn == 'str_to_latin_1' else '_', u)
        for i, b in enumerate(block_latin1() + long_latin1()):
            for fn in FN_BY_SRC['l1']:
                yield case(fn, 'ptr', '_', '_', b)
        # ---- result sizes around the short-buffer limit, long inputs
        for n in (14, 15, 16, 17, 18, 47, 48, 49, 255, 256, 257):
            for kind in ('8', '16', '32'):
                for _ in range(2 if quick else 6):
                    u = rand_mostly_valid(kind, rng, n)
                    for fn in FN_BY_SRC[kind]:
                        for mode in MODES:
                            for sub in subs_for(fn):
                                yield case(fn, 'ptr', mode, sub, u)
                    if kind == '8':
                        for fn in STR_TO_FNS:
                            yield case(fn, 'to', '_', '1' if fn == 'str_to_latin_1' else '_', u)
        for n in ((2000,) if quick else (2000, 5000, 20000)):
            for kind in ('8', '16', '32'):
                u = rand_mostly_valid(kind, rng, n)
                for fn in FN_BY_SRC[kind][:4]:
                    yield case(fn, 'ptr', rng.choice(MODES), '1' if ALL_FN[fn][3] else '_', u)
        # ---- seeded random garbage
        nrand = 2500 if quick else 40000
        for _ in range(nrand):
            kind = rng.choice(['8', '8', '16', '32'])
            n = rng.choice([1, 2, 3, 4, 5, 6, 7, 9, 15, 16, 17, 40])
            k = rng.random()
            if k < 0.35:
                u = rand_mostly_valid(kind, rng, n)
            elif kind == '8':
                u = rand_bytes_biased(rng, n)
            elif kind == '16':
                u = rand_units16(rng, n)
            else:
                u = rand_units32(rng, n)
            fn = rng.choice(FN_BY_SRC[kind])
            rts = [r for r in routes_for(fn) if r in block_routes]
            mode = rng.choice(modes_for(fn))
            sub = rng.choice(subs_for(fn))
            route = rng.choice(rts)
            if route == 'ptrmode':
                sub = '1'
            yield case(fn, route, mode, sub, u)


CHECK = C03()
