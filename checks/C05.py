"""C05: buffers keep size, content, terminator and exclusive ownership over any history.
Cases: whole histories over a pool of ST::buffer<T> objects (T = char, wchar_t, char16_t, char32_t);
after EVERY operation every live object is observed (units, size, terminator, whether data() is the
object's own array / heap / another object's array, whether two objects overlap); at the end all
objects are destroyed and the number of live new[] blocks must be back to its starting value."""
import vlib
from mem_gen import *


def parse_steps(line):
    if not line.startswith('OK '):
        return None
    steps = []
    for st in line[3:].split('|'):
        steps.append(st.split(';'))
    return steps


class C05(vlib.Check):
    pid = 'C05'
    group = 'mem'
    rule = ('directed: every (target size class x source size class) for copy/move construction and assignment incl. '
            'self-assignment, both destruction orders, use of both objects after a move; seeded random well-formed '
            'histories (10-16 operations over 4 slots, sizes from {0,1,L-1,L,L+1,3L,...}) for each of the four element '
            'types. non-trivial = history with >= 3 operations; distinct = distinct case line')
    modelled_not_verified = ('operator new[]/delete[] (modelled as fresh block / release; replaced in the harness by counting '
                             'wrappers over malloc/free under ASan)', 'std::char_traits copy/assign/move (modelled as array updates)')

    def gen(self, rng, tier):
        lim = limits()
        for ty, L in lim.items():
            for h in directed_buf_histories(ty, L):
                yield 'buf %s 4 %s' % (ty, ';'.join(h))
        # two objects given the SAME value along DIFFERENT histories (one fresh, one that went local -> heap -> local, was
        # moved from, cleared, re-allocated ...): they must be indistinguishable — the harness compares every pair of live
        # objects with ==, != and compare() after every operation
        for ty, L in lim.items():
            long_u = ''.join('%0*x' % ({'c': 2, 'w': 8, 'u16': 4, 'u32': 8}[ty], 0x61 + i % 20) for i in range(3 * L))
            w = {'c': 2, 'w': 8, 'u16': 4, 'u32': 8}[ty]
            for k in (0, 1, 2, L - 1):
                for first in (2, L - 1):
                    a = ''.join('%0*x' % (w, 0x41 + i) for i in range(first))
                    val = ('%0*x' % (w, 0x63)) * k or '.'
                    for route in (['asg,0,1', 'alloc,0,%d,99' % k], ['asg,0,1', 'allocfill,0,%d,99' % k],
                                  ['masg,0,1', 'alloc,0,%d,99' % k], ['asg,0,1', 'clear,0', 'alloc,0,%d,99' % k],
                                  ['asg,0,1', 'move,3,0', 'alloc,0,%d,99' % k, 'del,3'], ['asg,0,1', 'asg,0,2']):
                        yield 'buf %s 4 %s' % (ty, ';'.join(['new,0,' + a, 'new,1,' + long_u, 'new,2,' + val] + route + ['del,0', 'del,1', 'del,2']))
                    yield 'buf %s 4 %s' % (ty, ';'.join(['new,1,' + long_u, 'new,2,' + val, 'copy,0,1', 'alloc,0,%d,99' % k, 'del,0', 'del,1', 'del,2']))
                    # exchange (using std::swap; swap(x, y)) of a long object whose in-object array is dirty with a short one
                    yield 'buf %s 4 %s' % (ty, ';'.join(['new,0,' + a, 'new,1,' + long_u, 'new,2,' + val, 'asg,0,1', 'swap,0,2', 'swap,2,1', 'swap,0,0',
                                                        'copy,3,2', 'del,3', 'del,0', 'del,1', 'del,2']))
        n = 250 if tier == 'quick' else 40000
        for ty, L in lim.items():
            for _ in range(n):
                h = gen_buf_history(rng, ty, L, 4, rng.choice([6, 10, 16]))
                if h:
                    yield 'buf %s 4 %s' % (ty, ';'.join(h))

    def allowed(self, case, impl, spec):
        ty = case.split()[1]
        L = limits()[ty]
        a, b = parse_steps(impl), parse_steps(spec)
        if a is None or b is None or len(a) != len(b):
            return False
        for sa, sb in zip(a, b):
            if len(sa) != len(sb):
                return False
            for fa, fb in zip(sa, sb):
                if fa == fb:
                    continue
                # moved-from object: any VALID value (terminated, storage class matching its size)
                if '=' in fb and fb.split('=', 1)[1] == '?' and '=' in fa and fa.split('=')[0] == fb.split('=')[0]:
                    v = fa.split('=', 1)[1]
                    if v == '-':
                        return False
                    _, size, term, loc = v.rsplit(':', 3)
                    if term != '1' or loc != ('L' if int(size) < L else 'H'):
                        return False
                    continue
                return False
        return True

    def nontrivial(self, case, impl):
        return case.count(';') >= 2

    def shrink_candidates(self, case):
        t = case.split()
        ops = t[3].split(';')
        for i in range(len(ops)):
            c = ops[:i] + ops[i + 1:]
            if c and well_formed(c):
                yield ' '.join(t[:3] + [';'.join(c)] + t[4:])


def well_formed(ops):
    live = set()
    for op in ops:
        f = op.split(',')
        o = int(f[1])
        if f[0] in ('def', 'new', 'newnull', 'fill', 'copy', 'move'):
            if o in live:
                return False
            if f[0] in ('copy', 'move') and int(f[2]) not in live:
                return False
            live.add(o)
        else:
            if o not in live:
                return False
            if f[0] in ('asg', 'masg') and int(f[2]) not in live:
                return False
            if f[0] == 'del':
                live.discard(o)
    return True


CHECK = C05()
