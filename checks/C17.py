"""C17: all output sinks emit the same bytes for the same format call.
Cases: one format call through ST::format(assume_valid), format_latin_1, printf(FILE*) and writef
to char / wchar_t / char16_t / char32_t streams: literals and arguments with 1..4-byte
characters, every padding route (text, numeric, float, zero fill), {c} over code-point
boundaries, calls that throw half way (what already reached a stream is compared too), the
documented abort; operator<< for all four stream character types; operator>> against the token a
std::basic_string extraction takes."""
import vlib
from fmt_gen import *

SINKS = ['string', 'latin1', 'file', 'ostream', 'wostream', 'u16ostream', 'u32ostream']
WIDE = ('wostream', 'u16ostream', 'u32ostream')


def utf8_structurally_valid(b):
    i = 0
    while i < len(b):
        c = b[i]
        if c < 0x80:
            n = 1
        elif c & 0xE0 == 0xC0:
            n = 2
        elif c & 0xF0 == 0xE0:
            n = 3
        elif c & 0xF8 == 0xF0:
            n = 4
        else:
            return False
        if i + n > len(b) or any(x & 0xC0 != 0x80 for x in b[i + 1:i + n]):
            return False
        i += n
    return True


def enc_utf8(cp):
    if cp < 0x80:
        return bytes([cp])
    if cp < 0x800:
        return bytes([0xC0 | cp >> 6, 0x80 | cp & 0x3F])
    if cp < 0x10000:
        return bytes([0xE0 | cp >> 12, 0x80 | (cp >> 6) & 0x3F, 0x80 | cp & 0x3F])
    return bytes([0xF0 | cp >> 18, 0x80 | (cp >> 12) & 0x3F, 0x80 | (cp >> 6) & 0x3F, 0x80 | cp & 0x3F])


class C17(vlib.Check):
    pid = 'C17'
    group = 'fmt'
    per_case_timeout = 10
    rule = ('each (format, arguments) pair goes through all seven sinks: ST::format(assume_valid), format_latin_1, '
            'printf(FILE* from open_memstream), writef(ostringstream), writef(basic_ostringstream<wchar_t|char16_t|char32_t>). '
            'Pairs: literals and text arguments made of 1/2/3/4-byte characters (boundaries 7F,80,7FF,800,FFFE,10000,10FFFF; U+FFFF left out: libstdc++ char_traits<char16_t>::to_int_type maps unit 0xFFFF to 0xFFFD inside basic_stringbuf, an artifact of the observer), '
            'pad routes (text left/right, numeric right/left/zero fill, float) with widths 0..12 and pad characters ASCII and '
            '>= 0x80, {c} over code-point boundaries, integer flag samples, calls ending in bad_format / out_of_range after '
            'some output, the null format, padded {c} (abort) through every sink; the known-finding shapes (argument or '
            'literal chunk that is not well-formed on its own, pad byte >= 0x80); seeded field soups with multi-byte text. '
            'insert: ST::string values of 0..12 characters of every width through operator<< on the four stream types; '
            'extract: texts with leading/inner/trailing C-locale whitespace, non-ASCII, invalid UTF-8, units > 10FFFF through '
            'operator>>, checked against the token std::basic_string takes from the same text. '
            'non-trivial = a field or a non-ASCII byte is present; distinct = distinct case line')
    partial = ('wide_sink is proved under its hypothesis (every chunk transcodes on its own, pad bytes < 0x80); without it the '
               'statement is refuted (wide_sink_unconditional_refuted; known finding wide-sink-per-chunk). Extraction has no '
               'theorem: the tokenisation is libstdc++\'s; it is modelled for the C locale and checked against the token '
               'std::basic_string takes.')
    modelled_not_verified = (
        'fwrite/fputc/open_memstream, basic_ostream::write/put, basic_stringbuf: modelled as appending units',
        'istream tokenisation (sentry, ctype<char_T>::is(space)) is libstdc++\'s: modelled for the "C" locale (blank, \\t\\n\\v\\f\\r); '
        'char16_t/char32_t streams have no ctype facet in libstdc++: the extraction fails (badbit) and yields the empty token',
        'the UTF-8 -> UTF-16/32 transcoding inside the wide sinks and operator<< is modelled functionally in Fmt/Sinks.v '
        '(structural well-formedness as in st_utf_conv_priv.h); its own correctness is C01-C03\'s subject',
        'floating-point text: libc oracle (same text for every sink)',
    )

    def gen(self, rng, tier):
        quick = tier == 'quick'
        pairs = []
        U = lambda s: s.encode('utf-8', 'surrogatepass')
        txt = [b'', b'a', b'abc', U('é'), U('€'), U('\U0001F600'), U('a߿ࠀ\ufffe\U00010000\U0010ffffz'), U('\x7f\x80'),
               U('日本語'), b'x' * 12]
        # text arguments and literals of every width, padded both ways
        for t in txt:
            for f in (b'{}', b'[{}]', b'{8}', b'{>8}', b'{<8}|', b'{_*8}', b'{>_.8}', b'{.2}', b'{6.3}'):
                for kind in (['s', 'S', 'ss'] if not quick else ['s', 'S']):
                    if kind == 's' and b'\x00' in t:
                        continue
                    pairs.append((f, ['%s:%s' % (kind, hx(t))]))
            pairs.append((t.replace(b'{', b'{{').replace(b'}', b'}}') + b'{}' + t, ['i32:-42']))
        # numeric layouts
        for f in (b'{}', b'{6}', b'{<6}|', b'{06}', b'{+06x}', b'{#06x}', b'{<#8b}|', b'{_*>7o}', b'{#X}', b'{+}', b'{>+#12x}'):
            for a in ('i32:-255', 'u8:0', 'ull:18446744073709551615', 'l:-9223372036854775808', 'i16:255', 'c:-23', 'wc:8364', 'c32:128512'):
                pairs.append((f, [a]))
        # characters
        for cp in (0, 0x41, 0x7F, 0x80, 0x7FF, 0x800, 0xD7FF, 0xE000, 0xFFFE, 0x10000, 0x10FFFF, 0x110000, -1, 0xD800, 0xDFFF):
            pairs.append((b'{c}', ['l:%d' % cp]))
            pairs.append((b'<{c}>{c}', ['i32:%d' % clamp(cp, True, 32), 'ull:%d' % max(cp, 0)]))
        pairs.append((b'{c}', ['c:-23']))
        pairs.append((b'{c}', ['u8:233']))
        # floats
        for f in (b'{}', b'{f}', b'{12.3e}', b'{<12.3f}|', b'{_*12}', b'{+.0f}', b'{.70f}'):
            for bits in ('400921fb54442d18', 'fff0000000000000', '54b249ad2594c37d'):
                pairs.append((f, ['f64:' + bits]))
        # bool / null / several arguments / &N
        pairs += [(b'{}|{6}|{>6}', ['b:1', 'b:0', 'b:1']), (b'{}{4}', ['sn', 'sn']),
                  (b'{&2}-{}-{&1}-{}', ['s:' + hx(U('é')), 'i32:7']), (U('α{}β{}γ{}δ{}ε'), ['i32:1', 'S:' + hx(U('€')), 'b:1', 'c32:128512']),
                  (b'{{{}}}', ['i32:5']), (b'}}{{', []), (b'plain', []), (b'', []), (U('ünï'), [])]
        # an argument of a user-defined type whose formatter calls ST::format itself (a nested call while the outer one is
        # running), through every sink
        for t in (U('(1,2)'), U('v2.07'), U('p\u00e9')):
            pairs += [(b'lib {} ready', ['n:' + hx(t)]), (b'id={} at {} end', ['i32:17', 'n:' + hx(t)]), (b'{>9}|{}', ['n:' + hx(t), 'n:' + hx(t)]),
                      (b'{}{}{}', ['n:' + hx(t), 's:' + hx(U('x')), 'n:' + hx(t)])]
        # calls that stop half way
        pairs += [(b'abc{', ['i32:1']), (b'abc{}def{}', ['i32:1']), (U('é') + b'{}{Z}', ['i32:1']), (b'{}{&3}', ['i32:1', 'i32:2']),
                  (b'x{', []), (b'{}', []), (b'a{5}b{.', ['s:7a']), (b'{_', ['i32:1']), (b'12{&0}', ['i32:1'])]
        # the documented abort, once per sink
        pairs += [(b'ab{3c}', ['i32:65'])]
        # known-finding shapes: chunk not well-formed on its own / pad byte >= 0x80
        known_shapes = [(b'{}{}', ['s:c3', 's:a9']), (b'\xc3{}', ['s:a9']), (b'{.1}\xa9', ['S:c3a9c3a9'[:4]]), (b'{_\xc33}\xa9\xc3\xa9\xc3\xa9', ['s:41'])
                        , (b'{_\xe94}', ['i32:7']), (b'{}\x80', ['S:e282']), (b'{.2}{}', ['s:f09f9880', 's:9880'])]
        pairs += known_shapes
        # long chunks: one argument / one literal run larger than typical block sizes (1024, 2048, 4096 bytes) with a
        # 2/3/4-byte character at every alignment across the block boundary (a sink that transcodes or writes
        # block-wise must not cut a character), and paddings longer than a block
        for block in ((1024, 2048, 4096) if not quick else (1024, 4096)):
            for ch in (U('é'), U('€'), U('\U0001F600')):
                for lead in range(block - len(ch), block + 1):
                    t = b'x' * lead + ch + b'y' * 7
                    pairs.append((b'{}', ['S:' + hx(t)]))
                    if lead % 2 == 0:
                        pairs.append((b'[{}]', ['s:' + hx(t)]))
                t = b'x' * (block - 2) + ch
                pairs.append((t + b'{}' + t, ['i32:7']))
            pairs.append((b'{%d}|' % (block + 3), ['s:' + hx(U('é'))]))
            pairs.append((b'{>%d}' % (block + 1), ['i32:-5']))
        # long chunks that are NOT well-formed UTF-8 (runs of continuation bytes, of lead bytes, truncated characters every
        # few bytes): every sink must end — the wide sinks with unicode_error — whatever the length (a block-wise
        # transcoder that searches backwards for a character boundary may find none within its block)
        for n in (1025, 1500, 2049, 3000):
            for fill in (b'\x80', b'\xbf', b'\xc3', b'\xe2\x82', b'\xf0\x9f\x98'):
                t = (fill * n)[:n]
                pairs.append((b'{}', ['S:' + hx(t)]))
                pairs.append((b'x' + t + b'{}', ['i32:1']))
                pairs.append((b'{}', ['s:' + hx(b'a' + t)]))
        # seeded soups
        nrand = 500 if quick else 12000
        for _ in range(nrand):
            nf = rng.choice([1, 2, 3])
            f = b''
            args = []
            for _ in range(nf):
                lit = U(''.join(chr(rng.choice([0x41, 0x7a, 0xe9, 0x20ac, 0x1f600, 0x7ff, 0x800, 0x10ffff])) for _ in range(rng.choice([0, 1, 2]))))
                f += lit
                body = bytes(rng.choice(b'<>#+xXdob0') for _ in range(rng.choice([0, 1, 2])))
                if rng.random() < 0.5:
                    body += b'%d' % rng.randrange(1, 14)
                if rng.random() < 0.15:
                    body += b'.%d' % rng.randrange(0, 5)
                if rng.random() < 0.15:
                    body = b'_' + bytes([rng.choice(b'*-. ~')]) + body
                f += b'{' + body + b'}'
                k = rng.random()
                if k < 0.4:
                    args.append(rand_int_arg(rng))
                elif k < 0.8:
                    t = U(''.join(chr(rng.choice([0x61, 0xe9, 0x20ac, 0x1f600, 0x10000])) for _ in range(rng.choice([0, 1, 2, 4]))))
                    args.append('%s:%s' % (rng.choice(['s', 'S', 'ss']), hx(t)))
                elif k < 0.9:
                    args.append('f64:' + rng.choice(FLOAT_BITS))
                else:
                    args.append(rng.choice(['b:1', 'c:66', 'wc:233', 'c32:8364']))
            if rng.random() < 0.1:
                args = args[:-1]
            pairs.append((f, args))
        yield fmt_case('file', 'default', None, [])
        yield fmt_case('wostream', 'default', None, ['i32:1'])
        for f, args in pairs:
            for s in SINKS:
                yield fmt_case(s, 'assume' if s == 'string' else 'default', f, args)
        # ---- insertion
        vals = [b'', b'a', U('é'), U('€'), U('\U0001F600'), U('a߿ࠀ\ufffe\U00010000\U0010ffffz'), U('日本語 text'), b'a b\tc\n',
                U('퟿'), b'\x00a\x00', U('\x7f\x80߿')]
        for _ in range(40 if quick else 800):
            vals.append(U(''.join(chr(rng.choice([0x20, 0x41, 0x7f, 0x80, 0xe9, 0x7ff, 0x800, 0x20ac, 0xfffe, 0x10000, 0x1f600, 0x10ffff]))
                                  for _ in range(rng.randrange(0, 13)))))
        for v in vals:
            for ct in ('c', 'w', 'u16', 'u32'):
                yield 'insert %s %s' % (ct, hx(v))
        # ---- extraction
        w = {'c': 1, 'w': 4, 'u16': 2, 'u32': 4}

        def units(ct, cps):
            return ''.join('%0*x' % (2 * w[ct], c) for c in cps) or '.'
        texts = [[], [0x20], [0x41], [0x20, 0x20, 0x41, 0x42, 0x20, 0x43], [0x09, 0x0a, 0x0b, 0x0c, 0x0d, 0x41, 0x0d], [0x41, 0x0b, 0x42],
                 [0x1c, 0x41], [0x85, 0x41], [0xa0, 0x41], [0x41, 0x00, 0x42, 0x20, 0x43], [0x00], [0x7f, 0x20]]
        for t in texts:
            for ct in ('c', 'w', 'u16', 'u32'):
                yield 'extract %s %s' % (ct, units(ct, t))
        for b in (U('é x'), U(' €uro'), U('\U0001F600\t!'), b'\xc3 \xa9', b'\xff', b'a\xc3', b'\xe2\x82 x', b'\xf0\x9f\x98\x80', b'\xf4\x90\x80\x80',
                  b'\xed\xa0\x80', b'\xc0\x80'):
            yield 'extract c ' + hx(b)
        for t in ([0xe9, 0x20, 0x41], [0x2003, 0x41], [0x3000, 0x41], [0x1f600, 0x20ac, 0x0a, 0x41], [0x110000, 0x41], [0x7fffffff], [0xd800, 0xdc00],
                  [0x10ffff], [0x85, 0x41], [0xa0, 0x41], [0x1680, 0x41], [0x2028, 0x41]):
            yield 'extract w ' + units('w', t)
            yield 'extract u32 ' + units('u32', t)
            yield 'extract u16 ' + units('u16', [c & 0xffff for c in t])
        for _ in range(40 if quick else 800):
            n = rng.randrange(0, 8)
            t = [rng.choice([0x20, 0x09, 0x0a, 0x41, 0x7a, 0xe9, 0x20ac, 0x1f600, 0x110000, 0x0d, 0x0c, 0x0b]) for _ in range(n)]
            yield 'extract w ' + units('w', t)
            yield 'extract c ' + hx(bytes(rng.choice([0x20, 0x09, 0x41, 0xc3, 0xa9, 0xe2, 0x82, 0xac, 0x0a, 0xff]) for _ in range(n)))

    # ---- verdicts
    @staticmethod
    def strip(spec):
        return spec.split(' # ')[0].strip()

    def same(self, case, impl, model):
        return impl == model

    def allowed(self, case, impl, spec):
        t = case.split()
        if t[0] == 'extract':
            return self.extract_consistent(t[1], impl)
        sp = self.strip(spec)
        if sp == 'ANY':
            return impl.startswith('OK')
        if sp.startswith('ALLOW'):
            return class_allowed(impl, sp)
        if sp.startswith('ENDS'):
            ok = sp.split()[1:]
            if impl.startswith('ABORT '):
                return ('ABORT:' + impl.split()[1]) in ok
            if impl.startswith('OK '):
                e = [x for x in impl.split() if x.startswith('end=')]
                return bool(e) and e[0][4:] in ok
            return False
        return vlib.Check.allowed(self, case, impl, sp)

    def extract_consistent(self, ct, impl):
        """the ST::string holds the token std::basic_string took, subject to the default validation"""
        if not impl.startswith('OK '):
            return False
        if ' seqtok=' in impl:
            # in a sequence of extractions from one stream (a field width set, skipws off) a token differs from the one
            # std::basic_string extraction takes at the same point
            return False
        f = dict(x.split('=', 1) for x in impl.split()[1:])
        if f.get('tokend') != 'ok':
            return False
        width = {'c': 2, 'w': 8, 'u16': 4, 'u32': 8}[ct]
        tok = f['tok']
        units = [] if tok == '.' else [int(tok[i:i + width], 16) for i in range(0, len(tok), width)]
        if ct == 'c':
            valid = utf8_structurally_valid(bytes(units))
            want = bytes(units)
        elif ct in ('w', 'u32'):
            valid = all(u <= 0x10FFFF for u in units)
            want = b''.join(enc_utf8(u) for u in units) if valid else b''
        else:
            valid = not units          # char16_t token is always empty (no ctype facet); anything else: not modelled
            want = b''
        if valid:
            return f['end'] == 'ok' and f['st'] == hx(want) and f['fail'] == ('1' if not units else '0')
        return f['end'] == 'unicode_error'

    def known(self, case, impl, spec):
        t = case.split()
        # the listed finding is a DIFFERENT OUTPUT or a unicode_error from a call that returns; a crash, an assertion or a
        # hang on the same inputs is not it
        if t[0] == 'format' and t[1] in WIDE and ' # ' in spec and impl.startswith('OK '):
            facts = dict(x.split('=') for x in spec.split(' # ')[1].split())
            if facts.get('chunk_bad') == '1' or facts.get('pad_hi') == '1':
                return 'wide-sink-per-chunk'
        return None

    def nontrivial(self, case, impl):
        t = case.split()
        if t[0] == 'format':
            return t[3] not in ('.', '-') and ('7b' in t[3] or any(int(t[3][i:i + 2], 16) >= 0x80 for i in range(0, len(t[3]), 2)))
        return len(t) > 2 and t[2] != '.'

    def shrink_candidates(self, case):
        return shrink_format_case(case)

    def summarize(self, cases, impl):
        d = {'ops': {}, 'sinks': {}}
        for c in cases:
            t = c.split()
            d['ops'][t[0]] = d['ops'].get(t[0], 0) + 1
            if t[0] == 'format':
                d['sinks'][t[1]] = d['sinks'].get(t[1], 0) + 1
        return d


CHECK = C17()
