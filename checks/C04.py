"""C04: ST::string has value semantics: reads never mutate, results never alias.
Cases: whole histories over a pool of ST::string objects: after EVERY operation every live string is
observed (bytes, size, terminator, whether data() is the object's own array / heap / another object's
array, whether data() moved since the previous step, whether two strings overlap)."""
import vlib
from str_gen import *


def parse(line):
    if not line.startswith('OK '):
        return None
    return [st.split(';') for st in line[3:].split('|')]


def field_ok(fa, fb, strict_p):
    """fa: implementation (or model) field 'i=hex:size:term:loc:p'; fb: spec field"""
    if fa == fb:
        return True
    ka, _, va = fa.partition('=')
    kb, _, vb = fb.partition('=')
    if ka != kb or '=' not in fa or '=' not in fb:
        return False
    if vb == '?':                      # moved-from: any valid value
        if va == '-':
            return False
        _, size, term, loc, _ = va.rsplit(':', 4)
        return term == '1' and loc == ('L' if int(size) < L else 'H')
    pa, pb = va.rsplit(':', 1), vb.rsplit(':', 1)
    if len(pa) != 2 or len(pb) != 2 or pa[0] != pb[0]:
        return False
    if not strict_p or pb[1] == '*' or pa[1] == '*':
        return True
    return pa[1] == pb[1]


def steps_ok(a, b, strict_p):
    if a is None or b is None or len(a) != len(b):
        return False
    for sa, sb in zip(a, b):
        if len(sa) != len(sb):
            return False
        for fa, fb in zip(sa, sb):
            if not field_ok(fa, fb, strict_p):
                return False
    return True


class StrCheck(vlib.Check):
    group = 'mem'
    modelled_not_verified = ('the VALUE computed by each const operation is supplied by the generator from the operation\'s '
                             'documented meaning (C06-C09 decide it); what is modelled here is the memory footprint: which '
                             'buffer members run on which objects', 'operator new[]/delete[], std::vector (trusted)',
                             'data-pointer stability is compared through a "moved since the previous step" flag, never an address')

    def allowed(self, case, impl, spec):
        return steps_ok(parse(impl), parse(spec), True)

    def same(self, case, impl, model):
        return steps_ok(parse(impl), parse(model), False)

    def nontrivial(self, case, impl):
        return case.count(';') >= 3

    def shrink_candidates(self, case):
        return []


class C04(StrCheck):
    pid = 'C04'
    rule = ('directed: every const operation (substr incl. whole-string, left, right, to_upper/lower, trim with/without effect, '
            'operator+, replace with/without match, s.replace(s,s), to_utf8, before_first/after_last with/without match, '
            'split, copy) on a source of every size class {0,1,2,15,16,17,40}, after which the RESULT is mutated/destroyed and '
            'the source re-read (through a battery of ~40 const members and free functions incl. format, streams, codecs), and '
            'vice versa; self-referential s = s, s += s; seeded random histories over 4 slots mixing all of these with '
            'copy/move construction and assignment, set, +=, clear, destruction. non-trivial = >= 4 operations')

    def gen(self, rng, tier):
        for h in directed_histories(rng):
            yield 'str 4 ' + ';'.join(h)
        n = 400 if tier == 'quick' else 40000
        for _ in range(n):
            yield 'str 4 ' + ';'.join(random_history(rng, rng.choice([8, 12, 18])))


CHECK = C04()
