"""C20: concurrent use needs no locking.
(a) inventory regenerated from a clang AST dump: every static-storage variable in the headers is const / constexpr,
    no mutable fields, only re-entrant library calls (theorems closed by vm_compute over the generated lists);
(b) schedule independence proved over the model (Conc/Interleave.v);
(c) this run: N threads execute const operations on shared immutable strings/buffers and arbitrary operations on
    thread-local objects with no synchronisation, under ThreadSanitizer; each thread's digest of everything it computed
    must equal the digest of the same program run alone."""
import vlib


class C20(vlib.Check):
    pid = 'C20'
    group = 'conc'
    per_case_timeout = 60
    partial = ('absence of data races in compiled code is OBSERVED (ThreadSanitizer over the sampled programs and schedules), '
               'not proved; what is proved is (a) no shared mutable state exists in the headers (source-derived inventory) and '
               '(b) schedule independence of the model; state hidden behind libc calls (locale) is covered only by the whitelist')
    rule = ('cases = (threads, seed, operations per thread): 2-16 threads, each running a seeded program of 32 operation kinds '
            '(18 kinds of const members / free functions / conversions / formatting / codecs / stream insertion on 12 shared '
            'strings, 4 shared char buffers and 4 shared UTF-16 buffers, incl. floating-point renderings of 64 characters and more; 11 kinds on '
            'thread-local strings, streams, buffers, incl. move-construct-then-clear of the moved-from object and outputs of 2-9 KiB through '
            'ST::format / format_latin_1 / local string_streams); '
            'non-trivial = at least 2 threads and 100 operations per thread; distinct = distinct case line')
    modelled_not_verified = ('ThreadSanitizer (g++ 12) as the observer of data races', 'libc snprintf/strtod/strtol are re-entrant '
                             'given an unchanging locale (whitelist)', 'the results themselves are compared between the concurrent '
                             'and the sequential run of the same program (self-consistency), their correctness being the subject of '
                             'the other properties')

    def sanitizers(self, tag):
        return ['-fsanitize=thread']

    def gen(self, rng, tier):
        n = 24 if tier == 'quick' else 1500
        yield 'thr 8 1 400'
        yield 'thr 16 2 200'
        yield 'thr 2 3 3000'
        for _ in range(n):
            yield 'thr %d %d %d' % (rng.choice([2, 3, 4, 8, 8, 16]), rng.randrange(1, 10 ** 9), rng.choice([100, 300, 1000]))

    def nontrivial(self, case, impl):
        t = case.split()
        return int(t[1]) >= 2 and int(t[3]) >= 100


CHECK = C20()
