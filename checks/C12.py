"""C12: integer <-> text is exact for every value, width and base.
Printing: from_int/from_uint, string_stream <<, ST::format digits; parsing: to_* with flags;
round trips; glibc's strtol family as reference for coq/Num/Strtol.v."""
import vlib
from num_gen import *

QUICK_BASES = [2, 3, 8, 10, 16, 35, 36]
PARSE_BASES = [0, 2, 8, 10, 16, 36]
WS = [b' ', b'\t', b'\n', b'\v', b'\f', b'\r', b'  ', b' \t\n']
SIGNS = [b'', b'-', b'+', b'--', b'+-', b'- ']
PREFIXES = [b'', b'0x', b'0X', b'0', b'0b', b'00', b'0x0x', b'x']
JUNK = [b'', b' ', b'x', b'g', b'z', b'Z', b'.5', b'\0', b'\x001', b'8', b'9', b'_', b'\xff', b'\x80', b'@', b'`', b'{', b'[', b'/', b':']
DIGIT_RUNS = [b'', b'0', b'1', b'7', b'9', b'a', b'f', b'F', b'g', b'z', b'Z', b'10', b'0777', b'08', b'12345', b'ff', b'7fffffff', b'80000000',
              b'ffffffff', b'100000000', b'2147483647', b'2147483648', b'4294967295', b'4294967296', b'32767', b'32768', b'65535', b'65536',
              b'9223372036854775807', b'9223372036854775808', b'9223372036854775809', b'18446744073709551615', b'18446744073709551616',
              b'7fffffffffffffff', b'8000000000000000', b'8000000000000001', b'ffffffffffffffff', b'10000000000000000',
              b'777777777777777777777', b'1000000000000000000000', b'1777777777777777777777', b'2000000000000000000000',
              b'1y2p0ij32e8e7', b'1y2p0ij32e8e8', b'3w5e11264sgsf', b'3w5e11264sgsg', b'zzzzzzzzzzzzzzzzzzzz',
              b'1' * 63, b'1' * 64, b'1' * 65, b'9' * 40, b'0' * 30 + b'1']


class C12(vlib.Check):
    pid = 'C12'
    group = 'num'
    quick_budget_s = 90
    rule = ('printing: every value of short and unsigned short x bases {2,3,8,10,16,35,36} (thorough: all 35 bases) x letter case through '
            'from_int/from_uint; every 16-bit value through string_stream << and ST::format {d} {x} {X} {o} {b} {}; every signed/unsigned char '
            'through ST::format; boundary-directed values {0, +-1, +-b^k +-1, +-2^k +-1, min, min+1, max} and seeded values of int/long/long long '
            'and unsigned x all 35 bases; round trips to every reader at least as wide.  parsing: grammar whitespace x sign x prefix x digit run '
            '(incl. overflowing runs) x junk (incl. embedded NUL, bytes >= 0x80) x bases {0,2,8,10,16,36} x all eight to_* readers + to_bool, and '
            'seeded byte strings; every text also goes to glibc strtol/strtoul/strtoll/strtoull (strtol_ref) against the Coq model. '
            'impl vs Model: whole result line; impl vs Spec: text = sign ++ canonical digits / value,ok,full per flags_spec. '
            'non-trivial = value other than 0 / non-empty text; distinct = distinct case line')
    modelled_not_verified = (
        'coq/Num/Strtol.v: the C library\'s strtol/strtoul/strtoll/strtoull modelled from ISO C17 7.22.1.4 (C locale); '
        'validated against this platform\'s glibc by op strtol_ref on every run, not proved',
        'char_buffer::allocate / string::from_validated / string_stream::append modelled as list operations (C05/C16\'s subject)',
        'LP64 widths (short 16, int 32, long = long long 64) static_assert\'ed in harness/h_num.cpp',
        'bases outside 2..36 are outside the property (from_int with base 1 walks below uint_formatter\'s buffer, base 0 divides by '
        'zero; to_long(result, invalid base) reads an unset end pointer): modelled in Digits.v as Fault, not generated',
    )

    # ------------------------------------------------------------ printing side
    def print_cases(self, rng, tier):
        bases_all = list(range(2, 37))
        bases16 = bases_all if tier == 'thorough' else QUICK_BASES
        # every 16-bit / 8-bit value, in digest mode: `enum <op> <type> <lo> <hi> ...` = the op on every value of
        # the block, both sides print one FNV digest of the result lines (shrinking bisects a differing block)
        def blocks(ty, size=4096):
            lo, hi = trange(ty)
            for a in range(lo, hi + 1, size):
                yield a, min(a + size - 1, hi)
        for ty in ('short', 'ushort'):
            for b in bases16:
                for up in ((0, 1) if b > 10 else (0,)):
                    for a, z in blocks(ty):
                        yield 'enum from_int %s %d %d %d %d' % (ty, a, z, b, up)
            for a, z in blocks(ty):
                yield 'enum stream_int %s %d %d' % (ty, a, z)
                for c in 'xXobd-':
                    yield 'enum format_int %s %d %d %s' % (ty, a, z, c)
            # a line-mode sample of the same domain (results visible in the evidence)
            lo, hi = trange(ty)
            for v in range(lo, hi + 1, 257):
                yield 'from_int %s %d 10 0' % (ty, v)
                yield 'from_int %s %d 36 1' % (ty, v)
                yield 'stream_int %s %d' % (ty, v)
                yield 'format_int %s %d x' % (ty, v)
        for ty in ('schar', 'uchar'):
            lo, hi = trange(ty)
            for c in 'xXobd-':
                yield 'enum format_int %s %d %d %s' % (ty, lo, hi, c)
        # wider types: boundary-directed x all 35 bases
        wide = ['int', 'long', 'llong', 'uint', 'ulong', 'ullong']
        for ty in wide:
            for b in bases_all:
                vals = boundary_values(ty, b)
                for v in vals:
                    for up in ((0, 1) if b > 10 else (0,)):
                        yield 'from_int %s %d %d %d' % (ty, v, b, up)
            for v in boundary_values(ty, 10) + boundary_values(ty, 16) + boundary_values(ty, 8) + boundary_values(ty, 2):
                yield 'stream_int %s %d' % (ty, v)
                for c in 'xXobd-':
                    yield 'format_int %s %d %s' % (ty, v, c)
        # seeded values
        nrand = 4000 if tier == 'quick' else 60000
        for _ in range(nrand):
            ty = rng.choice(wide + ['short', 'ushort'])
            lo, hi = trange(ty)
            k = rng.randrange(1, BITS[ty] + 1)
            v = rng.getrandbits(k)
            if not is_unsigned(ty) and rng.random() < 0.5:
                v = -v
            v = max(lo, min(hi, v))
            b = rng.randrange(2, 37)
            up = rng.randrange(2)
            yield 'from_int %s %d %d %d' % (ty, v, b, up)
            yield 'stream_int %s %d' % (ty, v)
            yield 'format_int %s %d %s' % (ty, v, rng.choice('xXobd-'))
            for tto in self.readers(ty):
                yield 'round_trip %s %s %d %d %d' % (ty, tto, v, b, up)
        # round trips: boundaries of every type to every reader at least as wide
        for ty in list(STYPES) + list(UTYPES):
            for b in (bases_all if tier == 'thorough' else [2, 7, 10, 16, 36]):
                for v in boundary_values(ty, b):
                    for tto in self.readers(ty):
                        yield 'round_trip %s %s %d %d %d' % (ty, tto, v, b, v & 1)

    @staticmethod
    def readers(ty):
        fam = UTYPES if is_unsigned(ty) else STYPES
        return [t for t in fam if fam[t] >= fam[ty]]

    # ------------------------------------------------------------ parsing side
    def parse_texts(self, rng, tier):
        texts = [b'', b'\0', b' ', b'-', b'+', b'0', b'0x', b'0X', b'0xg', b'0x ', b'x', b'true', b'TRUE', b'tRuE', b'false', b'FALSE', b'truex',
                 b'tru', b'1', b'2', b'-1', b' 1', b'1 ', b'0\x001', b'\x00123', b'12\x0034']
        quick = tier == 'quick'
        for ws in (WS[:3] + [b''] if quick else WS + [b'']):
            for sg in SIGNS:
                for pf in (PREFIXES[:5] if quick else PREFIXES):
                    for dg in DIGIT_RUNS:
                        if quick and ws and sg in (b'--', b'+-', b'- ') and len(dg) > 4:
                            continue
                        j = rng.choice(JUNK)
                        texts.append(ws + sg + pf + dg + j)
        for dg in DIGIT_RUNS:
            for j in JUNK:
                texts.append(dg + j)
                texts.append(b'-' + dg + j)
        # canonical renderings of boundary values in other bases, upper and lower (parser inputs)
        for b in (2, 8, 10, 16, 36):
            for ty in ('short', 'int', 'llong', 'ullong'):
                for v in boundary_values(ty, b):
                    texts.append(to_base(v, b, v & 1).encode())
        n = 1500 if quick else 30000
        alpha = b'0123456789abcdefxXzZ -+\t\n\x00\xff_.gG8'
        for _ in range(n):
            k = rng.choice([1, 2, 3, 4, 5, 8, 12, 20, 25, 70])
            if rng.random() < 0.5:
                texts.append(bytes(rng.choice(alpha) for _ in range(k)))
            else:
                texts.append(bytes(rng.randrange(256) for _ in range(k)))
        return texts

    def parse_cases(self, rng, tier):
        texts = self.parse_texts(rng, tier)
        readers = ['short', 'int', 'long', 'llong', 'ushort', 'uint', 'ulong', 'ullong']
        seen = set()
        for i, t in enumerate(texts):
            if t in seen:
                continue
            seen.add(t)
            h = hx(t)
            bases = PARSE_BASES if (tier == 'thorough' or i % 3 == 0) else [0, 10, 16] if i % 3 == 1 else [2, 8, 36]
            for b in bases:
                if tier == 'thorough':
                    rs = readers
                else:
                    rs = [readers[(i + b) % 4], readers[4 + (i + b) % 4]]
                for ty in rs:
                    yield 'to_int %s %s %d' % (ty, h, b)
                if b'\0' not in t:
                    for kind in ('l', 'ul') if (i + b) % 2 else ('ll', 'ull'):
                        yield 'strtol_ref %s %s %d' % (kind, h, b)
            yield 'to_int bool %s 0' % h
        # odd bases for the reference model
        for t in texts[:400]:
            if b'\0' in t:
                continue
            b = rng.randrange(2, 37)
            yield 'strtol_ref l %s %d' % (hx(t), b)
            yield 'strtol_ref ull %s %d' % (hx(t), b)
            yield 'to_int long %s %d' % (hx(t), b)

    def gen(self, rng, tier):
        yield 'shutdown'      # use of the library during program / thread shutdown (harness probe)
        # directed first: the values the repaired defect was about
        for ty, v in (('int', -2147483648), ('long', -9223372036854775808), ('llong', -9223372036854775808), ('short', -32768)):
            yield 'stream_int %s %d' % (ty, v)
            for c in 'xXobd-':
                yield 'format_int %s %d %s' % (ty, v, c)
            yield 'from_int %s %d 10 0' % (ty, v)
        yield from self.parse_cases(rng, tier)
        yield from self.print_cases(rng, tier)

    def nontrivial(self, case, impl):
        if case.split()[0] == 'shutdown':
            return True
        t = case.split()
        if t[0] == 'enum':
            return True
        if t[0] in ('to_int', 'strtol_ref'):
            return t[2] != '.'
        if t[0] == 'round_trip':
            return t[3] != '0'
        return t[2] != '0'

    def shrink_candidates(self, case):
        t = case.split()
        if t[0] == 'enum':
            lo, hi = int(t[3]), int(t[4])
            if lo == hi:
                yield ' '.join([t[1], t[2], str(lo)] + t[5:])
            else:
                mid = (lo + hi) // 2
                yield ' '.join(t[:3] + [str(lo), str(mid)] + t[5:])
                yield ' '.join(t[:3] + [str(mid + 1), str(hi)] + t[5:])
            return
        if t[0] in ('to_int', 'strtol_ref') and t[2] != '.' and len(t[2]) > 2:
            h = t[2]
            for i in range(0, len(h), 2):
                yield ' '.join([t[0], t[1], (h[:i] + h[i + 2:]) or '.'] + t[3:])
        elif t[0] in ('from_int', 'stream_int', 'format_int', 'round_trip'):
            k = 3 if t[0] == 'round_trip' else 2
            v = int(t[k])
            lo, hi = trange(t[1])
            for w in (lo, hi, -1, 1, v // 2, -v // 2 if v < 0 else v // 2 + 1, 10, 37, -37):
                if lo <= w <= hi and w != v and abs(w) <= abs(v):
                    yield ' '.join(t[:k] + [str(w)] + t[k + 1:])

    def summarize(self, cases, impl):
        d, types, bases = {}, {}, {}
        enumerated = {}
        for c in cases:
            t = c.split()
            if t[0] == 'enum':
                k = ' '.join(t[1:3] + t[5:])
                enumerated[k] = enumerated.get(k, 0) + int(t[4]) - int(t[3]) + 1
                continue
            d[t[0]] = d.get(t[0], 0) + 1
            if len(t) < 2:
                continue
            types[t[1]] = types.get(t[1], 0) + 1
            if t[0] in ('from_int', 'to_int', 'strtol_ref'):
                b = t[3]
                bases[b] = bases.get(b, 0) + 1
        return {'ops': d, 'types': types, 'bases': bases, 'values_enumerated_in_digest_mode': enumerated,
                'values_enumerated_total': sum(enumerated.values())}


CHECK = C12()
