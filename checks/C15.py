"""C15: decoders accept exactly the valid encodings and never overrun the output buffer.
Cases: strings over all 256 byte values (valid digits, '=', NUL, >= 0x80), every padding /
invalid shape of the final and non-final base64 group, output_size below/at/above the decoded
length, null output."""
import itertools
import vlib
from codec_gen import *

ALPHA = [b'A', b'a', b'0', b'+', b'/', b'=', b'\x00', b'!', b'\x80', b'\xff', b'Z', b'z', b'9', b'-', b'_', b'g', b'G', b'f', b'F']


class C15(vlib.Check):
    pid = 'C15'
    group = 'codec'
    rule = ('all strings of length <= 4 (quick: <= 3 plus all length-4 over a 10-symbol alphabet) over a mixed alphabet of '
            'valid/invalid/pad/NUL/high bytes through hex_dec, b64_dec and the caller-buffer forms with output_size in '
            '{0, len-1, len, len+1, 64} and null; 8-char strings made of two groups drawn from padding/invalid shapes; '
            'single-byte sweep of all 256 values in each position of a valid group; seeded mutations of valid encodings. '
            'non-trivial = non-empty input; distinct = distinct case line')
    modelled_not_verified = ('ST::string::from_validated / char_buffer::allocate modelled as exact-size arrays',)

    def gen(self, rng, tier):
        import base64
        strs = [b'']
        small = ALPHA[:10]
        maxlen = 4
        for n in range(1, maxlen + 1):
            alpha = small if n == 4 else ALPHA[:14] if n == 3 else ALPHA
            for tup in itertools.product(alpha, repeat=n):
                strs.append(b''.join(tup))
        groups = [b'AAAA', b'AAA=', b'AA==', b'A===', b'====', b'=AAA', b'A=AA', b'AA=A', b'AAA\x00', b'AA\x00=',
                  b'A!AA', b'AA!A', b'AAA!', b'!AAA', b'AA=\x00', b'\x80AAA', b'AAA\xff', b'////', b'++++', b'Zz09',
                  b'AA\x00\x00', b'==AA', b'A==A', b'AA-A', b'AAA_', b'QUJD', b'/w==', b'//8=', b'AP8Q', b'T Qz']
        for g1 in groups:
            for g2 in groups:
                strs.append(g1 + g2)
        if tier == 'thorough':
            for g1 in groups[:12]:
                for g2 in groups[:12]:
                    for g3 in groups[:12]:
                        strs.append(g1 + g2 + g3)
        # every byte value in each position of a valid group / hex pair
        for pos in range(4):
            for v in range(256):
                g = bytearray(b'QUJD')
                g[pos] = v
                strs.append(bytes(g))
                strs.append(b'QUJD' + bytes(g))
                strs.append(bytes(g) + b'QUJD')
        for pos in range(2):
            for v in range(256):
                g = bytearray(b'4a')
                g[pos] = v
                strs.append(bytes(g))
                strs.append(b'00' + bytes(g))
        # every byte value in every position of LONGER inputs (block-at-a-time decoding territory: 8..40 characters),
        # all other characters valid
        hexbody = b'0123456789abcdefABCDEF0123456789abcdefAB'
        b64body = b'Zkv6FQep0/KVju5EPaQU+wxyz0123456789ABCDE'
        for n in (8, 10, 16, 18, 24, 34, 40):
            positions = range(n) if (n <= 18 or tier == 'thorough') else sorted(set([0, 1, 7, 8, 9, 15, 16, 17, n - 9, n - 8, n - 1]))
            for pos in positions:
                for v in range(256):
                    for body in (hexbody, b64body):
                        g = bytearray(body[:n])
                        g[pos] = v
                        strs.append(bytes(g))
        # seeded mutations of valid encodings of every length class
        nrand = 400 if tier == 'quick' else 8000
        for _ in range(nrand):
            raw = rand_bytes(rng, rng.choice([1, 2, 3, 4, 5, 6, 11, 12, 13, 16, 17, 30, 31, 32, 47, 48, 49]))
            enc = bytearray(base64.b64encode(raw) if rng.random() < 0.6 else raw.hex().encode())
            k = rng.random()
            if k < 0.3 and enc:
                enc[rng.randrange(len(enc))] = rng.choice([0x3d, 0x00, 0x21, 0x80, 0xff, 0x2d, 0x5f, 0x20, 0x41])
            elif k < 0.45 and enc:
                del enc[rng.randrange(len(enc))]
            elif k < 0.6:
                enc.insert(rng.randrange(len(enc) + 1), rng.choice([0x3d, 0x41, 0x30]))
            strs.append(bytes(enc))
        for s in strs:
            h = hx(s)
            yield 'hex_dec ' + h
            yield 'b64_dec ' + h
            yield 'hex_dec_buf %s null' % h
            yield 'b64_dec_buf %s null' % h
            hl = len(s) // 2
            bl = (len(s) // 4) * 3
            for o in sorted(set([0, max(hl - 1, 0), hl, hl + 1, 64])):
                yield 'hex_dec_buf %s %d' % (h, o)
            if len(s) in (0, 8, 16) or (len(s) in (2, 4) and s[:1] in (b'A', b'0', b'4') and s[-1:] in (b'A', b'a', b'=', b'0')):
                # output_size at the integer limits ("unbounded" callers): 2^31, 2^32, 2^63-1, 2^63, SIZE_MAX
                for o in (2 ** 31, 2 ** 32, 2 ** 63 - 1, 2 ** 63, 2 ** 64 - 1):
                    yield 'hex_dec_buf %s %d' % (h, o)
                    yield 'b64_dec_buf %s %d' % (h, o)
            for o in sorted(set([0, max(bl - 3, 0), max(bl - 2, 0), max(bl - 1, 0), bl, bl + 1, 64])):
                yield 'b64_dec_buf %s %d' % (h, o)

        # "unbounded" output sizes against every length class (incl. lengths that are not a multiple of 4 / 2, whose
        # invalid-length verdict must not depend on a comparison with output_size) and against bad characters / padding
        huge = (2 ** 31, 2 ** 32, 2 ** 63 - 1, 2 ** 63, 2 ** 64 - 2, 2 ** 64 - 1)
        for n in list(range(0, 14)) + [16, 17, 18, 19]:
            for body in (b'Zkv6FQep0/KVju5EPaQU', b'0123456789abcdefABCD'):
                s0 = body[:n]
                variants = [s0]
                if n:
                    variants += [s0[:-1] + b'=', s0[:-1] + b'!', b'=' + s0[1:], s0[:n // 2] + b'\x80' + s0[n // 2 + 1:]]
                if n >= 2:
                    variants.append(s0[:-2] + b'==')
                for v in variants:
                    for o in huge:
                        yield 'b64_dec_buf %s %d' % (hx(v), o)
                        yield 'hex_dec_buf %s %d' % (hx(v), o)

    def nontrivial(self, case, impl):
        t = case.split()
        return len(t) > 1 and t[1] not in ('.', '-')

    def shrink_candidates(self, case):
        t = case.split()
        if len(t) >= 2 and t[1] not in ('.', '-') and len(t[1]) > 2:
            h = t[1]
            for i in range(0, len(h), 2):
                yield ' '.join([t[0], (h[:i] + h[i + 2:]) or '.'] + t[2:])


CHECK = C15()
