"""C02: validation modes accept, reject and repair malformed input correctly.
Arbitrary code units through every conversion that reads them, under each mode; the expected
line is the Spec's tolerant tokeniser (Utf/Tokens.v): check_validity throws exactly when some
unit is Bad, substitute_invalid replaces each Bad unit by U+FFFD ('?' in Latin-1), well-formed
input is unchanged in every mode; mode-omitting overloads in three builds (ST_DEFAULT_VALIDATION)."""
import vlib
from utf_gen import *

KNOWN_WCHAR = 'wchar-copy-ignores-mode'


class C02(UtfCheck):
    pid = 'C02'
    quick_budget_s = 90
    rule = ('UTF-8 side: digest enumeration of ALL byte strings of length 1 and 2 (thorough: 3) and of all 4-tuples over the 16 '
            'class-boundary bytes {00,7F,80,BF,C0,C1,C2,DF,E0,EF,F0,F4,F5,F7,F8,FF} through utf8_to_utf16/utf32/wchar/latin_1 '
            '(both flags) and ST::string, every mode (thorough: all 3-byte strings with a first byte C0..FF through 3 routes, every '
            'value 0..0x1FFFFF in generalised UTF-8 form); boundary scalars and non-scalars (tolerated forms) in every position next '
            'to every width; overlong / surrogate / >10FFFF forms in context; valid text cut at every unit, one unit '
            'deleted / duplicated / replaced / inserted. UTF-16 side: all strings of length <= 3 over the surrogate-boundary '
            'units, mutations of valid text, thorough: each boundary unit followed by all 65536 units, all code points as UTF-16. '
            'UTF-32 side: boundary values pairwise and in every position, blocks around D800/110000/400000/FFFFFFFF, '
            'thorough: all values 0..0x120000 in digest mode. wchar_t aliases. '
            'Default-mode clause: mode-omitting overloads of every route in builds with -DST_DEFAULT_VALIDATION= '
            'assume_valid / substitute_invalid and the unset default. Block-wise shapes: a malformed unit / a wide character at every offset 0..39 of 40 units of ASCII, forms ending '
            'at and just past multiples of 8, whole blocks. Seeded random damaged text. '
            'expected = Tokens.spec_conv; under assume_valid on malformed input only "some buffer, no exception" is required. '
            'non-trivial = non-empty input; distinct = distinct case line')
    modelled_not_verified = (
        'C++ semantics of the transcribed statements (LP64, 32-bit signed wchar_t, integer promotions) are modelled, not verified',
        'ST::buffer<T> construction/assignment/allocate are modelled as exact-size arrays with a terminator (C05)',
        'reading of the property for assume_valid on malformed input: a mode other than check_validity never reports invalid '
        'input by throwing (content not compared); for UTF-8 values above 0x10FFFF sent to UTF-16 the reference is "treated '
        'like an invalid unit" (throw / U+FFFD)',
    )
    partial = ('repair_revalid for UTF-16 / UTF-32 RESULTS is proved for UTF-8 input whose decoded values are scalars (revalid16_refuted / '
               'revalid32_refuted show why); it is not stated for UTF-32 -> UTF-16 and UTF-16 -> UTF-32 results. deciders_agree for the '
               'UTF-16 and UTF-32 sides is the generic check_validity_throws_iff + can_show_holds, not spelled out per function. '
               'utf32_to_wchar / wchar_to_utf32 (plain copies) are outside conv_fn: wchar_copy_ignores_mode_refuted (known finding).')

    def variants(self):
        # the two extra builds only run the mode-omitting overloads: -O0 -g0 keeps their compile time small
        return {'': [],
                'av': ['-O0', '-g0', '-DST_DEFAULT_VALIDATION=ST::assume_valid'],
                'si': ['-O0', '-g0', '-DST_DEFAULT_VALIDATION=ST::substitute_invalid']}

    def known(self, case, impl, spec):
        p = parse(case)
        if p['fn'] not in ('utf32_to_wchar', 'wchar_to_utf32'):
            return None
        if eff_mode(p) == 'av':
            return None
        if p['enum']:
            # every item of the range is a single unit above 0x10FFFF, copied unchanged
            if p['domain'] == 'cp' and p['lo'] > 0x10FFFF and impl.startswith('OK n='):
                return KNOWN_WCHAR
            return None
        u = unhex(p['units'], 8)
        if any(x > 0x10FFFF for x in u) and impl == 'OK %s size=%d term=1' % (p['units'], len(u)):
            return KNOWN_WCHAR
        return None

    def gen(self, rng, tier):
        quick = tier == 'quick'
        fns8 = FN_BY_SRC['8']
        # ---- UTF-8 side: exhaustive short strings and class-boundary 4-tuples, digest mode
        for fn in fns8:
            route = 'ptr'
            for mode in MODES:
                for sub in subs_for(fn):
                    yield enum_case('bytes1', fn, route, mode, sub, 0, 256)
                    if quick and fn in ('utf8_to_wchar',):
                        continue
                    for lo in range(0, 65536, 16384):
                        yield enum_case('bytes2', fn, route, mode, sub, lo, lo + 16384)
                    if quick and (fn in ('utf8_to_wchar', 'utf8_to_latin_1') and not (sub == '0' and mode == 'cv')):
                        continue
                    for lo in range(0, 65536, 16384):
                        yield enum_case('cb4', fn, route, mode, sub, lo, lo + 16384)
        if not quick:
            # all 3-byte strings whose first byte is C0..FF (a first byte below C0 is a token of its own, so those
            # strings are a one-byte token followed by a 2-byte string already enumerated above): 4.2 M per route
            for fn, mode, sub in (('utf8_to_utf32', 'cv', '_'), ('str_from_utf8', 'si', '_'), ('utf8_to_utf16', 'si', '_')):
                for lo in range(0xC00000, 1 << 24, 1 << 19):
                    yield enum_case('bytes3', fn, 'ptr', mode, sub, lo, lo + (1 << 19))
            # every value 0..0x1FFFFF in its generalised UTF-8 form (surrogates, values above 0x10FFFF included)
            for fi, fn in enumerate(('utf8_to_utf16', 'utf8_to_latin_1')):
                for lo in range(0, 0x200000, 0x40000):
                    mode = MODES[(fi + lo // 0x40000) % 3]
                    yield enum_case('cp', fn, 'ptr', mode, '1' if fn == 'utf8_to_latin_1' else '_', lo, lo + 0x40000)
        # ---- directed malformed inputs through every reading function, every mode; routes rotate
        for kind in ('8', '16', '32'):
            inputs = malformed_inputs(kind, rng, tier)
            allf = FN_BY_SRC[kind]
            for i, u in enumerate(inputs):
                # quick tier: every input through 2 (UTF-32: 3) of the reading functions, rotating, every mode;
                # the exhaustive short-string enumerations above go through all of them
                k = len(allf)
                fns = allf if not quick else [allf[(i + j * 2) % k] for j in range(2 if k == 5 else 3)]
                for fn in fns:
                    rts = routes_for(fn)
                    route = 'ptr' if (i % 3) else rts[(i // 3) % len(rts)]
                    if not ok_for_route(route, u):
                        route = 'ptr'
                    for mode in MODES:
                        for sub in subs_for(fn):
                            if route == 'ptrmode' and sub == '0':
                                continue
                            yield case(fn, route, mode, sub, u)
                if kind == '8' and (i % 2 == 0 or not quick):
                    for fn in STR_TO_FNS:
                        rts = routes_for(fn)
                        for sub in subs_for(fn):
                            yield case(fn, rts[i % len(rts)], '_', sub, u)
                    yield case('str_lit_utf8', 'lit' if i % 2 else 'u8lit', '_', '_', u)
        # ---- block-wise shapes (word-at-a-time rewrites): a malformed unit, and a well-formed wide character, at every
        #      offset of 40 units of ASCII; forms ending exactly at / one unit past a block boundary; whole blocks
        for kind in ('8', '16', '32'):
            shaped = block_malformed(kind) + [encode(kind, sc) for sc in block_scalars()] + long_malformed(kind)
            for i, u in enumerate(shaped):
                allf = FN_BY_SRC[kind]
                fns = allf if not quick else [allf[(i + j * 2) % len(allf)] for j in range(2)]
                for fn in fns:
                    for mode in (MODES if not quick else (MODES[i % 3], 'cv')):
                        for sub in subs_for(fn)[: 1 if quick else 2]:
                            yield case(fn, 'ptr' if i % 2 else 'buf', mode, sub, u)
                if kind == '8' and i % 4 == 0:
                    for fn in STR_TO_FNS[1:]:
                        yield case(fn, 'to', '_', '1' if fn == 'str_to_latin_1' else '_', u)
        for i, b in enumerate(block_latin1() + long_latin1()):
            for fn in FN_BY_SRC['l1']:
                yield case(fn, 'ptr', '_', '_', b)
        # literal operators (hard-wired assume_valid) on damaged wide text
        for kind, fn in (('16', 'str_from_utf16'), ('32', 'str_from_utf32'), ('32', 'str_from_wchar')):
            for u in malformed_inputs(kind, rng, tier)[:200]:
                yield case(fn, 'lit', 'av', '_', u)
        # ---- UTF-16 / UTF-32 enumerations
        if not quick:
            for k, first in enumerate(SURR_UNITS):
                for fi, fn in enumerate(FN_BY_SRC['16']):
                    mode = MODES[(k + fi) % 3]
                    yield enum_case('u16x2', fn, 'ptr', mode, '1' if ALL_FN[fn][3] else '_', first << 16, (first << 16) + 65536)
            for fi, fn in enumerate(('utf16_to_utf8', 'utf16_to_utf32', 'str_from_utf16')):
                for lo in range(0, 0x110000, 0x44000):
                    yield enum_case('cp', fn, 'ptr', MODES[(fi + lo // 0x44000) % 3], '_', lo, lo + 0x44000)
        for fi, fn in enumerate(FN_BY_SRC['32']):
            sub = '1' if ALL_FN[fn][3] else '_'
            for mode in MODES:
                rngs = [(0xD000, 0xE800), (0x10F000, 0x110000), (0x110000, 0x111000), (0x3FF800, 0x400800)]
                if not quick:
                    rngs += [(0x111000, 0x120000), (0xFFFFF000, 0x100000000)]
                for lo, hi in rngs:
                    yield enum_case('cp', fn, 'ptr', mode, sub, lo, hi)
            if not quick and fn in ('utf32_to_utf8', 'utf32_to_utf16', 'utf32_to_latin_1', 'str_from_wchar'):
                for lo in range(0, 0x110000, 0x22000):
                    yield enum_case('cp', fn, 'ptr', MODES[(fi + lo // 0x22000) % 3], sub, lo, lo + 0x22000)
        # ---- default-mode clause: three builds, every mode-omitting overload
        dflt_inputs = {
            '8': [[0x41, 0xC3, 0xA9], [0xC3], [0x41, 0x80, 0x42], [0xF4, 0x8F, 0xBF, 0xBF], [0xE2, 0x82], [0xFF], [],
                  [0xED, 0xA0, 0x80], [0xC0, 0x80], [0x41] * 20 + [0xE2, 0x82]],
            '16': [[0x41, 0xD83D, 0xDE00], [0xD800], [0xDC00, 0x41], [0xDC00, 0xD800], [0x41, 0xD800, 0x41], []],
            '32': [[0x41, 0x1F600], [0x110000], [0x41, 0xFFFFFFFF, 0x42], [0xD800], [0x10FFFF], []],
        }
        for tag, dm in (('', 'cv'), ('av', 'av'), ('si', 'si')):
            for kind, ins in dflt_inputs.items():
                extra = [] if quick else [rand_mostly_valid(kind, rng, rng.choice([1, 2, 3, 8, 20])) for _ in range(60)]
                for u in ins + extra:
                    for fn in FN_BY_SRC[kind]:
                        for c in default_calls(fn, u, dm, tag or None):
                            yield c
        # ---- seeded random damaged text
        nrand = 1500 if quick else 20000
        for _ in range(nrand):
            kind = rng.choice(['8', '8', '16', '32'])
            n = rng.choice([1, 2, 3, 4, 5, 6, 8, 12, 16, 17, 33])
            k = rng.random()
            if k < 0.5:
                u = rand_mostly_valid(kind, rng, n)
            elif kind == '8':
                u = rand_bytes_biased(rng, n)
            elif kind == '16':
                u = rand_units16(rng, n)
            else:
                u = rand_units32(rng, n)
            fn = rng.choice(FN_BY_SRC[kind])
            calls = all_calls(fn, u)
            for c in rng.sample(calls, min(4, len(calls))):
                yield c


CHECK = C02()
