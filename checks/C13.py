"""C13: floating-point text equals the C library's rendering, padded to the width, whatever its
length; from_float/from_double/string_stream give %g (or the requested letter); to_float/to_double
return strtof/strtod's value with the integer flags logic.  PARTIAL: libc is not modelled — the
extracted model is RUN with the platform's own snprintf (render) and strtod/strtof (scan)."""
import struct
import vlib
from num_gen import *

DBL_MAX = 0x7fefffffffffffff
DIRECTED = [
    0x0000000000000000, 0x8000000000000000,            # +-0
    0x0000000000000001, 0x8000000000000001,            # smallest subnormal
    0x000fffffffffffff, 0x800fffffffffffff,            # largest subnormal
    0x0010000000000000,                                # DBL_MIN
    DBL_MAX, 0xffefffffffffffff,                       # +-DBL_MAX
    0x7ff0000000000000, 0xfff0000000000000,            # +-inf
    0x7ff8000000000000, 0xfff8000000000000,            # +-NaN (quiet)
    0x7ff0000000000001, 0xfff4000000000000, 0x7fffffffffffffff,   # signalling / payload NaNs
    0x3ff0000000000000, 0xbff0000000000000, 0x3ff8000000000000, 0x3fd5555555555555, 0x400921fb54442d18,
    0x3fb999999999999a, 0x3fe0000000000000, 0x4023ffffffffffff, 0x40c3880000000000, 0x3f1a36e2eb1c432d,
    0x4341c37937e08000, 0x3eb0c6f7a0b5ed8d, 0x412e848000000000, 0x412e847e00000000, 0x3f50624dd2f1a9fc,
]
FLOATS = [0x00000000, 0x80000000, 0x00000001, 0x007fffff, 0x00800000, 0x7f7fffff, 0xff7fffff, 0x7f800000, 0xff800000,
          0x7fc00000, 0xffc00000, 0x7f800001, 0x3f800000, 0x3fc00000, 0x3dcccccd, 0x40490fdb, 0x4b800000, 0x501502f9, 0x2edbe6ff]
PRECISIONS = [-1, 0, 1, 6, 17, 40, 60, 100]
LETTERS = [ord(c) for c in 'efgEFG']
BAD_LETTERS = [0, ord('d'), ord('x'), ord('a'), ord('A'), ord('%'), ord(' '), ord('s'), ord('n'), ord('h'), ord('L'), 255, 128, ord('H')]


def pow10(k):
    return dbits(float('1e%d' % k))


class C13(vlib.Check):
    pid = 'C13'
    group = 'num'
    quick_budget_s = 90
    partial = ('Equality with printf/strtod is established by differential execution, not by a theorem about libc: '
               'snprintf, strtod and strtof are Section variables (render, scan, scanf) about which nothing is assumed. '
               'Proved for every libc: the assembled format is "%" ["+"] ["." decimal precision] letter and fits the 32-byte buffer for every '
               'int precision (the assertion is dead); format_type(double) = pad_to_width(render(format, v)) for renderings of any length '
               '(abort only if snprintf reports <= 0); padding never truncates and is on the side the alignment says; from_double/stream validate '
               'the letter and abort only from 318 bytes on; to_double/to_float flags logic. '
               'Run-time oracle: the extracted model calls the platform\'s vsnprintf through the OCaml runtime primitive caml_format_float with the '
               'MODEL-assembled format (checked byte-identical to the harness\'s own snprintf by op render_ref on every generated format), and '
               'strtod/strtof results obtained from libc through ctypes (checked against the harness\'s own call, fields ref=/end=). '
               'Not covered: renderings longer than INT_MAX; that libc\'s default-precision renderings stay below 318 bytes is checked on '
               '+-DBL_MAX for every letter, not proved.')
    rule = ('directed doubles {+-0, min/max subnormal, DBL_MIN, +-DBL_MAX, +-inf, quiet/signalling/payload NaN of both signs, every power of ten '
            '1e-320..1e308 (quick: every 2nd plus those whose %f rendering has 62/63/64/65 bytes), assorted} and seeded bit patterns, floats widened; '
            'x notation {g,f,e,E} x precision {none,0,1,6,17,40,60,100} (+ 2147483647 with %g of exactly representable values, 300, 1000 sampled) x sign '
            'flag x width {0,1,len-1,len,len+1,63,64,65,200} x alignment {default,left,right} x pad {default,*,0} through ST::format_type with a '
            'format_spec (all fields) and through ST::format with the equivalent format string; from_double/from_float/string_stream with every '
            'letter of "efgEFG" and invalid letters; to_double/to_float on a grammar of whitespace/sign/decimal/hex/inf/nan(payload)/exponent/'
            'overflow/underflow/junk/embedded NUL and seeded byte strings. impl vs Model and impl vs Spec: whole result line. '
            'non-trivial = every case; distinct = distinct case line')
    modelled_not_verified = (
        'libc: snprintf("%[+][.p]{e,E,f,g,F,G}"), strtod, strtof are NOT modelled (Section variables); at run time they are the platform\'s own',
        'ocaml/drv_num.ml `render` = OCaml runtime primitive caml_format_float (= vsnprintf(fmt, d)), validated by op render_ref',
        'the format-string parser (C10/C11) turns "{<_*+20.3e}" into the format_spec: assumed here, format_double_s only checks the end-to-end result',
        'format_writer::append / string_stream / char_buffer::allocate modelled as list operations (C05/C16)',
        'sizeof(ST::float_formatter<double>) = round8(318) + 8 ties the model constant float_formatter_buf to the header (op float_buf)',
    )

    def doubles(self, rng, tier):
        d = list(DIRECTED)
        step = 1 if tier == 'thorough' else 2
        for k in list(range(-320, 309, step)) + [53, 54, 55, 56, 57, 58, -5, -4, -1, 0, 1, 15, 16, 17, 21, 22, 23, 308, -308, -307, -320]:
            b = pow10(k)
            d.append(b)
            if k % 3 == 0:
                d.append(b | (1 << 63))
        n = 400 if tier == 'quick' else 3000
        for _ in range(n):
            r = rng.random()
            if r < 0.5:
                d.append(rng.getrandbits(64))
            elif r < 0.8:
                d.append(dbits(rng.uniform(-1e6, 1e6)))
            else:
                d.append(dbits(float(rng.randrange(-10**6, 10**6)) / rng.choice([1, 2, 4, 8, 10, 100, 1000])))
        return list(dict.fromkeys(d))

    def fields(self, rng, i, approx_len):
        """width / alignment / pad combinations, rotating so every combination occurs"""
        widths = [0, 1, max(approx_len - 1, 0), approx_len, approx_len + 1, 63, 64, 65, 200, 8, 30]
        aligns = 'dlr'
        pads = [0, 42, 48, 32, 95, 126]
        return widths[i % len(widths)], aligns[(i // 2) % 3], pads[(i // 3) % len(pads)]

    def gen(self, rng, tier):
        yield 'float_buf'
        # the repaired defect, first
        yield 'from_double 0x%016x 102' % pow10(100)
        yield 'format_double_s 0 -1 f 0 d 0 0x%016x' % pow10(100)
        yield 'format_double_s 0 70 f 0 d 0 0x3fd5555555555555'
        yield 'format_double 0 70 f 0 d 0 0x3fd5555555555555'
        yield 'stream_double 0x%016x' % DBL_MAX
        # insertion into a stream with every remaining capacity 0..16 below the in-object capacity and the next two
        # doublings, for the longest %g renderings (13 characters) and a short one
        for cap in (256, 512, 1024):
            for rem in range(0, 17):
                for v in (DBL_MAX | (1 << 63), 0x8010000000000000, 0x8000000000000001, 0x4014000000000000):
                    yield 'stream_double 0x%016x %d' % (v, cap - rem)
                yield 'stream_float 0x%08x %d' % (0xff7fffff, cap - rem)
        for L in LETTERS:
            yield 'from_double 0x%016x %d' % (DBL_MAX, L)
            yield 'from_double 0x%016x %d' % (DBL_MAX | (1 << 63), L)
            yield 'from_float 0x%08x %d' % (0xff7fffff, L)
        # every int precision assembles.  Huge precisions only with inf/nan (glibc allocates O(precision) for finite
        # values and the rendering of %e/%f would exceed INT_MAX), large ones only with %g of exactly representable values.
        for p in (2147483647, 2147483646, 1000000000, 999999999, 12345678, 4294967, 1000000, 65536, 1000, 300, -2147483648, -2, 10, 99, 100, 101):
            for c in 'gfeE':
                for v in (0x3ff0000000000000, 0x4000000000000000, 0x7ff0000000000000, 0xfff8000000000000):
                    finite = v < 0x7ff0000000000000
                    if finite and (p > 5000000 or (p > 1000 and c != 'g')):
                        continue
                    yield 'format_double 1 %d %s 0 d 0 0x%016x' % (p, c, v)
                    if p >= 0:
                        yield 'format_double_s 0 %d %s 12 l 46 0x%016x' % (p, c, v)
        formats = set()
        i = 0
        vals = self.doubles(rng, tier)
        for v in vals:
            for c in 'gfeE':
                precs = PRECISIONS if (tier == 'thorough' or v in DIRECTED[:16]) else [PRECISIONS[(i + k) % 8] for k in (0, 3, 5)] + [-1]
                for p in dict.fromkeys(precs):
                    for plus in ((0, 1) if (tier == 'thorough' or i % 3 == 0) else (i & 1,)):
                        i += 1
                        approx = 12 if c != 'f' else 10
                        w, al, pad = self.fields(rng, i, approx + max(p, 0))
                        yield 'format_double %d %d %s %d %s %d 0x%016x' % (plus, p, c, w, al, pad, v)
                        if i % 4 == 0:
                            yield 'format_double_s %d %d %s %d %s %d 0x%016x' % (plus, p, c, w, al, pad if pad else 0, v)
                        if i % 5 == 0:
                            # width exactly around the real length: take it from a fixed table of offsets
                            for dw in (-1, 0, 1):
                                yield 'format_double %d %d %s %d %s %d 0x%016x' % (plus, p, c, max(0, approx + max(p, 0) + dw), 'l', 42, v)
                        f = '%' + ('+' if plus else '') + ('.%d' % p if p >= 0 else '') + c
                        formats.add(f)
            for L in LETTERS:
                yield 'from_double 0x%016x %d' % (v, L)
            yield 'stream_double 0x%016x' % v
            yield 'from_float_d 0x%016x 103' % v
        # widths bracketing the exact length of renderings of known length (1e55 %f = 63 bytes, ...)
        for k, n in ((54, 62), (55, 63), (56, 64), (57, 65)):
            for plus in (0, 1):
                for w in (n - 1, n, n + 1, n + 2, 64, 65):
                    for al in 'dlr':
                        yield 'format_double %d -1 f %d %s 42 0x%016x' % (plus, w, al, pow10(k))
                        yield 'format_double_s %d -1 f %d %s 42 0x%016x' % (plus, w, al, pow10(k))
            yield 'from_double 0x%016x 102' % pow10(k)
            yield 'from_double 0x%016x 70' % (pow10(k) | (1 << 63))
        # odd format_spec fields only reachable through the struct: negative width, other negative precisions, pad >= 0x80
        for v in (0x3ff8000000000000, 0xc08f400000000000):
            for w in (-1, -2147483648, 2, 20):
                for p in (-1, -7, 3):
                    for pad in (0, 200, 255, 1):
                        yield 'format_double 0 %d f %d r %d 0x%016x' % (p, w, pad, v)
        # floats
        fl = list(FLOATS) + [rng.getrandbits(32) for _ in range(60 if tier == 'quick' else 1500)]
        for j, fb in enumerate(fl):
            for c in 'gfeE':
                p = PRECISIONS[(j + ord(c)) % 8]
                w, al, pad = self.fields(rng, j, 12)
                yield 'format_float %d %d %s %d %s %d 0x%08x' % (j & 1, p, c, w, al, pad, fb)
            for L in LETTERS:
                yield 'from_float 0x%08x %d' % (fb, L)
            yield 'stream_float 0x%08x' % fb
        # letter validation
        for L in BAD_LETTERS:
            yield 'from_double 0x3ff8000000000000 %d' % L
            yield 'from_float 0x3fc00000 %d' % L
            yield 'from_float_d 0x3ff8000000000000 %d' % L
        # the oracle itself: every format used above + a few more, on a handful of values
        formats |= {'%F', '%G', '%+.0f', '%.100E', '%+.2147483647g', '%.1000000000E'}
        for f in sorted(formats):
            for v in (0x3ff8000000000000, 0xfff8000000000000, 0x7ff0000000000000, 0x8000000000000000, pow10(100), 0x0000000000000001, 0x3fd5555555555555):
                if len(f) > 9 and v not in (0xfff8000000000000, 0x7ff0000000000000):
                    continue
                yield 'render_ref %s 0x%016x' % (f.encode().hex(), v)
        # parsing
        for t in self.texts(rng, tier):
            b, e = strtod_ref(t)
            yield 'to_double %s 0x%016x %d' % (hx(t), b, e)
            b, e = strtof_ref(t)
            yield 'to_float %s 0x%08x %d' % (hx(t), b, e)

    def texts(self, rng, tier):
        ws = [b'', b' ', b'\t\n', b'\v\f\r ']
        signs = [b'', b'-', b'+', b'--', b'+-']
        bodies = [b'', b'0', b'1', b'1.5', b'.5', b'5.', b'.', b'1e5', b'1e', b'1e+', b'1e-5', b'1E5', b'1.5e300', b'1e308', b'1.8e308', b'1e309', b'1e999',
                  b'1e-307', b'1e-308', b'4.9e-324', b'2e-324', b'1e-400', b'1e-999', b'0x1p3', b'0x1.8p1', b'0x', b'0xp', b'0x1p', b'0X1P-1074', b'0x.8',
                  b'0x1.fffffffffffffp1023', b'0x1p1024', b'inf', b'INF', b'Inf', b'infinity', b'INFINITY', b'infinit', b'infx', b'nan', b'NAN', b'NaN',
                  b'nan(', b'nan()', b'nan(1)', b'nan(0x7ff)', b'nan(abc_9)', b'nan(a b)', b'nan(xyz', b'na', b'in', b'123456789012345678901234567890',
                  b'0.1', b'0.10000000000000000555111512312578270211815834045410156250', b'3.4028235e38', b'3.4028236e38', b'1e39', b'1e-46', b'1.4e-45',
                  b'7e-46', b'16777217', b'9007199254740993', b'1,5', b'1_000', b'1d5', b'1f', b'1.5f', b'1L', b'1e5e5', b'1.2.3', b'00012', b'-0', b'0e0',
                  b'0e99999999999', b'1e0000000000000000000000000001', b'1' + b'0' * 400, b'0.' + b'0' * 400 + b'1', b'1e' + b'9' * 30]
        junk = [b'', b' ', b'x', b'\0', b'\x001', b'e', b'.', b'\xff', b'\n']
        out = [b'', b'\0', b' ', b'\x001.5', b'1.5\x002', b'true', b'0x1.8p1\x00zz']
        k = 0
        for w in ws:
            for s in signs:
                for b in bodies:
                    k += 1
                    if tier == 'quick' and w and s in (b'--', b'+-') and k % 3:
                        continue
                    out.append(w + s + b + junk[k % len(junk)])
        for v in DIRECTED:
            x = struct.unpack('<d', struct.pack('<Q', v))[0]
            out.append(repr(x).encode())
            out.append(('%.17g' % x).encode())
            out.append(('%a' % x if hasattr(x, 'hex') else '1').encode() if False else x.hex().encode())
        n = 400 if tier == 'quick' else 10000
        alpha = b'0123456789.eE+-xXpPinfatyNA() \t\x00'
        for _ in range(n):
            m = rng.choice([1, 2, 3, 5, 8, 13, 30])
            if rng.random() < 0.7:
                out.append(bytes(rng.choice(alpha) for _ in range(m)))
            else:
                out.append(bytes(rng.randrange(256) for _ in range(m)))
        return list(dict.fromkeys(out))

    def nontrivial(self, case, impl):
        return True

    def shrink_candidates(self, case):
        t = case.split()
        if t[0] in ('to_double', 'to_float') and t[1] != '.' and len(t[1]) > 2:
            h = bytes.fromhex(t[1])
            for i in range(len(h)):
                s = h[:i] + h[i + 1:]
                b, e = strtod_ref(s) if t[0] == 'to_double' else strtof_ref(s)
                yield ('%s %s 0x%016x %d' if t[0] == 'to_double' else '%s %s 0x%08x %d') % (t[0], hx(s), b, e)
        elif t[0] in ('format_double', 'format_double_s', 'format_float'):
            # simplify one field at a time
            base = ['0', '-1', 'f', '0', 'd', '0']
            for i in range(6):
                if t[1 + i] != base[i]:
                    yield ' '.join(t[:1 + i] + [base[i]] + t[2 + i:])
            for v in ('0x3ff0000000000000', '0x%016x' % pow10(100)):
                if t[0] != 'format_float' and t[7] != v and int(t[2]) <= 1000:
                    yield ' '.join(t[:7] + [v])

    def summarize(self, cases, impl):
        d, letters, precs, lens = {}, {}, {}, {'<64': 0, '64..317': 0, '>=318': 0}
        for i, c in enumerate(cases):
            t = c.split()
            d[t[0]] = d.get(t[0], 0) + 1
            if t[0].startswith('format_'):
                letters[t[3]] = letters.get(t[3], 0) + 1
                precs[t[2]] = precs.get(t[2], 0) + 1
                m = impl.get(i, '')
                if m.startswith('OK') and 'size=' in m:
                    n = int(m.rsplit('size=', 1)[1].split()[0])
                    lens['<64' if n < 64 else '64..317' if n < 318 else '>=318'] += 1
        return {'ops': d, 'notations': letters, 'precisions': precs, 'output_length_classes': lens}


CHECK = C13()
