"""C06: comparison is a total order; operators, overloads and hashes agree with it.
Cases go through the static pointer+length compare of all four buffer element types (sizes
independent of the data, incl. differences of 2^31-1 .. 2^32 and SIZE_MAX with a zero-length or short
common prefix: nothing beyond min(lsize,rsize) is read), the ST::buffer<T> members, every
ST::string compare/compare_n/compare_i/compare_ni overload incl. the C-string forms, the
operators and functors, hash/hash_i/std::hash, to_upper/to_lower.  Results are compared by SIGN."""
import vlib
from cmpfind_gen import *

B7 = [0x00, 0x41, 0x61, 0x62, 0x80, 0xff, 0x5a]
BOUND = [0x00, 0x01, 0x40, 0x41, 0x5a, 0x5b, 0x60, 0x61, 0x7a, 0x7b, 0x7f, 0x80, 0xc1, 0xe1, 0xff]
BIG = [(1 << 31) - 1, 1 << 31, (1 << 31) + 1, (1 << 32) - 1, 1 << 32, (1 << 32) + 1, 1 << 33, 1 << 63, SIZE_MAX - 1, SIZE_MAX]
ELT = {'c': (2, [0x00, 0x01, 0x7f, 0x80, 0xff]),
       'h': (4, [0x0000, 0x0001, 0x7fff, 0x8000, 0xd800, 0xffff]),
       'u': (8, [0x0, 0x1, 0x10ffff, 0x7fffffff, 0x80000000, 0xffffffff]),
       'w': (8, [0x0, 0x1, 0x10ffff, 0x7fffffff, 0x80000000, 0xffffffff])}


def rand_text(rng, n, alpha=None):
    if alpha is None:
        alpha = rng.choice([B7, list(range(256)), [0x41, 0x61, 0x42, 0x62], BOUND])
    return [rng.choice(alpha) for _ in range(n)]


def flip_case(rng, s):
    out = []
    for c in s:
        if (0x41 <= c <= 0x5a or 0x61 <= c <= 0x7a) and rng.random() < 0.5:
            c ^= 0x20
        out.append(c)
    return out


def related(rng, a):
    """a text related to a: equal, case variant, prefix, extension, one unit changed"""
    k = rng.randrange(7)
    if k == 0:
        return list(a)
    if k == 1:
        return flip_case(rng, a)
    if k == 2:
        return a[:rng.randrange(len(a) + 1)]
    if k == 3:
        return a + rand_text(rng, rng.randrange(1, 4))
    if k == 4 and a:
        b = flip_case(rng, a)
        i = rng.randrange(len(b))
        b[i] = rng.choice(BOUND)
        return b
    if k == 5 and a:
        b = list(a)
        b[-1] = b[-1] ^ 0x20
        return b
    return rand_text(rng, rng.randrange(0, len(a) + 3))


class C06(vlib.Check):
    pid = 'C06'
    group = 'cmpfind'
    quick_budget_s = 90
    rule = ('directed: static compare<char|wchar_t|char16_t|char32_t>(l,lsize,r,rsize[,maxlen]) with sizes differing by '
            '2^31-1, 2^31, 2^31+1, 2^32-1, 2^32, 2^32+1, 2^33, 2^63, SIZE_MAX-1, SIZE_MAX over a zero-length and a 2-unit '
            'common prefix, both orders; every byte value against 15 boundary bytes (A/Z/a/z neighbours, 00, 7f/80, ff); '
            'all pairs of texts of length <= 2 over {00,41,61,62,80,ff,5a} through every ST::string route with prefix '
            'limits 0,1,2,SIZE_MAX; all pairs of length <= 2 over boundary units through the four ST::buffer<T> types; all '
            'triples of length <= 2 over {41,61,62} and seeded related triples (antisymmetry, transitivity, zero iff equal '
            'checked on the observed signs against the lexicographic oracle); hash/hash_i/std::hash on equal, case-variant '
            'and different pairs; to_upper/to_lower on all 256 bytes and seeded texts; seeded related pairs up to length 300. '
            'comparison results by sign only; hash_i VALUE not compared (only equal-for-equivalent). '
            'non-trivial = both operands non-empty; distinct = distinct case line')
    modelled_not_verified = (
        'ST::string::from_validated / buffer(ptr,len) / allocate modelled as exact-size arrays with a readable terminator (C05)',
        'std::char_traits<T>::compare/length/find (memcmp, wmemcmp, memchr, strlen) modelled from their specification; '
        'wmemcmp is signed on this platform: the unsigned-order claim for wchar_t is made for units < 2^31 only '
        '(spec line is * beyond; model = signed)',
        'compare_ci(l,lsize,r,rsize) tie-break with sizes >= 2^31 is only reachable with > 2 GiB operands: modelled, not exercised',
    )

    def gen(self, rng, tier):
        yield 'shutdown'      # use of the library during program / thread shutdown (harness probe)
        thorough = tier == 'thorough'
        # --- the static compare, sizes independent of the data
        for t, (w, units) in ELT.items():
            pre = hx([units[1], units[2]], w)
            for d in BIG + [0, 1, 2]:
                yield 'cmp %s . 0 . %d' % (t, d)
                yield 'cmp %s . %d . 0' % (t, d)
                if d <= SIZE_MAX - 2:
                    yield 'cmp %s %s 2 %s %d' % (t, pre, pre, d + 2)
                    yield 'cmp %s %s %d %s 2' % (t, pre, d + 2, pre)
                for m in (0, 1, 2, (1 << 31), (1 << 32), SIZE_MAX):
                    yield 'cmp %s . 0 . %d %d' % (t, d, m)
                    yield 'cmp %s . %d . 0 %d' % (t, d, m)
            # real contents
            strs = list(strings_upto(units, 2))
            for a in strs:
                for b in strs:
                    yield 'cmp %s %s %d %s %d' % (t, hx(a, w), len(a), hx(b, w), len(b))
                    n = rng.choice([0, 1, 2, 3, SIZE_MAX])
                    yield 'buf %s %s %s %d' % (t, hx(a, w), hx(b, w), n)
            yield 'buf %s %s - 1' % (t, hx([units[1]], w))
            yield 'buf %s . - 0' % t
            nr = 150 if not thorough else 3000
            for _ in range(nr):
                a = [rng.choice(units + [rng.randrange(1 << (4 * w)) if t != 'w' else rng.randrange(1 << 31)]) for _ in range(rng.choice([1, 2, 3, 11, 12, 13, 16, 17, 40]))]
                b = list(a)
                k = rng.randrange(4)
                if k == 0:
                    b = b[:rng.randrange(len(b) + 1)]
                elif k == 1:
                    b[rng.randrange(len(b))] = rng.choice(units)
                elif k == 2:
                    b = b + [rng.choice(units)]
                if rng.random() < 0.5:
                    a, b = b, a
                yield 'buf %s %s %s %d' % (t, hx(a, w), hx(b, w), rng.choice([0, 1, len(a), len(b), len(a) + 1, SIZE_MAX]))
        # --- every byte against the boundary bytes
        for v in range(256):
            for b in BOUND:
                yield 'str %02x %02x %d' % (v, b, rng.choice([0, 1, SIZE_MAX]))
        # --- all pairs of short texts
        short = list(strings_upto(B7, 2))
        for i, a in enumerate(short):
            for j, b in enumerate(short):
                yield 'str %s %s %d' % (hx(a), hx(b), [0, 1, 2, SIZE_MAX][(i + j) % 4])
        if thorough:
            mid = list(strings_upto([0x00, 0x41, 0x61, 0x80, 0x5a], 3))
            for a in mid:
                for b in mid:
                    yield 'str %s %s %d' % (hx(a), hx(b), rng.choice([0, 1, 2, 3, SIZE_MAX]))
        for a in (b'', b'a', b'A\x00b'):
            yield 'str %s - 0' % hx(a)
            yield 'str %s - 5' % hx(a)
        # --- triples
        t3 = list(strings_upto([0x41, 0x61, 0x62], 2))
        for a in t3:
            for b in t3:
                for c in t3:
                    yield 'tri %s %s %s' % (hx(a), hx(b), hx(c))
        for _ in range(2500 if not thorough else 30000):
            a = rand_text(rng, rng.choice([0, 1, 2, 3, 5, 8, 15, 16, 17, 33]))
            b = related(rng, a)
            c = related(rng, rng.choice([a, b]))
            tr = [a, b, c]
            rng.shuffle(tr)
            yield 'tri %s %s %s' % tuple(hx(x) for x in tr)
        # --- hashes
        for v in range(256):
            yield 'hash %02x %02x' % (v, v)
            yield 'hash %02x %02x' % (v, v ^ 0x20)
            yield 'hash 61%02x62 41%02x42' % (v, v ^ 0x20)
        for _ in range(400 if not thorough else 5000):
            a = rand_text(rng, rng.choice([0, 1, 2, 7, 15, 16, 17, 64, 300]))
            yield 'hash %s %s' % (hx(a), hx(related(rng, a)))
        # --- case maps
        yield 'case ' + hx(list(range(256)))
        for v in range(256):
            yield 'case %02x' % v
        for _ in range(100 if not thorough else 1000):
            yield 'case ' + hx(rand_text(rng, rng.choice([0, 1, 15, 16, 17, 47, 48, 49, 300])))
        # --- seeded related pairs, all routes
        for _ in range(2500 if not thorough else 40000):
            a = rand_text(rng, rng.choice([0, 1, 2, 3, 4, 7, 15, 16, 17, 31, 32, 33, 100, 300]))
            b = related(rng, a)
            if rng.random() < 0.5:
                a, b = b, a
            n = rng.choice([0, 1, max(len(a) - 1, 0), len(a), len(b), len(a) + 1, 1 << 31, 1 << 32, SIZE_MAX])
            yield 'str %s %s %d' % (hx(a), hx(b), n)

    # hash_i's VALUE is not constrained by the property (only equal for equivalent texts)
    def same(self, case, impl, model):
        if case.startswith('hash '):
            ia, ik = kv(impl)
            ma, mk = kv(model)
            if ia != 'OK' or ma != 'OK':
                return impl == model
            return all(ik.get(k) == mk.get(k) for k in ('h', 'he', 'hie', 'sh'))
        return impl == model

    def allowed(self, case, impl, spec):
        ia, ik = kv(impl)
        sa, sk = kv(spec)
        if ia != 'OK' or sa != 'OK':
            return impl == spec
        op = case.split()[0]
        if op == 'tri':
            cs = ik['cs'].split(',')
            ci = ik['ci'].split(',')
            if cs != sk['cs'].split(','):
                return False
            if not all(tok_ok(x, y) for x, y in zip(ci, sk['ci'].split(','))):
                return False
            return self.laws([int(x) for x in cs]) and self.laws([int(x) for x in ci])
        if set(ik) != set(sk):
            return False
        if not all(tok_ok(ik[k], sk[k]) for k in sk):
            return False
        if op == 'str':
            # the routes agree with each other (ops_agree), whatever order compare_i realises
            g = lambda k: int(ik[k])
            return (g('ci') == g('cI') and g('ciz') == g('cIz') and g('li') == (1 if g('ci') < 0 else 0)
                    and g('ei') == (1 if g('ci') == 0 else 0) and g('eq') == (1 if g('c') == 0 else 0)
                    and g('ne') == 1 - g('eq') and g('lt') == (1 if g('c') < 0 else 0)
                    and g('eqz') == (1 if g('cz') == 0 else 0) and g('nez') == 1 - g('eqz'))
        return True

    @staticmethod
    def laws(s):
        ab, ba, bc, cb, ac, ca = s
        if ab != -ba or bc != -cb or ac != -ca:
            return False                                   # antisymmetry
        for x, y, z in ((ab, bc, ac), (ac, cb, ab), (ba, ac, bc), (bc, ca, ba), (ca, ab, cb), (cb, ba, ca)):
            if x <= 0 and y <= 0 and z > 0:
                return False                               # transitivity of <=
            if x <= 0 and y <= 0 and (x < 0 or y < 0) and z >= 0:
                return False                               # strictness is kept
        return True

    def nontrivial(self, case, impl):
        t = case.split()
        if t[0] in ('cmp', 'buf'):
            return True
        return all(x not in ('.', '-') for x in t[1:3])

    def shrink_candidates(self, case):
        t = case.split()
        if t[0] in ('str', 'hash', 'tri', 'case'):
            nargs = {'str': 2, 'hash': 2, 'tri': 3, 'case': 1}[t[0]]
            for i in range(1, 1 + nargs):
                if t[i] in ('.', '-'):
                    continue
                for s in drop_one(t[i]):
                    yield ' '.join(t[:i] + [s] + t[i + 1:])
        elif t[0] == 'buf':
            w = ELT[t[1]][0]
            for i in (2, 3):
                if t[i] in ('.', '-'):
                    continue
                for s in drop_one(t[i], w):
                    yield ' '.join(t[:i] + [s] + t[i + 1:])

    def summarize(self, cases, impl):
        d = {}
        for c in cases:
            t = c.split()
            k = t[0] + ('.' + t[1] if t[0] in ('cmp', 'buf') else '')
            d[k] = d.get(k, 0) + 1
        big = sum(1 for c in cases if c.startswith('cmp ') and any(x.isdigit() and int(x) >= (1 << 31) for x in c.split()[2:]))
        return {'ops': d, 'static_compare_sizes_ge_2^31': big}


CHECK = C06()
