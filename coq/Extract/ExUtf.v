(* Extraction of the UTF conversion models and the spec oracles (ExtrOcamlBasic only). *)
Require Extraction.
Require Import ExtrOcamlBasic.
From Coq Require Import ZArith.
From ST Require Import Base.Outcome Base.Units Gen.Consts Utf.Spec Utf.Tokens Utf.Model.
Extraction "../_work/ocaml/ex_utf.ml"
  utf16_to_utf8 utf32_to_utf8 wchar_to_utf8 latin_1_to_utf8
  utf8_to_utf16 utf32_to_utf16 wchar_to_utf16 latin_1_to_utf16
  utf8_to_utf32 utf16_to_utf32 wchar_to_utf32 latin_1_to_utf32
  utf8_to_wchar utf16_to_wchar utf32_to_wchar latin_1_to_wchar
  utf8_to_latin_1 utf16_to_latin_1 utf32_to_latin_1 wchar_to_latin_1
  string_set set_utf8 string_from_utf8 string_from_utf16 string_from_utf32 string_from_wchar string_from_latin_1
  string_literal_char string_to_utf8 string_to_utf16 string_to_utf32 string_to_wchar string_to_latin_1
  validate_utf8 cleanup_utf8_buffer with_default
  enc utf8_enc utf16_enc tok spec_conv wchar_encoding wchar_target sizeof_wchar is_scalar
  Z.of_N.  (* ocaml/common.ml expects the Z type *)
