(* Extraction of the memory models (buffer / string_stream) and their value-semantics specs. *)
Require Extraction.
Require Import ExtrOcamlBasic.
From ST Require Import Base.Outcome Base.Units Mem.Heap Mem.Buffer Mem.BufferRun Mem.Stream Mem.StreamText Mem.StringOps Utf.Model Utf.Spec Gen.Consts.
Extraction "../_work/ocaml/ex_mem.ml"
  run_history leaked_after_scope store0 spec_history spec_bop sstore0
  local_length_char local_length_wchar local_length_char16 local_length_char32
  run_shistory s_leaked_after_scope sstate0 spec_shistory bstore0 stack_string_size
  s_to_string spec_sop swith_fail run_thistory t_leaked_after_scope spec_thistory with_fail scratch_base
  to_ssize of_ssize.
