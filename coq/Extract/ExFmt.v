(* Extraction of the format models and spec oracles (ExtrOcamlBasic only). *)
Require Extraction.
Require Import ExtrOcamlBasic.
From ST Require Import Base.Outcome Base.Units Num.Digits Fmt.Strtol Fmt.Parser Fmt.Render Fmt.Sinks Fmt.RenderSpec.
Extraction "../_work/ocaml/ex_fmt.ml"
  strtol10 to_int parse_format driver
  format_to_string format_to_latin1 format_to_stream insert_units
  validate_utf8 cleanup_utf8 decode_utf8 encode_utf16 latin1_byte from_utf8
  spec_format scan render_field extract_token set_from_token.
