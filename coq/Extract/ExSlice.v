(* Extraction of the slice/split models and spec oracles (ExtrOcamlBasic only). *)
Require Extraction.
Require Import ExtrOcamlBasic.
From ST Require Import Base.Outcome Base.Units Str.Model Str.SliceSpec Str.SliceModel Str.SplitSpec Str.SplitModel.
Extraction "../_work/ocaml/ex_slice.ml"
  substr_model left_model right_model trim_left_model trim_right_model trim_model whitespace_cstr
  before_first_c before_first_z before_first_s after_first_c after_first_z after_first_s
  before_last_c before_last_z before_last_s after_last_c after_last_z after_last_s
  split_c split_z split_s tokenize_model replace_model replace_zz replace_sz replace_zs fill_model
  substr_spec left_spec right_spec c_content trim_left_spec trim_right_spec trim_spec
  before_first_spec after_first_spec before_last_spec after_last_spec
  split_spec join replace_spec tokenize_spec wf8s occ_count.
