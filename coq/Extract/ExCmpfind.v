(* Extraction of the comparison / searching models and spec oracles (ExtrOcamlBasic only). *)
Require Extraction.
Require Import ExtrOcamlBasic.
From ST Require Import Base.Outcome Base.Units Str.Model Str.CompareSpec Str.CompareModel Str.FindSpec Str.FindModel.
Extraction "../_work/ocaml/ex_cmpfind.ml"
  buf_compare4 buf_compare5 buf_compare buf_compare_z buf_compare_n buf_compare_n_z buf_eq buf_ne buf_lt
  str_compare str_compare_z str_compare_n str_compare_n_z
  str_lt str_eq str_ne str_eq_z str_ne_z less_i equal_i hash hash_i to_upper to_lower
  find_char find_z find_pn find_s find_char0 find_z0 find_pn0 find_s0
  find_last_char find_last_z find_last_pn find_last_s find_last_char0 find_last_z0 find_last_pn0 find_last_s0
  contains_char contains_z contains_pn contains_s starts_with_s starts_with_z ends_with_s ends_with_z
  lex lex_ci lex_sized ci_equivb upto_nul fold unfold_upper comparison_to_Z list_eqb
  find_spec find_last_spec idx contains_spec starts_with_spec ends_with_spec.
