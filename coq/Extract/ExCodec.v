(* Extraction of the codec models and spec oracles (ExtrOcamlBasic only). *)
Require Extraction.
Require Import ExtrOcamlBasic.
From ST Require Import Base.Outcome Base.Units Codec.Spec Codec.Model.
Extraction "../_work/ocaml/ex_codec.ml"
  hex_encode hex_decode hex_decode_buf base64_encode base64_decode b64_decode_buf
  hex_spec hex_decode_spec valid_hex hex_decoded_len
  b64_spec b64_decode_spec valid_b64 b64_decoded_len toupper.
