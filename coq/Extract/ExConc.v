(* Extraction for the concurrency group: the footprint functions the schedule-independence theorem is about. *)
Require Extraction.
Require Import ExtrOcamlBasic.
From ST Require Import Base.Outcome Base.Units Mem.Heap Mem.Buffer Mem.BufferRun Mem.BufferSteps Conc.Interleave.
Definition ok_unit : outcome unit := Ok tt.
Extraction "../_work/ocaml/ex_conc.ml" sources targets ok_unit to_ssize of_ssize.
