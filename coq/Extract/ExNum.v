(* Extraction of the num models (C12, C13) and their Spec-level oracles (ExtrOcamlBasic only). *)
Require Extraction.
Require Import ExtrOcamlBasic.
From ST Require Import Base.Outcome Base.Units Num.Digits Num.Strtol Num.IntText Num.FloatWrap.
Extraction "../_work/ocaml/ex_num.ml"
  uint_format from_int from_uint stream_signed stream_unsigned format_numeric_s format_numeric_u
  to_signed to_signed_plain to_unsigned to_unsigned_plain to_bool_flags to_bool_plain
  strtol_model strtoul_model upto_nul
  digits_text int_text to_signed_spec to_unsigned_spec
  assemble format_type_double from_double stream_double float_formatter_buf
  to_double_flags to_double_plain to_float_flags to_float_plain
  printf_format pad_to_width format_double_spec to_double_spec valid_float_letter.
