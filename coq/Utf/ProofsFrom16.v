(* Utf/ProofsFrom16.v — the converters that read UTF-16 through extract_utf16
   (utf16_to_utf8, utf16_to_utf32, utf16_to_latin_1, utf16_to_wchar).             *)
From Coq Require Import NArith Arith List Bool Lia.
From ST Require Import Base.Outcome Base.Units Gen.Consts Utf.Spec Utf.Tokens Utf.Model
     Utf.BitLemmas Utf.ProofsWalk Utf.ProofsTok Utf.ProofsEnc Utf.ProofsGeneric.
Import ListNotations.
Local Open Scope N_scope.
Local Open Scope outcome_scope.

Lemma extract_utf16_tok s t rest : all_lt 65536 s = true -> step16 s = Some (t, rest) ->
  extract_utf16 s = Ok (chval16 t, rest) /\ match t with Good _ v => v <= 0x10FFFF | Bad _ => True end.
Proof.
  intros A E. destruct (extract_utf16_step s t rest E) as [X V]. split; [exact X|].
  destruct t as [u v|b]; [|exact I].
  pose proof (step_ok_units E16 65536 s _ rest E A) as U. cbn [tok_units] in U.
  destruct u as [|x [|y r]]; try lia.
  destruct V as [-> _]. apply all_lt_cons in U. lia.
Qed.

Lemma push_all8_subst d : push_all8 d badchar_substitute_utf8 = push_list d [0xEF; 0xBF; 0xBD].
Proof. reflexivity. Qed.

(* ------------------------------------------------------------- measuring passes *)
Lemma utf8_measure_from_utf16_tokens s : all_lt 65536 s = true ->
  utf8_measure_from_utf16 (Some s) = Ok (total_cost (mcost T8) (tok E16 s)).
Proof.
  intros A. unfold utf8_measure_from_utf16. apply (measure_walk_tokens E16); [|exact A].
  intros s0 t rest n A0 E. destruct (extract_utf16_tok s0 t rest A0 E) as [X _]. rewrite X. cbn [bind].
  destruct t as [u v|b]; reflexivity.
Qed.

Lemma utf32_measure_from_utf16_tokens s : all_lt 65536 s = true ->
  utf32_measure_from_utf16 (Some s) = Ok (total_cost (mcost T32) (tok E16 s)).
Proof.
  intros A. unfold utf32_measure_from_utf16. apply (measure_walk_tokens E16); [|exact A].
  intros s0 t rest n A0 E. destruct (extract_utf16_tok s0 t rest A0 E) as [X _]. rewrite X. reflexivity.
Qed.

(* ------------------------------------------------------------- converting passes *)
Lemma utf8_convert_from_utf16_tokens d s m : all_lt 65536 s = true ->
  utf8_convert_from_utf16 d s m = twalk (emit_tb (pc E16 T8 m false)) (tok E16 s) d.
Proof.
  intros A. unfold utf8_convert_from_utf16. apply (walk_twalk E16); [|exact A|lia].
  intros s0 t rest d0 A0 E. destruct (extract_utf16_tok s0 t rest A0 E) as [X V]. rewrite X. cbn [bind].
  unfold emit_tb, pc, lift_step. destruct t as [u v|b]; cbn [chval16 piece_of].
  - rewrite (char_error_value v) by lia. cbn [is_error]. unfold render.
    assert (R : (v <=? 1114111) = true) by (apply N.leb_le; exact V). rewrite R.
    rewrite (write_utf8_ok d0 v V). destruct (push_list d0 (utf8_enc v)); reflexivity.
  - change (char_error (error_char CIncompleteSurrogate)) with CIncompleteSurrogate. cbn [is_error].
    unfold on_error8. rewrite push_all8_subst.
    destruct m; cbn [is_check err_of subst]; try reflexivity;
      destruct (push_list d0 [239; 191; 189]); reflexivity.
Qed.

Lemma utf32_convert_from_utf16_tokens d s m : all_lt 65536 s = true ->
  utf32_convert_from_utf16 d s m = twalk (emit_tb (pc E16 T32 m false)) (tok E16 s) d.
Proof.
  intros A. unfold utf32_convert_from_utf16. apply (walk_twalk E16); [|exact A|lia].
  intros s0 t rest d0 A0 E. destruct (extract_utf16_tok s0 t rest A0 E) as [X V]. rewrite X. cbn [bind].
  unfold emit_tb, pc, lift_step. destruct t as [u v|b]; cbn [chval16 piece_of].
  - rewrite (char_error_value v) by lia. cbn [is_error andb render]. unfold push32.
    rewrite land_FFFFFFFF by lia. cbn [push_list]. destruct (push d0 v); reflexivity.
  - change (char_error (error_char CIncompleteSurrogate)) with CIncompleteSurrogate. cbn [is_error andb].
    destruct m; cbn [is_check err_of]; try reflexivity;
      unfold push32; cbn [subst push_list]; change (N.land badchar_substitute 4294967295) with 65533;
      destruct (push d0 65533); reflexivity.
Qed.

Lemma latin_1_convert_from_utf16_tokens d s m sub : all_lt 65536 s = true ->
  latin_1_convert_from_utf16 d s m sub = twalk (emit_tb (pc E16 TL1 m sub)) (tok E16 s) d.
Proof.
  intros A. unfold latin_1_convert_from_utf16. apply (walk_twalk E16); [|exact A|lia].
  intros s0 t rest d0 A0 E. destruct (extract_utf16_tok s0 t rest A0 E) as [X V]. rewrite X. cbn [bind].
  unfold emit_tb, pc, lift_step. destruct t as [u v|b]; cbn [chval16 piece_of].
  - rewrite (char_error_value v) by lia. cbn [is_error andb render]. unfold latin_1_put.
    destruct (v <? 256) eqn:R; cbn [negb].
    + apply N.ltb_lt in R. unfold push8. rewrite land_FF by exact R. cbn [push_list]. destruct (push d0 v); reflexivity.
    + unfold unrepresentable. destruct sub; cbn [err_of]; [|reflexivity].
      unfold push8. change (N.land 63 255) with 63. cbn [push_list]. destruct (push d0 63); reflexivity.
  - change (char_error (error_char CIncompleteSurrogate)) with CIncompleteSurrogate. cbn [is_error andb].
    destruct m; cbn [is_check err_of]; try reflexivity;
      unfold latin_1_put; change (negb (63 <? 256)) with false; cbv iota;
      unfold push8; change (N.land 63 255) with 63; cbn [subst push_list]; destruct (push d0 63); reflexivity.
Qed.

(* ------------------------------------------------------------------- wrappers *)
Theorem utf16_to_utf8_result m s : all_lt 65536 s = true -> N.of_nat (length s) < huge_buffer_size ->
  utf16_to_utf8 m (Some s) = sres_outcome (repair T8 m false (tok E16 s)).
Proof.
  intros A L. unfold utf16_to_utf8. cbn [units_of].
  rewrite <- (pieces_assemble E16).
  apply (two_pass s (pc E16 T8 m false) (mcost T8) (tok E16 s)).
  - exact L.
  - apply utf8_measure_from_utf16_tokens; exact A.
  - intros d. apply utf8_convert_from_utf16_tokens; exact A.
  - intros t l'. apply pc_cost. discriminate.
  - intros t e. apply pc_real_error.
  - intros t. apply mcost_pos. discriminate.
Qed.

Theorem utf16_to_utf32_result m s : all_lt 65536 s = true -> N.of_nat (length s) < huge_buffer_size ->
  utf16_to_utf32 m (Some s) = sres_outcome (repair T32 m false (tok E16 s)).
Proof.
  intros A L. unfold utf16_to_utf32. cbn [units_of].
  rewrite <- (pieces_assemble E16).
  apply (two_pass s (pc E16 T32 m false) (mcost T32) (tok E16 s)).
  - exact L.
  - apply utf32_measure_from_utf16_tokens; exact A.
  - intros d. apply utf32_convert_from_utf16_tokens; exact A.
  - intros t l'. apply pc_cost. discriminate.
  - intros t e. apply pc_real_error.
  - intros t. apply mcost_pos. discriminate.
Qed.

Theorem utf16_to_latin_1_result m sub s : all_lt 65536 s = true -> N.of_nat (length s) < huge_buffer_size ->
  utf16_to_latin_1 m sub (Some s) = sres_outcome (repair TL1 m sub (tok E16 s)).
Proof.
  intros A L. unfold utf16_to_latin_1. cbn [units_of].
  rewrite <- (pieces_assemble E16).
  apply (two_pass s (pc E16 TL1 m sub) (mcost TL1) (tok E16 s)).
  - exact L.
  - apply utf32_measure_from_utf16_tokens; exact A.
  - intros d. apply latin_1_convert_from_utf16_tokens; exact A.
  - intros t l'. apply pc_cost. discriminate.
  - intros t e. apply pc_real_error.
  - intros t. apply mcost_pos. discriminate.
Qed.

Theorem utf16_to_wchar_result m s : all_lt 65536 s = true -> N.of_nat (length s) < huge_buffer_size ->
  utf16_to_wchar m (Some s) = sres_outcome (repair wchar_target m false (tok E16 s)).
Proof.
  intros A L. change wchar_target with T32. change (utf16_to_wchar m (Some s)) with (utf16_to_utf32 m (Some s)).
  apply utf16_to_utf32_result; assumption.
Qed.
