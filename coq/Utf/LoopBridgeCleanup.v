(* Utf/LoopBridgeCleanup.v — cleanup_utf8(output, buffer, size) and its helper append_chars of include/st_utf_conv_priv.h,
   the repair behind substitute_invalid for UTF-8 input (ST::string construction, set, from_utf8, operator+ in that mode), as
   TRANSLATED from the current headers (Gen/Leaf.v; translated for a non-null output: the null case, used for measuring,
   only skips the stores) returns, for byte strings of any length and every sufficient fuel, the size and stores exactly
   the bytes that the hand-written model Utf/Model.cleanup_utf8 returns and pushes — in both of the model's modes: with an
   output (given room) and without (the measuring call returns the same size). *)
From Coq Require Import NArith ZArith List Bool Lia ZifyBool ZifyNat ZifyN.
From ST Require Import Base.Outcome Base.Units Base.Sweep Gen.Consts Utf.Spec Utf.Model Gen.Leaf Utf.LeafBridge Utf.LoopBridge
     Utf.LoopBridgeExtract Utf.LoopBridgeMeasure Utf.LoopBridgeWrite Utf.LoopBridgeConvertL1 Utf.LoopBridgeConvert32.
Import ListNotations.
Local Open Scope Z_scope.
Local Open Scope outcome_scope.

Definition rd8 (p : Z -> Z) (i : Z) : Z := wraps 32 ((fun i_ => wrapu 8 (p i_)) i).
Definition copied (p : Z -> Z) (sp n : Z) : list Z :=
  [] ++ map (fun j_ => (fun i_ => (fun i_ => wraps 8 ((fun i_ => wrapu 8 (p i_)) i_)) (sp + i_)) (0 + Z.of_nat j_)) (seq 0 (Z.to_nat (wrapu 64 n))).
Definition substl : list Z :=
  [] ++ map (fun j_ => (fun i_ => nth (Z.to_nat i_) ext_arr_badchar_substitute_utf8 0) (0 + Z.of_nat j_)) (seq 0 (Z.to_nat ext_badchar_substitute_utf8_len)).
Definition add64 (acc n : Z) : Z := wrapu 64 (wrapu 64 (wrapu 64 acc + n)).
Definition ncont (p : Z -> Z) (i : Z) : bool := negb (wraps 32 (Z.land (rd8 p i) 192) =? 128).

Lemma cl_loop_S f p a b acc sp ep out : src_cleanup_utf8_loop1 (S f) p a b acc sp ep out =
  (if z2b (b2z (Z.ltb sp ep)) then
     if z2b (b2z (rd8 p sp <? 128)) then
       src_cleanup_utf8_loop1 f p a b (wrapu 64 (acc + 1)) (sp + 1) ep (out ++ [wraps 8 ((fun i_ => wrapu 8 (p i_)) sp)])
     else if z2b (b2z (wraps 32 (Z.land (rd8 p sp) 224) =? 192)) then
       if z2b (b2z (z2b (b2z (sp + 2 >? ep)) || z2b (b2z (ncont p (sp + 1)))))
       then src_cleanup_utf8_loop1 f p a b (add64 acc ext_badchar_substitute_utf8_len) (sp + 1) ep (out ++ substl)
       else src_cleanup_utf8_loop1 f p a b (add64 acc (wrapu 64 2)) (sp + 2) ep (out ++ copied p sp 2)
     else if z2b (b2z (wraps 32 (Z.land (rd8 p sp) 240) =? 224)) then
       if z2b (b2z (z2b (b2z (z2b (b2z (sp + 3 >? ep)) || z2b (b2z (ncont p (sp + 1))))) || z2b (b2z (ncont p (sp + 2)))))
       then src_cleanup_utf8_loop1 f p a b (add64 acc ext_badchar_substitute_utf8_len) (sp + 1) ep (out ++ substl)
       else src_cleanup_utf8_loop1 f p a b (add64 acc (wrapu 64 3)) (sp + 3) ep (out ++ copied p sp 3)
     else if z2b (b2z (wraps 32 (Z.land (rd8 p sp) 248) =? 240)) then
       if z2b (b2z (z2b (b2z (z2b (b2z (z2b (b2z (sp + 4 >? ep)) || z2b (b2z (ncont p (sp + 1))))) || z2b (b2z (ncont p (sp + 2)))))
                    || z2b (b2z (ncont p (sp + 3)))))
       then src_cleanup_utf8_loop1 f p a b (add64 acc ext_badchar_substitute_utf8_len) (sp + 1) ep (out ++ substl)
       else src_cleanup_utf8_loop1 f p a b (add64 acc (wrapu 64 4)) (sp + 4) ep (out ++ copied p sp 4)
     else src_cleanup_utf8_loop1 f p a b (add64 acc ext_badchar_substitute_utf8_len) (sp + 1) ep (out ++ substl)
   else Some (acc, out)).
Proof. cbv beta iota zeta delta [src_cleanup_utf8_loop1 src_append_chars rd8 copied substl add64 ncont]. reflexivity. Qed.

(* ---- model-side helpers ---- *)
Lemma push_all8_room : forall l free w, (length l <= free)%nat ->
  push_all8 (free, w) l = Ok ((free - length l)%nat, rev (map (fun v => N.land v 0xFF) l) ++ w).
Proof.
  induction l as [|v t IH]; intros free w H.
  - cbn [push_all8 length map rev app]. rewrite Nat.sub_0_r. reflexivity.
  - cbn [length] in H. destruct free as [|free]; [lia|]. cbn [push_all8]. rewrite push8_ok. cbn [bind].
    rewrite IH by lia. cbn [length map rev Nat.sub]. rewrite <- app_assoc. reflexivity.
Qed.

(* the conclusion, for a source result and a model continuation that takes the output mode *)
Definition Post (s : list N) (acc : nat) (out : list Z) (srcres : option (Z * list Z))
                (mres : option dst -> outcome (cerr * (nat * option dst))) : Prop :=
  exists ws, srcres = Some (Z.of_nat (acc + length ws), out ++ ws) /\ (length ws <= 3 * length s)%nat /\
    (forall d : dst, (length ws <= fst d)%nat ->
       mres (Some d) = Ok (CSuccess, ((acc + length ws)%nat, Some ((fst d - length ws)%nat, rev (map byte_of ws) ++ snd d)))) /\
    mres None = Ok (CSuccess, ((acc + length ws)%nat, None)).

(* one step that appends the bytes wsk (model: bytesN) and goes on with rest *)
Lemma tail_step s rest acc out wsk bytesN srcres (body : list N -> nat * option dst -> outcome (step_result (nat * option dst))) fm :
  map byte_of wsk = map (fun v => N.land v 0xFF) bytesN -> (length rest < length s)%nat -> (1 <= length wsk)%nat ->
  (length wsk <= 3 * (length s - length rest))%nat ->
  Post rest (length wsk + acc) (out ++ wsk) srcres (fun o => walk body fm rest ((length wsk + acc)%nat, o)) ->
  Post s acc out srcres
       (fun o => r <- (o' <- append_chars o bytesN ;; Ok (Continue rest ((length wsk + acc)%nat, o'))) ;;
                 match r with Continue rest' st' => walk body fm rest' st' | Return e => Ok (e, (acc, o)) end).
Proof.
  intros Hb Hlt Hk Hk3 (ws & Es & Hl & Hsome & Hnone). exists (wsk ++ ws). rewrite app_length.
  assert (Hlen : length bytesN = length wsk).
  { apply (f_equal (@length N)) in Hb. rewrite !map_length in Hb. lia. }
  split; [rewrite Es; rewrite <- app_assoc; do 2 f_equal; lia|]. split; [lia|]. split.
  - intros [free w] Hd. cbn [fst snd] in Hd. cbn [append_chars]. rewrite push_all8_room by lia. cbn [bind].
    rewrite Hsome by (cbn [fst]; lia). cbn [fst snd]. rewrite Hlen, <- Hb, rev_map_app.
    do 3 f_equal; [lia|]. do 2 f_equal. lia.
  - cbn [append_chars bind]. rewrite Hnone. do 3 f_equal. lia.
Qed.

Lemma ascii_as_append (o : option dst) b0 :
  (match o with None => Ok None | Some d => d' <- push8 d b0 ;; Ok (Some d') end) = append_chars o [b0].
Proof.
  destruct o as [d|]; [|reflexivity]. cbn [append_chars push_all8]. destruct (push8 d b0); reflexivity.
Qed.

Lemma substl_bytes : map byte_of substl = map (fun v => N.land v 0xFF) badchar_substitute_utf8.
Proof. reflexivity. Qed.
Lemma substl_length : length substl = 3%nat. Proof. reflexivity. Qed.

Lemma narrow8_sweep : all_below 8 (fun c => (byte_of (wraps 8 (wrapu 8 (schar c))) =? N.land c 0xFF)%N) = true.
Proof. vm_compute. reflexivity. Qed.
Lemma narrow8 c : (c < 256)%N -> byte_of (wraps 8 (wrapu 8 (schar c))) = N.land c 0xFF.
Proof. exact (sweep_eq (fun c => byte_of (wraps 8 (wrapu 8 (schar c)))) (fun c => N.land c 0xFF) narrow8_sweep c). Qed.

Lemma rd8_at p i s k : all_lt 256 s = true -> shows schar p i s -> (k < length s)%nat -> rd8 p (i + Z.of_nat k) = V (nth k s 0%N).
Proof.
  intros A R H. unfold rd8, V. f_equal. exact (view_shows p i s A R k H).
Qed.
Lemma all_lt_nth b s k : all_lt b s = true -> (k < length s)%nat -> (nth k s 0%N < b)%N.
Proof. unfold all_lt. rewrite forallb_forall. intros A H. apply N.ltb_lt. apply A. apply nth_In. exact H. Qed.

(* the bytes copied from the input, as the model pushes them *)
Lemma copied_bytes p i s n : all_lt 256 s = true -> shows schar p i s -> (n <= length s)%nat -> (n = 2 \/ n = 3 \/ n = 4)%nat ->
  map byte_of (copied p i (Z.of_nat n)) = map (fun v => N.land v 0xFF) (firstn n s) /\ length (copied p i (Z.of_nat n)) = n.
Proof.
  intros A R Hn Hc.
  assert (E : forall k, (k < n)%nat -> byte_of (wraps 8 (wrapu 8 (p (i + (0 + Z.of_nat k))))) = N.land (nth k s 0%N) 0xFF).
  { intros k Hk. rewrite Z.add_0_l. rewrite (R k ltac:(lia)). apply narrow8. apply all_lt_nth; [exact A|lia]. }
  destruct Hc as [ -> | [ -> | -> ] ]; unfold copied.
  - change (Z.to_nat (wrapu 64 (Z.of_nat 2))) with 2%nat. cbn [seq map app length].
    destruct s as [|b0 [|b1 s2]]; cbn [length] in Hn; try lia. cbn [firstn map].
    rewrite (E 0%nat), (E 1%nat) by lia. split; reflexivity.
  - change (Z.to_nat (wrapu 64 (Z.of_nat 3))) with 3%nat. cbn [seq map app length].
    destruct s as [|b0 [|b1 [|b2 s3]]]; cbn [length] in Hn; try lia. cbn [firstn map].
    rewrite (E 0%nat), (E 1%nat), (E 2%nat) by lia. split; reflexivity.
  - change (Z.to_nat (wrapu 64 (Z.of_nat 4))) with 4%nat. cbn [seq map app length].
    destruct s as [|b0 [|b1 [|b2 [|b3 s4]]]]; cbn [length] in Hn; try lia. cbn [firstn map].
    rewrite (E 0%nat), (E 1%nat), (E 2%nat), (E 3%nat) by lia. split; reflexivity.
Qed.

Lemma Post_ext s acc out src m1 m2 : (forall o, m2 o = m1 o) -> Post s acc out src m1 -> Post s acc out src m2.
Proof.
  intros E (ws & Es & Hl & Hs & Hn). exists ws. split; [exact Es|]. split; [exact Hl|]. split.
  - intros d Hd. rewrite E. exact (Hs d Hd).
  - rewrite E. exact Hn.
Qed.

Lemma add64_nat acc k : Z.of_nat acc + Z.of_nat k < 18446744073709551616 -> add64 (Z.of_nat acc) (Z.of_nat k) = Z.of_nat (k + acc).
Proof.
  intros H. unfold add64. rewrite (Utf.LeafBridge.wrapu64_small (Z.of_nat acc)) by (change (2 ^ 64) with 18446744073709551616; lia).
  rewrite !(Utf.LeafBridge.wrapu64_small (Z.of_nat acc + Z.of_nat k)) by (change (2 ^ 64) with 18446744073709551616; lia). lia.
Qed.

Definition stepk (fm : nat) (acc : nat) (o : option dst) (r : step_result (nat * option dst)) :=
  match r with Continue rest' st' => walk cleanup_utf8_body fm rest' st' | Return e => Ok (e, (acc, o)) end.

(* the decision the model takes on a non-empty input, with the look-ahead tests as plain booleans *)
Definition bad2 (s : list N) : bool := negb (at_least 2 s) || negb (cont (nth 1 s 0%N)).
Definition bad3 (s : list N) : bool := negb (at_least 3 s) || negb (cont (nth 1 s 0%N)) || negb (cont (nth 2 s 0%N)).
Definition bad4 (s : list N) : bool :=
  negb (at_least 4 s) || negb (cont (nth 1 s 0%N)) || negb (cont (nth 2 s 0%N)) || negb (cont (nth 3 s 0%N)).

Lemma body_cases b0 s1 acc o :
  cleanup_utf8_body (b0 :: s1) (acc, o) =
    (if (b0 <? 128)%N then o' <- append_chars o [b0] ;; Ok (Continue (skipn 1 (b0 :: s1)) (S acc, o'))
     else if (N.land b0 224 =? 192)%N then (if bad2 (b0 :: s1) then cleanup_bad (b0 :: s1) (acc, o) else cleanup_copy 2 (b0 :: s1) (acc, o))
     else if (N.land b0 240 =? 224)%N then (if bad3 (b0 :: s1) then cleanup_bad (b0 :: s1) (acc, o) else cleanup_copy 3 (b0 :: s1) (acc, o))
     else if (N.land b0 248 =? 240)%N then (if bad4 (b0 :: s1) then cleanup_bad (b0 :: s1) (acc, o) else cleanup_copy 4 (b0 :: s1) (acc, o))
     else cleanup_bad (b0 :: s1) (acc, o)).
Proof.
  unfold cleanup_utf8_body. cbn [rdu nth_error of_opt bind fst snd].
  destruct (b0 <? 128)%N; [rewrite ascii_as_append; reflexivity|].
  destruct (N.land b0 224 =? 192)%N.
  { destruct s1 as [|b1 s2]; [reflexivity|]. unfold bad2. cbn [at_least negb orb rdu nth_error of_opt bind nth]. destruct (cont b1); reflexivity. }
  destruct (N.land b0 240 =? 224)%N.
  { destruct s1 as [|b1 [|b2 s3]]; [reflexivity|reflexivity|]. unfold bad3. cbn [at_least negb orb rdu nth_error of_opt bind nth].
    destruct (cont b1); [|reflexivity]. destruct (cont b2); reflexivity. }
  destruct (N.land b0 248 =? 240)%N.
  { destruct s1 as [|b1 [|b2 [|b3 s4]]]; [reflexivity|reflexivity|reflexivity|]. unfold bad4. cbn [at_least negb orb rdu nth_error of_opt bind nth].
    destruct (cont b1); [|reflexivity]. destruct (cont b2); [|reflexivity]. destruct (cont b3); reflexivity. }
  reflexivity.
Qed.


Theorem cl_loop_matches : forall n s acc out i p a b fm fs, (length s <= n)%nat -> all_lt 256 s = true -> shows schar p i s ->
  (length s < fm)%nat -> (length s < fs)%nat -> Z.of_nat acc + 3 * Z.of_nat (length s) < 18446744073709551616 ->
  Post s acc out (src_cleanup_utf8_loop1 fs p a b (Z.of_nat acc) i (i + Z.of_nat (length s)) out)
       (fun o => walk cleanup_utf8_body fm s (acc, o)).
Proof.
  induction n as [|n IH]; intros s acc out i p a b fm fs Hn A R Hfm Hfs Hb;
    (destruct fm as [|fm]; [lia|]); (destruct fs as [|fs]; [lia|]);
    (destruct s as [|b0 s1];
     [ exists []; rewrite cl_loop_S; cbn [length]; replace (i <? i + Z.of_nat 0) with false by lia; cbn [b2z z2b Z.eqb negb];
       rewrite Nat.add_0_r, app_nil_r; repeat split; [lia | intros d _; cbn [walk fst snd length map rev app]; rewrite Nat.sub_0_r; destruct d; reflexivity] |]).
  - cbn [length] in Hn. lia.
  - set (s := b0 :: s1) in *. assert (Hlen : length s = S (length s1)) by reflexivity.
    (* the two kinds of step, each proved once from the induction hypothesis *)
    assert (BAD : Post s acc out
                    (src_cleanup_utf8_loop1 fs p a b (add64 (Z.of_nat acc) ext_badchar_substitute_utf8_len) (i + 1) (i + Z.of_nat (length s)) (out ++ substl))
                    (fun o => r <- cleanup_bad s (acc, o) ;; stepk fm acc o r)).
    { change ext_badchar_substitute_utf8_len with (Z.of_nat 3). rewrite add64_nat by lia.
      apply (tail_step s (skipn 1 s) acc out substl badchar_substitute_utf8 _ cleanup_utf8_body fm substl_bytes).
      - rewrite skipn_length. lia.
      - rewrite substl_length. lia.
      - rewrite substl_length, skipn_length. lia.
      - rewrite substl_length. replace (i + Z.of_nat (length s)) with (i + 1 + Z.of_nat (length (skipn 1 s))) by (rewrite skipn_length; lia).
        apply IH; try (rewrite skipn_length; lia); [apply all_lt_skipn; exact A | exact (shows_skipn _ _ _ _ 1 R ltac:(lia))]. }
    assert (COPY : forall k, (k = 2 \/ k = 3 \/ k = 4)%nat -> (k <= length s)%nat ->
              Post s acc out
                (src_cleanup_utf8_loop1 fs p a b (add64 (Z.of_nat acc) (wrapu 64 (Z.of_nat k))) (i + Z.of_nat k) (i + Z.of_nat (length s)) (out ++ copied p i (Z.of_nat k)))
                (fun o => r <- cleanup_copy k s (acc, o) ;; stepk fm acc o r)).
    { intros k Hk Hks. destruct (copied_bytes p i s k A R Hks Hk) as [CB CL].
      rewrite (Utf.LeafBridge.wrapu64_small (Z.of_nat k)) by (change (2 ^ 64) with 18446744073709551616; lia).
      rewrite add64_nat by lia.
      pose proof (tail_step s (skipn k s) acc out (copied p i (Z.of_nat k)) (firstn k s)
                   (src_cleanup_utf8_loop1 fs p a b (Z.of_nat (k + acc)) (i + Z.of_nat k) (i + Z.of_nat (length s)) (out ++ copied p i (Z.of_nat k)))
                   cleanup_utf8_body fm CB) as T.
      rewrite CL in T. apply T.
      - rewrite skipn_length. lia.
      - lia.
      - rewrite skipn_length. lia.
      - replace (i + Z.of_nat (length s)) with (i + Z.of_nat k + Z.of_nat (length (skipn k s))) by (rewrite skipn_length; lia).
        apply IH; try (rewrite skipn_length; lia); [apply all_lt_skipn; exact A | exact (shows_skipn _ _ _ _ k R ltac:(lia))]. }
    assert (ASCII : Post s acc out
                    (src_cleanup_utf8_loop1 fs p a b (wrapu 64 (Z.of_nat acc + 1)) (i + 1) (i + Z.of_nat (length s)) (out ++ [wraps 8 ((fun i_ => wrapu 8 (p i_)) i)]))
                    (fun o => r <- (o' <- append_chars o [b0] ;; Ok (Continue (skipn 1 s) (S acc, o'))) ;; stepk fm acc o r)).
    { assert (H0 : (b0 < 256)%N) by exact (proj1 (all_lt_cons _ _ _ A)).
      assert (EB : map byte_of [wraps 8 ((fun i_ => wrapu 8 (p i_)) i)] = map (fun v => N.land v 0xFF) [b0]).
      { cbn [map]. f_equal. cbv beta. pose proof (R 0%nat ltac:(rewrite Hlen; lia)) as R00. rewrite Z.add_0_r in R00. cbn [nth s] in R00.
        rewrite R00. apply narrow8. exact H0. }
      replace (wrapu 64 (Z.of_nat acc + 1)) with (Z.of_nat (1 + acc))
        by (rewrite Utf.LeafBridge.wrapu64_small by (change (2 ^ 64) with 18446744073709551616; lia); lia).
      apply (tail_step s (skipn 1 s) acc out [wraps 8 ((fun i_ => wrapu 8 (p i_)) i)] [b0] _ cleanup_utf8_body fm EB).
      - rewrite skipn_length. lia.
      - cbn [length]. lia.
      - cbn [length]. rewrite skipn_length. lia.
      - cbn [length]. replace (i + Z.of_nat (length s)) with (i + 1 + Z.of_nat (length (skipn 1 s))) by (rewrite skipn_length; lia).
        apply IH; try (rewrite skipn_length; lia); [apply all_lt_skipn; exact A | exact (shows_skipn _ _ _ _ 1 R ltac:(lia))]. }
    (* now the decision taken by the code and by the model *)
    assert (H0 : (b0 < 256)%N) by exact (proj1 (all_lt_cons _ _ _ A)).
    destruct (tests8 b0 H0) as (T1 & T2 & T3 & T4 & _ & _).
    pose proof (rd8_at p i s 0 A R ltac:(lia)) as R0. rewrite Z.add_0_r in R0. cbn [nth s] in R0.
    rewrite cl_loop_S. replace (i <? i + Z.of_nat (length s)) with true by lia. rewrite !z2b_b2z. rewrite R0, T1, T2, T3, T4.
    apply (Post_ext s acc out _ (fun o => r <-
      (if (b0 <? 128)%N then o' <- append_chars o [b0] ;; Ok (Continue (skipn 1 s) (S acc, o'))
       else if (N.land b0 224 =? 192)%N then (if bad2 s then cleanup_bad s (acc, o) else cleanup_copy 2 s (acc, o))
       else if (N.land b0 240 =? 224)%N then (if bad3 s then cleanup_bad s (acc, o) else cleanup_copy 3 s (acc, o))
       else if (N.land b0 248 =? 240)%N then (if bad4 s then cleanup_bad s (acc, o) else cleanup_copy 4 s (acc, o))
       else cleanup_bad s (acc, o)) ;; stepk fm acc o r)).
    { intros o. unfold s. rewrite <- (body_cases b0 s1 acc o). reflexivity. }
    destruct (b0 <? 128)%N; [exact ASCII|].
    destruct (N.land b0 224 =? 192)%N.
    { destruct s1 as [|b1 s2].
      { unfold bad2. subst s. cbn [at_least negb orb length]. replace (i + 2 >? i + Z.of_nat 1) with true by lia. cbn [orb]. exact BAD. }
      assert (H1 : (b1 < 256)%N) by (apply (all_lt_nth 256 s 1 A); cbn; lia).
      destruct (tests8 b1 H1) as (_ & _ & _ & _ & C1 & _).
      pose proof (rd8_at p i s 1 A R ltac:(cbn; lia)) as R1. cbn [nth s] in R1. change (Z.of_nat 1) with 1 in R1.
      unfold ncont, bad2. rewrite R1, C1. subst s. cbn [at_least negb orb nth length].
      replace (i + 2 >? i + Z.of_nat (S (S (length s2)))) with false by lia. cbn [orb].
      destruct (cont b1); cbn [negb]; [|exact BAD].
      exact (COPY 2%nat ltac:(lia) ltac:(cbn [length]; lia)). }
    destruct (N.land b0 240 =? 224)%N.
    { destruct s1 as [|b1 s2].
      { unfold bad3. subst s. cbn [at_least negb orb length]. replace (i + 3 >? i + Z.of_nat 1) with true by lia. cbn [orb]. exact BAD. }
      destruct s2 as [|b2 s3].
      { unfold bad3. subst s. cbn [at_least negb orb length]. replace (i + 3 >? i + Z.of_nat 2) with true by lia. cbn [orb]. exact BAD. }
      assert (H1 : (b1 < 256)%N) by (apply (all_lt_nth 256 s 1 A); cbn; lia).
      assert (H2 : (b2 < 256)%N) by (apply (all_lt_nth 256 s 2 A); cbn; lia).
      destruct (tests8 b1 H1) as (_ & _ & _ & _ & C1 & _). destruct (tests8 b2 H2) as (_ & _ & _ & _ & C2 & _).
      pose proof (rd8_at p i s 1 A R ltac:(cbn; lia)) as R1. cbn [nth s] in R1. change (Z.of_nat 1) with 1 in R1.
      pose proof (rd8_at p i s 2 A R ltac:(cbn; lia)) as R2. cbn [nth s] in R2. change (Z.of_nat 2) with 2 in R2.
      unfold ncont, bad3. rewrite R1, R2, C1, C2. subst s. cbn [at_least negb orb nth length].
      replace (i + 3 >? i + Z.of_nat (S (S (S (length s3))))) with false by lia. cbn [orb].
      destruct (cont b1); cbn [negb orb]; [|exact BAD].
      destruct (cont b2); cbn [negb orb]; [|exact BAD].
      exact (COPY 3%nat ltac:(lia) ltac:(cbn [length]; lia)). }
    destruct (N.land b0 248 =? 240)%N.
    { destruct s1 as [|b1 s2].
      { unfold bad4. subst s. cbn [at_least negb orb length]. replace (i + 4 >? i + Z.of_nat 1) with true by lia. cbn [orb]. exact BAD. }
      destruct s2 as [|b2 s3].
      { unfold bad4. subst s. cbn [at_least negb orb length]. replace (i + 4 >? i + Z.of_nat 2) with true by lia. cbn [orb]. exact BAD. }
      destruct s3 as [|b3 s4].
      { unfold bad4. subst s. cbn [at_least negb orb length]. replace (i + 4 >? i + Z.of_nat 3) with true by lia. cbn [orb]. exact BAD. }
      assert (H1 : (b1 < 256)%N) by (apply (all_lt_nth 256 s 1 A); cbn; lia).
      assert (H2 : (b2 < 256)%N) by (apply (all_lt_nth 256 s 2 A); cbn; lia).
      assert (H3 : (b3 < 256)%N) by (apply (all_lt_nth 256 s 3 A); cbn; lia).
      destruct (tests8 b1 H1) as (_ & _ & _ & _ & C1 & _). destruct (tests8 b2 H2) as (_ & _ & _ & _ & C2 & _).
      destruct (tests8 b3 H3) as (_ & _ & _ & _ & C3 & _).
      pose proof (rd8_at p i s 1 A R ltac:(cbn; lia)) as R1. cbn [nth s] in R1. change (Z.of_nat 1) with 1 in R1.
      pose proof (rd8_at p i s 2 A R ltac:(cbn; lia)) as R2. cbn [nth s] in R2. change (Z.of_nat 2) with 2 in R2.
      pose proof (rd8_at p i s 3 A R ltac:(cbn; lia)) as R3. cbn [nth s] in R3. change (Z.of_nat 3) with 3 in R3.
      unfold ncont, bad4. rewrite R1, R2, R3, C1, C2, C3. subst s. cbn [at_least negb orb nth length].
      replace (i + 4 >? i + Z.of_nat (S (S (S (S (length s4)))))) with false by lia. cbn [orb].
      destruct (cont b1); cbn [negb orb]; [|exact BAD].
      destruct (cont b2); cbn [negb orb]; [|exact BAD].
      destruct (cont b3); cbn [negb orb]; [|exact BAD].
      exact (COPY 4%nat ltac:(lia) ltac:(cbn [length]; lia)). }
    exact BAD.
Qed.

Theorem cleanup_utf8_matches_source l fuel : all_lt 256 l = true ->
  3 * Z.of_nat (length l) < 18446744073709551616 -> (length l < fuel)%nat ->
  exists ws, src_cleanup_utf8 fuel (arr8s l) (Z.of_nat (length l)) = Some (Z.of_nat (length ws), ws) /\
    (forall d : dst, (length ws <= fst d)%nat ->
       cleanup_utf8 (Some d) l = Ok (length ws, Some ((fst d - length ws)%nat, rev (map byte_of ws) ++ snd d))) /\
    cleanup_utf8 None l = Ok (length ws, None).
Proof.
  intros A Hb Hf. unfold src_cleanup_utf8, cleanup_utf8. cbv zeta. change (wrapu 64 0) with (Z.of_nat 0).
  destruct (cl_loop_matches (length l) l 0%nat [] 0 (arr8s l) 0 (Z.of_nat (length l)) (S (length l)) fuel
              ltac:(lia) A (shows_arr8s l) ltac:(lia) Hf ltac:(lia)) as (ws & Es & _ & Hs & Hn).
  exists ws. cbn [Nat.add app] in *. split; [exact Es|]. split.
  - intros d Hd. rewrite (Hs d Hd). reflexivity.
  - rewrite Hn. reflexivity.
Qed.

Example cleanup_example :
  option_map (fun r => (fst r, map byte_of (snd r))) (src_cleanup_utf8 9 (arr8s [65; 0xC3; 0xA9; 0xC3; 0xE2; 0x82]%N) 6)
    = Some (12, [65; 0xC3; 0xA9; 0xEF; 0xBF; 0xBD; 0xEF; 0xBF; 0xBD; 0xEF; 0xBF; 0xBD]%N) /\
  cleanup_utf8 None [65; 0xC3; 0xA9; 0xC3; 0xE2; 0x82]%N = Ok (12%nat, None).
Proof. vm_compute. split; reflexivity. Qed.
