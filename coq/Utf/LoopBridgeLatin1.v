(* Utf/LoopBridgeLatin1.v — the Latin-1 conversion passes of include/st_utf_conv_priv.h: utf16_convert_from_latin_1 and
   utf32_convert_from_latin_1 (widening), latin_1_convert_from_utf8 / _from_utf16 / _from_utf32 (dest, src, size, validation,
   substitute_out_of_range), as TRANSLATED from the current headers (Gen/Leaf.v) return, for inputs of any length, every
   validation mode, both settings of the flag and every sufficient fuel, the conversion_error_t and store exactly the
   units that the hand-written model passes of Utf/Model.v return and push (given room). *)
From Coq Require Import NArith ZArith List Bool Lia ZifyBool ZifyNat ZifyN.
From ST Require Import Base.Outcome Base.Units Base.Sweep Gen.Consts Utf.Spec Utf.Model Gen.Leaf Utf.LeafBridge Utf.LoopBridge
     Utf.LoopBridgeExtract Utf.LoopBridgeMeasure Utf.LoopBridgeWrite Utf.LoopBridgeConvertL1 Utf.LoopBridgeConvert32 Utf.LoopBridgeConvertTo32.
Import ListNotations.
Local Open Scope Z_scope.
Local Open Scope outcome_scope.

(* ---- widening: utf16 / utf32 from Latin-1 ---- *)
Lemma widen16_sweep : all_below 8 (fun c => (unit16_of (wrapu 16 (wrapu 8 (schar c))) =? N.land (N.land c 0xFF) 0xFFFF)%N) = true.
Proof. vm_compute. reflexivity. Qed.
Lemma widen32_sweep : all_below 8 (fun c => (unit32_of (wrapu 32 (wrapu 8 (schar c))) =? N.land (N.land c 0xFF) 0xFFFFFFFF)%N) = true.
Proof. vm_compute. reflexivity. Qed.

Lemma w16_loop_S f p a b sp ep out : src_utf16_convert_from_latin_1_loop1 (S f) p a b sp ep out =
  (if z2b (b2z (Z.ltb sp ep)) then src_utf16_convert_from_latin_1_loop1 f p a b (sp + 1) ep (out ++ [wrapu 16 (wrapu 8 (p sp))]) else Some out).
Proof. reflexivity. Qed.
Definition w16_body := fun (s : list N) (d : dst) => b <- rdu s 0 ;; d' <- push16 d (N.land b 0xFF) ;; Ok (Continue (skipn 1 s) d').
Theorem w16_loop_matches : forall s out i p a b fm fs, all_lt 256 s = true -> shows schar p i s ->
  (length s < fm)%nat -> (length s < fs)%nat ->
  exists ws, src_utf16_convert_from_latin_1_loop1 fs p a b i (i + Z.of_nat (length s)) out = Some (out ++ ws) /\
    forall d : dst, (length ws <= fst d)%nat ->
      walk w16_body fm s d = Ok (CSuccess, ((fst d - length ws)%nat, rev (map unit16_of ws) ++ snd d)).
Proof.
  induction s as [|c t IH]; intros out i p a b fm fs A R Hfm Hfs;
    (destruct fm as [|fm]; [cbn in Hfm; lia|]); (destruct fs as [|fs]; [cbn in Hfs; lia|]).
  - exists []. split.
    + rewrite w16_loop_S. cbn [length]. replace (i <? i + Z.of_nat 0) with false by lia. cbn [b2z z2b Z.eqb negb].
      rewrite app_nil_r. reflexivity.
    + intros [free w] _. cbn [walk fst snd length map rev app]. rewrite Nat.sub_0_r. reflexivity.
  - destruct (all_lt_cons _ _ _ A) as [Hc At].
    rewrite w16_loop_S. cbn [length]. replace (i <? i + Z.of_nat (S (length t))) with true by lia.
    cbn [b2z z2b Z.eqb negb]. rewrite (shows_head _ _ _ _ _ R).
    replace (i + Z.of_nat (S (length t))) with (i + 1 + Z.of_nat (length t)) by lia. cbn [length] in Hfm, Hfs.
    destruct (IH (out ++ [wrapu 16 (wrapu 8 (schar c))]) (i + 1) p a b fm fs At (shows_tail _ _ _ _ _ R) ltac:(lia) ltac:(lia)) as (ws & Es & Em).
    exists (wrapu 16 (wrapu 8 (schar c)) :: ws). split.
    + rewrite Es. rewrite <- app_assoc. reflexivity.
    + intros [free w] Hd. cbn [fst snd length] in Hd. destruct free as [|free]; [lia|].
      cbn [walk]. unfold w16_body at 1. cbn [rdu nth_error of_opt bind]. rewrite push16_ok. cbn [bind skipn].
      rewrite (Em (free, _)) by (cbn [fst]; lia). cbn [fst snd length map rev Nat.sub].
      rewrite (sweep_eq (fun c => unit16_of (wrapu 16 (wrapu 8 (schar c)))) (fun c => N.land (N.land c 0xFF) 0xFFFF) widen16_sweep c Hc).
      rewrite <- app_assoc. reflexivity.
Qed.
Theorem utf16_convert_from_latin_1_matches_source l fuel : all_lt 256 l = true -> (length l < fuel)%nat ->
  exists ws, src_utf16_convert_from_latin_1 fuel (arr8s l) (Z.of_nat (length l)) = Some ws /\
    forall d : dst, (length ws <= fst d)%nat ->
      utf16_convert_from_latin_1 d l = Ok (CSuccess, ((fst d - length ws)%nat, rev (map unit16_of ws) ++ snd d)).
Proof.
  intros A Hf. unfold src_utf16_convert_from_latin_1, utf16_convert_from_latin_1. cbv zeta.
  destruct (w16_loop_matches l [] 0 (arr8s l) 0 (Z.of_nat (length l)) (S (length l)) fuel A (shows_arr8s l) ltac:(lia) Hf) as (ws & Es & Em).
  exists ws. split; [exact Es|]. intros d Hd. fold w16_body. exact (Em d Hd).
Qed.

Lemma w32_loop_S f p a b sp ep out : src_utf32_convert_from_latin_1_loop1 (S f) p a b sp ep out =
  (if z2b (b2z (Z.ltb sp ep)) then src_utf32_convert_from_latin_1_loop1 f p a b (sp + 1) ep (out ++ [wrapu 32 (wrapu 8 (p sp))]) else Some out).
Proof. reflexivity. Qed.
Definition w32_body := fun (s : list N) (d : dst) => b <- rdu s 0 ;; d' <- push32 d (N.land b 0xFF) ;; Ok (Continue (skipn 1 s) d').
Theorem w32_loop_matches : forall s out i p a b fm fs, all_lt 256 s = true -> shows schar p i s ->
  (length s < fm)%nat -> (length s < fs)%nat ->
  exists ws, src_utf32_convert_from_latin_1_loop1 fs p a b i (i + Z.of_nat (length s)) out = Some (out ++ ws) /\
    forall d : dst, (length ws <= fst d)%nat ->
      walk w32_body fm s d = Ok (CSuccess, ((fst d - length ws)%nat, rev (map unit32_of ws) ++ snd d)).
Proof.
  induction s as [|c t IH]; intros out i p a b fm fs A R Hfm Hfs;
    (destruct fm as [|fm]; [cbn in Hfm; lia|]); (destruct fs as [|fs]; [cbn in Hfs; lia|]).
  - exists []. split.
    + rewrite w32_loop_S. cbn [length]. replace (i <? i + Z.of_nat 0) with false by lia. cbn [b2z z2b Z.eqb negb].
      rewrite app_nil_r. reflexivity.
    + intros [free w] _. cbn [walk fst snd length map rev app]. rewrite Nat.sub_0_r. reflexivity.
  - destruct (all_lt_cons _ _ _ A) as [Hc At].
    rewrite w32_loop_S. cbn [length]. replace (i <? i + Z.of_nat (S (length t))) with true by lia.
    cbn [b2z z2b Z.eqb negb]. rewrite (shows_head _ _ _ _ _ R).
    replace (i + Z.of_nat (S (length t))) with (i + 1 + Z.of_nat (length t)) by lia. cbn [length] in Hfm, Hfs.
    destruct (IH (out ++ [wrapu 32 (wrapu 8 (schar c))]) (i + 1) p a b fm fs At (shows_tail _ _ _ _ _ R) ltac:(lia) ltac:(lia)) as (ws & Es & Em).
    exists (wrapu 32 (wrapu 8 (schar c)) :: ws). split.
    + rewrite Es. rewrite <- app_assoc. reflexivity.
    + intros [free w] Hd. cbn [fst snd length] in Hd. destruct free as [|free]; [lia|].
      cbn [walk]. unfold w32_body at 1. cbn [rdu nth_error of_opt bind]. rewrite push32_ok. cbn [bind skipn].
      rewrite (Em (free, _)) by (cbn [fst]; lia). cbn [fst snd length map rev Nat.sub].
      rewrite (sweep_eq (fun c => unit32_of (wrapu 32 (wrapu 8 (schar c)))) (fun c => N.land (N.land c 0xFF) 0xFFFFFFFF) widen32_sweep c Hc).
      rewrite <- app_assoc. reflexivity.
Qed.
Theorem utf32_convert_from_latin_1_matches_source l fuel : all_lt 256 l = true -> (length l < fuel)%nat ->
  exists ws, src_utf32_convert_from_latin_1 fuel (arr8s l) (Z.of_nat (length l)) = Some ws /\
    forall d : dst, (length ws <= fst d)%nat ->
      utf32_convert_from_latin_1 d l = Ok (CSuccess, ((fst d - length ws)%nat, rev (map unit32_of ws) ++ snd d)).
Proof.
  intros A Hf. unfold src_utf32_convert_from_latin_1, utf32_convert_from_latin_1. cbv zeta.
  destruct (w32_loop_matches l [] 0 (arr8s l) 0 (Z.of_nat (length l)) (S (length l)) fuel A (shows_arr8s l) ltac:(lia) Hf) as (ws & Es & Em).
  exists ws. split; [exact Es|]. intros d Hd. fold w32_body. exact (Em d Hd).
Qed.

(* ---- the store step shared by the three Latin-1 targets ---- *)
Definition put_src (K : list Z -> option (Z * list Z)) (sub B : Z) (out : list Z) : option (Z * list Z) :=
  if z2b (b2z (wrapu 32 B >=? wrapu 32 256)) then
    (if z2b sub then K (out ++ [wraps 8 (wrapu 32 63)]) else Some (ext_latin1_out_of_range, out))
  else K (out ++ [wraps 8 B]).

Lemma narrow_sweep : all_below 8 (fun c => (byte_of (wraps 8 (Z.of_N c)) =? N.land c 0xFF)%N) = true.
Proof. vm_compute. reflexivity. Qed.

Lemma put_bridge (sub : bool) subz b out K (body : list N -> dst -> outcome (step_result dst)) fm rest :
  z2b subz = sub -> (b < 4294967296)%N ->
  (forall out', exists e ws, K out' = Some (Z.of_N (cerr_code e), out' ++ ws) /\
     forall d : dst, (length ws <= fst d)%nat -> walk body fm rest d = Ok (e, ((fst d - length ws)%nat, rev (map byte_of ws) ++ snd d))) ->
  exists e ws, put_src K subz (Z.of_N b) out = Some (Z.of_N (cerr_code e), out ++ ws) /\
    forall d : dst, (length ws <= fst d)%nat ->
      (r <- latin_1_put sub b rest d ;; match r with Continue rest' st' => walk body fm rest' st' | Return e => Ok (e, d) end)
        = Ok (e, ((fst d - length ws)%nat, rev (map byte_of ws) ++ snd d)).
Proof.
  intros Hsub Hb HK. unfold put_src, latin_1_put. rewrite (wrapu32_of_N b Hb). change (wrapu 32 256) with (Z.of_N 256).
  rewrite z2b_b2z, geb_N, Hsub. replace (256 <=? b)%N with (negb (b <? 256)%N) by lia.
  destruct (b <? 256)%N eqn:Eb; cbn [negb].
  - destruct (HK (out ++ [wraps 8 (Z.of_N b)])) as (e & ws & Es & Em).
    exists e, (wraps 8 (Z.of_N b) :: ws). split; [rewrite Es, <- app_assoc; reflexivity|].
    intros [free w] Hd. cbn [fst snd length] in Hd. destruct free as [|free]; [lia|].
    rewrite push8_ok. cbn [bind]. rewrite (Em (free, _)) by (cbn [fst]; lia). cbn [fst snd length map rev Nat.sub].
    rewrite (sweep_eq (fun c => byte_of (wraps 8 (Z.of_N c))) (fun c => N.land c 0xFF) narrow_sweep b ltac:(lia)).
    rewrite <- app_assoc. reflexivity.
  - destruct sub.
    + destruct (HK (out ++ [wraps 8 (wrapu 32 63)])) as (e & ws & Es & Em).
      exists e, (wraps 8 (wrapu 32 63) :: ws). split; [rewrite Es, <- app_assoc; reflexivity|].
      intros [free w] Hd. cbn [fst snd length] in Hd. destruct free as [|free]; [lia|].
      rewrite push8_ok. cbn [bind]. rewrite (Em (free, _)) by (cbn [fst]; lia). cbn [fst snd length map rev Nat.sub].
      rewrite <- app_assoc. reflexivity.
    + exists CLatin1OutOfRange, []. split; [rewrite app_nil_r; reflexivity|].
      intros [free w] _. cbn [bind fst snd length map rev app]. rewrite Nat.sub_0_r. reflexivity.
Qed.

(* ---- latin_1_convert_from_utf8 ---- *)
Lemma l1f8_loop_S f p a b v sb sp ep out : src_latin_1_convert_from_utf8_loop1 (S f) p a b v sb sp ep out =
  (if z2b (b2z (Z.ltb sp ep)) then
     let '(r, ni) := src_extract_utf8 (fun i_ => wrapu 8 (p i_)) sp ep in
     if z2b (b2z (negb (Z.eqb (src_char_error r) ext_success))) then
       if z2b (b2z (Z.eqb v ext_check_validity)) then Some (src_char_error r, out)
       else put_src (src_latin_1_convert_from_utf8_loop1 f p a b v sb ni ep) sb (wrapu 32 63) out
     else put_src (src_latin_1_convert_from_utf8_loop1 f p a b v sb ni ep) sb r out
   else Some (ext_success, out)).
Proof. cbv beta iota zeta delta [src_latin_1_convert_from_utf8_loop1 put_src]. destruct (src_extract_utf8 (fun i_ => wrapu 8 (p i_)) sp ep). reflexivity. Qed.

Definition l1f8_body (m : vmode) (sub : bool) := fun (s : list N) (d : dst) =>
  '(bigch, rest) <- extract_utf8 s ;;
  let error := char_error bigch in
  if is_error error && is_check m then Ok (Return error)
  else latin_1_put sub (if is_error error then 63%N else bigch) rest d.

Theorem l1f8_loop_matches m v sub sb : (Z.eqb v ext_check_validity) = is_check m -> z2b sb = sub ->
  forall n s out i p a b fm fs, (length s <= n)%nat -> all_lt 256 s = true -> shows schar p i s ->
  (length s < fm)%nat -> (length s < fs)%nat ->
  exists e ws, src_latin_1_convert_from_utf8_loop1 fs p a b v sb i (i + Z.of_nat (length s)) out = Some (Z.of_N (cerr_code e), out ++ ws) /\
    forall d : dst, (length ws <= fst d)%nat ->
      walk (l1f8_body m sub) fm s d = Ok (e, ((fst d - length ws)%nat, rev (map byte_of ws) ++ snd d)).
Proof.
  intros Hv Hsb. induction n as [|n IH]; intros s out i p a b fm fs Hn A R Hfm Hfs;
    (destruct fm as [|fm]; [lia|]); (destruct fs as [|fs]; [lia|]);
    (destruct s as [|c t] eqn:Es;
     [ exists CSuccess, []; split;
       [ rewrite l1f8_loop_S; cbn [length]; replace (i <? i + Z.of_nat 0) with false by lia; cbn [b2z z2b Z.eqb negb];
         rewrite app_nil_r; reflexivity
       | intros [free w] _; cbn [walk fst snd length map rev app]; rewrite Nat.sub_0_r; reflexivity ] |]).
  - cbn [length] in Hn. lia.
  - rewrite <- Es in *. assert (Hne : s <> []) by (rewrite Es; discriminate).
    assert (Hlen : (1 <= length s)%nat) by (rewrite Es; cbn [length]; lia).
    pose proof (extract_utf8_matches s i (fun i_ => wrapu 8 (p i_)) Hne A (view_shows p i s A R)) as X.
    assert (Hw : forall d, walk (l1f8_body m sub) (S fm) s d =
      (r <- l1f8_body m sub s d ;; match r with Continue rest st' => walk (l1f8_body m sub) fm rest st' | Return e => Ok (e, d) end))
      by (intros d; rewrite Es; reflexivity).
    rewrite l1f8_loop_S. replace (i <? i + Z.of_nat (length s)) with true by lia. cbn [b2z z2b Z.eqb negb].
    destruct (extract_utf8 s) as [[ch rest]| | |] eqn:Eext; cbn [ext_ok] in X; try contradiction.
    destruct X as (k & Hk & Er & Ex & Hch & Hcls). rewrite Ex. cbv iota.
    destruct (char_error_class ch Hcls) as [Ec Ez]. rewrite Ec in Ez |- *. rewrite !z2b_b2z, Ez, Hv. rewrite negb_involutive.
    assert (Hrest : (length rest < length s)%nat) by (rewrite Er, skipn_length; lia).
    assert (Arest : all_lt 256 rest = true) by (rewrite Er; apply all_lt_skipn; exact A).
    assert (Rrest : shows schar p (i + Z.of_nat k) rest) by (rewrite Er; apply shows_skipn; [exact R|lia]).
    replace (i + Z.of_nat (length s)) with (i + Z.of_nat k + Z.of_nat (length rest)) by (rewrite Er, skipn_length; lia).
    assert (HK : forall out', exists e ws,
              src_latin_1_convert_from_utf8_loop1 fs p a b v sb (i + Z.of_nat k) (i + Z.of_nat k + Z.of_nat (length rest)) out' = Some (Z.of_N (cerr_code e), out' ++ ws) /\
              forall d : dst, (length ws <= fst d)%nat ->
                walk (l1f8_body m sub) fm rest d = Ok (e, ((fst d - length ws)%nat, rev (map byte_of ws) ++ snd d)))
      by (intros out'; apply IH; try assumption; lia).
    destruct (is_error (char_error ch)) eqn:Eerr.
    + destruct (is_check m) eqn:Em.
      * exists (char_error ch), []. split; [rewrite app_nil_r; reflexivity|].
        intros d _. rewrite Hw. unfold l1f8_body at 1. rewrite Eext. cbn [bind]. cbv zeta. rewrite Eerr, Em. cbn [andb bind].
        cbn [fst snd length map rev app]. rewrite Nat.sub_0_r. destruct d; reflexivity.
      * change (wrapu 32 63) with (Z.of_N 63).
        destruct (put_bridge sub sb 63%N out _ (l1f8_body m sub) fm rest Hsb ltac:(lia) HK) as (e & ws & Es2 & Emod).
        exists e, ws. split; [exact Es2|].
        intros d Hd. rewrite Hw. unfold l1f8_body at 1. rewrite Eext. cbn [bind]. cbv zeta. rewrite Eerr, Em. cbn [andb].
        exact (Emod d Hd).
    + destruct (put_bridge sub sb ch out _ (l1f8_body m sub) fm rest Hsb Hch HK) as (e & ws & Es2 & Emod).
      exists e, ws. split; [exact Es2|].
      intros d Hd. rewrite Hw. unfold l1f8_body at 1. rewrite Eext. cbn [bind]. cbv zeta. rewrite Eerr. cbn [andb].
      exact (Emod d Hd).
Qed.

Theorem latin_1_convert_from_utf8_matches_source l m (sub : bool) fuel : all_lt 256 l = true -> (length l < fuel)%nat ->
  exists e ws, src_latin_1_convert_from_utf8 fuel (arr8s l) (Z.of_nat (length l)) (mode_code m) (b2z sub) = Some (Z.of_N (cerr_code e), ws) /\
    forall d : dst, (length ws <= fst d)%nat ->
      latin_1_convert_from_utf8 d l m sub = Ok (e, ((fst d - length ws)%nat, rev (map byte_of ws) ++ snd d)).
Proof.
  intros A Hf. unfold src_latin_1_convert_from_utf8, latin_1_convert_from_utf8. cbv zeta.
  assert (Hv : (mode_code m =? ext_check_validity) = is_check m) by (destruct m; reflexivity).
  destruct (l1f8_loop_matches m (mode_code m) sub (b2z sub) Hv (z2b_b2z sub) (length l) l [] 0 (arr8s l) 0 (Z.of_nat (length l)) (S (length l)) fuel
              ltac:(lia) A (shows_arr8s l) ltac:(lia) Hf) as (e & ws & Es & Em).
  exists e, ws. split; [exact Es|]. intros d Hd. fold (l1f8_body m sub). exact (Em d Hd).
Qed.

(* ---- latin_1_convert_from_utf16 ---- *)
Lemma l1f16_loop_S f p a b v sb sp ep out : src_latin_1_convert_from_utf16_loop1 (S f) p a b v sb sp ep out =
  (if z2b (b2z (Z.ltb sp ep)) then
     let '(r, ni) := src_extract_utf16 p sp ep in
     if z2b (b2z (negb (Z.eqb (src_char_error r) ext_success))) then
       if z2b (b2z (Z.eqb v ext_check_validity)) then Some (src_char_error r, out)
       else put_src (src_latin_1_convert_from_utf16_loop1 f p a b v sb ni ep) sb (wrapu 32 63) out
     else put_src (src_latin_1_convert_from_utf16_loop1 f p a b v sb ni ep) sb r out
   else Some (ext_success, out)).
Proof. cbv beta iota zeta delta [src_latin_1_convert_from_utf16_loop1 put_src]. destruct (src_extract_utf16 p sp ep). reflexivity. Qed.

Definition l1f16_body (m : vmode) (sub : bool) := fun (s : list N) (d : dst) =>
  '(bigch, rest) <- extract_utf16 s ;;
  let error := char_error bigch in
  if is_error error && is_check m then Ok (Return error)
  else latin_1_put sub (if is_error error then 63%N else bigch) rest d.

Theorem l1f16_loop_matches m v sub sb : (Z.eqb v ext_check_validity) = is_check m -> z2b sb = sub ->
  forall n s out i p a b fm fs, (length s <= n)%nat -> all_lt 65536 s = true -> shows Z.of_N p i s ->
  (length s < fm)%nat -> (length s < fs)%nat ->
  exists e ws, src_latin_1_convert_from_utf16_loop1 fs p a b v sb i (i + Z.of_nat (length s)) out = Some (Z.of_N (cerr_code e), out ++ ws) /\
    forall d : dst, (length ws <= fst d)%nat ->
      walk (l1f16_body m sub) fm s d = Ok (e, ((fst d - length ws)%nat, rev (map byte_of ws) ++ snd d)).
Proof.
  intros Hv Hsb. induction n as [|n IH]; intros s out i p a b fm fs Hn A R Hfm Hfs;
    (destruct fm as [|fm]; [lia|]); (destruct fs as [|fs]; [lia|]);
    (destruct s as [|c t] eqn:Es;
     [ exists CSuccess, []; split;
       [ rewrite l1f16_loop_S; cbn [length]; replace (i <? i + Z.of_nat 0) with false by lia; cbn [b2z z2b Z.eqb negb];
         rewrite app_nil_r; reflexivity
       | intros [free w] _; cbn [walk fst snd length map rev app]; rewrite Nat.sub_0_r; reflexivity ] |]).
  - cbn [length] in Hn. lia.
  - rewrite <- Es in *. assert (Hne : s <> []) by (rewrite Es; discriminate).
    assert (Hlen : (1 <= length s)%nat) by (rewrite Es; cbn [length]; lia).
    pose proof (extract_utf16_matches s i p Hne A R) as X.
    assert (Hw : forall d, walk (l1f16_body m sub) (S fm) s d =
      (r <- l1f16_body m sub s d ;; match r with Continue rest st' => walk (l1f16_body m sub) fm rest st' | Return e => Ok (e, d) end))
      by (intros d; rewrite Es; reflexivity).
    rewrite l1f16_loop_S. replace (i <? i + Z.of_nat (length s)) with true by lia. cbn [b2z z2b Z.eqb negb].
    destruct (extract_utf16 s) as [[ch rest]| | |] eqn:Eext; cbn [ext_ok] in X; try contradiction.
    destruct X as (k & Hk & Er & Ex & Hch & Hcls). rewrite Ex. cbv iota.
    destruct (char_error_class ch Hcls) as [Ec Ez]. rewrite Ec in Ez |- *. rewrite !z2b_b2z, Ez, Hv. rewrite negb_involutive.
    assert (Hrest : (length rest < length s)%nat) by (rewrite Er, skipn_length; lia).
    assert (Arest : all_lt 65536 rest = true) by (rewrite Er; apply all_lt_skipn; exact A).
    assert (Rrest : shows Z.of_N p (i + Z.of_nat k) rest) by (rewrite Er; apply shows_skipn; [exact R|lia]).
    replace (i + Z.of_nat (length s)) with (i + Z.of_nat k + Z.of_nat (length rest)) by (rewrite Er, skipn_length; lia).
    assert (HK : forall out', exists e ws,
              src_latin_1_convert_from_utf16_loop1 fs p a b v sb (i + Z.of_nat k) (i + Z.of_nat k + Z.of_nat (length rest)) out' = Some (Z.of_N (cerr_code e), out' ++ ws) /\
              forall d : dst, (length ws <= fst d)%nat ->
                walk (l1f16_body m sub) fm rest d = Ok (e, ((fst d - length ws)%nat, rev (map byte_of ws) ++ snd d)))
      by (intros out'; apply IH; try assumption; lia).
    destruct (is_error (char_error ch)) eqn:Eerr.
    + destruct (is_check m) eqn:Em.
      * exists (char_error ch), []. split; [rewrite app_nil_r; reflexivity|].
        intros d _. rewrite Hw. unfold l1f16_body at 1. rewrite Eext. cbn [bind]. cbv zeta. rewrite Eerr, Em. cbn [andb bind].
        cbn [fst snd length map rev app]. rewrite Nat.sub_0_r. destruct d; reflexivity.
      * change (wrapu 32 63) with (Z.of_N 63).
        destruct (put_bridge sub sb 63%N out _ (l1f16_body m sub) fm rest Hsb ltac:(lia) HK) as (e & ws & Es2 & Emod).
        exists e, ws. split; [exact Es2|].
        intros d Hd. rewrite Hw. unfold l1f16_body at 1. rewrite Eext. cbn [bind]. cbv zeta. rewrite Eerr, Em. cbn [andb].
        exact (Emod d Hd).
    + destruct (put_bridge sub sb ch out _ (l1f16_body m sub) fm rest Hsb Hch HK) as (e & ws & Es2 & Emod).
      exists e, ws. split; [exact Es2|].
      intros d Hd. rewrite Hw. unfold l1f16_body at 1. rewrite Eext. cbn [bind]. cbv zeta. rewrite Eerr. cbn [andb].
      exact (Emod d Hd).
Qed.

Theorem latin_1_convert_from_utf16_matches_source l m (sub : bool) fuel : all_lt 65536 l = true -> (length l < fuel)%nat ->
  exists e ws, src_latin_1_convert_from_utf16 fuel (arr32 l) (Z.of_nat (length l)) (mode_code m) (b2z sub) = Some (Z.of_N (cerr_code e), ws) /\
    forall d : dst, (length ws <= fst d)%nat ->
      latin_1_convert_from_utf16 d l m sub = Ok (e, ((fst d - length ws)%nat, rev (map byte_of ws) ++ snd d)).
Proof.
  intros A Hf. unfold src_latin_1_convert_from_utf16, latin_1_convert_from_utf16. cbv zeta.
  assert (Hv : (mode_code m =? ext_check_validity) = is_check m) by (destruct m; reflexivity).
  destruct (l1f16_loop_matches m (mode_code m) sub (b2z sub) Hv (z2b_b2z sub) (length l) l [] 0 (arr32 l) 0 (Z.of_nat (length l)) (S (length l)) fuel
              ltac:(lia) A (shows_arr32 l) ltac:(lia) Hf) as (e & ws & Es & Em).
  exists e, ws. split; [exact Es|]. intros d Hd. fold (l1f16_body m sub). exact (Em d Hd).
Qed.

(* ---- latin_1_convert_from_utf32 ---- *)
Lemma l1f32_loop_S f p a b v sb sp ep out : src_latin_1_convert_from_utf32_loop1 (S f) p a b v sb sp ep out =
  (if z2b (b2z (Z.ltb sp ep)) then
     if z2b (b2z (wrapu 32 (p sp) >? wrapu 32 1114111)) then
       if z2b (b2z (Z.eqb v ext_check_validity)) then Some (ext_out_of_range, out)
       else put_src (src_latin_1_convert_from_utf32_loop1 f p a b v sb (sp + 1) ep) sb (wrapu 32 63) out
     else put_src (src_latin_1_convert_from_utf32_loop1 f p a b v sb (sp + 1) ep) sb (p sp) out
   else Some (ext_success, out)).
Proof. reflexivity. Qed.

Definition l1f32_body (m : vmode) (sub : bool) := fun (s : list N) (d : dst) =>
  bigch <- rdu s 0 ;;
  if (0x10FFFF <? bigch)%N && is_check m then Ok (Return COutOfRange)
  else latin_1_put sub (if (0x10FFFF <? bigch)%N then 63%N else bigch) (skipn 1 s) d.

Theorem l1f32_loop_matches m v sub sb : (Z.eqb v ext_check_validity) = is_check m -> z2b sb = sub ->
  forall s out i p a b fm fs, all_lt 4294967296 s = true -> shows Z.of_N p i s ->
  (length s < fm)%nat -> (length s < fs)%nat ->
  exists e ws, src_latin_1_convert_from_utf32_loop1 fs p a b v sb i (i + Z.of_nat (length s)) out = Some (Z.of_N (cerr_code e), out ++ ws) /\
    forall d : dst, (length ws <= fst d)%nat ->
      walk (l1f32_body m sub) fm s d = Ok (e, ((fst d - length ws)%nat, rev (map byte_of ws) ++ snd d)).
Proof.
  intros Hv Hsb. induction s as [|c t IH]; intros out i p a b fm fs A R Hfm Hfs;
    (destruct fm as [|fm]; [cbn in Hfm; lia|]); (destruct fs as [|fs]; [cbn in Hfs; lia|]).
  - exists CSuccess, []. split.
    + rewrite l1f32_loop_S. cbn [length]. replace (i <? i + Z.of_nat 0) with false by lia. cbn [b2z z2b Z.eqb negb].
      rewrite app_nil_r. reflexivity.
    + intros [free w] _. cbn [walk fst snd length map rev app]. rewrite Nat.sub_0_r. reflexivity.
  - destruct (all_lt_cons _ _ _ A) as [Hc At].
    rewrite l1f32_loop_S. cbn [length]. replace (i <? i + Z.of_nat (S (length t))) with true by lia.
    cbn [b2z z2b Z.eqb negb]. rewrite (shows_head _ _ _ _ _ R).
    replace (i + Z.of_nat (S (length t))) with (i + 1 + Z.of_nat (length t)) by lia. cbn [length] in Hfm, Hfs.
    rewrite (wrapu32_of_N c Hc). change (wrapu 32 1114111) with (Z.of_N 1114111). rewrite !z2b_b2z, Hv.
    replace (Z.of_N c >? Z.of_N 1114111) with (1114111 <? c)%N by lia.
    assert (HK : forall out', exists e ws,
              src_latin_1_convert_from_utf32_loop1 fs p a b v sb (i + 1) (i + 1 + Z.of_nat (length t)) out' = Some (Z.of_N (cerr_code e), out' ++ ws) /\
              forall d : dst, (length ws <= fst d)%nat ->
                walk (l1f32_body m sub) fm t d = Ok (e, ((fst d - length ws)%nat, rev (map byte_of ws) ++ snd d)))
      by (intros out'; apply IH; try assumption; [apply (shows_tail _ _ _ _ _ R)|lia|lia]).
    assert (Hw : forall d, walk (l1f32_body m sub) (S fm) (c :: t) d =
      (r <- l1f32_body m sub (c :: t) d ;; match r with Continue rest st' => walk (l1f32_body m sub) fm rest st' | Return e => Ok (e, d) end))
      by (intros d; reflexivity).
    destruct (1114111 <? c)%N eqn:Ebig.
    + destruct (is_check m) eqn:Em.
      * exists COutOfRange, []. split; [rewrite app_nil_r; reflexivity|].
        intros d _. rewrite Hw. unfold l1f32_body at 1. cbn [rdu nth_error of_opt bind]. rewrite Ebig, Em. cbn [andb bind].
        cbn [fst snd length map rev app]. rewrite Nat.sub_0_r. destruct d; reflexivity.
      * change (wrapu 32 63) with (Z.of_N 63).
        destruct (put_bridge sub sb 63%N out _ (l1f32_body m sub) fm t Hsb ltac:(lia) HK) as (e & ws & Es2 & Emod).
        exists e, ws. split; [exact Es2|].
        intros d Hd. rewrite Hw. unfold l1f32_body at 1. cbn [rdu nth_error of_opt bind skipn]. rewrite Ebig, Em. cbn [andb].
        exact (Emod d Hd).
    + destruct (put_bridge sub sb c out _ (l1f32_body m sub) fm t Hsb Hc HK) as (e & ws & Es2 & Emod).
      exists e, ws. split; [exact Es2|].
      intros d Hd. rewrite Hw. unfold l1f32_body at 1. cbn [rdu nth_error of_opt bind skipn]. rewrite Ebig. cbn [andb].
      exact (Emod d Hd).
Qed.

Theorem latin_1_convert_from_utf32_matches_source l m (sub : bool) fuel : all_lt 4294967296 l = true -> (length l < fuel)%nat ->
  exists e ws, src_latin_1_convert_from_utf32 fuel (arr32 l) (Z.of_nat (length l)) (mode_code m) (b2z sub) = Some (Z.of_N (cerr_code e), ws) /\
    forall d : dst, (length ws <= fst d)%nat ->
      latin_1_convert_from_utf32 d l m sub = Ok (e, ((fst d - length ws)%nat, rev (map byte_of ws) ++ snd d)).
Proof.
  intros A Hf. unfold src_latin_1_convert_from_utf32, latin_1_convert_from_utf32. cbv zeta.
  assert (Hv : (mode_code m =? ext_check_validity) = is_check m) by (destruct m; reflexivity).
  destruct (l1f32_loop_matches m (mode_code m) sub (b2z sub) Hv (z2b_b2z sub) l [] 0 (arr32 l) 0 (Z.of_nat (length l)) (S (length l)) fuel
              A (shows_arr32 l) ltac:(lia) Hf) as (e & ws & Es & Em).
  exists e, ws. split; [exact Es|]. intros d Hd. fold (l1f32_body m sub). exact (Em d Hd).
Qed.

Example latin1_passes_example :
  src_utf16_convert_from_latin_1 9 (arr8s [65; 233]%N) 2 = Some [65; 233] /\
  option_map (fun r => (fst r, map byte_of (snd r))) (src_latin_1_convert_from_utf8 9 (arr8s [65; 0xC3; 0xA9; 0xE2; 0x82; 0xAC]%N) 6 ext_check_validity 1)
    = Some (0, [65; 233; 63]%N) /\
  option_map fst (src_latin_1_convert_from_utf8 9 (arr8s [65; 0xC3; 0xA9; 0xE2; 0x82; 0xAC]%N) 6 ext_check_validity 0) = Some 5 /\
  latin_1_convert_from_utf8 (3%nat, []) [65; 0xC3; 0xA9; 0xE2; 0x82; 0xAC]%N CheckValidity true = Ok (CSuccess, (0%nat, [63; 233; 65]%N)).
Proof. vm_compute. repeat split; reflexivity. Qed.
