(* Utf/ProofsFromL1.v — Latin-1 sources: latin_1_to_utf8 / utf16 / utf32 / wchar give the
   standard encoding of the bytes read as scalar values.                          *)
From Coq Require Import NArith Arith List Bool Lia.
From ST Require Import Base.Outcome Base.Sweep Base.Units Gen.Consts Utf.Spec Utf.Tokens Utf.Model
     Utf.BitLemmas Utf.EncForms Utf.ProofsWalk Utf.ProofsTok Utf.ProofsEnc Utf.ProofsGeneric.
Import ListNotations.
Local Open Scope N_scope.
Local Open Scope outcome_scope.

(* the two bytes latin_1 -> UTF-8 stores for a byte >= 0x80, against the specification (8-bit sweep) *)
Definition l1_check (b : N) : bool :=
  implb (0x80 <=? b)
        (list_eqb [N.land (N.lor 0xC0 (N.land (N.shiftr b 6) 0x1F)) 0xFF; N.land (N.lor 0x80 (N.land b 0x3F)) 0xFF]
                  (utf8_enc b))
  && implb (b <? 0x80) (list_eqb [N.land b 0xFF] (utf8_enc b)).
Lemma l1_sweep : all_below 8 l1_check = true.
Proof. vm_compute. reflexivity. Qed.

Lemma stepL1_inv s t rest : step EL1 s = Some (t, rest) -> exists b, s = b :: rest /\ t = Good [b] b.
Proof. destruct s as [|b s]; [discriminate|]. cbn [step stepL1]. intros H; inversion H; subst. eauto. Qed.

Lemma tokL1_count tg s : tg = T16 \/ tg = T32 -> all_lt 256 s = true -> total_cost (mcost tg) (tok EL1 s) = length s.
Proof.
  intros Ht. induction s as [|v s IH]; intros A; [reflexivity|]. apply all_lt_cons in A. destruct A as [B A].
  rewrite (tok_step EL1 (v :: s) (Good [v] v) s eq_refl). cbn [total_cost fold_right length].
  fold (total_cost (mcost tg) (tok EL1 s)). rewrite (IH A).
  destruct Ht as [-> | ->]; cbn [mcost]; [|reflexivity].
  unfold utf16_measure. assert ((v <? 65536) = true) as -> by (apply N.ltb_lt; lia). reflexivity.
Qed.

Definition pcL1 (tg : target) := pc EL1 tg CheckValidity false.

Lemma pcL1_good tg b : b < 256 -> tg = T8 \/ tg = T16 \/ tg = T32 ->
  pcL1 tg (Good [b] b) = inl (match tg with T8 => utf8_enc b | T16 => utf16_enc b | _ => [b] end).
Proof.
  intros B [->|[->| ->]]; unfold pcL1, pc; cbn [piece_of render].
  - assert ((b <=? 1114111) = true) as -> by (apply N.leb_le; lia). reflexivity.
  - assert ((b <=? 1114111) = true) as -> by (apply N.leb_le; lia). reflexivity.
  - reflexivity.
Qed.

Lemma utf8_measure_from_latin_1_tokens s : all_lt 256 s = true ->
  utf8_measure_from_latin_1 (Some s) = Ok (total_cost (mcost T8) (tok EL1 s)).
Proof.
  intros A. unfold utf8_measure_from_latin_1. apply (measure_walk_tokens EL1); [|exact A].
  intros s0 t rest n A0 E. destruct (stepL1_inv s0 t rest E) as (b & -> & ->).
  apply all_lt_cons in A0. destruct A0 as [B _]. change (b < 256) in B. cbn [rdu nth_error of_opt bind skipn mcost].
  rewrite (mask_hi b B). unfold utf8_measure.
  destruct (128 <=? b) eqn:H.
  - apply N.leb_le in H. assert ((b <? 128) = false) as -> by (apply N.ltb_ge; lia).
    assert ((b <? 2048) = true) as -> by (apply N.ltb_lt; lia). reflexivity.
  - apply N.leb_gt in H. assert ((b <? 128) = true) as -> by (apply N.ltb_lt; lia). reflexivity.
Qed.

Lemma utf8_convert_from_latin_1_tokens d s : all_lt 256 s = true ->
  utf8_convert_from_latin_1 d s = twalk (emit_tb (pcL1 T8)) (tok EL1 s) d.
Proof.
  intros A. unfold utf8_convert_from_latin_1. apply (walk_twalk EL1); [|exact A|lia].
  intros s0 t rest d0 A0 E. destruct (stepL1_inv s0 t rest E) as (b & -> & ->).
  apply all_lt_cons in A0. destruct A0 as [B _]. change (b < 256) in B. cbn [rdu nth_error of_opt bind skipn].
  unfold emit_tb, lift_step. rewrite (pcL1_good T8 b B) by tauto.
  pose proof (all_below_spec 8 _ l1_sweep b B) as S. unfold l1_check in S. apply andb_true_iff in S. destruct S as [S1 S2].
  rewrite (mask_hi b B). destruct (128 <=? b) eqn:H.
  - cbn [implb] in S1. apply list_eqb_eq in S1. rewrite <- S1. unfold push8. cbn [push_list].
    destruct (push d0 _) as [d1| | |]; cbn [bind]; try reflexivity. destruct (push d1 _); reflexivity.
  - apply N.leb_gt in H. assert (H' : (b <? 128) = true) by (apply N.ltb_lt; exact H). rewrite H' in S2.
    cbn [implb] in S2. apply list_eqb_eq in S2. rewrite <- S2. unfold push8. cbn [push_list].
    destruct (push d0 _); reflexivity.
Qed.

Lemma copy_convert_tokens tg (mask : N) d s :
  tg = T16 \/ tg = T32 -> (forall b, b < 256 -> N.land (N.land b 0xFF) mask = b) -> all_lt 256 s = true ->
  walk (fun s d => b <- rdu s 0 ;; d' <- push d (N.land (N.land b 0xFF) mask) ;; Ok (Continue (skipn 1 s) d'))
       (S (length s)) s d
  = twalk (emit_tb (pcL1 tg)) (tok EL1 s) d.
Proof.
  intros Ht Hm A. apply (walk_twalk EL1); [|exact A|lia].
  intros s0 t rest d0 A0 E. destruct (stepL1_inv s0 t rest E) as (b & -> & ->).
  apply all_lt_cons in A0. destruct A0 as [B _]. change (b < 256) in B. cbn [rdu nth_error of_opt bind skipn].
  unfold emit_tb, lift_step. rewrite (pcL1_good tg b B) by tauto. rewrite (Hm b B).
  assert (X : match tg with T8 => utf8_enc b | T16 => utf16_enc b | _ => [b] end = [b]).
  { destruct Ht as [-> | ->]; [|reflexivity]. unfold utf16_enc.
    assert ((b <? 65536) = true) as -> by (apply N.ltb_lt; lia). reflexivity. }
  rewrite X. cbn [push_list]. destruct (push d0 b); reflexivity.
Qed.

(* the pieces of a Latin-1 sequence never fail, and are the standard encoding *)
Lemma piecesL1 tg s : tg = T8 \/ tg = T16 \/ tg = T32 -> all_lt 256 s = true ->
  pieces_out (pcL1 tg) (tok EL1 s) = (enc (match tg with T8 => E8 | T16 => E16 | _ => E32 end) s, CSuccess).
Proof.
  intros Ht. induction s as [|b s IH]; intros A; [destruct Ht as [->|[->| ->]]; reflexivity|].
  apply all_lt_cons in A. destruct A as [B A].
  rewrite (tok_step EL1 (b :: s) (Good [b] b) s eq_refl). cbn [pieces_out].
  rewrite (pcL1_good tg b B Ht), (IH A).
  destruct Ht as [->|[->| ->]]; reflexivity.
Qed.

Theorem latin_1_to_utf8_result s : all_lt 256 s = true -> N.of_nat (length s) < huge_buffer_size ->
  latin_1_to_utf8 (Some s) = Ok (enc8 s).
Proof.
  intros A L. unfold latin_1_to_utf8, huge_guard. cbn [units_of]. apply N.ltb_lt in L. rewrite L. cbn [bind].
  rewrite (utf8_measure_from_latin_1_tokens s A). cbn [bind].
  destruct (Nat.eqb (total_cost (mcost T8) (tok EL1 s)) 0) eqn:Z.
  - apply Nat.eqb_eq in Z. apply total_cost_zero in Z; [|intros t; apply mcost_pos; discriminate].
    destruct s as [|b s]; [reflexivity|]. rewrite (tok_step EL1 (b :: s) (Good [b] b) s eq_refl) in Z. discriminate.
  - rewrite (utf8_convert_from_latin_1_tokens _ s A).
    pose proof (convert_into_measured (pcL1 T8) (mcost T8) (tok EL1 s) _
                  (fun t l' => pc_cost EL1 T8 _ _ t l' ltac:(discriminate))
                  (fun t e => pc_real_error EL1 T8 _ _ t e) eq_refl) as C.
    rewrite (piecesL1 T8 s) in C by tauto. unfold result_of in C. cbn [fst snd enc] in C.
    destruct (twalk (emit_tb (pcL1 T8)) (tok EL1 s) (alloc (total_cost (mcost T8) (tok EL1 s)))) as [[e d']| | |] eqn:W;
      cbn [bind] in *; try discriminate.
    unfold raise_and_return in C. cbn [fst snd] in C.
    destruct e; cbn [raise_conversion_error bind] in C; try discriminate. exact C.
Qed.

Lemma copy_wrapper tg (conv : dst -> list N -> outcome (cerr * dst)) s :
  tg = T16 \/ tg = T32 -> all_lt 256 s = true -> N.of_nat (length s) < huge_buffer_size ->
  (forall d, conv d s = twalk (emit_tb (pcL1 tg)) (tok EL1 s) d) ->
  (_ <- huge_guard s ;;
   if is_null (Some s) || Nat.eqb (length s) 0 then Ok [] else
   r <- conv (alloc (length s)) s ;; finish (snd r))
  = Ok (enc (match tg with T16 => E16 | _ => E32 end) s).
Proof.
  intros Ht A L Hc. unfold huge_guard. apply N.ltb_lt in L. rewrite L. cbn [bind is_null orb].
  destruct (Nat.eqb (length s) 0) eqn:Z.
  - apply Nat.eqb_eq in Z. destruct s; [|discriminate]. destruct Ht as [-> | ->]; reflexivity.
  - rewrite Hc.
    assert (Ht' : tg <> TS) by (destruct Ht as [-> | ->]; discriminate).
    pose proof (convert_into_measured (pcL1 tg) (mcost tg) (tok EL1 s) (length s)
                  (fun t l' => pc_cost EL1 tg _ _ t l' Ht')
                  (fun t e => pc_real_error EL1 tg _ _ t e) (eq_sym (tokL1_count tg s Ht A))) as C.
    rewrite (piecesL1 tg s) in C by tauto. unfold result_of in C. cbn [fst snd] in C.
    destruct (twalk (emit_tb (pcL1 tg)) (tok EL1 s) (alloc (length s))) as [[e d']| | |] eqn:W;
      cbn [bind] in *; try discriminate.
    unfold raise_and_return in C. cbn [fst snd] in C.
    destruct e; cbn [raise_conversion_error bind] in C; try discriminate.
    cbn [snd]. rewrite C. destruct Ht as [-> | ->]; reflexivity.
Qed.

Theorem latin_1_to_utf16_result s : all_lt 256 s = true -> N.of_nat (length s) < huge_buffer_size ->
  latin_1_to_utf16 (Some s) = Ok (enc16 s).
Proof.
  intros A L. unfold latin_1_to_utf16. cbn [units_of].
  apply (copy_wrapper T16 utf16_convert_from_latin_1 s); [tauto|exact A|exact L|].
  intros d. unfold utf16_convert_from_latin_1, push16.
  apply (copy_convert_tokens T16 0xFFFF); [tauto| |exact A].
  intros b B. rewrite land_FF by exact B. apply land_FFFF. lia.
Qed.

Theorem latin_1_to_utf32_result s : all_lt 256 s = true -> N.of_nat (length s) < huge_buffer_size ->
  latin_1_to_utf32 (Some s) = Ok (enc32 s).
Proof.
  intros A L. unfold latin_1_to_utf32. cbn [units_of].
  apply (copy_wrapper T32 utf32_convert_from_latin_1 s); [tauto|exact A|exact L|].
  intros d. unfold utf32_convert_from_latin_1, push32.
  apply (copy_convert_tokens T32 0xFFFFFFFF); [tauto| |exact A].
  intros b B. rewrite land_FF by exact B. apply land_FFFFFFFF. lia.
Qed.

Theorem latin_1_to_wchar_result s : all_lt 256 s = true -> N.of_nat (length s) < huge_buffer_size ->
  latin_1_to_wchar (Some s) = Ok (enc32 s).
Proof. exact (latin_1_to_utf32_result s). Qed.
