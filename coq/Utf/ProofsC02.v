(* Utf/ProofsC02.v — C02: every validating conversion refines the tokeniser specification
   (Tokens.spec_conv); from that: check_validity throws exactly on a Bad unit, the other
   modes never throw and repair each Bad unit, repaired text re-validates, well-formed
   text is unchanged in every mode.  One statement for all pairs, through `conv_fn`.   *)
From Coq Require Import NArith Arith List Bool Lia.
From ST Require Import Base.Outcome Base.Units Gen.Consts Utf.Spec Utf.Tokens Utf.Model
     Utf.ProofsWalk Utf.ProofsTok Utf.ProofsGeneric Utf.ProofsFrom8 Utf.ProofsFrom16 Utf.ProofsFrom32
     Utf.ProofsString Utf.ProofsSpec Utf.ProofsC01.
Import ListNotations.
Local Open Scope N_scope.
Local Open Scope outcome_scope.

(* the validating conversions: source encoding, target, function (mode, Latin-1 flag, input).
   (E32, T32) — utf32_to_wchar / wchar_to_utf32 on this platform — is a plain copy and is NOT
   in the table: see wchar_copy_refuted. *)
Definition conv_fn (e : encoding) (tg : target) : option (vmode -> bool -> option (list N) -> outcome (list N)) :=
  match e, tg with
  | E8, TS => Some (fun m _ s => set_utf8 m s)
  | E8, T16 => Some (fun m _ s => utf8_to_utf16 m s)
  | E8, T32 => Some (fun m _ s => utf8_to_utf32 m s)
  | E8, TL1 => Some (fun m sub s => utf8_to_latin_1 m sub s)
  | E16, T8 => Some (fun m _ s => utf16_to_utf8 m s)
  | E16, T32 => Some (fun m _ s => utf16_to_utf32 m s)
  | E16, TL1 => Some (fun m sub s => utf16_to_latin_1 m sub s)
  | E32, T8 => Some (fun m _ s => utf32_to_utf8 m s)
  | E32, T16 => Some (fun m _ s => utf32_to_utf16 m s)
  | E32, TL1 => Some (fun m sub s => utf32_to_latin_1 m sub s)
  | _, _ => None
  end.

(* ---- the master statement: the code computes the specification's reference result ---- *)
Theorem conv_refines_spec e tg f m sub s :
  conv_fn e tg = Some f -> all_lt (unit_bound e) s = true -> fits s ->
  refines (f m sub (Some s)) (spec_conv e tg m sub s).
Proof.
  intros Hf A F. unfold spec_conv.
  destruct e, tg; cbn [conv_fn] in Hf; inversion Hf; subst; clear Hf; cbn [unit_bound] in A.
  - apply (set_utf8_refines m sub s A F).
  - apply conv_refines. rewrite (utf8_to_utf16_result m s A F).
    destruct m; unfold repair; rewrite ?(map_ext _ _ (fun t => eq_refl)); reflexivity.
  - apply conv_refines. apply (utf8_to_utf32_result m s A F).
  - apply conv_refines. apply (utf8_to_latin_1_result m sub s A F).
  - apply conv_refines. apply (utf16_to_utf8_result m s A F).
  - apply conv_refines. apply (utf16_to_utf32_result m s A F).
  - apply conv_refines. apply (utf16_to_latin_1_result m sub s A F).
  - apply conv_refines. apply (utf32_to_utf8_result m s A F).
  - apply conv_refines. apply (utf32_to_utf16_result m s A F).
  - apply conv_refines. apply (utf32_to_latin_1_result m sub s A F).
Qed.

(* ------------------------------------------------------------ specification-level lemmas *)
(* a Good token the target cannot show, and that therefore throws whatever the mode says *)
Definition can_show (tg : target) (sub : bool) (t : token) : bool :=
  match t with
  | Bad _ => true
  | Good u v => match render tg u v with
                | Some _ => true
                | None => match tg with TL1 => sub | _ => false end
                end
  end.

Lemma repair_check_bad tg sub ts : existsb is_bad ts = true -> repair tg CheckValidity sub ts = SThrow.
Proof.
  unfold repair. induction ts as [|t r IH]; [discriminate|]. cbn [existsb map assemble]. intros H.
  destruct t as [u v|b]; cbn [is_bad orb piece_of] in *; [|reflexivity].
  destruct (render tg u v); [|destruct (unrepresentable tg CheckValidity sub); [|reflexivity]];
    rewrite (IH H); reflexivity.
Qed.

Lemma repair_no_bad tg m sub ts : existsb is_bad ts = false -> forallb (can_show tg sub) ts = true ->
  exists l, repair tg m sub ts = SOk l /\ forall m', repair tg m' sub ts = SOk l.
Proof.
  unfold repair. induction ts as [|t r IH]; [intros _ _; exists []; split; reflexivity|].
  cbn [existsb forallb map assemble]. intros B C. apply orb_false_iff in B. destruct B as [B1 B2].
  apply andb_true_iff in C. destruct C as [C1 C2]. destruct (IH B2 C2) as (l & E & E').
  destruct t as [u v|b]; [|discriminate]. cbn [piece_of can_show] in *.
  destruct (render tg u v) as [x|] eqn:R.
  - exists (x ++ l). rewrite E. split; [reflexivity|]. intros m'. rewrite (E' m'). reflexivity.
  - destruct tg; try discriminate. subst sub. cbn [unrepresentable].
    exists ([63] ++ l). rewrite E. split; [reflexivity|]. intros m'. rewrite (E' m'). reflexivity.
Qed.

Lemma repair_never_throws tg m sub ts : m <> CheckValidity -> (tg <> TL1 \/ sub = true) ->
  exists l, repair tg m sub ts = SOk l.
Proof.
  intros Hm Ht. unfold repair. apply assemble_no_throw. intros p Hp. apply in_map_iff in Hp.
  destruct Hp as (t & <- & _). apply piece_no_throw; [exact Hm|tauto].
Qed.

(* what substitute_invalid writes for one token *)
Definition repair_units (tg : target) (t : token) : list N :=
  match t with
  | Bad _ => subst tg
  | Good u v => match render tg u v with Some l => l | None => subst tg end
  end.

Lemma repair_subst_units tg sub ts : (tg <> TL1 \/ sub = true) ->
  repair tg SubstituteInvalid sub ts = SOk (flat_map (repair_units tg) ts).
Proof.
  intros Ht. unfold repair. induction ts as [|t r IH]; [reflexivity|].
  cbn [map assemble flat_map]. rewrite IH. destruct t as [u v|b]; cbn [piece_of repair_units]; [|reflexivity].
  destruct (render tg u v); [reflexivity|]. unfold unrepresentable.
  destruct tg; try reflexivity. destruct Ht as [Ht|Ht]; [congruence|]. rewrite Ht. reflexivity.
Qed.

(* which sources can always be shown in which targets *)
Lemma can_show_always e tg sub s : all_lt (unit_bound e) s = true ->
  (tg = TS \/ tg = T32 \/ (tg = TL1 /\ sub = true) \/ ((e = E16 \/ e = E32) /\ (tg = T8 \/ tg = T16))) ->
  forallb (can_show tg sub) (tok e s) = true.
Proof.
  intros A H. induction s as [|s t rest E IH] using (tok_ind e); [reflexivity|].
  rewrite (tok_step e s t rest E). cbn [forallb]. rewrite (IH (step_ok e _ _ t rest E A)), andb_true_r.
  destruct t as [u v|b]; [|reflexivity]. cbn [can_show].
  destruct H as [->|[->|[[-> ->]|[He Ht]]]]; cbn [render]; try reflexivity.
  - destruct (v <? 256); reflexivity.
  - assert (V : v <= 0x10FFFF).
    { destruct He as [-> | ->].
      - destruct (extract_utf16_tok s _ rest A E) as [_ V]. exact V.
      - destruct (step32_inv s _ rest E) as (x & _ & [[V X]|[_ X]]); [inversion X; subst; exact V|discriminate]. }
    apply N.leb_le in V. destruct Ht as [-> | ->]; cbn [render]; rewrite V; reflexivity.
Qed.

(* ------------------------------------------------------------------------- the theorems *)
Section Pair.
  Variables (e : encoding) (tg : target) (f : vmode -> bool -> option (list N) -> outcome (list N)).
  Hypothesis Hf : conv_fn e tg = Some f.

  Lemma conv_as_repair m sub s : all_lt (unit_bound e) s = true -> fits s ->
    m <> AssumeValid \/ existsb (unfixed tg) (tok e s) = false \/ tg = TS ->
    tg <> TS -> f m sub (Some s) = sres_outcome (repair tg m sub (tok e s)).
  Proof.
    intros A F _ NTS. destruct e, tg; cbn [conv_fn] in Hf; inversion Hf; subst; try congruence; cbn [unit_bound] in A.
    - rewrite (utf8_to_utf16_result m s A F). reflexivity.
    - apply (utf8_to_utf32_result m s A F).
    - apply (utf8_to_latin_1_result m sub s A F).
    - apply (utf16_to_utf8_result m s A F).
    - apply (utf16_to_utf32_result m s A F).
    - apply (utf16_to_latin_1_result m sub s A F).
    - apply (utf32_to_utf8_result m s A F).
    - apply (utf32_to_utf16_result m s A F).
    - apply (utf32_to_latin_1_result m sub s A F).
  Qed.

  (* check_validity throws exactly when the input is not well-formed (every Good value showable) *)
  Theorem check_throws_iff sub s : all_lt (unit_bound e) s = true -> fits s ->
    forallb (can_show tg sub) (tok e s) = true ->
    (f CheckValidity sub (Some s) = Throw UnicodeError <-> WF e s = false).
  Proof.
    intros A F C. pose proof (conv_refines_spec e tg f CheckValidity sub s Hf A F) as R.
    unfold spec_conv, spec_tokens, WF in *. destruct (existsb is_bad (tok e s)) eqn:B.
    - rewrite (repair_check_bad tg sub _ B) in R. cbn [refines] in R. rewrite R. cbn. tauto.
    - destruct (repair_no_bad tg CheckValidity sub _ B C) as (l & E & _). rewrite E in R. cbn [refines] in R.
      rewrite R. cbn. split; discriminate.
  Qed.

  (* a mode other than check_validity never throws (Latin-1: with out-of-range substitution) *)
  Theorem lenient_never_throws m sub s : all_lt (unit_bound e) s = true -> fits s ->
    m <> CheckValidity -> (tg <> TL1 \/ sub = true) ->
    exists out, f m sub (Some s) = Ok out.
  Proof.
    intros A F Hm Ht. pose proof (conv_refines_spec e tg f m sub s Hf A F) as R.
    unfold spec_conv, spec_tokens in R. destruct m; [|destruct (repair_never_throws tg _ sub (tok e s) Hm Ht) as [l E];
      rewrite E in R; eexists; exact R|congruence].
    destruct (existsb (unfixed tg) (tok e s)).
    - destruct tg; try exact R. destruct Ht as [Ht|Ht]; [congruence|]. subst sub. exact R.
    - destruct (repair_never_throws tg SubstituteInvalid sub (tok e s) ltac:(discriminate) Ht) as [l E].
      rewrite E in R. eexists; exact R.
  Qed.

  (* substitute_invalid returns the transcoding of everything else with U+FFFD ('?' in Latin-1)
     in place of each Bad unit *)
  Theorem substitute_exact sub s : all_lt (unit_bound e) s = true -> fits s -> (tg <> TL1 \/ sub = true) ->
    f SubstituteInvalid sub (Some s) = Ok (flat_map (repair_units tg) (tok e s)).
  Proof.
    intros A F Ht. pose proof (conv_refines_spec e tg f SubstituteInvalid sub s Hf A F) as R.
    unfold spec_conv, spec_tokens in R. rewrite (repair_subst_units tg sub _ Ht) in R. exact R.
  Qed.

  (* well-formed input: the same result in every mode *)
  Theorem wellformed_same_in_every_mode m1 m2 sub s : all_lt (unit_bound e) s = true -> fits s ->
    WF e s = true -> forallb (can_show tg sub) (tok e s) = true ->
    f m1 sub (Some s) = f m2 sub (Some s) /\ exists out, f m1 sub (Some s) = Ok out.
  Proof.
    intros A F W C. unfold WF in W. apply negb_true_iff in W.
    destruct (repair_no_bad tg CheckValidity sub _ W C) as (l & _ & E).
    assert (U : existsb (unfixed tg) (tok e s) = false).
    { clear -W C. induction (tok e s) as [|t r IH]; [reflexivity|]. cbn [existsb forallb] in *.
      apply orb_false_iff in W. destruct W as [W1 W2]. apply andb_true_iff in C. destruct C as [C1 C2].
      rewrite (IH W2 C2), orb_false_r. destruct t as [u v|b]; [|discriminate].
      destruct tg; cbn [unfixed can_show render] in *; try reflexivity;
        revert C1; destruct (v <=? 1114111); intros C1; (reflexivity || discriminate). }
    assert (X : forall m, f m sub (Some s) = Ok l).
    { intros m. pose proof (conv_refines_spec e tg f m sub s Hf A F) as R.
      unfold spec_conv, spec_tokens in R. destruct m; rewrite ?U, E in R; exact R. }
    rewrite !X. split; [reflexivity|eexists; reflexivity].
  Qed.
End Pair.

(* ---- the UTF-8 side: three independent deciders ---- *)
Theorem validate_iff b : all_lt 256 b = true -> (validate_utf8 b = Ok CSuccess <-> WF8 b = true).
Proof.
  intros A. split.
  - intros V. destruct (WF8 b) eqn:W; [reflexivity|]. destruct (validate_utf8_bad b A W) as (er & X & R).
    rewrite X in V. inversion V; subst. contradiction.
  - apply validate_utf8_wf. exact A.
Qed.

(* validator (ST::string), decoder (UTF-32, wchar_t, Latin-1 targets) and, for values the target can
   show, the UTF-16 converter all reject exactly the same byte strings *)
Theorem deciders_agree b : all_lt 256 b = true -> fits b ->
  (set_utf8 CheckValidity (Some b) = Throw UnicodeError <-> WF8 b = false) /\
  (utf8_to_utf32 CheckValidity (Some b) = Throw UnicodeError <-> WF8 b = false) /\
  (utf8_to_wchar CheckValidity (Some b) = Throw UnicodeError <-> WF8 b = false) /\
  (utf8_to_latin_1 CheckValidity true (Some b) = Throw UnicodeError <-> WF8 b = false) /\
  (forallb (can_show T16 false) (tok8 b) = true ->
   (utf8_to_utf16 CheckValidity (Some b) = Throw UnicodeError <-> WF8 b = false)).
Proof.
  intros A F. split; [|split; [|split; [|split]]].
  - apply (check_throws_iff E8 TS _ eq_refl false b A F). apply can_show_always; [exact A|tauto].
  - apply (check_throws_iff E8 T32 _ eq_refl false b A F). apply can_show_always; [exact A|tauto].
  - apply (check_throws_iff E8 T32 _ eq_refl false b A F). apply can_show_always; [exact A|tauto].
  - apply (check_throws_iff E8 TL1 _ eq_refl true b A F). apply can_show_always; [exact A|tauto].
  - intros C. apply (check_throws_iff E8 T16 _ eq_refl false b A F C).
Qed.

(* ---- repaired text passes check_validity ---- *)
(* a Good token is self-delimiting: its units followed by anything tokenise to the same token *)
Lemma step8_good_local s u v r : step8 s = Some (Good u v, r) -> forall r', step8 (u ++ r') = Some (Good u v, r').
Proof.
  intros H r'. destruct s as [|b0 s]; [discriminate|]. cbn [step8] in H.
  destruct (b0 <? 128) eqn:L0; [inversion H; subst; cbn [app step8]; rewrite L0; reflexivity|].
  destruct (in_range 192 223 b0) eqn:R0.
  { destruct s as [|b1 s1]; [discriminate|]. destruct (is_cont b1) eqn:C1; inversion H; subst.
    cbn [app step8]. rewrite L0, R0, C1. reflexivity. }
  destruct (in_range 224 239 b0) eqn:R1.
  { destruct s as [|b1 [|b2 s2]]; try discriminate. destruct (is_cont b1 && is_cont b2) eqn:C; inversion H; subst.
    cbn [app step8]. rewrite L0, R0, R1, C. reflexivity. }
  destruct (in_range 240 247 b0) eqn:R2.
  { destruct s as [|b1 [|b2 [|b3 s3]]]; try discriminate.
    destruct (is_cont b1 && is_cont b2 && is_cont b3) eqn:C; inversion H; subst.
    cbn [app step8]. rewrite L0, R0, R1, R2, C. reflexivity. }
  discriminate.
Qed.

Lemma cleanup_out_wf s : WF8 (cleanup_out (tok E8 s)) = true.
Proof.
  unfold WF8, WF. apply negb_true_iff.
  induction s as [|s t rest E IH] using (tok_ind E8); [reflexivity|].
  rewrite (tok_step E8 s t rest E). unfold cleanup_out in *. cbn [flat_map].
  destruct t as [u v|b]; cbn [cleanup_piece].
  - rewrite (tok_step E8 _ _ _ (step8_good_local s u v rest E _)). cbn [existsb is_bad orb]. exact IH.
  - change badchar_substitute_utf8 with (utf8_enc 0xFFFD).
    rewrite (tok_step E8 _ _ _ (step8_enc 0xFFFD _ ltac:(lia))). cbn [existsb is_bad orb]. exact IH.
Qed.

Theorem repaired_string_revalidates b : all_lt 256 b = true ->
  exists out, string_set SubstituteInvalid b = Ok out /\ WF8 out = true /\ all_lt 256 out = true.
Proof.
  intros A. exists (cleanup_out (tok E8 b)). cbn [string_set]. split; [apply cleanup_utf8_buffer_result; exact A|].
  split; [apply cleanup_out_wf|].
  pose proof (tok_pieces_bytes b A) as P. unfold cleanup_out. induction (tok E8 b) as [|t r IH]; [reflexivity|].
  cbn [pieces_bytes forallb flat_map] in *. apply andb_true_iff in P. destruct P as [P1 P2].
  rewrite all_lt_app, P1, (IH P2). reflexivity.
Qed.

(* UTF-8 produced by repairing UTF-16 / UTF-32 input is the standard encoding of values <= 0x10FFFF *)
Lemma flat_enc8_wf vs : Forall (fun v => v < 0x200000) vs -> WF8 (flat_map utf8_enc vs) = true.
Proof.
  intros H. unfold WF8, WF. apply negb_true_iff. induction H as [|v vs Hv _ IH]; [reflexivity|].
  cbn [flat_map]. rewrite (tok_step E8 _ _ _ (step8_enc v _ Hv)). cbn [existsb is_bad orb]. exact IH.
Qed.

Lemma repair_units_T8_values e s : all_lt (unit_bound e) s = true -> e = E16 \/ e = E32 ->
  exists vs, flat_map (repair_units T8) (tok e s) = flat_map utf8_enc vs /\ Forall (fun v => v < 0x200000) vs.
Proof.
  intros A He. induction s as [|s t rest E IH] using (tok_ind e); [exists []; split; [reflexivity|constructor]|].
  destruct (IH (step_ok e _ _ t rest E A)) as (vs & X & Y). rewrite (tok_step e s t rest E). cbn [flat_map]. rewrite X.
  destruct t as [u v|b]; cbn [repair_units].
  - assert (V : v <= 0x10FFFF).
    { destruct He as [-> | ->].
      - destruct (extract_utf16_tok s _ rest A E) as [_ V]. exact V.
      - destruct (step32_inv s _ rest E) as (x & _ & [[V Z]|[_ Z]]); [inversion Z; subst; exact V|discriminate]. }
    cbn [render]. assert ((v <=? 1114111) = true) as -> by (apply N.leb_le; exact V).
    exists (v :: vs). split; [reflexivity|constructor; [lia|exact Y]].
  - exists (0xFFFD :: vs). split; [reflexivity|constructor; [lia|exact Y]].
Qed.

Theorem repaired_utf8_revalidates e f s : conv_fn e T8 = Some f -> all_lt (unit_bound e) s = true -> fits s ->
  exists out, f SubstituteInvalid false (Some s) = Ok out /\ WF8 out = true.
Proof.
  intros Hf A F. assert (He : e = E16 \/ e = E32) by (destruct e; cbn in Hf; try discriminate; tauto).
  rewrite (substitute_exact e T8 f Hf false s A F) by (left; discriminate).
  destruct (repair_units_T8_values e s A He) as (vs & X & Y). rewrite X. eexists; split; [reflexivity|].
  apply flat_enc8_wf. exact Y.
Qed.

(* UTF-16 / UTF-32 produced by repairing UTF-8 re-validates when every decoded value is a scalar;
   an encoded surrogate or a value above 0x10FFFF is copied to a target that "cannot represent the
   decoded value" — the carve-out the property itself makes *)
Lemma flat_enc16_wf vs : scalars vs = true -> WF16 (flat_map utf16_enc vs) = true.
Proof. intros S. change (flat_map utf16_enc vs) with (enc E16 vs). apply WF_enc. exact S. Qed.

Theorem repaired_utf16_revalidates b : all_lt 256 b = true -> fits b -> scalars (values (tok8 b)) = true ->
  exists out, utf8_to_utf16 SubstituteInvalid (Some b) = Ok out /\ WF16 out = true.
Proof.
  intros A F S. rewrite (substitute_exact E8 T16 _ eq_refl false b A F) by (left; discriminate).
  eexists; split; [reflexivity|].
  assert (X : exists vs, flat_map (repair_units T16) (tok E8 b) = flat_map utf16_enc vs /\ scalars vs = true).
  { unfold tok8 in *. induction (tok E8 b) as [|t r IH]; [exists []; split; reflexivity|].
    destruct t as [u v|x]; cbn [values flat_map app scalars forallb] in S.
    - apply andb_true_iff in S. destruct S as [S1 S2]. destruct (IH S2) as (vs & X & Y).
      destruct (scalar_bounds v S1) as [V _]. apply N.leb_le in V.
      exists (v :: vs). cbn [flat_map repair_units render]. rewrite V, X. split; [reflexivity|].
      cbn [scalars forallb]. rewrite S1. exact Y.
    - destruct (IH S) as (vs & X & Y). exists (0xFFFD :: vs). cbn [flat_map repair_units]. rewrite X.
      split; [reflexivity|]. cbn [scalars forallb]. change (forallb is_scalar vs) with (scalars vs). rewrite Y. reflexivity. }
  destruct X as (vs & -> & Y). apply flat_enc16_wf. exact Y.
Qed.

Theorem repaired_utf32_revalidates b : all_lt 256 b = true -> fits b -> scalars (values (tok8 b)) = true ->
  exists out, utf8_to_utf32 SubstituteInvalid (Some b) = Ok out /\ WF32 out = true.
Proof.
  intros A F S. rewrite (substitute_exact E8 T32 _ eq_refl false b A F) by (left; discriminate).
  eexists; split; [reflexivity|].
  assert (X : exists vs, flat_map (repair_units T32) (tok E8 b) = enc E32 vs /\ scalars vs = true).
  { unfold tok8 in *. induction (tok E8 b) as [|t r IH]; [exists []; split; reflexivity|].
    destruct t as [u v|x]; cbn [values flat_map app scalars forallb] in S.
    - apply andb_true_iff in S. destruct S as [S1 S2]. destruct (IH S2) as (vs & X & Y).
      exists (v :: vs). cbn [flat_map repair_units render]. rewrite X. split; [reflexivity|].
      cbn [scalars forallb]. rewrite S1. exact Y.
    - destruct (IH S) as (vs & X & Y). exists (0xFFFD :: vs). cbn [flat_map repair_units]. rewrite X.
      split; [reflexivity|]. cbn [scalars forallb]. change (forallb is_scalar vs) with (scalars vs). rewrite Y. reflexivity. }
  destruct X as (vs & -> & Y). apply WF_enc. exact Y.
Qed.

(* the scoping lemmas behind the hypothesis above *)
Example revalid16_refuted : exists b, all_lt 256 b = true /\ WF8 b = true /\
  utf8_to_utf16 SubstituteInvalid (Some b) = Ok [0xD800] /\ WF16 [0xD800] = false.
Proof. exists [0xED; 0xA0; 0x80]. vm_compute. repeat split; reflexivity. Qed.
Example revalid32_refuted : exists b, all_lt 256 b = true /\ WF8 b = true /\
  utf8_to_utf32 SubstituteInvalid (Some b) = Ok [0x110000] /\ WF32 [0x110000] = false.
Proof. exists [0xF4; 0x90; 0x80; 0x80]. vm_compute. repeat split; reflexivity. Qed.

(* ---- ST::string keeps well-formed UTF-8 exactly as given, in every mode ---- *)
Theorem string_keeps_wellformed m b : all_lt 256 b = true -> fits b -> WF8 b = true -> set_utf8 m (Some b) = Ok b.
Proof.
  intros A F W. pose proof (set_utf8_refines m false b A F) as R. unfold WF8, WF in W. apply negb_true_iff in W.
  unfold spec_conv, spec_tokens in R.
  assert (U : existsb (unfixed TS) (tok E8 b) = false).
  { rewrite <- W. clear. induction (tok E8 b) as [|t r IH]; [reflexivity|]. cbn [existsb]. rewrite IH. destruct t; reflexivity. }
  destruct m; rewrite ?U, ?repair_ts_subst, ?repair_ts_check, ?W, ?(cleanup_out_good _ W), tok_units_concat in R; exact R.
Qed.

(* ---- the default mode: a call that omits the mode is the call with ST_DEFAULT_VALIDATION ---- *)
Theorem default_mode {A} (dm : vmode) (f : vmode -> A) : with_default dm f = f dm.
Proof. reflexivity. Qed.

(* ---- the known finding: with a 32-bit wchar_t the two same-width routes ignore the mode ---- *)
Theorem wchar_copy_refuted :
  exists x, all_lt 4294967296 x = true /\
            utf32_to_wchar CheckValidity (Some x) = Ok x /\ wchar_to_utf32 CheckValidity (Some x) = Ok x /\
            spec_conv E32 T32 CheckValidity false x = SThrow /\
            utf32_to_wchar SubstituteInvalid (Some x) = Ok x /\
            spec_conv E32 T32 SubstituteInvalid false x = SOk [0xFFFD].
Proof. exists [0x110000]. vm_compute. repeat split; reflexivity. Qed.

(* on well-formed UTF-32 the copies are what the specification asks for, in every mode *)
Theorem wchar_copy_wellformed m x : WF32 x = true ->
  utf32_to_wchar m (Some x) = Ok x /\ wchar_to_utf32 m (Some x) = Ok x /\ spec_conv E32 T32 m false x = SOk x.
Proof.
  intros W. split; [reflexivity|]. split; [reflexivity|]. unfold spec_conv, spec_tokens.
  assert (U : existsb (unfixed T32) (tok E32 x) = false).
  { unfold WF32, WF in W. apply negb_true_iff in W. rewrite <- W. clear.
    induction (tok E32 x) as [|t r IH]; [reflexivity|]. cbn [existsb]. rewrite IH. destruct t; reflexivity. }
  destruct m; rewrite ?U; apply repair_wf32; exact W.
Qed.

(* non-vacuity *)
Example c02_nonvacuous :
  all_lt 256 [0x41; 0xC3; 0xA9; 0x80; 0xE2; 0x82] = true /\ fits [0x41; 0xC3; 0xA9; 0x80; 0xE2; 0x82] /\
  WF8 [0x41; 0xC3; 0xA9; 0x80; 0xE2; 0x82] = false /\ WF8 [0x41; 0xC3; 0xA9; 0xED; 0xA0; 0x80; 0xC0; 0x80] = true.
Proof. unfold fits. vm_compute. repeat split; reflexivity. Qed.
