(* Utf/ProofsC01.v — C01: on the standard encoding of a scalar sequence every converter,
   in every mode, returns the standard encoding of the same sequence; chains; Latin-1
   round trips; ST::string routes.                                                *)
From Coq Require Import NArith Arith List Bool Lia.
From ST Require Import Base.Outcome Base.Units Gen.Consts Utf.Spec Utf.Tokens Utf.Model
     Utf.ProofsWalk Utf.ProofsGeneric Utf.ProofsFrom8 Utf.ProofsFrom16 Utf.ProofsFrom32 Utf.ProofsFromL1
     Utf.ProofsString Utf.ProofsSpec.
Import ListNotations.
Local Open Scope N_scope.
Local Open Scope outcome_scope.

(* fewer than 2^28 units (ST_HUGE_BUFFER_SIZE, from the header) *)
Definition fits (s : list N) : Prop := N.of_nat (length s) < huge_buffer_size.

Lemma std_result e tg m sub l o :
  scalars l = true -> tg <> TL1 -> tg <> TS ->
  o = sres_outcome (repair tg m sub (tok e (enc e l))) -> o = Ok (enc (target_enc tg) l).
Proof.
  intros S NL NS ->. rewrite (tok_enc e l S), (repair_enc e tg m sub l S NL) by congruence. reflexivity.
Qed.

(* ---- the six UTF pairs ---- *)
Theorem utf8_to_utf16_std m l : scalars l = true -> fits (enc8 l) -> utf8_to_utf16 m (Some (enc8 l)) = Ok (enc16 l).
Proof.
  intros S F. apply (std_result E8 T16 m false l _ S); try discriminate.
  apply utf8_to_utf16_result; [apply (enc_units E8 l S); discriminate|exact F].
Qed.
Theorem utf8_to_utf32_std m l : scalars l = true -> fits (enc8 l) -> utf8_to_utf32 m (Some (enc8 l)) = Ok (enc32 l).
Proof.
  intros S F. apply (std_result E8 T32 m false l _ S); try discriminate.
  apply utf8_to_utf32_result; [apply (enc_units E8 l S); discriminate|exact F].
Qed.
Theorem utf16_to_utf8_std m l : scalars l = true -> fits (enc16 l) -> utf16_to_utf8 m (Some (enc16 l)) = Ok (enc8 l).
Proof.
  intros S F. apply (std_result E16 T8 m false l _ S); try discriminate.
  apply utf16_to_utf8_result; [apply (enc_units E16 l S); discriminate|exact F].
Qed.
Theorem utf16_to_utf32_std m l : scalars l = true -> fits (enc16 l) -> utf16_to_utf32 m (Some (enc16 l)) = Ok (enc32 l).
Proof.
  intros S F. apply (std_result E16 T32 m false l _ S); try discriminate.
  apply utf16_to_utf32_result; [apply (enc_units E16 l S); discriminate|exact F].
Qed.
Theorem utf32_to_utf8_std m l : scalars l = true -> fits (enc32 l) -> utf32_to_utf8 m (Some (enc32 l)) = Ok (enc8 l).
Proof.
  intros S F. apply (std_result E32 T8 m false l _ S); try discriminate.
  apply utf32_to_utf8_result; [apply (enc_units E32 l S); discriminate|exact F].
Qed.
Theorem utf32_to_utf16_std m l : scalars l = true -> fits (enc32 l) -> utf32_to_utf16 m (Some (enc32 l)) = Ok (enc16 l).
Proof.
  intros S F. apply (std_result E32 T16 m false l _ S); try discriminate.
  apply utf32_to_utf16_result; [apply (enc_units E32 l S); discriminate|exact F].
Qed.

(* ---- wchar_t aliases (this platform: 32-bit, from Gen/Consts) ---- *)
Theorem utf8_to_wchar_std m l : scalars l = true -> fits (enc8 l) ->
  utf8_to_wchar m (Some (enc8 l)) = Ok (enc wchar_encoding l).
Proof. exact (utf8_to_utf32_std m l). Qed.
Theorem utf16_to_wchar_std m l : scalars l = true -> fits (enc16 l) ->
  utf16_to_wchar m (Some (enc16 l)) = Ok (enc wchar_encoding l).
Proof. exact (utf16_to_utf32_std m l). Qed.
Theorem utf32_to_wchar_std m l : utf32_to_wchar m (Some (enc32 l)) = Ok (enc wchar_encoding l).
Proof. destruct l; reflexivity. Qed.
Theorem wchar_to_utf8_std m l : scalars l = true -> fits (enc wchar_encoding l) ->
  wchar_to_utf8 m (Some (enc wchar_encoding l)) = Ok (enc8 l).
Proof. exact (utf32_to_utf8_std m l). Qed.
Theorem wchar_to_utf16_std m l : scalars l = true -> fits (enc wchar_encoding l) ->
  wchar_to_utf16 m (Some (enc wchar_encoding l)) = Ok (enc16 l).
Proof. exact (utf32_to_utf16_std m l). Qed.
Theorem wchar_to_utf32_std m l : wchar_to_utf32 m (Some (enc wchar_encoding l)) = Ok (enc32 l).
Proof. destruct l; reflexivity. Qed.

(* ---- Latin-1: every byte string to any UTF form and back ---- *)
Lemma latin1_result e m sub b o :
  all_lt 256 b = true -> o = sres_outcome (repair TL1 m sub (tok e (enc e b))) -> o = Ok b.
Proof.
  intros A ->. rewrite (tok_enc e b (bytes_scalars b A)), (repair_latin1 e m sub b A). reflexivity.
Qed.

Theorem latin1_utf8_roundtrip m sub b : all_lt 256 b = true -> fits (enc8 b) ->
  latin_1_to_utf8 (Some b) = Ok (enc8 b) /\ utf8_to_latin_1 m sub (Some (enc8 b)) = Ok b.
Proof.
  intros A F. split.
  - apply latin_1_to_utf8_result; [exact A|].
    unfold fits in *. assert (length b <= length (enc8 b))%nat; [|lia].
    clear. induction b as [|c b IH]; [cbn; lia|]. cbn [enc8 flat_map]. rewrite app_length. cbn [length].
    fold (enc8 b). pose proof (Utf.ProofsEnc.utf8_enc_nonempty c). destruct (utf8_enc c); [congruence|cbn; lia].
  - apply (latin1_result E8 m sub b _ A). apply utf8_to_latin_1_result; [|exact F].
    apply (enc_units E8 b (bytes_scalars b A)). discriminate.
Qed.

Lemma enc16_bytes b : all_lt 256 b = true -> enc16 b = b.
Proof.
  unfold all_lt. induction b as [|c b IH]; [reflexivity|]. cbn [forallb]. intros A.
  apply andb_true_iff in A. destruct A as [A1 A2]. cbn [enc16 flat_map]. fold (enc16 b). rewrite (IH A2).
  unfold utf16_enc. apply N.ltb_lt in A1. assert ((c <? 65536) = true) as -> by (apply N.ltb_lt; lia). reflexivity.
Qed.
Lemma enc32_id l : enc32 l = l.
Proof. induction l as [|c l IH]; [reflexivity|]. cbn [enc32 flat_map utf32_enc app]. f_equal. exact IH. Qed.

Theorem latin1_utf16_roundtrip m sub b : all_lt 256 b = true -> fits b ->
  latin_1_to_utf16 (Some b) = Ok (enc16 b) /\ utf16_to_latin_1 m sub (Some (enc16 b)) = Ok b.
Proof.
  intros A F. split; [apply latin_1_to_utf16_result; assumption|].
  apply (latin1_result E16 m sub b _ A). apply utf16_to_latin_1_result.
  - apply (enc_units E16 b (bytes_scalars b A)). discriminate.
  - cbn [enc]. rewrite (enc16_bytes b A). exact F.
Qed.

Theorem latin1_utf32_roundtrip m sub b : all_lt 256 b = true -> fits b ->
  latin_1_to_utf32 (Some b) = Ok (enc32 b) /\ utf32_to_latin_1 m sub (Some (enc32 b)) = Ok b.
Proof.
  intros A F. split; [apply latin_1_to_utf32_result; assumption|].
  apply (latin1_result E32 m sub b _ A). apply utf32_to_latin_1_result.
  - apply (enc_units E32 b (bytes_scalars b A)). discriminate.
  - cbn [enc]. rewrite enc32_id. exact F.
Qed.

Theorem latin1_wchar_roundtrip m sub b : all_lt 256 b = true -> fits b ->
  latin_1_to_wchar (Some b) = Ok (enc wchar_encoding b) /\ wchar_to_latin_1 m sub (Some (enc wchar_encoding b)) = Ok b.
Proof. exact (latin1_utf32_roundtrip m sub b). Qed.

(* ---- chains: any path through the conversion graph ---- *)
Definition convert (src tgt : encoding) (m : vmode) (s : list N) : outcome (list N) :=
  match src, tgt with
  | E8, E16 => utf8_to_utf16 m (Some s) | E8, E32 => utf8_to_utf32 m (Some s)
  | E16, E8 => utf16_to_utf8 m (Some s) | E16, E32 => utf16_to_utf32 m (Some s)
  | E32, E8 => utf32_to_utf8 m (Some s) | E32, E16 => utf32_to_utf16 m (Some s)
  | E8, E8 => set_utf8 m (Some s)             (* through an ST::string *)
  | _, _ => Ok s
  end.

Fixpoint run_chain (path : list (encoding * vmode)) (cur : encoding) (s : list N) : outcome (list N) :=
  match path with
  | [] => Ok s
  | (e, m) :: p => s' <- convert cur e m s ;; run_chain p e s'
  end.

Definition utf_enc (e : encoding) : Prop := e = E8 \/ e = E16 \/ e = E32.

Theorem string_from_utf8_std m l : scalars l = true -> fits (enc8 l) -> string_from_utf8 m (Some (enc8 l)) = Ok (enc8 l).
Proof.
  intros S F. pose proof (set_utf8_refines m false (enc8 l) (enc_units E8 l S ltac:(discriminate)) F) as R.
  change (enc8 l) with (enc E8 l) in R at 2.
  rewrite (spec_conv_wellformed E8 TS m false l S) in R by (discriminate || reflexivity). exact R.
Qed.

Lemma convert_std e1 e2 m l : scalars l = true -> utf_enc e1 -> utf_enc e2 -> fits (enc e1 l) ->
  convert e1 e2 m (enc e1 l) = Ok (enc e2 l).
Proof.
  intros S [->|[->| ->]] [->|[->| ->]] F; cbn [convert]; try reflexivity.
  - apply string_from_utf8_std; assumption.
  - apply utf8_to_utf16_std; assumption.
  - apply utf8_to_utf32_std; assumption.
  - apply utf16_to_utf8_std; assumption.
  - apply utf16_to_utf32_std; assumption.
  - apply utf32_to_utf8_std; assumption.
  - apply utf32_to_utf16_std; assumption.
Qed.

Lemma last_default {A} (l : list A) : forall x d d', last (x :: l) d = last (x :: l) d'.
Proof. induction l as [|y l IH]; intros x d d'; [reflexivity|]. cbn [last] in *. apply IH. Qed.

Theorem chain l : scalars l = true -> (forall e, utf_enc e -> fits (enc e l)) ->
  forall path e0, utf_enc e0 -> Forall (fun p => utf_enc (fst p)) path ->
  run_chain path e0 (enc e0 l) = Ok (enc (last (map fst path) e0) l).
Proof.
  intros S F path. induction path as [|[e m] p IH]; intros e0 U0 P; [reflexivity|].
  inversion P as [|? ? Ue Pp]; subst. cbn [fst] in Ue. cbn [run_chain].
  rewrite (convert_std e0 e m l S U0 Ue (F e0 U0)). cbn [bind]. rewrite (IH e Ue Pp).
  cbn [map fst]. destruct p as [|[e' m'] p']; [reflexivity|].
  cbn [map fst last]. f_equal. f_equal. apply last_default.
Qed.

(* ---- ST::string entry points ---- *)
Theorem string_from_utf16_std m l : scalars l = true -> fits (enc16 l) -> string_from_utf16 m (Some (enc16 l)) = Ok (enc8 l).
Proof. exact (utf16_to_utf8_std m l). Qed.
Theorem string_from_utf32_std m l : scalars l = true -> fits (enc32 l) -> string_from_utf32 m (Some (enc32 l)) = Ok (enc8 l).
Proof. exact (utf32_to_utf8_std m l). Qed.
Theorem string_from_wchar_std m l : scalars l = true -> fits (enc wchar_encoding l) ->
  string_from_wchar m (Some (enc wchar_encoding l)) = Ok (enc8 l).
Proof. exact (utf32_to_utf8_std m l). Qed.
Theorem string_from_latin_1_std b : all_lt 256 b = true -> fits b -> string_from_latin_1 (Some b) = Ok (enc8 b).
Proof. intros A F. apply latin_1_to_utf8_result; assumption. Qed.
Theorem string_literal_std l : string_literal_char (Some (enc8 l)) = Ok (enc8 l).
Proof. reflexivity. Qed.
Theorem string_to_utf16_std l : scalars l = true -> fits (enc8 l) -> string_to_utf16 (enc8 l) = Ok (enc16 l).
Proof. exact (utf8_to_utf16_std AssumeValid l). Qed.
Theorem string_to_utf32_std l : scalars l = true -> fits (enc8 l) -> string_to_utf32 (enc8 l) = Ok (enc32 l).
Proof. exact (utf8_to_utf32_std AssumeValid l). Qed.
Theorem string_to_wchar_std l : scalars l = true -> fits (enc8 l) -> string_to_wchar (enc8 l) = Ok (enc wchar_encoding l).
Proof. exact (utf8_to_utf32_std AssumeValid l). Qed.
Theorem string_to_latin_1_std sub b : all_lt 256 b = true -> fits (enc8 b) -> string_to_latin_1 sub (enc8 b) = Ok b.
Proof. intros A F. exact (proj2 (latin1_utf8_roundtrip AssumeValid sub b A F)). Qed.

(* ---- the mode is irrelevant on well-formed text ---- *)
Theorem mode_irrelevant e1 e2 m1 m2 l : scalars l = true -> utf_enc e1 -> utf_enc e2 -> fits (enc e1 l) ->
  convert e1 e2 m1 (enc e1 l) = convert e1 e2 m2 (enc e1 l).
Proof. intros S U1 U2 F. rewrite !(convert_std e1 e2 _ l S U1 U2 F). reflexivity. Qed.

(* hypotheses are satisfiable *)
Example std_nonvacuous : scalars [0x41; 0xE9; 0x20AC; 0x1F600; 0x10FFFF] = true /\ fits (enc8 [0x41; 0xE9; 0x20AC; 0x1F600; 0x10FFFF]).
Proof. split; [reflexivity|]. unfold fits. vm_compute. reflexivity. Qed.

(* ---- grouped statements (one obligation per group in Properties/C01.v) ---- *)
Theorem utf_pairs_std m l : scalars l = true ->
  (fits (enc8 l) -> utf8_to_utf16 m (Some (enc8 l)) = Ok (enc16 l)) /\
  (fits (enc8 l) -> utf8_to_utf32 m (Some (enc8 l)) = Ok (enc32 l)) /\
  (fits (enc16 l) -> utf16_to_utf8 m (Some (enc16 l)) = Ok (enc8 l)) /\
  (fits (enc16 l) -> utf16_to_utf32 m (Some (enc16 l)) = Ok (enc32 l)) /\
  (fits (enc32 l) -> utf32_to_utf8 m (Some (enc32 l)) = Ok (enc8 l)) /\
  (fits (enc32 l) -> utf32_to_utf16 m (Some (enc32 l)) = Ok (enc16 l)).
Proof.
  intros S. repeat split; intros F.
  - apply utf8_to_utf16_std; assumption.
  - apply utf8_to_utf32_std; assumption.
  - apply utf16_to_utf8_std; assumption.
  - apply utf16_to_utf32_std; assumption.
  - apply utf32_to_utf8_std; assumption.
  - apply utf32_to_utf16_std; assumption.
Qed.

Theorem latin1_pairs_std m sub b : all_lt 256 b = true -> fits (enc8 b) ->
  (latin_1_to_utf8 (Some b) = Ok (enc8 b) /\ utf8_to_latin_1 m sub (Some (enc8 b)) = Ok b) /\
  (latin_1_to_utf16 (Some b) = Ok (enc16 b) /\ utf16_to_latin_1 m sub (Some (enc16 b)) = Ok b) /\
  (latin_1_to_utf32 (Some b) = Ok (enc32 b) /\ utf32_to_latin_1 m sub (Some (enc32 b)) = Ok b) /\
  (latin_1_to_wchar (Some b) = Ok (enc wchar_encoding b) /\ wchar_to_latin_1 m sub (Some (enc wchar_encoding b)) = Ok b).
Proof.
  intros A F.
  assert (Fb : fits b).
  { unfold fits in *. assert (length b <= length (enc8 b))%nat; [|lia].
    clear. induction b as [|c b IH]; [cbn; lia|]. cbn [enc8 flat_map]. rewrite app_length. cbn [length].
    fold (enc8 b). pose proof (Utf.ProofsEnc.utf8_enc_nonempty c). destruct (utf8_enc c); [congruence|cbn; lia]. }
  split; [apply latin1_utf8_roundtrip; assumption|].
  split; [apply latin1_utf16_roundtrip; assumption|].
  split; [apply latin1_utf32_roundtrip; assumption|apply latin1_wchar_roundtrip; assumption].
Qed.

Theorem wchar_pairs_std m l : scalars l = true ->
  (fits (enc8 l) -> utf8_to_wchar m (Some (enc8 l)) = Ok (enc wchar_encoding l)) /\
  (fits (enc16 l) -> utf16_to_wchar m (Some (enc16 l)) = Ok (enc wchar_encoding l)) /\
  utf32_to_wchar m (Some (enc32 l)) = Ok (enc wchar_encoding l) /\
  (fits (enc wchar_encoding l) -> wchar_to_utf8 m (Some (enc wchar_encoding l)) = Ok (enc8 l)) /\
  (fits (enc wchar_encoding l) -> wchar_to_utf16 m (Some (enc wchar_encoding l)) = Ok (enc16 l)) /\
  wchar_to_utf32 m (Some (enc wchar_encoding l)) = Ok (enc32 l).
Proof.
  intros S. repeat split; try intros F.
  - apply utf8_to_wchar_std; assumption.
  - apply utf16_to_wchar_std; assumption.
  - apply wchar_to_utf8_std; assumption.
  - apply wchar_to_utf16_std; assumption.
Qed.

Theorem string_routes_std m l : scalars l = true ->
  (fits (enc8 l) -> string_from_utf8 m (Some (enc8 l)) = Ok (enc8 l)) /\
  (fits (enc16 l) -> string_from_utf16 m (Some (enc16 l)) = Ok (enc8 l)) /\
  (fits (enc32 l) -> string_from_utf32 m (Some (enc32 l)) = Ok (enc8 l)) /\
  (fits (enc wchar_encoding l) -> string_from_wchar m (Some (enc wchar_encoding l)) = Ok (enc8 l)) /\
  string_literal_char (Some (enc8 l)) = Ok (enc8 l) /\
  string_to_utf8 (enc8 l) = Ok (enc8 l) /\
  (fits (enc8 l) -> string_to_utf16 (enc8 l) = Ok (enc16 l)) /\
  (fits (enc8 l) -> string_to_utf32 (enc8 l) = Ok (enc32 l)) /\
  (fits (enc8 l) -> string_to_wchar (enc8 l) = Ok (enc wchar_encoding l)).
Proof.
  intros S. repeat split; try intros F.
  - apply string_from_utf8_std; assumption.
  - apply string_from_utf16_std; assumption.
  - apply string_from_utf32_std; assumption.
  - apply string_from_wchar_std; assumption.
  - apply string_to_utf16_std; assumption.
  - apply string_to_utf32_std; assumption.
  - apply string_to_wchar_std; assumption.
Qed.

Theorem string_latin1_std sub b : all_lt 256 b = true -> fits (enc8 b) ->
  string_from_latin_1 (Some b) = Ok (enc8 b) /\ string_to_latin_1 sub (enc8 b) = Ok b.
Proof.
  intros A F. split; [|apply string_to_latin_1_std; assumption].
  exact (proj1 (proj1 (latin1_pairs_std AssumeValid sub b A F))).
Qed.
