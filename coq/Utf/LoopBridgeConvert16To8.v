(* Utf/LoopBridgeConvert16To8.v — utf8_convert_from_utf16(dest, utf16, size, validation) of include/st_utf_conv_priv.h, the
   second pass of ST::utf16_to_utf8 / ST::string::from_utf16, as TRANSLATED from the current headers (Gen/Leaf.v: decoder
   extract_utf16, char_error, encoder write_utf8, and the expansion of ST_ASSERT, whose failure ends the translated
   function with the result ext_abort).  For inputs of any length, every validation mode and every sufficient fuel it
   behaves as the hand-written model pass Utf/Model.utf8_convert_from_utf16: same conversion_error_t and stored bytes,
   or — exactly where the model stops with Abort AbConvRange — the result ext_abort.  (That the assertion cannot fail is
   a theorem about the model: C03.) *)
From Coq Require Import NArith ZArith List Bool Lia ZifyBool ZifyNat ZifyN.
From ST Require Import Base.Outcome Base.Units Base.Sweep Gen.Consts Utf.Spec Utf.Model Gen.Leaf Utf.LeafBridge Utf.LoopBridge
     Utf.LoopBridgeExtract Utf.LoopBridgeMeasure Utf.LoopBridgeWrite Utf.LoopBridgeConvert32 Utf.LoopBridgeConvertTo32.
Import ListNotations.
Local Open Scope Z_scope.
Local Open Scope outcome_scope.

Lemma c8f16_loop_S f p a b v sp ep out : src_utf8_convert_from_utf16_loop1 (S f) p a b v sp ep out =
  (if z2b (b2z (Z.ltb sp ep)) then
     let '(r, ni) := src_extract_utf16 p sp ep in
     if z2b (b2z (negb (Z.eqb (src_char_error r) ext_success))) then
       if z2b (b2z (Z.eqb v ext_check_validity)) then Some (src_char_error r, out)
       else src_utf8_convert_from_utf16_loop1 f p a b v ni ep (out ++ subst8)
     else
       let '(r2, w) := src_write_utf8 r in
       if z2b (b2z (negb (z2b (b2z (Z.eqb r2 ext_success))))) then Some (ext_abort, out ++ w)
       else src_utf8_convert_from_utf16_loop1 f p a b v ni ep (out ++ w)
   else Some (ext_success, out)).
Proof.
  cbv beta iota zeta delta [src_utf8_convert_from_utf16_loop1 subst8].
  destruct (src_extract_utf16 p sp ep) as [r ni]. destruct (src_write_utf8 r). reflexivity.
Qed.

Definition c8f16_body (m : vmode) := fun (s : list N) (d : dst) =>
  '(bigch, rest) <- extract_utf16 s ;;
  let error := char_error bigch in
  if is_error error then on_error8 m error rest d
  else
    '(e2, d') <- write_utf8 d bigch ;;
    if is_error e2 then Abort AbConvRange          (* ST_ASSERT(error == success, ...) *)
    else Ok (Continue rest d').

(* the result: a conversion_error_t, or the failed assertion *)
Definition code_of (oe : option cerr) : Z := match oe with Some e => Z.of_N (cerr_code e) | None => ext_abort end.
Definition model_of (oe : option cerr) (d : dst) (ws : list Z) : outcome (cerr * dst) :=
  match oe with
  | Some e => Ok (e, ((fst d - length ws)%nat, rev (map byte_of ws) ++ snd d))
  | None => Abort AbConvRange
  end.

Theorem c8f16_loop_matches m v : (Z.eqb v ext_check_validity) = is_check m ->
  forall n s out i p a b fm fs, (length s <= n)%nat -> all_lt 65536 s = true -> shows Z.of_N p i s ->
  (length s < fm)%nat -> (length s < fs)%nat ->
  exists oe ws, src_utf8_convert_from_utf16_loop1 fs p a b v i (i + Z.of_nat (length s)) out = Some (code_of oe, out ++ ws) /\
    forall d : dst, (length ws <= fst d)%nat -> walk (c8f16_body m) fm s d = model_of oe d ws.
Proof.
  intros Hv. induction n as [|n IH]; intros s out i p a b fm fs Hn A R Hfm Hfs;
    (destruct fm as [|fm]; [lia|]); (destruct fs as [|fs]; [lia|]);
    (destruct s as [|c t] eqn:Es;
     [ exists (Some CSuccess), []; split;
       [ rewrite c8f16_loop_S; cbn [length]; replace (i <? i + Z.of_nat 0) with false by lia; cbn [b2z z2b Z.eqb negb];
         rewrite app_nil_r; reflexivity
       | intros [free w] _; cbn [walk model_of fst snd length map rev app]; rewrite Nat.sub_0_r; reflexivity ] |]).
  - cbn [length] in Hn. lia.
  - rewrite <- Es in *. assert (Hne : s <> []) by (rewrite Es; discriminate).
    assert (Hlen : (1 <= length s)%nat) by (rewrite Es; cbn [length]; lia).
    pose proof (extract_utf16_matches s i p Hne A R) as X.
    assert (Hw : forall d, walk (c8f16_body m) (S fm) s d =
      (r <- c8f16_body m s d ;; match r with Continue rest st' => walk (c8f16_body m) fm rest st' | Return e => Ok (e, d) end))
      by (intros d; rewrite Es; reflexivity).
    rewrite c8f16_loop_S. replace (i <? i + Z.of_nat (length s)) with true by lia. cbn [b2z z2b Z.eqb negb].
    destruct (extract_utf16 s) as [[ch rest]| | |] eqn:Eext; cbn [ext_ok] in X; try contradiction.
    destruct X as (k & Hk & Er & Ex & Hch & Hcls). rewrite Ex. cbv iota.
    destruct (char_error_class ch Hcls) as [Ec Ez]. rewrite !z2b_b2z, Ez, Hv. rewrite negb_involutive.
    assert (Hrest : (length rest < length s)%nat) by (rewrite Er, skipn_length; lia).
    assert (Arest : all_lt 65536 rest = true) by (rewrite Er; apply all_lt_skipn; exact A).
    assert (Rrest : shows Z.of_N p (i + Z.of_nat k) rest) by (rewrite Er; apply shows_skipn; [exact R|lia]).
    replace (i + Z.of_nat (length s)) with (i + Z.of_nat k + Z.of_nat (length rest)) by (rewrite Er, skipn_length; lia).
    destruct (is_error (char_error ch)) eqn:Eerr.
    + rewrite Ec. destruct (is_check m) eqn:Em.
      * exists (Some (char_error ch)), []. split; [rewrite app_nil_r; reflexivity|].
        intros d _. rewrite Hw. unfold c8f16_body at 1. rewrite Eext. cbn [bind]. cbv zeta. rewrite Eerr.
        unfold on_error8. rewrite Em. cbn [bind model_of fst snd length map rev app]. rewrite Nat.sub_0_r. destruct d; reflexivity.
      * destruct (IH rest (out ++ subst8) (i + Z.of_nat k) p a b fm fs ltac:(lia) Arest Rrest ltac:(lia) ltac:(lia))
          as (oe & ws & Es2 & Emod).
        exists oe, (subst8 ++ ws). split.
        -- rewrite Es2. rewrite <- app_assoc. reflexivity.
        -- intros [free w] Hd. rewrite app_length, subst8_length in Hd. cbn [fst snd] in Hd.
           rewrite Hw. unfold c8f16_body at 1. rewrite Eext. cbn [bind]. cbv zeta. rewrite Eerr.
           unfold on_error8. rewrite Em. rewrite (subst8_pushed free w) by lia. cbn [bind].
           rewrite Emod by (cbn [fst]; rewrite subst8_length; lia).
           destruct oe; cbn [model_of fst snd]; [|reflexivity].
           rewrite app_length, rev_map_app. do 3 f_equal. lia.
    + pose proof (write_utf8_matches_source ch Hch) as W. unfold write_ok in W.
      destruct (write8_shape ch Hch) as [(wc & Ew & Lw) | Ew]; rewrite Ew in W |- *; cbn [fst snd] in W; cbv iota.
      * change (z2b (b2z (negb (z2b (b2z (ext_success =? ext_success)))))) with false. cbv iota.
        destruct (IH rest (out ++ wc) (i + Z.of_nat k) p a b fm fs ltac:(lia) Arest Rrest ltac:(lia) ltac:(lia)) as (oe & ws & Es2 & Emod).
        exists oe, (wc ++ ws). split.
        -- rewrite Es2. rewrite <- app_assoc. reflexivity.
        -- intros d Hd. rewrite app_length in Hd.
           rewrite Hw. unfold c8f16_body at 1. rewrite Eext. cbn [bind]. cbv zeta. rewrite Eerr.
           rewrite (W d) by lia. cbn [bind]. change (cerr_of_code (Z.to_N ext_success)) with CSuccess. cbn [is_error bind].
           rewrite Emod by (cbn [fst]; lia).
           destruct oe; cbn [model_of fst snd]; [|reflexivity].
           rewrite app_length, rev_map_app. do 3 f_equal. lia.
      * change (z2b (b2z (negb (z2b (b2z (ext_out_of_range =? ext_success)))))) with true. cbv iota.
        change (cerr_of_code (Z.to_N ext_out_of_range)) with COutOfRange in W.
        exists None, []. split; [reflexivity|].
        intros d Hd. rewrite Hw. unfold c8f16_body at 1. rewrite Eext. cbn [bind]. cbv zeta. rewrite Eerr.
        rewrite (W d) by (cbn; lia). cbn [bind is_error model_of]. reflexivity.
Qed.

Theorem utf8_convert_from_utf16_matches_source l m fuel : all_lt 65536 l = true -> (length l < fuel)%nat ->
  exists oe ws, src_utf8_convert_from_utf16 fuel (arr32 l) (Z.of_nat (length l)) (mode_code m) = Some (code_of oe, ws) /\
    forall d : dst, (length ws <= fst d)%nat -> utf8_convert_from_utf16 d l m = model_of oe d ws.
Proof.
  intros A Hf. unfold src_utf8_convert_from_utf16, utf8_convert_from_utf16. cbv zeta.
  assert (Hv : (mode_code m =? ext_check_validity) = is_check m) by (destruct m; reflexivity).
  destruct (c8f16_loop_matches m (mode_code m) Hv (length l) l [] 0 (arr32 l) 0 (Z.of_nat (length l)) (S (length l)) fuel
              ltac:(lia) A (shows_arr32 l) ltac:(lia) Hf) as (oe & ws & Es & Em).
  exists oe, ws. split; [exact Es|]. intros d Hd. fold (c8f16_body m). exact (Em d Hd).
Qed.

Example convert16to8_example :
  option_map (fun r => (fst r, map byte_of (snd r))) (src_utf8_convert_from_utf16 9 (arr32 [65; 0xD83D; 0xDE00; 0xDC00]%N) 4 ext_substitute_invalid)
    = Some (0, [65; 0xF0; 0x9F; 0x98; 0x80; 0xEF; 0xBF; 0xBD]%N) /\
  option_map fst (src_utf8_convert_from_utf16 9 (arr32 [65; 0xD83D; 0xDE00; 0xDC00]%N) 4 ext_check_validity) = Some 2.
Proof. vm_compute. split; reflexivity. Qed.
