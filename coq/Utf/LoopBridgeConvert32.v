(* Utf/LoopBridgeConvert32.v — utf16_convert_from_utf32 and utf8_convert_from_utf32 (dest, utf32, size, validation) of
   include/st_utf_conv_priv.h, the second passes of ST::utf32_to_utf16 / utf32_to_utf8 (and of the wchar_t aliases, of
   ST::string::from_utf32 ...), each as TRANSLATED from the current headers (Gen/Leaf.v:
   dest is a write-only cursor handed to the translated encoder write_utf16, whose stored units are appended) returns,
   for inputs of any length, every validation mode and every sufficient fuel, the conversion_error_t and stores exactly
   the units that the hand-written model pass Utf/Model.utf16_convert_from_utf32 returns and pushes (given room).  With
   utf16_measure_from_utf32 (Utf/LoopBridge.v) both passes of this conversion are tied by translation. *)
From Coq Require Import NArith ZArith List Bool Lia ZifyBool ZifyNat ZifyN.
From ST Require Import Base.Outcome Base.Units Base.Sweep Gen.Consts Utf.Spec Utf.Model Gen.Leaf Utf.LoopBridge Utf.LoopBridgeExtract Utf.LoopBridgeWrite.
Import ListNotations.
Local Open Scope Z_scope.
Local Open Scope outcome_scope.

(* what the translated encoder returns: success with one or two units, or out_of_range with none *)
Lemma write16_shape n : (n < 4294967296)%N ->
  (exists ws, src_write_utf16 (Z.of_N n) = (ext_success, ws) /\ (length ws <= 2)%nat) \/
  src_write_utf16 (Z.of_N n) = (ext_out_of_range, []).
Proof.
  intros Hn. rewrite src_write_utf16_eq.
  destruct (z2b (b2z (wrapu 32 (Z.of_N n) <? wrapu 32 65536))); [left; eexists; split; [reflexivity|cbn; lia]|].
  destruct (z2b (b2z (wrapu 32 (Z.of_N n) <=? wrapu 32 1114111))); [left; eexists; split; [reflexivity|cbn; lia]|].
  right. reflexivity.
Qed.

Lemma c16_loop_S f p a b v sp ep out : src_utf16_convert_from_utf32_loop1 (S f) p a b v sp ep out =
  (if z2b (b2z (Z.ltb sp ep)) then
     let '(r, w) := src_write_utf16 (p sp) in
     if z2b (b2z (negb (Z.eqb r ext_success))) then
       if z2b (b2z (Z.eqb v ext_check_validity)) then Some (r, out ++ w)
       else src_utf16_convert_from_utf32_loop1 f p a b v (sp + 1) ep ((out ++ w) ++ [wrapu 16 ext_badchar_substitute])
     else src_utf16_convert_from_utf32_loop1 f p a b v (sp + 1) ep (out ++ w)
   else Some (ext_success, out)).
Proof. cbv beta iota zeta delta [src_utf16_convert_from_utf32_loop1]. destruct (src_write_utf16 (p sp)). reflexivity. Qed.

Definition c16_body (m : vmode) := fun (s : list N) (d : dst) =>
  ch <- rdu s 0 ;;
  '(error, d') <- write_utf16 d ch ;;
  if is_error error then on_error16 m error (skipn 1 s) d'
  else Ok (Continue (skipn 1 s) d').

Lemma rev_map_app (f : Z -> N) a b w : rev (map f (a ++ b)) ++ w = rev (map f b) ++ rev (map f a) ++ w.
Proof. rewrite map_app, rev_app_distr, <- app_assoc. reflexivity. Qed.

Theorem c16_loop_matches m v : (Z.eqb v ext_check_validity) = is_check m ->
  forall s out i p a b fm fs, all_lt 4294967296 s = true -> shows Z.of_N p i s ->
  (length s < fm)%nat -> (length s < fs)%nat ->
  exists e ws, src_utf16_convert_from_utf32_loop1 fs p a b v i (i + Z.of_nat (length s)) out = Some (Z.of_N (cerr_code e), out ++ ws) /\
    forall d : dst, (length ws <= fst d)%nat ->
      walk (c16_body m) fm s d = Ok (e, ((fst d - length ws)%nat, rev (map unit16_of ws) ++ snd d)).
Proof.
  intros Hv. induction s as [|c t IH]; intros out i p a b fm fs A R Hfm Hfs;
    (destruct fm as [|fm]; [cbn in Hfm; lia|]); (destruct fs as [|fs]; [cbn in Hfs; lia|]).
  - exists CSuccess, []. split.
    + rewrite c16_loop_S. cbn [length]. replace (i <? i + Z.of_nat 0) with false by lia. cbn [b2z z2b Z.eqb negb].
      rewrite app_nil_r. reflexivity.
    + intros [free w] _. cbn [walk fst snd length map rev app]. repeat f_equal. lia.
  - destruct (all_lt_cons _ _ _ A) as [Hc At]. pose proof (write_utf16_matches_source c Hc) as W.
    rewrite c16_loop_S. cbn [length]. replace (i <? i + Z.of_nat (S (length t))) with true by lia.
    cbn [b2z z2b Z.eqb negb]. rewrite (shows_head _ _ _ _ _ R).
    replace (i + Z.of_nat (S (length t))) with (i + 1 + Z.of_nat (length t)) by lia.
    cbn [length] in Hfm, Hfs.
    destruct (write16_shape c Hc) as [(wc & Ew & Lw) | Ew]; rewrite Ew in W |- *; unfold write_ok in W; cbn [fst snd] in W.
    + (* the unit was encoded *)
      change (z2b (b2z (negb (ext_success =? ext_success)))) with false. cbv iota.
      destruct (IH (out ++ wc) (i + 1) p a b fm fs At (shows_tail _ _ _ _ _ R) ltac:(lia) ltac:(lia)) as (e & ws & Es & Em).
      exists e, (wc ++ ws). split.
      * rewrite Es. rewrite <- app_assoc. reflexivity.
      * intros d Hd. rewrite app_length in Hd. cbn [walk]. unfold c16_body at 1. cbn [rdu nth_error of_opt bind].
        rewrite (W d) by lia. cbn [bind]. change (cerr_of_code (Z.to_N ext_success)) with CSuccess. cbn [is_error skipn bind].
        rewrite Em by (cbn [fst]; lia). cbn [fst snd]. rewrite app_length, rev_map_app. do 3 f_equal. lia.
    + (* out of range *)
      change (z2b (b2z (negb (ext_out_of_range =? ext_success)))) with true. cbv iota. rewrite z2b_b2z, Hv.
      change (cerr_of_code (Z.to_N ext_out_of_range)) with COutOfRange in W.
      destruct (is_check m) eqn:Em.
      * exists COutOfRange, []. split; [reflexivity|].
        intros [free w] Hd. cbn [walk]. unfold c16_body at 1. cbn [rdu nth_error of_opt bind].
        rewrite (W (free, w)) by (cbn; lia). cbn [bind is_error]. unfold on_error16. rewrite Em.
        cbn [fst snd length map rev app bind]. rewrite Nat.sub_0_r. reflexivity.
      * destruct (IH ((out ++ []) ++ [wrapu 16 ext_badchar_substitute]) (i + 1) p a b fm fs At (shows_tail _ _ _ _ _ R) ltac:(lia) ltac:(lia))
          as (e & ws & Es & Emod).
        exists e, (wrapu 16 ext_badchar_substitute :: ws). split.
        -- rewrite Es. rewrite app_nil_r, <- app_assoc. reflexivity.
        -- intros [free w] Hd. cbn [fst snd length] in Hd. destruct free as [|free]; [lia|].
           cbn [walk]. unfold c16_body at 1. cbn [rdu nth_error of_opt bind].
           rewrite (W (S free, w)) by (cbn; lia). cbn [bind is_error fst snd length map rev app Nat.sub]. unfold on_error16. rewrite Em.
           rewrite push16_ok. cbn [bind skipn].
           rewrite (Emod (free, _)) by (cbn [fst]; lia). cbn [fst snd length map rev Nat.sub].
           rewrite <- app_assoc. cbn [app]. reflexivity.
Qed.

Definition mode_code (m : vmode) : Z :=
  match m with AssumeValid => ext_assume_valid | SubstituteInvalid => ext_substitute_invalid | CheckValidity => ext_check_validity end.

Theorem utf16_convert_from_utf32_matches_source l m fuel : all_lt 4294967296 l = true -> (length l < fuel)%nat ->
  exists e ws, src_utf16_convert_from_utf32 fuel (arr32 l) (Z.of_nat (length l)) (mode_code m) = Some (Z.of_N (cerr_code e), ws) /\
    forall d : dst, (length ws <= fst d)%nat ->
      utf16_convert_from_utf32 d l m = Ok (e, ((fst d - length ws)%nat, rev (map unit16_of ws) ++ snd d)).
Proof.
  intros A Hf. unfold src_utf16_convert_from_utf32, utf16_convert_from_utf32. cbv zeta.
  assert (Hv : (mode_code m =? ext_check_validity) = is_check m) by (destruct m; reflexivity).
  destruct (c16_loop_matches m (mode_code m) Hv l [] 0 (arr32 l) 0 (Z.of_nat (length l)) (S (length l)) fuel A (shows_arr32 l) ltac:(lia) Hf)
    as (e & ws & Es & Em).
  exists e, ws. split; [exact Es|]. intros d Hd. fold (c16_body m). exact (Em d Hd).
Qed.

(* ---- utf8_convert_from_utf32 ---- *)
Lemma write8_shape n : (n < 4294967296)%N ->
  (exists ws, src_write_utf8 (Z.of_N n) = (ext_success, ws) /\ (length ws <= 4)%nat) \/
  src_write_utf8 (Z.of_N n) = (ext_out_of_range, []).
Proof.
  intros Hn. rewrite src_write_utf8_eq.
  destruct (z2b (b2z (wrapu 32 (Z.of_N n) <? wrapu 32 128))); [left; eexists; split; [reflexivity|cbn; lia]|].
  destruct (z2b (b2z (wrapu 32 (Z.of_N n) <? wrapu 32 2048))); [left; eexists; split; [reflexivity|cbn; lia]|].
  destruct (z2b (b2z (wrapu 32 (Z.of_N n) <? wrapu 32 65536))); [left; eexists; split; [reflexivity|cbn; lia]|].
  destruct (z2b (b2z (wrapu 32 (Z.of_N n) <=? wrapu 32 1114111))); [left; eexists; split; [reflexivity|cbn; lia]|].
  right. reflexivity.
Qed.

Definition subst8 : list Z := firstn (Z.to_nat ext_badchar_substitute_utf8_len) ext_arr_badchar_substitute_utf8.

Lemma c8_loop_S f p a b v sp ep out : src_utf8_convert_from_utf32_loop1 (S f) p a b v sp ep out =
  (if z2b (b2z (Z.ltb sp ep)) then
     let '(r, w) := src_write_utf8 (p sp) in
     if z2b (b2z (negb (Z.eqb r ext_success))) then
       if z2b (b2z (Z.eqb v ext_check_validity)) then Some (r, out ++ w)
       else src_utf8_convert_from_utf32_loop1 f p a b v (sp + 1) ep ((out ++ w) ++ subst8)
     else src_utf8_convert_from_utf32_loop1 f p a b v (sp + 1) ep (out ++ w)
   else Some (ext_success, out)).
Proof. cbv beta iota zeta delta [src_utf8_convert_from_utf32_loop1 subst8]. destruct (src_write_utf8 (p sp)). reflexivity. Qed.

Definition c8_body (m : vmode) := fun (s : list N) (d : dst) =>
  ch <- rdu s 0 ;;
  '(error, d') <- write_utf8 d ch ;;
  if is_error error then on_error8 m error (skipn 1 s) d'
  else Ok (Continue (skipn 1 s) d').

(* the three substitute bytes, as the translated code stores them and as the model pushes them *)
Lemma subst8_length : length subst8 = 3%nat. Proof. reflexivity. Qed.
Lemma subst8_pushed free w : (3 <= free)%nat ->
  push_all8 (free, w) badchar_substitute_utf8 = Ok ((free - length subst8)%nat, rev (map byte_of subst8) ++ w).
Proof. intros H. destruct free as [|[|[|free]]]; try lia. rewrite subst8_length. cbn [Nat.sub]. rewrite Nat.sub_0_r. reflexivity. Qed.

Theorem c8_loop_matches m v : (Z.eqb v ext_check_validity) = is_check m ->
  forall s out i p a b fm fs, all_lt 4294967296 s = true -> shows Z.of_N p i s ->
  (length s < fm)%nat -> (length s < fs)%nat ->
  exists e ws, src_utf8_convert_from_utf32_loop1 fs p a b v i (i + Z.of_nat (length s)) out = Some (Z.of_N (cerr_code e), out ++ ws) /\
    forall d : dst, (length ws <= fst d)%nat ->
      walk (c8_body m) fm s d = Ok (e, ((fst d - length ws)%nat, rev (map byte_of ws) ++ snd d)).
Proof.
  intros Hv. induction s as [|c t IH]; intros out i p a b fm fs A R Hfm Hfs;
    (destruct fm as [|fm]; [cbn in Hfm; lia|]); (destruct fs as [|fs]; [cbn in Hfs; lia|]).
  - exists CSuccess, []. split.
    + rewrite c8_loop_S. cbn [length]. replace (i <? i + Z.of_nat 0) with false by lia. cbn [b2z z2b Z.eqb negb].
      rewrite app_nil_r. reflexivity.
    + intros [free w] _. cbn [walk fst snd length map rev app]. repeat f_equal. lia.
  - destruct (all_lt_cons _ _ _ A) as [Hc At]. pose proof (write_utf8_matches_source c Hc) as W.
    rewrite c8_loop_S. cbn [length]. replace (i <? i + Z.of_nat (S (length t))) with true by lia.
    cbn [b2z z2b Z.eqb negb]. rewrite (shows_head _ _ _ _ _ R).
    replace (i + Z.of_nat (S (length t))) with (i + 1 + Z.of_nat (length t)) by lia.
    cbn [length] in Hfm, Hfs.
    destruct (write8_shape c Hc) as [(wc & Ew & Lw) | Ew]; rewrite Ew in W |- *; unfold write_ok in W; cbn [fst snd] in W.
    + change (z2b (b2z (negb (ext_success =? ext_success)))) with false. cbv iota.
      destruct (IH (out ++ wc) (i + 1) p a b fm fs At (shows_tail _ _ _ _ _ R) ltac:(lia) ltac:(lia)) as (e & ws & Es & Em).
      exists e, (wc ++ ws). split.
      * rewrite Es. rewrite <- app_assoc. reflexivity.
      * intros d Hd. rewrite app_length in Hd. cbn [walk]. unfold c8_body at 1. cbn [rdu nth_error of_opt bind].
        rewrite (W d) by lia. cbn [bind]. change (cerr_of_code (Z.to_N ext_success)) with CSuccess. cbn [is_error skipn bind].
        rewrite Em by (cbn [fst]; lia). cbn [fst snd]. rewrite app_length, rev_map_app. do 3 f_equal. lia.
    + change (z2b (b2z (negb (ext_out_of_range =? ext_success)))) with true. cbv iota. rewrite z2b_b2z, Hv.
      change (cerr_of_code (Z.to_N ext_out_of_range)) with COutOfRange in W.
      destruct (is_check m) eqn:Em.
      * exists COutOfRange, []. split; [reflexivity|].
        intros [free w] Hd. cbn [walk]. unfold c8_body at 1. cbn [rdu nth_error of_opt bind].
        rewrite (W (free, w)) by (cbn; lia). cbn [bind is_error]. unfold on_error8. rewrite Em.
        cbn [fst snd length map rev app bind]. rewrite Nat.sub_0_r. reflexivity.
      * destruct (IH ((out ++ []) ++ subst8) (i + 1) p a b fm fs At (shows_tail _ _ _ _ _ R) ltac:(lia) ltac:(lia))
          as (e & ws & Es & Emod).
        exists e, (subst8 ++ ws). split.
        -- rewrite Es. rewrite app_nil_r, <- app_assoc. reflexivity.
        -- intros [free w] Hd. rewrite app_length, subst8_length in Hd. cbn [fst snd] in Hd.
           cbn [walk]. unfold c8_body at 1. cbn [rdu nth_error of_opt bind].
           rewrite (W (free, w)) by (cbn; lia). cbn [bind is_error fst snd length map rev app]. rewrite Nat.sub_0_r. unfold on_error8. rewrite Em.
           rewrite (subst8_pushed free w) by lia. cbn [bind skipn].
           rewrite Emod by (cbn [fst]; rewrite subst8_length; lia). cbn [fst snd].
           rewrite app_length, rev_map_app. do 3 f_equal. lia.
Qed.

Theorem utf8_convert_from_utf32_matches_source l m fuel : all_lt 4294967296 l = true -> (length l < fuel)%nat ->
  exists e ws, src_utf8_convert_from_utf32 fuel (arr32 l) (Z.of_nat (length l)) (mode_code m) = Some (Z.of_N (cerr_code e), ws) /\
    forall d : dst, (length ws <= fst d)%nat ->
      utf8_convert_from_utf32 d l m = Ok (e, ((fst d - length ws)%nat, rev (map byte_of ws) ++ snd d)).
Proof.
  intros A Hf. unfold src_utf8_convert_from_utf32, utf8_convert_from_utf32. cbv zeta.
  assert (Hv : (mode_code m =? ext_check_validity) = is_check m) by (destruct m; reflexivity).
  destruct (c8_loop_matches m (mode_code m) Hv l [] 0 (arr32 l) 0 (Z.of_nat (length l)) (S (length l)) fuel A (shows_arr32 l) ltac:(lia) Hf)
    as (e & ws & Es & Em).
  exists e, ws. split; [exact Es|]. intros d Hd. fold (c8_body m). exact (Em d Hd).
Qed.

Example convert32_utf8_example :
  option_map (fun r => (fst r, map byte_of (snd r))) (src_utf8_convert_from_utf32 9 (arr32 [65; 8364; 1114112]%N) 3 ext_substitute_invalid)
    = Some (0, [65; 0xE2; 0x82; 0xAC; 0xEF; 0xBF; 0xBD]%N) /\
  utf8_convert_from_utf32 (7%nat, []) [65; 8364; 1114112]%N SubstituteInvalid = Ok (CSuccess, (0%nat, [0xBD; 0xBF; 0xEF; 0xAC; 0x82; 0xE2; 65]%N)).
Proof. vm_compute. split; reflexivity. Qed.

Example convert32_example :
  src_utf16_convert_from_utf32 9 (arr32 [65; 128512; 1114112; 66]%N) 4 ext_substitute_invalid = Some (0, [65; 55357; 56832; 65533; 66]) /\
  src_utf16_convert_from_utf32 9 (arr32 [65; 128512; 1114112; 66]%N) 4 ext_check_validity = Some (4, [65; 55357; 56832]) /\
  utf16_convert_from_utf32 (5%nat, []) [65; 128512; 1114112; 66]%N SubstituteInvalid = Ok (CSuccess, (0%nat, [66; 65533; 56832; 55357; 65]%N)).
Proof. vm_compute. repeat split; reflexivity. Qed.
