(* Utf/Spec.v — what C01 says, with no code structure.
   The standard encodings of a Unicode scalar value, written from the tables of
   the Unicode standard (chapter 3, tables 3-5 and 3-6) by range, with / and
   mod (not the masks and shifts of the code).                                *)
From Coq Require Import NArith List Bool.
From ST Require Import Base.Units.
Import ListNotations.
Local Open Scope N_scope.

(* UTF-8: 1..4 bytes by range *)
Definition utf8_enc (c : N) : list N :=
  if c <? 0x80 then [c]
  else if c <? 0x800 then [0xC0 + c / 64; 0x80 + c mod 64]
  else if c <? 0x10000 then [0xE0 + c / 4096; 0x80 + (c / 64) mod 64; 0x80 + c mod 64]
  else [0xF0 + c / 262144; 0x80 + (c / 4096) mod 64; 0x80 + (c / 64) mod 64; 0x80 + c mod 64].

(* UTF-16: one unit below 0x10000, else high + low surrogate *)
Definition utf16_enc (c : N) : list N :=
  if c <? 0x10000 then [c]
  else [0xD800 + (c - 0x10000) / 1024; 0xDC00 + (c - 0x10000) mod 1024].

Definition utf32_enc (c : N) : list N := [c].

Definition enc8 (l : list N) : list N := flat_map utf8_enc l.
Definition enc16 (l : list N) : list N := flat_map utf16_enc l.
Definition enc32 (l : list N) : list N := flat_map utf32_enc l.

(* Latin-1: byte b IS the scalar value b *)
Definition latin1_to_scalars (b : list N) : list N := b.

(* the four encodings the library converts between *)
Inductive encoding := E8 | E16 | E32 | EL1.

Definition enc (e : encoding) (l : list N) : list N :=
  match e with
  | E8 => enc8 l
  | E16 => enc16 l
  | E32 => enc32 l
  | EL1 => l          (* only meaningful when every value is < 0x100 *)
  end.

(* unit width of an encoding, as an exclusive bound on unit values *)
Definition unit_bound (e : encoding) : N :=
  match e with E8 => 256 | E16 => 65536 | E32 => 4294967296 | EL1 => 256 end.

(* ST::utf_validation_t *)
Inductive vmode := AssumeValid | SubstituteInvalid | CheckValidity.
