(* Utf/SourceFit.v — the two passes of ST::latin_1_to_utf8 / ST::string::from_latin_1 as TRANSLATED from the current
   headers fit each other: for a Latin-1 string of any length, the number the translated measuring pass
   utf8_measure_from_latin_1 returns — the size the caller allocates — is exactly the number of bytes the translated
   converting pass utf8_convert_from_latin_1 stores.  The buffer is filled exactly: never overrun, never left partly
   unwritten.  (The model-level statement is C03's passes_agree; this one is about the code found in the headers.) *)
From Coq Require Import NArith ZArith List Bool Lia ZifyBool ZifyNat ZifyN.
From ST Require Import Base.Outcome Base.Units Utf.Spec Utf.Tokens Utf.Model Utf.ProofsTok Utf.ProofsWalk Utf.ProofsGeneric Utf.ProofsFromL1 Utf.ProofsFrom32
  Gen.Leaf Utf.LoopBridge Utf.LoopBridgeWrite Utf.LoopBridgeConvertL1 Utf.LoopBridgeConvert32.
Import ListNotations.
Local Open Scope Z_scope.

Theorem latin_1_to_utf8_source_passes_fit l fuel : all_lt 256 l = true ->
  4 * Z.of_nat (length l) < 18446744073709551616 -> (length l < fuel)%nat ->
  exists ws, src_utf8_convert_from_latin_1 fuel (arr8s l) (Z.of_nat (length l)) = Some ws /\
             src_utf8_measure_from_latin_1 fuel (arr8s l) (Z.of_nat (length l)) = Some (Z.of_nat (length ws)).
Proof.
  intros A Hb Hf.
  destruct (utf8_convert_from_latin_1_matches_source l fuel A Hf) as (ws & Es & Em).
  destruct (utf8_measure_from_latin_1_matches_source l fuel A Hb Hf) as (n & Mn & Ms).
  exists ws. split; [exact Es|]. rewrite Ms. f_equal. f_equal.
  rewrite (utf8_measure_from_latin_1_tokens l A) in Mn. inversion Mn as [Hn]. clear Mn.
  set (ts := tok EL1 l) in *. set (po := pieces_out (pcL1 T8) ts).
  pose (d := ((length ws + length (fst po))%nat, @nil N)).
  pose proof (Em d ltac:(cbn; lia)) as H1.
  rewrite (utf8_convert_from_latin_1_tokens d l A) in H1. fold ts in H1.
  unfold d in H1. rewrite (twalk_emit (pcL1 T8) ts) in H1 by (fold po; lia). fold po in H1.
  inversion H1 as [[He Hr Hw]]. cbn [fst] in Hr.
  assert (Hlen : length (fst po) = length ws) by lia.
  destruct (pieces_out_cost (pcL1 T8) (mcost T8)) with (ts := ts) as [_ L2].
  - intros t l0. unfold pcL1. apply pc_cost. discriminate.
  - intros t e H E. subst e. unfold pcL1 in H. exact (pc_real_error _ _ _ _ _ _ H).
  - fold po in L2. rewrite <- (L2 He). exact Hlen.
Qed.

(* the same for the passes that can stop at an error (check_validity): what the translated converting pass stores never
   exceeds what the translated measuring pass returned, and equals it when the pass reports success *)
Lemma fit_core pcf cost ts (convert : dst -> outcome (cerr * dst)) e (k : nat) (out : list N) :
  (forall d, convert d = twalk (emit_tb pcf) ts d) ->
  (forall t l, pcf t = inl l -> length l = cost t) ->
  (forall t er, pcf t = inr er -> real_error er) ->
  (forall d : dst, (k <= fst d)%nat -> convert d = Ok (e, ((fst d - k)%nat, out ++ snd d))) ->
  (k <= total_cost cost ts)%nat /\ (e = CSuccess -> k = total_cost cost ts).
Proof.
  intros HC Hc He Em. set (po := pieces_out pcf ts).
  pose (d := ((k + length (fst po))%nat, @nil N)).
  pose proof (Em d ltac:(cbn; lia)) as H1. rewrite HC in H1.
  unfold d in H1. rewrite (twalk_emit pcf ts) in H1 by (fold po; lia). fold po in H1.
  inversion H1 as [[He1 Hr Hw]]. cbn [fst] in Hr.
  assert (Hlen : length (fst po) = k) by lia.
  assert (He' : forall t er, pcf t = inr er -> er <> CSuccess).
  { intros t er H E. subst er. exact (He t _ H). }
  destruct (pieces_out_cost pcf cost Hc He' ts) as [L1 L2]. fold po in L1, L2.
  split; [lia|]. intros E. rewrite <- Hlen. apply L2. congruence.
Qed.

Theorem utf32_to_utf8_source_passes_fit l m fuel : all_lt 4294967296 l = true ->
  4 * Z.of_nat (length l) < 18446744073709551616 -> (length l < fuel)%nat ->
  exists e ws n, src_utf8_convert_from_utf32 fuel (arr32 l) (Z.of_nat (length l)) (mode_code m) = Some (Z.of_N (cerr_code e), ws) /\
                 src_utf8_measure_from_utf32 fuel (arr32 l) (Z.of_nat (length l)) = Some (Z.of_nat n) /\
                 (length ws <= n)%nat /\ (e = CSuccess -> length ws = n).
Proof.
  intros A Hb Hf.
  destruct (utf8_convert_from_utf32_matches_source l m fuel A Hf) as (e & ws & Es & Em).
  destruct (utf8_measure_from_utf32_matches_source l fuel A Hb Hf) as (n & Mn & Ms).
  exists e, ws, n. split; [exact Es|]. split; [exact Ms|].
  rewrite (utf8_measure_from_utf32_tokens l A) in Mn. inversion Mn as [Hn].
  apply (fit_core (pc E32 T8 m false) (mcost T8) (tok E32 l) (fun d => utf8_convert_from_utf32 d l m) e (length ws) (rev (map byte_of ws))).
  - intros d. apply utf8_convert_from_utf32_tokens. exact A.
  - intros t l0. apply pc_cost. discriminate.
  - intros t er. apply pc_real_error.
  - exact Em.
Qed.

Theorem utf32_to_utf16_source_passes_fit l m fuel : all_lt 4294967296 l = true ->
  4 * Z.of_nat (length l) < 18446744073709551616 -> (length l < fuel)%nat ->
  exists e ws n, src_utf16_convert_from_utf32 fuel (arr32 l) (Z.of_nat (length l)) (mode_code m) = Some (Z.of_N (cerr_code e), ws) /\
                 src_utf16_measure_from_utf32 fuel (arr32 l) (Z.of_nat (length l)) = Some (Z.of_nat n) /\
                 (length ws <= n)%nat /\ (e = CSuccess -> length ws = n).
Proof.
  intros A Hb Hf.
  destruct (utf16_convert_from_utf32_matches_source l m fuel A Hf) as (e & ws & Es & Em).
  destruct (utf16_measure_from_utf32_matches_source l fuel A Hb Hf) as (n & Mn & Ms).
  exists e, ws, n. split; [exact Es|]. split; [exact Ms|].
  rewrite (utf16_measure_from_utf32_tokens l A) in Mn. inversion Mn as [Hn].
  apply (fit_core (pc E32 T16 m false) (mcost T16) (tok E32 l) (fun d => utf16_convert_from_utf32 d l m) e (length ws) (rev (map unit16_of ws))).
  - intros d. apply utf16_convert_from_utf32_tokens. exact A.
  - intros t l0. apply pc_cost. discriminate.
  - intros t er. apply pc_real_error.
  - exact Em.
Qed.
