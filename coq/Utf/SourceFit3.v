(* Utf/SourceFit3.v — source-level fit of the two passes, the conversions to Latin-1 (see Utf/SourceFit.v).  In the
   headers latin_1_measure_from_utf8 / latin_1_measure_from_utf16 are one-line forwards to utf32_measure_from_utf8 /
   utf32_measure_from_utf16 (not translated; the forward is covered by the correspondence check), so the statements are
   about those.  utf32_to_latin_1 has no measuring pass: it allocates `size` cells, and the translated converting pass
   stores at most `size` bytes, exactly `size` on success.  Every validation mode, both settings of
   substitute_out_of_range. *)
From Coq Require Import NArith ZArith List Bool Lia ZifyBool ZifyNat ZifyN.
From ST Require Import Base.Outcome Base.Units Utf.Spec Utf.Tokens Utf.Model Utf.ProofsTok Utf.ProofsWalk Utf.ProofsGeneric
  Utf.ProofsFrom8 Utf.ProofsFrom16 Utf.ProofsFrom32 Gen.Leaf Utf.LoopBridge Utf.LoopBridgeWrite Utf.LoopBridgeMeasure
  Utf.LoopBridgeConvert32 Utf.LoopBridgeLatin1 Utf.SourceFit.
Import ListNotations.
Local Open Scope Z_scope.

Theorem utf8_to_latin_1_source_passes_fit l m (sub : bool) fuel : all_lt 256 l = true ->
  4 * Z.of_nat (length l) < 18446744073709551616 -> (length l < fuel)%nat ->
  exists e ws n, src_latin_1_convert_from_utf8 fuel (arr8s l) (Z.of_nat (length l)) (mode_code m) (b2z sub) = Some (Z.of_N (cerr_code e), ws) /\
                 src_utf32_measure_from_utf8 fuel (arr8s l) (Z.of_nat (length l)) = Some (Z.of_nat n) /\
                 (length ws <= n)%nat /\ (e = CSuccess -> length ws = n).
Proof.
  intros A Hb Hf.
  destruct (latin_1_convert_from_utf8_matches_source l m sub fuel A Hf) as (e & ws & Es & Em).
  destruct (utf32_measure_from_utf8_matches_source l fuel A Hb Hf) as (n & Mn & Ms).
  exists e, ws, n. split; [exact Es|]. split; [exact Ms|].
  rewrite (utf32_measure_from_utf8_tokens l A) in Mn. inversion Mn as [Hn].
  change (mcost T32) with (mcost TL1).
  apply (fit_core (pc E8 TL1 m sub) (mcost TL1) (tok E8 l) (fun d => latin_1_convert_from_utf8 d l m sub) e (length ws) (rev (map byte_of ws))).
  - intros d. apply latin_1_convert_from_utf8_tokens. exact A.
  - intros t l0. apply pc_cost. discriminate.
  - intros t er. apply pc_real_error.
  - exact Em.
Qed.

Theorem utf16_to_latin_1_source_passes_fit l m (sub : bool) fuel : all_lt 65536 l = true ->
  4 * Z.of_nat (length l) < 18446744073709551616 -> (length l < fuel)%nat ->
  exists e ws n, src_latin_1_convert_from_utf16 fuel (arr32 l) (Z.of_nat (length l)) (mode_code m) (b2z sub) = Some (Z.of_N (cerr_code e), ws) /\
                 src_utf32_measure_from_utf16 fuel (arr32 l) (Z.of_nat (length l)) = Some (Z.of_nat n) /\
                 (length ws <= n)%nat /\ (e = CSuccess -> length ws = n).
Proof.
  intros A Hb Hf.
  destruct (latin_1_convert_from_utf16_matches_source l m sub fuel A Hf) as (e & ws & Es & Em).
  destruct (utf32_measure_from_utf16_matches_source l fuel A Hb Hf) as (n & Mn & Ms).
  exists e, ws, n. split; [exact Es|]. split; [exact Ms|].
  rewrite (utf32_measure_from_utf16_tokens l A) in Mn. inversion Mn as [Hn].
  change (mcost T32) with (mcost TL1).
  apply (fit_core (pc E16 TL1 m sub) (mcost TL1) (tok E16 l) (fun d => latin_1_convert_from_utf16 d l m sub) e (length ws) (rev (map byte_of ws))).
  - intros d. apply latin_1_convert_from_utf16_tokens. exact A.
  - intros t l0. apply pc_cost. discriminate.
  - intros t er. apply pc_real_error.
  - exact Em.
Qed.

Theorem utf32_to_latin_1_source_pass_fits l m (sub : bool) fuel : all_lt 4294967296 l = true -> (length l < fuel)%nat ->
  exists e ws, src_latin_1_convert_from_utf32 fuel (arr32 l) (Z.of_nat (length l)) (mode_code m) (b2z sub) = Some (Z.of_N (cerr_code e), ws) /\
               (length ws <= length l)%nat /\ (e = CSuccess -> length ws = length l).
Proof.
  intros A Hf.
  destruct (latin_1_convert_from_utf32_matches_source l m sub fuel A Hf) as (e & ws & Es & Em).
  exists e, ws. split; [exact Es|].
  rewrite <- (tok32_count l).
  apply (fit_core (pc E32 TL1 m sub) (mcost TL1) (tok E32 l) (fun d => latin_1_convert_from_utf32 d l m sub) e (length ws) (rev (map byte_of ws))).
  - intros d. apply latin_1_convert_from_utf32_tokens. exact A.
  - intros t l0. apply pc_cost. discriminate.
  - intros t er. apply pc_real_error.
  - exact Em.
Qed.
