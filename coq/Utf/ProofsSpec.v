(* Utf/ProofsSpec.v — facts about the specification alone: the tokeniser reads the
   standard encoding of a scalar sequence back as the same scalars (so the reference
   result on well-formed text is the standard encoding, whatever the mode), unit
   ranges of the standard encodings.                                              *)
From Coq Require Import NArith ZArith Arith List Bool Lia ZifyN ZifyBool.
From ST Require Import Base.Units Utf.Spec Utf.Tokens Utf.ProofsWalk.
Import ListNotations.
Local Open Scope N_scope.

Local Ltac Zify.zify_post_hook ::= Z.div_mod_to_equations.

Ltac range_true := unfold is_cont, is_hi, is_lo, in_range; apply andb_true_iff; split; apply N.leb_le; lia.

Lemma scalar_bounds c : is_scalar c = true -> c <= 0x10FFFF /\ (c < 0xD800 \/ 0xDFFF < c).
Proof.
  unfold is_scalar. intros H. apply orb_true_iff in H. destruct H as [H|H].
  - apply N.ltb_lt in H. lia.
  - apply andb_true_iff in H. destruct H as [H1 H2]. apply N.ltb_lt in H1. apply N.leb_le in H2. lia.
Qed.

(* ---- the tokeniser on one standard encoding followed by anything ---- *)
Lemma step8_enc c rest : c < 0x200000 -> step8 (utf8_enc c ++ rest) = Some (Good (utf8_enc c) c, rest).
Proof.
  intros H. unfold utf8_enc.
  destruct (c <? 128) eqn:L0.
  { cbn [app step8]. rewrite L0. reflexivity. }
  apply N.ltb_ge in L0.
  destruct (c <? 2048) eqn:L1.
  { apply N.ltb_lt in L1. cbn [app step8].
    assert ((192 + c / 64 <? 128) = false) as -> by (apply N.ltb_ge; lia).
    assert (in_range 192 223 (192 + c / 64) = true) as -> by range_true.
    assert (is_cont (128 + c mod 64) = true) as -> by range_true.
    do 3 f_equal. lia. }
  apply N.ltb_ge in L1.
  destruct (c <? 65536) eqn:L2.
  { apply N.ltb_lt in L2. cbn [app step8].
    assert ((224 + c / 4096 <? 128) = false) as -> by (apply N.ltb_ge; lia).
    assert (in_range 192 223 (224 + c / 4096) = false) as ->
        by (unfold in_range; apply andb_false_iff; right; apply N.leb_gt; lia).
    assert (in_range 224 239 (224 + c / 4096) = true) as -> by range_true.
    assert (is_cont (128 + (c / 64) mod 64) = true) as -> by range_true.
    assert (is_cont (128 + c mod 64) = true) as -> by range_true.
    cbn [andb]. do 3 f_equal. lia. }
  apply N.ltb_ge in L2. cbn [app step8].
  assert ((240 + c / 262144 <? 128) = false) as -> by (apply N.ltb_ge; lia).
  assert (in_range 192 223 (240 + c / 262144) = false) as ->
      by (unfold in_range; apply andb_false_iff; right; apply N.leb_gt; lia).
  assert (in_range 224 239 (240 + c / 262144) = false) as ->
      by (unfold in_range; apply andb_false_iff; right; apply N.leb_gt; lia).
  assert (in_range 240 247 (240 + c / 262144) = true) as -> by range_true.
  assert (is_cont (128 + (c / 4096) mod 64) = true) as -> by range_true.
  assert (is_cont (128 + (c / 64) mod 64) = true) as -> by range_true.
  assert (is_cont (128 + c mod 64) = true) as -> by range_true.
  cbn [andb]. do 3 f_equal. lia.
Qed.

Lemma step16_enc c rest : is_scalar c = true -> step16 (utf16_enc c ++ rest) = Some (Good (utf16_enc c) c, rest).
Proof.
  intros S. destruct (scalar_bounds c S) as [H1 H2]. unfold utf16_enc.
  destruct (c <? 65536) eqn:L.
  { apply N.ltb_lt in L. cbn [app step16].
    assert (is_hi c = false) as ->.
    { unfold is_hi, in_range. apply andb_false_iff. destruct H2; [left|right]; apply N.leb_gt; lia. }
    assert (is_lo c = false) as ->.
    { unfold is_lo, in_range. apply andb_false_iff. destruct H2; [left|right]; apply N.leb_gt; lia. }
    reflexivity. }
  apply N.ltb_ge in L. cbn [app step16].
  assert (is_hi (55296 + (c - 65536) / 1024) = true) as -> by range_true.
  assert (is_lo (56320 + (c - 65536) mod 1024) = true) as -> by range_true.
  do 3 f_equal. unfold pair_value. lia.
Qed.

Lemma step32_enc c rest : c <= 0x10FFFF -> step32 (utf32_enc c ++ rest) = Some (Good (utf32_enc c) c, rest).
Proof. intros H. cbn [utf32_enc app step32]. apply N.leb_le in H. rewrite H. reflexivity. Qed.

Definition enc1 (e : encoding) (c : N) : list N :=
  match e with E8 => utf8_enc c | E16 => utf16_enc c | E32 => utf32_enc c | EL1 => [c] end.

Lemma enc_flat e l : enc e l = flat_map (enc1 e) l.
Proof.
  destruct e; try reflexivity. cbn [enc]. induction l as [|c l IH]; [reflexivity|]. cbn [flat_map enc1 app]. f_equal. exact IH.
Qed.

Lemma step_enc e c rest : is_scalar c = true -> step e (enc1 e c ++ rest) = Some (Good (enc1 e c) c, rest).
Proof.
  intros S. destruct (scalar_bounds c S) as [H1 H2]. destruct e; cbn [step enc1].
  - apply step8_enc. lia.
  - apply step16_enc. exact S.
  - apply step32_enc. exact H1.
  - reflexivity.
Qed.

(* the standard encoding of a scalar sequence tokenises to those scalars *)
Lemma tok_enc e l : scalars l = true -> tok e (enc e l) = map (fun c => Good (enc1 e c) c) l.
Proof.
  rewrite enc_flat. induction l as [|c l IH]; intros S; [apply tok_nil|].
  cbn [scalars forallb] in S. apply andb_true_iff in S. destruct S as [S1 S2].
  cbn [flat_map map]. rewrite (tok_step e _ _ _ (step_enc e c _ S1)). f_equal. apply IH. exact S2.
Qed.

Lemma WF_enc e l : scalars l = true -> WF e (enc e l) = true.
Proof.
  intros S. unfold WF. rewrite (tok_enc e l S). apply negb_true_iff.
  induction l as [|c l IH]; [reflexivity|]. cbn [map existsb is_bad orb].
  cbn [scalars forallb] in S. apply andb_true_iff in S. apply IH. tauto.
Qed.

(* ---- the reference result on well-formed text: the standard encoding, in every mode ---- *)
Definition target_enc (tg : target) : encoding :=
  match tg with TS | T8 => E8 | T16 => E16 | T32 => E32 | TL1 => EL1 end.

Lemma repair_enc e tg m sub l : scalars l = true -> tg <> TL1 -> (tg = TS -> e = E8) ->
  repair tg m sub (map (fun c => Good (enc1 e c) c) l) = SOk (enc (target_enc tg) l).
Proof.
  intros S NL HS. rewrite enc_flat. unfold repair. induction l as [|c l IH]; [reflexivity|].
  cbn [scalars forallb] in S. apply andb_true_iff in S. destruct S as [S1 S2].
  destruct (scalar_bounds c S1) as [H1 H2]. apply N.leb_le in H1.
  cbn [map assemble flat_map]. rewrite (IH S2).
  destruct tg; try congruence; cbn [piece_of render target_enc enc1]; rewrite ?H1; try reflexivity.
  rewrite (HS eq_refl). reflexivity.
Qed.

Lemma no_unfixed e tg l : scalars l = true ->
  existsb (unfixed tg) (map (fun c => Good (enc1 e c) c) l) = false.
Proof.
  induction l as [|c l IH]; intros S; [reflexivity|].
  cbn [scalars forallb] in S. apply andb_true_iff in S. destruct S as [S1 S2].
  destruct (scalar_bounds c S1) as [H1 H2]. apply N.leb_le in H1.
  cbn [map existsb unfixed]. rewrite (IH S2). destruct tg; cbn; rewrite ?H1; reflexivity.
Qed.

Theorem spec_conv_wellformed e tg m sub l : scalars l = true -> tg <> TL1 -> (tg = TS -> e = E8) ->
  spec_conv e tg m sub (enc e l) = SOk (enc (target_enc tg) l).
Proof.
  intros S NL HS. unfold spec_conv, spec_tokens. rewrite (tok_enc e l S).
  destruct m; [rewrite (no_unfixed e tg l S)|..]; apply repair_enc; assumption.
Qed.

(* Latin-1 target: every value below 0x100 is kept, whatever the flag *)
Lemma repair_latin1 e m sub l : all_lt 256 l = true ->
  repair TL1 m sub (map (fun c => Good (enc1 e c) c) l) = SOk l.
Proof.
  unfold repair. induction l as [|c l IH]; intros A; [reflexivity|].
  unfold all_lt in A. cbn [forallb] in A. apply andb_true_iff in A. destruct A as [A1 A2].
  cbn [map assemble piece_of render]. rewrite A1. rewrite (IH A2). reflexivity.
Qed.

Lemma bytes_scalars l : all_lt 256 l = true -> scalars l = true.
Proof.
  unfold all_lt, scalars. induction l as [|c l IH]; [reflexivity|]. cbn [forallb]. intros A.
  apply andb_true_iff in A. destruct A as [A1 A2]. rewrite (IH A2), andb_true_r.
  unfold is_scalar. apply N.ltb_lt in A1. assert ((c <? 55296) = true) as -> by (apply N.ltb_lt; lia). reflexivity.
Qed.

Theorem spec_conv_latin1 e m sub l : all_lt 256 l = true ->
  spec_conv e TL1 m sub (enc e l) = SOk l.
Proof.
  intros A. pose proof (bytes_scalars l A) as S. unfold spec_conv, spec_tokens. rewrite (tok_enc e l S).
  destruct m; [rewrite (no_unfixed e TL1 l S)|..]; apply repair_latin1; exact A.
Qed.

(* ---- unit ranges of the standard encodings ---- *)
Lemma utf8_enc_bytes c : c < 0x200000 -> all_lt 256 (utf8_enc c) = true.
Proof.
  intros H. unfold utf8_enc, all_lt.
  destruct (c <? 128) eqn:L0; [apply N.ltb_lt in L0; cbn [forallb]; rewrite andb_true_r; apply N.ltb_lt; lia|].
  destruct (c <? 2048) eqn:L1.
  { apply N.ltb_lt in L1. cbn [forallb]. rewrite andb_true_r. apply andb_true_iff; split; apply N.ltb_lt; lia. }
  destruct (c <? 65536) eqn:L2.
  { apply N.ltb_lt in L2. cbn [forallb]. rewrite andb_true_r.
    repeat (apply andb_true_iff; split); apply N.ltb_lt; lia. }
  cbn [forallb]. rewrite andb_true_r. repeat (apply andb_true_iff; split); apply N.ltb_lt; lia.
Qed.

Lemma utf16_enc_units c : c <= 0x10FFFF -> all_lt 65536 (utf16_enc c) = true.
Proof.
  intros H. unfold utf16_enc, all_lt.
  destruct (c <? 65536) eqn:L0; [apply N.ltb_lt in L0; cbn [forallb]; rewrite andb_true_r; apply N.ltb_lt; lia|].
  apply N.ltb_ge in L0. cbn [forallb]. rewrite andb_true_r. apply andb_true_iff; split; apply N.ltb_lt; lia.
Qed.

Lemma enc_units e l : scalars l = true -> e <> EL1 -> all_lt (unit_bound e) (enc e l) = true.
Proof.
  intros S NL. rewrite enc_flat. induction l as [|c l IH]; [reflexivity|].
  cbn [scalars forallb] in S. apply andb_true_iff in S. destruct S as [S1 S2].
  destruct (scalar_bounds c S1) as [H1 H2].
  cbn [flat_map]. rewrite all_lt_app, (IH S2), andb_true_r.
  destruct e; try congruence; cbn [enc1 unit_bound].
  - apply utf8_enc_bytes. lia.
  - apply utf16_enc_units. exact H1.
  - unfold all_lt. cbn [utf32_enc forallb]. rewrite andb_true_r. apply N.ltb_lt. lia.
Qed.
