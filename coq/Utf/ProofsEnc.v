(* Utf/ProofsEnc.v — per-character facts about the encoders of the code, lifted from the
   sweeps: write_utf8 / write_utf16 store exactly the standard encoding, utf8_measure /
   utf16_measure are its length, values above 0x10FFFF are reported.               *)
From Coq Require Import NArith List Bool Lia.
From ST Require Import Base.Outcome Base.Sweep Base.Units Gen.Consts Utf.Spec Utf.Tokens Utf.Model
     Utf.EncForms Utf.SweepEnc8 Utf.SweepEnc16 Utf.ProofsWalk.
Import ListNotations.
Local Open Scope N_scope.
Local Open Scope outcome_scope.

Lemma w8_enc c : c <= 0x10FFFF -> w8 c = utf8_enc c.
Proof.
  intros H. rewrite <- utf8_enc_sm_eq. apply list_eqb_eq.
  pose proof (all_below_spec 21 _ sweep_enc8 c) as S. cbv beta in S.
  assert (L : c < 2 ^ N.of_nat 21) by (change (2 ^ N.of_nat 21) with 2097152; lia).
  specialize (S L). apply N.leb_le in H. rewrite H in S. exact S.
Qed.

Lemma w16_enc c : c <= 0x10FFFF -> w16 c = utf16_enc c.
Proof.
  intros H. rewrite <- utf16_enc_sm_eq. apply list_eqb_eq.
  pose proof (all_below_spec 21 _ sweep_enc16 c) as S. cbv beta in S.
  assert (L : c < 2 ^ N.of_nat 21) by (change (2 ^ N.of_nat 21) with 2097152; lia).
  specialize (S L). apply N.leb_le in H. rewrite H in S. exact S.
Qed.

(* write_utf8 is a sequence of pushes of w8 *)
Lemma write_utf8_w8 d ch : ch <= 0x10FFFF ->
  write_utf8 d ch = d' <- push_list d (w8 ch) ;; Ok (CSuccess, d').
Proof.
  intros H. unfold write_utf8, w8, push8.
  destruct (ch <? 128); [cbn [push_list]; destruct (push d _); reflexivity|].
  destruct (ch <? 2048).
  { cbn [push_list]. destruct (push d _) as [d1| | |]; cbn [bind]; try reflexivity.
    destruct (push d1 _); reflexivity. }
  destruct (ch <? 65536).
  { cbn [push_list]. destruct (push d _) as [d1| | |]; cbn [bind]; try reflexivity.
    destruct (push d1 _) as [d2| | |]; cbn [bind]; try reflexivity.
    destruct (push d2 _); reflexivity. }
  apply N.leb_le in H. rewrite H.
  cbn [push_list]. destruct (push d _) as [d1| | |]; cbn [bind]; try reflexivity.
  destruct (push d1 _) as [d2| | |]; cbn [bind]; try reflexivity.
  destruct (push d2 _) as [d3| | |]; cbn [bind]; try reflexivity.
  destruct (push d3 _); reflexivity.
Qed.

Lemma write_utf8_ok d ch : ch <= 0x10FFFF ->
  write_utf8 d ch = d' <- push_list d (utf8_enc ch) ;; Ok (CSuccess, d').
Proof. intros H. rewrite (write_utf8_w8 d ch H), (w8_enc ch H). reflexivity. Qed.

Lemma write_utf8_range d ch : 0x10FFFF < ch -> write_utf8 d ch = Ok (COutOfRange, d).
Proof.
  intros H. unfold write_utf8.
  assert ((ch <? 128) = false) as -> by (apply N.ltb_ge; lia).
  assert ((ch <? 2048) = false) as -> by (apply N.ltb_ge; lia).
  assert ((ch <? 65536) = false) as -> by (apply N.ltb_ge; lia).
  assert ((ch <=? 1114111) = false) as -> by (apply N.leb_gt; lia). reflexivity.
Qed.

Lemma utf8_measure_enc ch : ch <= 0x10FFFF -> utf8_measure ch = length (utf8_enc ch).
Proof.
  intros H. unfold utf8_measure, utf8_enc.
  destruct (ch <? 128); [reflexivity|]. destruct (ch <? 2048); [reflexivity|].
  destruct (ch <? 65536); [reflexivity|]. apply N.leb_le in H. rewrite H. reflexivity.
Qed.

Lemma utf8_measure_range ch : 0x10FFFF < ch -> utf8_measure ch = length badchar_substitute_utf8.
Proof.
  intros H. unfold utf8_measure.
  assert ((ch <? 128) = false) as -> by (apply N.ltb_ge; lia).
  assert ((ch <? 2048) = false) as -> by (apply N.ltb_ge; lia).
  assert ((ch <? 65536) = false) as -> by (apply N.ltb_ge; lia).
  assert ((ch <=? 1114111) = false) as -> by (apply N.leb_gt; lia). reflexivity.
Qed.

Lemma write_utf16_w16 d ch : ch <= 0x10FFFF ->
  write_utf16 d ch = d' <- push_list d (w16 ch) ;; Ok (CSuccess, d').
Proof.
  intros H. unfold write_utf16, w16, push16.
  destruct (ch <? 65536); [cbn [push_list]; destruct (push d _); reflexivity|].
  apply N.leb_le in H. rewrite H.
  cbn [push_list]. destruct (push d _) as [d1| | |]; cbn [bind]; try reflexivity.
  destruct (push d1 _); reflexivity.
Qed.

Lemma write_utf16_ok d ch : ch <= 0x10FFFF ->
  write_utf16 d ch = d' <- push_list d (utf16_enc ch) ;; Ok (CSuccess, d').
Proof. intros H. rewrite (write_utf16_w16 d ch H), (w16_enc ch H). reflexivity. Qed.

Lemma write_utf16_range d ch : 0x10FFFF < ch -> write_utf16 d ch = Ok (COutOfRange, d).
Proof.
  intros H. unfold write_utf16.
  assert ((ch <? 65536) = false) as -> by (apply N.ltb_ge; lia).
  assert ((ch <=? 1114111) = false) as -> by (apply N.leb_gt; lia). reflexivity.
Qed.

Lemma utf16_measure_enc ch : ch <= 0x10FFFF -> utf16_measure ch = length (utf16_enc ch).
Proof.
  intros H. unfold utf16_measure, utf16_enc.
  destruct (ch <? 65536); [reflexivity|].
  assert ((1114111 <? ch) = false) as -> by (apply N.ltb_ge; lia). reflexivity.
Qed.

Lemma utf16_measure_range ch : 0x10FFFF < ch -> utf16_measure ch = 1%nat.
Proof.
  intros H. unfold utf16_measure.
  assert ((1114111 <? ch) = true) as -> by (apply N.ltb_lt; lia). rewrite orb_true_r. reflexivity.
Qed.

(* the encodings are never empty *)
Lemma utf8_enc_nonempty c : utf8_enc c <> [].
Proof. unfold utf8_enc. destruct (c <? 128), (c <? 2048), (c <? 65536); discriminate. Qed.
Lemma utf16_enc_nonempty c : utf16_enc c <> [].
Proof. unfold utf16_enc. destruct (c <? 65536); discriminate. Qed.
