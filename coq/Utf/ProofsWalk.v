(* Utf/ProofsWalk.v — the tokeniser as an induction principle, the fuelled `walk`
   as a walk over tokens, destinations as lists.                              *)
From Coq Require Import NArith List Bool Lia Wf_nat Arith.
From ST Require Import Base.Outcome Base.Units Utf.Spec Utf.Tokens Utf.Model.
Import ListNotations.
Local Open Scope N_scope.
Local Open Scope outcome_scope.

(* ------------------------------------------------------------ the tokeniser *)
Lemma step_split e s t rest : step e s = Some (t, rest) -> s = tok_units t ++ rest /\ tok_units t <> [].
Proof.
  destruct e; cbn [step]; intros H.
  - (* UTF-8 *)
    destruct s as [|b0 s]; [discriminate|]. cbn [step8] in H.
    destruct (b0 <? 128); [inversion H; subst; cbn; split; [reflexivity|discriminate]|].
    destruct (in_range 192 223 b0).
    { destruct s as [|b1 s1]; [inversion H; subst; cbn; split; [reflexivity|discriminate]|].
      destruct (is_cont b1); inversion H; subst; cbn; split; (reflexivity || discriminate). }
    destruct (in_range 224 239 b0).
    { destruct s as [|b1 [|b2 s2]]; try (inversion H; subst; cbn; split; [reflexivity|discriminate]).
      destruct (is_cont b1 && is_cont b2); inversion H; subst; cbn; split; (reflexivity || discriminate). }
    destruct (in_range 240 247 b0).
    { destruct s as [|b1 [|b2 [|b3 s3]]]; try (inversion H; subst; cbn; split; [reflexivity|discriminate]).
      destruct (is_cont b1 && is_cont b2 && is_cont b3); inversion H; subst; cbn; split; (reflexivity || discriminate). }
    inversion H; subst; cbn; split; [reflexivity|discriminate].
  - (* UTF-16 *)
    destruct s as [|u0 s]; [discriminate|]. cbn [step16] in H.
    destruct (is_hi u0).
    { destruct s as [|u1 s1]; [inversion H; subst; cbn; split; [reflexivity|discriminate]|].
      destruct (is_lo u1); inversion H; subst; cbn; split; (reflexivity || discriminate). }
    destruct (is_lo u0).
    { destruct s as [|u1 s1]; [inversion H; subst; cbn; split; [reflexivity|discriminate]|].
      destruct (is_hi u1); inversion H; subst; cbn; split; (reflexivity || discriminate). }
    inversion H; subst; cbn; split; [reflexivity|discriminate].
  - destruct s as [|v s]; [discriminate|]. cbn [step32] in H.
    destruct (v <=? 1114111); inversion H; subst; cbn; split; (reflexivity || discriminate).
  - destruct s as [|v s]; [discriminate|]. cbn [stepL1] in H.
    inversion H; subst; cbn; split; (reflexivity || discriminate).
Qed.

Lemma step_nil e : step e [] = None.
Proof. destruct e; reflexivity. Qed.

Lemma step_cons e x s : exists t rest, step e (x :: s) = Some (t, rest).
Proof.
  destruct e; cbn [step].
  - cbn [step8]. destruct (x <? 128); [eauto|].
    destruct (in_range 192 223 x).
    { destruct s as [|b1 s1]; [eauto|]. destruct (is_cont b1); eauto. }
    destruct (in_range 224 239 x).
    { destruct s as [|b1 [|b2 s2]]; eauto. destruct (is_cont b1 && is_cont b2); eauto. }
    destruct (in_range 240 247 x).
    { destruct s as [|b1 [|b2 [|b3 s3]]]; eauto. destruct (is_cont b1 && is_cont b2 && is_cont b3); eauto. }
    eauto.
  - cbn [step16]. destruct (is_hi x).
    { destruct s as [|u1 s1]; [eauto|]. destruct (is_lo u1); eauto. }
    destruct (is_lo x).
    { destruct s as [|u1 s1]; [eauto|]. destruct (is_hi u1); eauto. }
    eauto.
  - cbn [step32]. destruct (x <=? 1114111); eauto.
  - cbn [stepL1]. eauto.
Qed.

Lemma step_shorter e s t rest : step e s = Some (t, rest) -> (length rest < length s)%nat.
Proof.
  intros H. destruct (step_split e s t rest H) as [E N]. rewrite E, app_length.
  destruct (tok_units t); [congruence|]. cbn. lia.
Qed.

Lemma step_ok e b s t rest : step e s = Some (t, rest) -> all_lt b s = true -> all_lt b rest = true.
Proof.
  intros H A. destruct (step_split e s t rest H) as [E _]. rewrite E, all_lt_app in A.
  apply andb_true_iff in A. tauto.
Qed.

Lemma step_ok_units e b s t rest : step e s = Some (t, rest) -> all_lt b s = true -> all_lt b (tok_units t) = true.
Proof.
  intros H A. destruct (step_split e s t rest H) as [E _]. rewrite E, all_lt_app in A.
  apply andb_true_iff in A. tauto.
Qed.

Lemma toks_fuel e : forall f1 f2 s, (length s <= f1)%nat -> (length s <= f2)%nat -> toks e f1 s = toks e f2 s.
Proof.
  induction f1 as [|f1 IH]; intros f2 s H1 H2.
  - destruct s; [|cbn in H1; lia]. destruct f2; cbn [toks]; rewrite ?step_nil; reflexivity.
  - destruct f2 as [|f2].
    + destruct s; [|cbn in H2; lia]. cbn [toks]. rewrite step_nil. reflexivity.
    + cbn [toks]. destruct (step e s) as [[t rest]|] eqn:E; [|reflexivity].
      f_equal. pose proof (step_shorter e s t rest E). apply IH; lia.
Qed.

Lemma tok_nil e : tok e [] = [].
Proof. reflexivity. Qed.

Lemma tok_step e s t rest : step e s = Some (t, rest) -> tok e s = t :: tok e rest.
Proof.
  intros H. unfold tok. destruct s as [|x s]; [rewrite step_nil in H; discriminate|].
  cbn [length toks]. rewrite H. f_equal.
  pose proof (step_shorter e _ t rest H) as L. cbn [length] in L. apply toks_fuel; lia.
Qed.

(* induction over the token structure of a sequence *)
Lemma tok_ind e (P : list N -> Prop) :
  P [] ->
  (forall s t rest, step e s = Some (t, rest) -> P rest -> P s) ->
  forall s, P s.
Proof.
  intros H0 HS s. remember (length s) as n eqn:En. revert s En.
  induction n as [n IH] using lt_wf_ind. intros s En.
  destruct s as [|x s]; [exact H0|].
  destruct (step_cons e x s) as (t & rest & E).
  apply (HS _ t rest E). apply (IH (length rest)); [|reflexivity].
  pose proof (step_shorter e _ t rest E). lia.
Qed.

(* units of the tokens are the sequence *)
Lemma tok_units_concat e s : flat_map tok_units (tok e s) = s.
Proof.
  induction s as [|s t rest E IH] using (tok_ind e); [reflexivity|].
  rewrite (tok_step e s t rest E). cbn [flat_map]. rewrite IH.
  symmetry. apply (step_split e s t rest E).
Qed.

(* ------------------------------------------------------- walk = walk over tokens *)
Fixpoint twalk {St : Type} (tb : token -> St -> outcome (St + cerr)) (ts : list token) (st : St)
  : outcome (cerr * St) :=
  match ts with
  | [] => Ok (CSuccess, st)
  | t :: r =>
      x <- tb t st ;;
      match x with
      | inl st' => twalk tb r st'
      | inr e => Ok (e, st)
      end
  end.

Definition lift_step {St : Type} (rest : list N) (x : outcome (St + cerr)) : outcome (step_result St) :=
  y <- x ;; Ok (match y with inl st' => Continue rest st' | inr e => Return e end).

Lemma walk_twalk {St : Type} e (body : list N -> St -> outcome (step_result St)) tb :
  (forall s t rest st, all_lt (unit_bound e) s = true -> step e s = Some (t, rest) ->
                       body s st = lift_step rest (tb t st)) ->
  forall fuel s st, all_lt (unit_bound e) s = true -> (length s < fuel)%nat ->
                    walk body fuel s st = twalk tb (tok e s) st.
Proof.
  intros Hb fuel. induction fuel as [|f IH]; intros s st A L; [lia|].
  destruct s as [|x s]; [reflexivity|].
  destruct (step_cons e x s) as (t & rest & E).
  cbn [walk]. rewrite (Hb _ t rest st A E), (tok_step e _ t rest E). cbn [twalk].
  unfold lift_step. destruct (tb t st) as [[st'|er]| | |]; cbn [bind]; try reflexivity.
  apply IH; [exact (step_ok e _ _ t rest E A)|].
  pose proof (step_shorter e _ t rest E). cbn [length] in *. lia.
Qed.

(* a measuring pass: sums a per-token cost *)
Lemma twalk_measure (cost : token -> nat) : forall ts n,
  twalk (fun t n => Ok (inl (cost t + n)%nat)) ts n = Ok (CSuccess, (fold_right (fun t a => (cost t + a)%nat) 0%nat ts + n)%nat).
Proof.
  induction ts as [|t r IH]; intros n; cbn [twalk bind fold_right]; [reflexivity|].
  rewrite IH. f_equal. f_equal. lia.
Qed.

Definition total_cost (cost : token -> nat) (ts : list token) : nat :=
  fold_right (fun t a => (cost t + a)%nat) 0%nat ts.

Lemma measure_walk_tokens e (body : list N -> nat -> outcome (step_result nat)) (cost : token -> nat) :
  (forall s t rest n, all_lt (unit_bound e) s = true -> step e s = Some (t, rest) ->
                      body s n = Ok (Continue rest (cost t + n)%nat)) ->
  forall s, all_lt (unit_bound e) s = true ->
            measure_walk body (Some s) = Ok (total_cost cost (tok e s)).
Proof.
  intros Hb s A. unfold measure_walk.
  rewrite (walk_twalk e body (fun t n => Ok (inl (cost t + n)%nat))).
  - rewrite twalk_measure. cbn [bind]. unfold total_cost. f_equal. lia.
  - intros s0 t rest st A0 E. rewrite (Hb s0 t rest st A0 E). reflexivity.
  - exact A.
  - lia.
Qed.

(* --------------------------------------------------------------- destinations *)
(* pushing a list of already-masked units *)
Fixpoint push_list (d : dst) (l : list N) : outcome dst :=
  match l with
  | [] => Ok d
  | v :: t => d' <- push d v ;; push_list d' t
  end.

Lemma push_list_ok : forall l room acc, (length l <= room)%nat ->
  push_list (room, acc) l = Ok ((room - length l)%nat, rev l ++ acc).
Proof.
  induction l as [|v l IH]; intros room acc H; cbn [push_list length rev app].
  - f_equal. f_equal. lia.
  - cbn [length] in H. destruct room as [|r]; [lia|].
    unfold push. cbn [fst snd bind]. rewrite IH by lia.
    f_equal. f_equal. rewrite <- app_assoc. reflexivity.
Qed.

Lemma push_list_app d l1 l2 : push_list d (l1 ++ l2) = d' <- push_list d l1 ;; push_list d' l2.
Proof.
  revert d. induction l1 as [|v l1 IH]; intros d; cbn [push_list app bind]; [reflexivity|].
  destruct (push d v); cbn [bind]; try reflexivity. apply IH.
Qed.

(* a converting pass at token level: each token yields units to write, or stops with an error *)
Definition emit_tb (pc : token -> list N + cerr) (t : token) (d : dst) : outcome (dst + cerr) :=
  match pc t with
  | inl l => d' <- push_list d l ;; Ok (inl d')
  | inr e => Ok (inr e)
  end.

(* what a run of tokens writes before the first error, and that error *)
Fixpoint pieces_out (pc : token -> list N + cerr) (ts : list token) : list N * cerr :=
  match ts with
  | [] => ([], CSuccess)
  | t :: r => match pc t with
              | inl l => let '(o, e) := pieces_out pc r in (l ++ o, e)
              | inr e => ([], e)
              end
  end.

Lemma twalk_emit pc : forall ts room acc,
  (length (fst (pieces_out pc ts)) <= room)%nat ->
  twalk (emit_tb pc) ts (room, acc) =
  Ok (snd (pieces_out pc ts), ((room - length (fst (pieces_out pc ts)))%nat, rev (fst (pieces_out pc ts)) ++ acc)).
Proof.
  induction ts as [|t r IH]; intros room acc H; cbn [twalk pieces_out] in *.
  - cbn [fst snd length rev app]. f_equal. f_equal. f_equal. lia.
  - unfold emit_tb at 1. destruct (pc t) as [l|er] eqn:Ep.
    + specialize (IH (room - length l)%nat (rev l ++ acc)).
      destruct (pieces_out pc r) as [o e2] eqn:Er. cbn [fst snd] in *.
      rewrite app_length in H. rewrite push_list_ok by lia. cbn [bind].
      rewrite IH by lia. f_equal. f_equal. f_equal; [rewrite app_length; lia|].
      rewrite rev_app_distr, <- app_assoc. reflexivity.
    + cbn [bind fst snd length rev app]. f_equal. f_equal. f_equal. lia.
Qed.

(* the cost of the written prefix never exceeds the total cost *)
Lemma pieces_out_cost pc (cost : token -> nat) :
  (forall t l, pc t = inl l -> length l = cost t) ->
  (forall t e, pc t = inr e -> e <> CSuccess) ->
  forall ts, (length (fst (pieces_out pc ts)) <= total_cost cost ts)%nat
             /\ (snd (pieces_out pc ts) = CSuccess -> length (fst (pieces_out pc ts)) = total_cost cost ts).
Proof.
  intros Hc He. induction ts as [|t r [IH1 IH2]]; cbn [pieces_out total_cost fold_right]; [cbn; split; [lia|reflexivity]|].
  destruct (pc t) as [l|er] eqn:Ep.
  - destruct (pieces_out pc r) as [o e2]. cbn [fst snd] in *. rewrite app_length, (Hc t l Ep).
    fold (total_cost cost r). split; [lia|]. intros E. rewrite (IH2 E). reflexivity.
  - cbn [fst snd length]. split; [lia|]. intros E. subst er. exfalso. exact (He t _ Ep eq_refl).
Qed.
