(* Utf/SourceFit2.v — source-level fit of the two passes, continued (see Utf/SourceFit.v): the decoding conversions
   UTF-8 -> UTF-32, UTF-8 -> UTF-16 and UTF-16 -> UTF-32 as TRANSLATED from the current headers.  In every validation mode
   the translated converting pass stores at most what the translated measuring pass returned, and exactly that when it
   reports success. *)
From Coq Require Import NArith ZArith List Bool Lia ZifyBool ZifyNat ZifyN.
From ST Require Import Base.Outcome Base.Units Utf.Spec Utf.Tokens Utf.Model Utf.ProofsTok Utf.ProofsWalk Utf.ProofsGeneric
  Utf.ProofsFrom8 Utf.ProofsFrom16 Gen.Leaf Utf.LoopBridge Utf.LoopBridgeWrite Utf.LoopBridgeMeasure Utf.LoopBridgeConvert32
  Utf.LoopBridgeConvertTo32 Utf.LoopBridgeConvert8To16 Utf.SourceFit.
Import ListNotations.
Local Open Scope Z_scope.

Theorem utf8_to_utf32_source_passes_fit l m fuel : all_lt 256 l = true ->
  4 * Z.of_nat (length l) < 18446744073709551616 -> (length l < fuel)%nat ->
  exists e ws n, src_utf32_convert_from_utf8 fuel (arr8s l) (Z.of_nat (length l)) (mode_code m) = Some (Z.of_N (cerr_code e), ws) /\
                 src_utf32_measure_from_utf8 fuel (arr8s l) (Z.of_nat (length l)) = Some (Z.of_nat n) /\
                 (length ws <= n)%nat /\ (e = CSuccess -> length ws = n).
Proof.
  intros A Hb Hf.
  destruct (utf32_convert_from_utf8_matches_source l m fuel A Hf) as (e & ws & Es & Em).
  destruct (utf32_measure_from_utf8_matches_source l fuel A Hb Hf) as (n & Mn & Ms).
  exists e, ws, n. split; [exact Es|]. split; [exact Ms|].
  rewrite (utf32_measure_from_utf8_tokens l A) in Mn. inversion Mn as [Hn].
  apply (fit_core (pc E8 T32 m false) (mcost T32) (tok E8 l) (fun d => utf32_convert_from_utf8 d l m) e (length ws) (rev (map unit32_of ws))).
  - intros d. apply utf32_convert_from_utf8_tokens. exact A.
  - intros t l0. apply pc_cost. discriminate.
  - intros t er. apply pc_real_error.
  - exact Em.
Qed.

Theorem utf8_to_utf16_source_passes_fit l m fuel : all_lt 256 l = true ->
  4 * Z.of_nat (length l) < 18446744073709551616 -> (length l < fuel)%nat ->
  exists e ws n, src_utf16_convert_from_utf8 fuel (arr8s l) (Z.of_nat (length l)) (mode_code m) = Some (Z.of_N (cerr_code e), ws) /\
                 src_utf16_measure_from_utf8 fuel (arr8s l) (Z.of_nat (length l)) = Some (Z.of_nat n) /\
                 (length ws <= n)%nat /\ (e = CSuccess -> length ws = n).
Proof.
  intros A Hb Hf.
  destruct (utf16_convert_from_utf8_matches_source l m fuel A Hf) as (e & ws & Es & Em).
  destruct (utf16_measure_from_utf8_matches_source l fuel A Hb Hf) as (n & Mn & Ms).
  exists e, ws, n. split; [exact Es|]. split; [exact Ms|].
  rewrite (utf16_measure_from_utf8_tokens l A) in Mn. inversion Mn as [Hn].
  apply (fit_core (pc E8 T16 m false) (mcost T16) (tok E8 l) (fun d => utf16_convert_from_utf8 d l m) e (length ws) (rev (map unit16_of ws))).
  - intros d. apply utf16_convert_from_utf8_tokens. exact A.
  - intros t l0. apply pc_cost. discriminate.
  - intros t er. apply pc_real_error.
  - exact Em.
Qed.

Theorem utf16_to_utf32_source_passes_fit l m fuel : all_lt 65536 l = true ->
  4 * Z.of_nat (length l) < 18446744073709551616 -> (length l < fuel)%nat ->
  exists e ws n, src_utf32_convert_from_utf16 fuel (arr32 l) (Z.of_nat (length l)) (mode_code m) = Some (Z.of_N (cerr_code e), ws) /\
                 src_utf32_measure_from_utf16 fuel (arr32 l) (Z.of_nat (length l)) = Some (Z.of_nat n) /\
                 (length ws <= n)%nat /\ (e = CSuccess -> length ws = n).
Proof.
  intros A Hb Hf.
  destruct (utf32_convert_from_utf16_matches_source l m fuel A Hf) as (e & ws & Es & Em).
  destruct (utf32_measure_from_utf16_matches_source l fuel A Hb Hf) as (n & Mn & Ms).
  exists e, ws, n. split; [exact Es|]. split; [exact Ms|].
  rewrite (utf32_measure_from_utf16_tokens l A) in Mn. inversion Mn as [Hn].
  apply (fit_core (pc E16 T32 m false) (mcost T32) (tok E16 l) (fun d => utf32_convert_from_utf16 d l m) e (length ws) (rev (map unit32_of ws))).
  - intros d. apply utf32_convert_from_utf16_tokens. exact A.
  - intros t l0. apply pc_cost. discriminate.
  - intros t er. apply pc_real_error.
  - exact Em.
Qed.
