(* Utf/LoopBridgeValidate.v — validate_utf8(buffer, size) of include/st_utf_conv_priv.h, the decider behind
   check_validity, as TRANSLATED from the current headers (Gen/Leaf.v: the for loop with its `continue`, the
   _ST_CHECK_NEXT_SEQ_BYTE macro expansions `do { ++cp; if (...) return ...; } while (false)` and the reinterpret_cast
   to unsigned char are all in the translated text) returns the conversion_error_t that the hand-written model
   Utf/Model.validate_utf8 returns — for byte strings of any length and every sufficient fuel. *)
From Coq Require Import NArith ZArith List Bool Lia ZifyBool ZifyNat ZifyN.
From ST Require Import Base.Outcome Base.Units Base.Sweep Utf.Spec Utf.Model Gen.Leaf Utf.LoopBridge.
Import ListNotations.
Local Open Scope Z_scope.
Local Open Scope outcome_scope.

(* what `*cp` is once promoted to int, cp being the unsigned-char view of the char array *)
Definition rdz (p : Z -> Z) (i : Z) : Z := wraps 32 ((fun i_ => wrapu 8 (p i_)) i).
Definition U (b : N) : Z := wraps 32 (wrapu 8 (schar b)).

Definition byte_tests_agree (b : N) : bool :=
  Bool.eqb (U b <? 128) (b <? 0x80)%N &&
  Bool.eqb (wraps 32 (Z.land (U b) 224) =? 192) (N.land b 0xE0 =? 0xC0)%N &&
  Bool.eqb (wraps 32 (Z.land (U b) 240) =? 224) (N.land b 0xF0 =? 0xE0)%N &&
  Bool.eqb (wraps 32 (Z.land (U b) 248) =? 240) (N.land b 0xF8 =? 0xF0)%N &&
  Bool.eqb (wraps 32 (Z.land (U b) 192) =? 128) (cont b).
Lemma byte_tests_sweep : all_below 8 byte_tests_agree = true. Proof. vm_compute. reflexivity. Qed.
Lemma byte_tests b : (b < 256)%N ->
  (U b <? 128) = (b <? 0x80)%N /\
  (wraps 32 (Z.land (U b) 224) =? 192) = (N.land b 0xE0 =? 0xC0)%N /\
  (wraps 32 (Z.land (U b) 240) =? 224) = (N.land b 0xF0 =? 0xE0)%N /\
  (wraps 32 (Z.land (U b) 248) =? 240) = (N.land b 0xF8 =? 0xF0)%N /\
  (wraps 32 (Z.land (U b) 192) =? 128) = cont b.
Proof.
  intros H. pose proof (all_below_spec 8 byte_tests_agree byte_tests_sweep b H) as E.
  unfold byte_tests_agree in E. repeat (apply andb_true_iff in E; destruct E as [E ?]).
  repeat split; apply Bool.eqb_prop; assumption.
Qed.

Lemma z2b_b2z b : z2b (b2z b) = b. Proof. destruct b; reflexivity. Qed.

Lemma loop_S f p a b cp ep : src_validate_utf8_loop1 (S f) p a b cp ep =
  (if z2b (b2z (cp <? ep)) then
     if z2b (b2z (rdz p cp <? 128)) then src_validate_utf8_loop1 f p a b (cp + 1) ep
     else if z2b (b2z (wraps 32 (Z.land (rdz p cp) 224) =? 192)) then
       if z2b (b2z (cp + 2 >? ep)) then Some ext_incomplete_utf8_seq
       else if z2b (b2z (negb (wraps 32 (Z.land (rdz p (cp + 1)) 192) =? 128))) then Some ext_invalid_utf8_seq
       else src_validate_utf8_loop1 f p a b (cp + 1 + 1) ep
     else if z2b (b2z (wraps 32 (Z.land (rdz p cp) 240) =? 224)) then
       if z2b (b2z (cp + 3 >? ep)) then Some ext_incomplete_utf8_seq
       else if z2b (b2z (negb (wraps 32 (Z.land (rdz p (cp + 1)) 192) =? 128))) then Some ext_invalid_utf8_seq
       else if z2b (b2z (negb (wraps 32 (Z.land (rdz p (cp + 1 + 1)) 192) =? 128))) then Some ext_invalid_utf8_seq
       else src_validate_utf8_loop1 f p a b (cp + 1 + 1 + 1) ep
     else if z2b (b2z (wraps 32 (Z.land (rdz p cp) 248) =? 240)) then
       if z2b (b2z (cp + 4 >? ep)) then Some ext_incomplete_utf8_seq
       else if z2b (b2z (negb (wraps 32 (Z.land (rdz p (cp + 1)) 192) =? 128))) then Some ext_invalid_utf8_seq
       else if z2b (b2z (negb (wraps 32 (Z.land (rdz p (cp + 1 + 1)) 192) =? 128))) then Some ext_invalid_utf8_seq
       else if z2b (b2z (negb (wraps 32 (Z.land (rdz p (cp + 1 + 1 + 1)) 192) =? 128))) then Some ext_invalid_utf8_seq
       else src_validate_utf8_loop1 f p a b (cp + 1 + 1 + 1 + 1) ep
     else Some ext_invalid_utf8_seq
   else Some ext_success).
Proof. reflexivity. Qed.

Lemma rd_at p i s k : shows schar p i s -> (k < length s)%nat -> rdz p (i + Z.of_nat k) = U (nth k s 0%N).
Proof. intros R H. unfold rdz, U. rewrite (R k H). reflexivity. Qed.

Theorem validate_loop_matches : forall n s i p a b fm fs, (length s <= n)%nat -> all_lt 256 s = true ->
  shows schar p i s -> (length s < fm)%nat -> (length s < fs)%nat ->
  exists e, walk validate_utf8_body fm s tt = Ok (e, tt) /\
            src_validate_utf8_loop1 fs p a b i (i + Z.of_nat (length s)) = Some (Z.of_N (cerr_code e)).
Proof.
  induction n as [|n IH]; intros s i p a b fm fs Hn A R Hfm Hfs;
    (destruct fm as [|fm]; [lia|]); (destruct fs as [|fs]; [lia|]);
    (destruct s as [|b0 s1];
     [ exists CSuccess; split; [reflexivity|]; rewrite loop_S; cbn [length];
       replace (i <? i + Z.of_nat 0) with false by lia; reflexivity |]).
  - cbn [length] in Hn. lia.
  - destruct (all_lt_cons _ _ _ A) as [H0 A1].
    destruct (byte_tests b0 H0) as (T1 & T2 & T3 & T4 & _).
    pose proof (rd_at p i _ 0 R ltac:(cbn; lia)) as R0. rewrite Z.add_0_r in R0. cbn [nth] in R0.
    cbn [walk]. unfold validate_utf8_body at 1. cbn [rdu nth_error of_opt bind].
    rewrite loop_S. rewrite !z2b_b2z. rewrite R0, T1, T2, T3, T4.
    replace (i <? i + Z.of_nat (length (b0 :: s1))) with true by (cbn [length]; lia).
    cbn [length] in Hn, Hfm, Hfs.
    destruct (b0 <? 128)%N.
    { cbn [bind skipn].
      replace (i + Z.of_nat (length (b0 :: s1))) with (i + 1 + Z.of_nat (length s1)) by (cbn [length]; lia).
      apply IH; try assumption; try lia. exact (shows_tail _ _ _ _ _ R). }
    destruct (N.land b0 224 =? 192)%N.
    { destruct s1 as [|b1 s2].
      { exists CIncompleteUtf8. split; [reflexivity|]. cbn [length]. replace (i + 2 >? i + Z.of_nat 1) with true by lia. reflexivity. }
      destruct (all_lt_cons _ _ _ A1) as [H1 A2]. destruct (byte_tests b1 H1) as (_ & _ & _ & _ & C1).
      pose proof (rd_at p i _ 1 R ltac:(cbn; lia)) as R1. cbn [nth] in R1. change (Z.of_nat 1) with 1 in R1.
      cbn [at_least negb rdu nth_error of_opt bind]. cbn [length] in *.
      replace (i + 2 >? i + Z.of_nat (S (S (length s2)))) with false by lia.
      rewrite R1, C1. destruct (cont b1); cbn [negb bind skipn].
      - replace (i + Z.of_nat (S (S (length s2)))) with (i + 1 + 1 + Z.of_nat (length s2)) by lia.
        apply IH; try assumption; try lia. exact (shows_tail _ _ _ _ _ (shows_tail _ _ _ _ _ R)).
      - exists CInvalidUtf8. split; reflexivity. }
    destruct (N.land b0 240 =? 224)%N.
    { destruct s1 as [|b1 s2].
      { exists CIncompleteUtf8. split; [reflexivity|]. cbn [length]. replace (i + 3 >? i + Z.of_nat 1) with true by lia. reflexivity. }
      destruct s2 as [|b2 s3].
      { exists CIncompleteUtf8. split; [reflexivity|]. cbn [length]. replace (i + 3 >? i + Z.of_nat 2) with true by lia. reflexivity. }
      destruct (all_lt_cons _ _ _ A1) as [H1 A2]. destruct (all_lt_cons _ _ _ A2) as [H2 A3].
      destruct (byte_tests b1 H1) as (_ & _ & _ & _ & C1). destruct (byte_tests b2 H2) as (_ & _ & _ & _ & C2).
      pose proof (rd_at p i _ 1 R ltac:(cbn; lia)) as R1. cbn [nth] in R1. change (Z.of_nat 1) with 1 in R1.
      pose proof (rd_at p i _ 2 R ltac:(cbn; lia)) as R2. cbn [nth] in R2. replace (i + Z.of_nat 2) with (i + 1 + 1) in R2 by lia.
      cbn [at_least negb rdu nth_error of_opt bind]. cbn [length] in *.
      replace (i + 3 >? i + Z.of_nat (S (S (S (length s3))))) with false by lia.
      rewrite R1, C1. destruct (cont b1); cbn [negb bind]; [|exists CInvalidUtf8; split; reflexivity].
      rewrite R2, C2. destruct (cont b2); cbn [negb bind skipn]; [|exists CInvalidUtf8; split; reflexivity].
      replace (i + Z.of_nat (S (S (S (length s3))))) with (i + 1 + 1 + 1 + Z.of_nat (length s3)) by lia.
      apply IH; try assumption; try lia.
      exact (shows_tail _ _ _ _ _ (shows_tail _ _ _ _ _ (shows_tail _ _ _ _ _ R))). }
    destruct (N.land b0 248 =? 240)%N.
    { destruct s1 as [|b1 s2].
      { exists CIncompleteUtf8. split; [reflexivity|]. cbn [length]. replace (i + 4 >? i + Z.of_nat 1) with true by lia. reflexivity. }
      destruct s2 as [|b2 s3].
      { exists CIncompleteUtf8. split; [reflexivity|]. cbn [length]. replace (i + 4 >? i + Z.of_nat 2) with true by lia. reflexivity. }
      destruct s3 as [|b3 s4].
      { exists CIncompleteUtf8. split; [reflexivity|]. cbn [length]. replace (i + 4 >? i + Z.of_nat 3) with true by lia. reflexivity. }
      destruct (all_lt_cons _ _ _ A1) as [H1 A2]. destruct (all_lt_cons _ _ _ A2) as [H2 A3]. destruct (all_lt_cons _ _ _ A3) as [H3 A4].
      destruct (byte_tests b1 H1) as (_ & _ & _ & _ & C1). destruct (byte_tests b2 H2) as (_ & _ & _ & _ & C2).
      destruct (byte_tests b3 H3) as (_ & _ & _ & _ & C3).
      pose proof (rd_at p i _ 1 R ltac:(cbn; lia)) as R1. cbn [nth] in R1. change (Z.of_nat 1) with 1 in R1.
      pose proof (rd_at p i _ 2 R ltac:(cbn; lia)) as R2. cbn [nth] in R2. replace (i + Z.of_nat 2) with (i + 1 + 1) in R2 by lia.
      pose proof (rd_at p i _ 3 R ltac:(cbn; lia)) as R3. cbn [nth] in R3. replace (i + Z.of_nat 3) with (i + 1 + 1 + 1) in R3 by lia.
      cbn [at_least negb rdu nth_error of_opt bind]. cbn [length] in *.
      replace (i + 4 >? i + Z.of_nat (S (S (S (S (length s4)))))) with false by lia.
      rewrite R1, C1. destruct (cont b1); cbn [negb bind]; [|exists CInvalidUtf8; split; reflexivity].
      rewrite R2, C2. destruct (cont b2); cbn [negb bind]; [|exists CInvalidUtf8; split; reflexivity].
      rewrite R3, C3. destruct (cont b3); cbn [negb bind skipn]; [|exists CInvalidUtf8; split; reflexivity].
      replace (i + Z.of_nat (S (S (S (S (length s4)))))) with (i + 1 + 1 + 1 + 1 + Z.of_nat (length s4)) by lia.
      apply IH; try assumption; try lia.
      exact (shows_tail _ _ _ _ _ (shows_tail _ _ _ _ _ (shows_tail _ _ _ _ _ (shows_tail _ _ _ _ _ R)))). }
    exists CInvalidUtf8. split; reflexivity.
Qed.

Theorem validate_utf8_matches_source l fuel : all_lt 256 l = true -> (length l < fuel)%nat ->
  exists e, validate_utf8 l = Ok e /\
            src_validate_utf8 fuel (arr8s l) (Z.of_nat (length l)) = Some (Z.of_N (cerr_code e)).
Proof.
  intros A Hf. unfold validate_utf8, src_validate_utf8. cbv zeta.
  destruct (validate_loop_matches (length l) l 0 (arr8s l) 0 (Z.of_nat (length l)) (S (length l)) fuel
              ltac:(lia) A (shows_arr8s l) ltac:(lia) Hf) as (e & Em & Es).
  rewrite Em. cbn [bind]. exists e. split; [reflexivity|]. exact Es.
Qed.

Example validate_example :
  src_validate_utf8 9 (arr8s [65; 0xC3; 0xA9; 0xE2; 0x82; 0xAC]%N) 6 = Some 0 /\
  src_validate_utf8 9 (arr8s [65; 0xC3]%N) 2 = Some 1 /\
  src_validate_utf8 9 (arr8s [0xF0; 0x9F; 0x41; 0x80]%N) 4 = Some 3 /\
  validate_utf8 [0xF0; 0x9F; 0x41; 0x80]%N = Ok CInvalidUtf8.
Proof. vm_compute. repeat split; reflexivity. Qed.
