(* Utf/Tokens.v — C02's specification: ONE left-to-right tolerant tokeniser per
   source encoding, shared by every statement, and the reference result of a
   conversion under each validation mode.  No code structure: byte classes are
   ranges, values are sums of products.

   tolerated by design (Good): overlong encodings, encoded surrogates, 4-byte
   forms up to 0x1FFFFF, a low surrogate followed by a high one.
   Bad (one unit each): stray continuation byte, lead byte with too few
   continuation bytes before the next character or the end, bytes F8..FF,
   unpaired surrogate, UTF-32 value above 0x10FFFF.                           *)
From Coq Require Import NArith List Bool.
From ST Require Import Base.Units Gen.Consts Utf.Spec.
Import ListNotations.
Local Open Scope N_scope.

Inductive token :=
| Good (units : list N) (value : N)
| Bad (unit : N).

Definition is_bad (t : token) : bool := match t with Bad _ => true | Good _ _ => false end.
Definition tok_units (t : token) : list N := match t with Good u _ => u | Bad b => [b] end.

Definition in_range (lo hi b : N) : bool := (lo <=? b) && (b <=? hi).
Definition is_cont (b : N) : bool := in_range 0x80 0xBF b.

(* ---- UTF-8 ---- first token of a non-empty sequence, and the rest *)
Definition step8 (s : list N) : option (token * list N) :=
  match s with
  | [] => None
  | b0 :: t =>
      if b0 <? 0x80 then Some (Good [b0] b0, t)
      else if in_range 0xC0 0xDF b0 then
        match t with
        | b1 :: t1 =>
            if is_cont b1 then Some (Good [b0; b1] ((b0 - 0xC0) * 64 + (b1 - 0x80)), t1)
            else Some (Bad b0, t)
        | _ => Some (Bad b0, t)
        end
      else if in_range 0xE0 0xEF b0 then
        match t with
        | b1 :: b2 :: t2 =>
            if is_cont b1 && is_cont b2
            then Some (Good [b0; b1; b2] ((b0 - 0xE0) * 4096 + (b1 - 0x80) * 64 + (b2 - 0x80)), t2)
            else Some (Bad b0, t)
        | _ => Some (Bad b0, t)
        end
      else if in_range 0xF0 0xF7 b0 then
        match t with
        | b1 :: b2 :: b3 :: t3 =>
            if is_cont b1 && is_cont b2 && is_cont b3
            then Some (Good [b0; b1; b2; b3]
                         ((b0 - 0xF0) * 262144 + (b1 - 0x80) * 4096 + (b2 - 0x80) * 64 + (b3 - 0x80)), t3)
            else Some (Bad b0, t)
        | _ => Some (Bad b0, t)
        end
      else Some (Bad b0, t)        (* 80..BF stray continuation, F8..FF *)
  end.

(* ---- UTF-16 ---- *)
Definition is_hi (u : N) : bool := in_range 0xD800 0xDBFF u.
Definition is_lo (u : N) : bool := in_range 0xDC00 0xDFFF u.
Definition pair_value (hi lo : N) : N := 0x10000 + (hi - 0xD800) * 1024 + (lo - 0xDC00).

Definition step16 (s : list N) : option (token * list N) :=
  match s with
  | [] => None
  | u0 :: t =>
      if is_hi u0 then
        match t with
        | u1 :: t1 => if is_lo u1 then Some (Good [u0; u1] (pair_value u0 u1), t1) else Some (Bad u0, t)
        | [] => Some (Bad u0, t)
        end
      else if is_lo u0 then
        match t with
        | u1 :: t1 => if is_hi u1 then Some (Good [u0; u1] (pair_value u1 u0), t1) else Some (Bad u0, t)
        | [] => Some (Bad u0, t)
        end
      else Some (Good [u0] u0, t)
  end.

(* ---- UTF-32 / Latin-1 ---- *)
Definition step32 (s : list N) : option (token * list N) :=
  match s with
  | [] => None
  | v :: t => if v <=? 0x10FFFF then Some (Good [v] v, t) else Some (Bad v, t)
  end.

Definition stepL1 (s : list N) : option (token * list N) :=
  match s with
  | [] => None
  | b :: t => Some (Good [b] b, t)
  end.

Definition step (e : encoding) : list N -> option (token * list N) :=
  match e with E8 => step8 | E16 => step16 | E32 => step32 | EL1 => stepL1 end.

(* the whole sequence; every step consumes at least one unit, so `length s`
   steps always suffice *)
Fixpoint toks (e : encoding) (fuel : nat) (s : list N) : list token :=
  match fuel with
  | O => []
  | S f => match step e s with
           | None => []
           | Some (t, rest) => t :: toks e f rest
           end
  end.
Definition tok (e : encoding) (s : list N) : list token := toks e (length s) s.
Definition tok8 := tok E8.
Definition tok16 := tok E16.
Definition tok32 := tok E32.

(* the library's tolerant well-formedness *)
Definition WF (e : encoding) (s : list N) : bool := negb (existsb is_bad (tok e s)).
Definition WF8 := WF E8.
Definition WF16 := WF E16.
Definition WF32 := WF E32.

Definition values (ts : list token) : list N :=
  flat_map (fun t => match t with Good _ v => [v] | Bad _ => [] end) ts.

(* ---- targets ---- TS is the ST::string target for UTF-8 input: a Good token is
   kept verbatim (validate / cleanup never re-encode) *)
Inductive target := TS | T8 | T16 | T32 | TL1.

(* how a Good token appears in the target; None = the target cannot represent the value *)
Definition render (tg : target) (t_units : list N) (v : N) : option (list N) :=
  match tg with
  | TS => Some t_units
  | T8 => if v <=? 0x10FFFF then Some (utf8_enc v) else None
  | T16 => if v <=? 0x10FFFF then Some (utf16_enc v) else None
  | T32 => Some [v]
  | TL1 => if v <? 0x100 then Some [v] else None
  end.

(* U+FFFD in the target ('?' in Latin-1) *)
Definition subst (tg : target) : list N :=
  match tg with
  | TS | T8 => [0xEF; 0xBF; 0xBD]
  | T16 | T32 => [0xFFFD]
  | TL1 => [63]
  end.

(* what the property allows as the result of one conversion *)
Inductive sres :=
| SOk (l : list N)      (* exactly these units *)
| SThrow                (* ST::unicode_error *)
| SAnyOk                (* assume_valid on malformed input: some buffer, contents not fixed; no exception *)
| SAny.                 (* ... or unicode_error (Latin-1 target without out-of-range substitution) *)

(* a Good value the target cannot represent: Latin-1 -> '?' or throw by `sub`;
   UTF-16/UTF-8 (value above 0x10FFFF) -> like a Bad unit *)
Inductive piece := PUnits (l : list N) | PThrow.

Definition unrepresentable (tg : target) (m : vmode) (sub : bool) : piece :=
  match tg with
  | TL1 => if sub then PUnits [63] else PThrow
  | _ => match m with CheckValidity => PThrow | _ => PUnits (subst tg) end
  end.

Definition piece_of (tg : target) (m : vmode) (sub : bool) (t : token) : piece :=
  match t with
  | Bad _ => match m with CheckValidity => PThrow | _ => PUnits (subst tg) end
  | Good u v => match render tg u v with
                | Some l => PUnits l
                | None => unrepresentable tg m sub
                end
  end.

Fixpoint assemble (ps : list piece) : sres :=
  match ps with
  | [] => SOk []
  | PThrow :: _ => SThrow
  | PUnits l :: r => match assemble r with
                     | SOk l' => SOk (l ++ l')
                     | x => x
                     end
  end.

(* first piece that throws decides; but a Bad unit anywhere makes check_validity throw *)
Definition repair (tg : target) (m : vmode) (sub : bool) (ts : list token) : sres :=
  assemble (map (piece_of tg m sub) ts).

(* tokens whose treatment under assume_valid the property does not fix *)
Definition unfixed (tg : target) (t : token) : bool :=
  match t with
  | Bad _ => true
  | Good u v => match tg with
                | T16 | T8 => negb (v <=? 0x10FFFF)
                | _ => false
                end
  end.

Definition spec_tokens (tg : target) (m : vmode) (sub : bool) (ts : list token) : sres :=
  match m with
  | AssumeValid =>
      if existsb (unfixed tg) ts then
        match tg with
        | TL1 => if sub then SAnyOk else
                   if existsb (fun t => match t with Good _ v => negb (v <? 0x100) | Bad _ => false end) ts
                   then SAny else SAnyOk
        | _ => SAnyOk
        end
      else repair tg SubstituteInvalid sub ts
  | _ => repair tg m sub ts
  end.

(* reference result of converting `s` (encoding `e`) to target `tg` *)
Definition spec_conv (e : encoding) (tg : target) (m : vmode) (sub : bool) (s : list N) : sres :=
  spec_tokens tg m sub (tok e s).

(* wchar_t is an alias of the UTF-16 or the UTF-32 side, by sizeof(wchar_t) (Gen/Consts) *)
Definition wchar_encoding : encoding := if ST.Gen.Consts.sizeof_wchar =? 2 then E16 else E32.
Definition wchar_target : target := if ST.Gen.Consts.sizeof_wchar =? 2 then T16 else T32.
