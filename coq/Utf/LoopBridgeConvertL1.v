(* Utf/LoopBridgeConvertL1.v — utf8_convert_from_latin_1(dest, astr, size) of include/st_utf_conv_priv.h, the second pass
   of ST::latin_1_to_utf8 / ST::string::from_latin_1, as TRANSLATED from the current headers (Gen/Leaf.v: dest is a
   write-only cursor, the loop carries the list of bytes stored so far) stores, for inputs of any length and every
   sufficient fuel, exactly the bytes the hand-written model pass Utf/Model.utf8_convert_from_latin_1 pushes (given room for
   them).  With utf8_measure_from_latin_1 (Utf/LoopBridge.v) both passes of this conversion are tied by translation. *)
From Coq Require Import NArith ZArith List Bool Lia ZifyBool ZifyNat ZifyN.
From ST Require Import Base.Outcome Base.Units Base.Sweep Utf.Spec Utf.Model Gen.Leaf Utf.LoopBridge Utf.LoopBridgeWrite.
Import ListNotations.
Local Open Scope Z_scope.
Local Open Scope outcome_scope.

Definition hi1 (v : Z) : Z := wraps 8 (wraps 32 (Z.lor 192 (wraps 32 (Z.land (wraps 32 (Z.shiftr (wraps 32 (wrapu 8 v)) 6)) 31)))).
Definition hi2 (v : Z) : Z := wraps 8 (wraps 32 (Z.lor 128 (wraps 32 (Z.land (wraps 32 (wrapu 8 v)) 63)))).
Lemma sweep_eq (f g : N -> N) : all_below 8 (fun c => (f c =? g c)%N) = true -> forall c, (c < 256)%N -> f c = g c.
Proof. intros S c H. apply N.eqb_eq. exact (all_below_spec 8 (fun c => (f c =? g c)%N) S c H). Qed.
Lemma sweep1 : all_below 8 (fun c => (byte_of (hi1 (schar c)) =? N.land (N.lor 0xC0 (N.land (N.shiftr c 6) 0x1F)) 0xFF)%N) = true.
Proof. vm_compute. reflexivity. Qed.
Lemma sweep2 : all_below 8 (fun c => (byte_of (hi2 (schar c)) =? N.land (N.lor 0x80 (N.land c 0x3F)) 0xFF)%N) = true.
Proof. vm_compute. reflexivity. Qed.
Lemma sweep3 : all_below 8 (fun c => (byte_of (schar c) =? N.land c 0xFF)%N) = true.
Proof. vm_compute. reflexivity. Qed.
Lemma l1_bytes c : (c < 256)%N ->
  byte_of (hi1 (schar c)) = N.land (N.lor 0xC0 (N.land (N.shiftr c 6) 0x1F)) 0xFF /\
  byte_of (hi2 (schar c)) = N.land (N.lor 0x80 (N.land c 0x3F)) 0xFF /\ byte_of (schar c) = N.land c 0xFF.
Proof.
  intros H. split; [|split].
  - exact (sweep_eq (fun c => byte_of (hi1 (schar c))) (fun c => N.land (N.lor 0xC0 (N.land (N.shiftr c 6) 0x1F)) 0xFF) sweep1 c H).
  - exact (sweep_eq (fun c => byte_of (hi2 (schar c))) (fun c => N.land (N.lor 0x80 (N.land c 0x3F)) 0xFF) sweep2 c H).
  - exact (sweep_eq (fun c => byte_of (schar c)) (fun c => N.land c 0xFF) sweep3 c H).
Qed.

Lemma cl1_loop_S f p a b sp ep out : src_utf8_convert_from_latin_1_loop1 (S f) p a b sp ep out =
  (if z2b (b2z (Z.ltb sp ep)) then
     if z2b (b2z (z2b (wraps 32 (Z.land (wraps 32 (p sp)) 128))))
     then src_utf8_convert_from_latin_1_loop1 f p a b (sp + 1) ep ((out ++ [hi1 (p sp)]) ++ [hi2 (p sp)])
     else src_utf8_convert_from_latin_1_loop1 f p a b (sp + 1) ep (out ++ [p sp])
   else Some out).
Proof. cbv beta iota zeta delta [src_utf8_convert_from_latin_1_loop1 hi1 hi2]. reflexivity. Qed.

Definition cl1_body := fun (s : list N) (d : dst) =>
  b <- rdu s 0 ;;
  if negb (N.land b 0x80 =? 0)%N then
    d1 <- push8 d (N.lor 0xC0 (N.land (N.shiftr b 6) 0x1F)) ;;
    d2 <- push8 d1 (N.lor 0x80 (N.land b 0x3F)) ;;
    Ok (Continue (skipn 1 s) d2)
  else
    d1 <- push8 d b ;; Ok (Continue (skipn 1 s) d1).

Theorem cl1_loop_matches : forall s out i p a b fm fs, all_lt 256 s = true -> shows schar p i s ->
  (length s < fm)%nat -> (length s < fs)%nat ->
  exists ws, src_utf8_convert_from_latin_1_loop1 fs p a b i (i + Z.of_nat (length s)) out = Some (out ++ ws) /\
    forall d : dst, (length ws <= fst d)%nat ->
      walk cl1_body fm s d = Ok (CSuccess, ((fst d - length ws)%nat, rev (map byte_of ws) ++ snd d)).
Proof.
  induction s as [|c t IH]; intros out i p a b fm fs A R Hfm Hfs;
    (destruct fm as [|fm]; [cbn in Hfm; lia|]); (destruct fs as [|fs]; [cbn in Hfs; lia|]).
  - exists []. split.
    + rewrite cl1_loop_S. cbn [length]. replace (i <? i + Z.of_nat 0) with false by lia. cbn [b2z z2b Z.eqb negb].
      rewrite app_nil_r. reflexivity.
    + intros [free w] _. cbn [walk fst snd length map rev app]. repeat f_equal. lia.
  - destruct (all_lt_cons _ _ _ A) as [Hc At]. destruct (l1_bytes c Hc) as (B1 & B2 & B3).
    rewrite cl1_loop_S. cbn [length]. replace (i <? i + Z.of_nat (S (length t))) with true by lia.
    cbn [b2z z2b Z.eqb negb]. rewrite (shows_head _ _ _ _ _ R). rewrite (high_bit c Hc).
    replace (i + Z.of_nat (S (length t))) with (i + 1 + Z.of_nat (length t)) by lia.
    cbn [length] in Hfm, Hfs.
    destruct (negb (N.land c 128 =? 0)%N) eqn:Eh.
    + destruct (IH ((out ++ [hi1 (schar c)]) ++ [hi2 (schar c)]) (i + 1) p a b fm fs At (shows_tail _ _ _ _ _ R) ltac:(lia) ltac:(lia))
        as (ws & Es & Em).
      exists (hi1 (schar c) :: hi2 (schar c) :: ws). split.
      * rewrite Es. rewrite <- !app_assoc. reflexivity.
      * intros [free w] Hd. cbn [fst snd length] in Hd. destruct free as [|[|free]]; try lia.
        cbn [walk]. unfold cl1_body at 1. cbn [rdu nth_error of_opt bind]. rewrite Eh. rewrite !push8_ok. cbn [bind]. rewrite !push8_ok. cbn [bind skipn].
        rewrite (Em (free, _)) by (cbn [fst]; lia). cbn [fst snd length map rev Nat.sub]. rewrite B1, B2.
        rewrite <- !app_assoc. cbn [app]. reflexivity.
    + destruct (IH (out ++ [schar c]) (i + 1) p a b fm fs At (shows_tail _ _ _ _ _ R) ltac:(lia) ltac:(lia)) as (ws & Es & Em).
      exists (schar c :: ws). split.
      * rewrite Es. rewrite <- !app_assoc. reflexivity.
      * intros [free w] Hd. cbn [fst snd length] in Hd. destruct free as [|free]; try lia.
        cbn [walk]. unfold cl1_body at 1. cbn [rdu nth_error of_opt bind]. rewrite Eh. rewrite !push8_ok. cbn [bind skipn].
        rewrite (Em (free, _)) by (cbn [fst]; lia). cbn [fst snd length map rev Nat.sub]. rewrite B3.
        rewrite <- !app_assoc. cbn [app]. reflexivity.
Qed.

Theorem utf8_convert_from_latin_1_matches_source l fuel : all_lt 256 l = true -> (length l < fuel)%nat ->
  exists ws, src_utf8_convert_from_latin_1 fuel (arr8s l) (Z.of_nat (length l)) = Some ws /\
    forall d : dst, (length ws <= fst d)%nat ->
      utf8_convert_from_latin_1 d l = Ok (CSuccess, ((fst d - length ws)%nat, rev (map byte_of ws) ++ snd d)).
Proof.
  intros A Hf. unfold src_utf8_convert_from_latin_1, utf8_convert_from_latin_1. cbv zeta.
  destruct (cl1_loop_matches l [] 0 (arr8s l) 0 (Z.of_nat (length l)) (S (length l)) fuel A (shows_arr8s l) ltac:(lia) Hf)
    as (ws & Es & Em).
  exists ws. split; [exact Es|]. intros d Hd. fold cl1_body. exact (Em d Hd).
Qed.

Example convert_l1_example :
  option_map (map byte_of) (src_utf8_convert_from_latin_1 9 (arr8s [65; 233; 255]%N) 3) = Some [65; 0xC3; 0xA9; 0xC3; 0xBF]%N /\
  utf8_convert_from_latin_1 (5%nat, []) [65; 233; 255]%N = Ok (CSuccess, (0%nat, [0xBF; 0xC3; 0xA9; 0xC3; 65]%N)).
Proof. vm_compute. split; reflexivity. Qed.
