(* Utf/ApiCoverage.v — C01/C02/C03 "every conversion route": the free conversion functions X_to_Y declared in the
   headers and the public static members of ST::string are harvested from the headers' AST on every run
   (Gen/Statics.conversion_functions, string_static_members, string_const_members).  `route_table` names the
   Model.v definition that transcribes each of them (all brought to one signature); a conversion function or a
   from_* / to_* member added upstream makes `routes_covered` false until it is transcribed, exercised by the
   correspondence harness (harness/h_utf.cpp dispatches on the same names) and listed here. *)
From Coq Require Import String List Bool NArith.
From ST Require Import Base.Outcome Gen.Statics Utf.Spec Utf.Model.
Import ListNotations.
Local Open Scope string_scope.

Definition route := vmode -> bool -> option (list N) -> outcome (list N).
Definition nomode (f : option (list N) -> outcome (list N)) : route := fun _ _ => f.
Definition nosub (f : vmode -> option (list N) -> outcome (list N)) : route := fun m _ => f m.

Definition route_table : list (string * route) :=
  [ ("latin_1_to_utf16", nomode latin_1_to_utf16); ("latin_1_to_utf32", nomode latin_1_to_utf32);
    ("latin_1_to_utf8", nomode latin_1_to_utf8); ("latin_1_to_wchar", nomode latin_1_to_wchar);
    ("utf16_to_latin_1", utf16_to_latin_1); ("utf16_to_utf32", nosub utf16_to_utf32);
    ("utf16_to_utf8", nosub utf16_to_utf8); ("utf16_to_wchar", nosub utf16_to_wchar);
    ("utf32_to_latin_1", utf32_to_latin_1); ("utf32_to_utf16", nosub utf32_to_utf16);
    ("utf32_to_utf8", nosub utf32_to_utf8); ("utf32_to_wchar", nosub utf32_to_wchar);
    ("utf8_to_latin_1", utf8_to_latin_1); ("utf8_to_utf16", nosub utf8_to_utf16);
    ("utf8_to_utf32", nosub utf8_to_utf32); ("utf8_to_wchar", nosub utf8_to_wchar);
    ("wchar_to_latin_1", wchar_to_latin_1); ("wchar_to_utf16", nosub wchar_to_utf16);
    ("wchar_to_utf32", nosub wchar_to_utf32); ("wchar_to_utf8", nosub wchar_to_utf8) ].

(* ST::string members that construct from / convert to an encoding *)
Definition of_string (f : list N -> outcome (list N)) : route :=
  fun _ _ s => match s with Some l => f l | None => f [] end.
Definition member_table : list (string * route) :=
  [ ("from_utf8", nosub string_from_utf8); ("from_utf16", nosub string_from_utf16);
    ("from_utf32", nosub string_from_utf32); ("from_wchar", nosub string_from_wchar);
    ("from_latin_1", nomode string_from_latin_1); ("from_validated", nomode string_literal_char);
    ("from_std_string", nosub string_from_utf8); ("from_std_wstring", nosub string_from_wchar);
    ("to_utf8", of_string string_to_utf8); ("to_utf16", of_string string_to_utf16);
    ("to_utf32", of_string string_to_utf32); ("to_wchar", of_string string_to_wchar);
    ("to_latin_1", fun _ sub s => string_to_latin_1 sub (match s with Some l => l | None => [] end));
    ("to_std_string", of_string string_to_utf8); ("to_std_u8string", of_string string_to_utf8);
    ("to_std_u16string", of_string string_to_utf16); ("to_std_u32string", of_string string_to_utf32);
    ("to_std_wstring", of_string string_to_wchar); ("to_buffer", of_string string_to_utf8) ].

Definition named (t : list (string * route)) (n : string) : bool := existsb (fun p => String.eqb n (fst p)) t.

(* the members concerned: from_<encoding>/from_std_*/from_validated (static) and to_<encoding>/to_std_*/to_buffer (const) *)
Definition is_text_member (n : string) : bool :=
  existsb (String.eqb n)
    ["from_utf8"; "from_utf16"; "from_utf32"; "from_wchar"; "from_latin_1"; "from_validated"; "from_std_string";
     "from_std_wstring"; "to_utf8"; "to_utf16"; "to_utf32"; "to_wchar"; "to_latin_1"; "to_std_string";
     "to_std_u8string"; "to_std_u16string"; "to_std_u32string"; "to_std_wstring"; "to_buffer"].

(* a from_* static member is either one of the text members above or one of the numeric/other constructors that
   the other properties own (C12: from_int..., C13: from_float/double, fill, from_bool, from_path) *)
Definition other_static : list string :=
  ["fill"; "from_bool"; "from_double"; "from_float"; "from_int"; "from_int64"; "from_uint"; "from_uint64"; "from_path"].

Definition routes_covered_b : bool :=
  forallb (named route_table) conversion_functions
  && forallb (fun n => named member_table n || existsb (String.eqb n) other_static) string_static_members
  && forallb (fun n => negb (is_text_member n) || named member_table n) string_const_members
  && forallb (fun p => existsb (String.eqb (fst p)) conversion_functions) route_table.

Lemma routes_covered : routes_covered_b = true.
Proof. vm_compute. reflexivity. Qed.

Lemma conversion_inventory : length conversion_functions = 20.
Proof. vm_compute. reflexivity. Qed.
