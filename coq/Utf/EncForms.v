(* Utf/EncForms.v — the units the encoders of the code write, as plain lists (`w8`,
   `w16`: same masks, shifts and char-width truncation as write_utf8 / write_utf16),
   and the shift/mask form of the specification's encodings used by the sweeps.   *)
From Coq Require Import NArith List Bool Lia.
From ST Require Import Base.Units Utf.Spec.
Import ListNotations.
Local Open Scope N_scope.

Fixpoint list_eqb (a b : list N) : bool :=
  match a, b with
  | [], [] => true
  | x :: a', y :: b' => (x =? y) && list_eqb a' b'
  | _, _ => false
  end.

Lemma list_eqb_eq a : forall b, list_eqb a b = true -> a = b.
Proof.
  induction a as [|x a IH]; intros [|y b] H; cbn [list_eqb] in H; try discriminate; [reflexivity|].
  apply andb_true_iff in H. destruct H as [E H]. apply N.eqb_eq in E. subst. f_equal. apply IH. exact H.
Qed.

(* what write_utf8 stores for ch <= 0x10FFFF (each store truncated to char) *)
Definition w8 (ch : N) : list N :=
  if ch <? 0x80 then [N.land ch 0xFF]
  else if ch <? 0x800 then
    [N.land (N.lor 0xC0 (N.land (N.shiftr ch 6) 0x1F)) 0xFF; N.land (N.lor 0x80 (N.land ch 0x3F)) 0xFF]
  else if ch <? 0x10000 then
    [N.land (N.lor 0xE0 (N.land (N.shiftr ch 12) 0x0F)) 0xFF; N.land (N.lor 0x80 (N.land (N.shiftr ch 6) 0x3F)) 0xFF;
     N.land (N.lor 0x80 (N.land ch 0x3F)) 0xFF]
  else
    [N.land (N.lor 0xF0 (N.land (N.shiftr ch 18) 0x07)) 0xFF; N.land (N.lor 0x80 (N.land (N.shiftr ch 12) 0x3F)) 0xFF;
     N.land (N.lor 0x80 (N.land (N.shiftr ch 6) 0x3F)) 0xFF; N.land (N.lor 0x80 (N.land ch 0x3F)) 0xFF].

(* what write_utf16 stores for ch <= 0x10FFFF (each store truncated to char16_t) *)
Definition w16 (ch : N) : list N :=
  if ch <? 0x10000 then [N.land ch 0xFFFF]
  else [N.land (N.lor 0xD800 (N.land (N.shiftr (ch - 0x10000) 10) 0x3FF)) 0xFFFF;
        N.land (N.lor 0xDC00 (N.land (ch - 0x10000) 0x3FF)) 0xFFFF].

(* the specification's encodings with / and mod written as shifts and masks *)
Definition utf8_enc_sm (c : N) : list N :=
  if c <? 0x80 then [c]
  else if c <? 0x800 then [0xC0 + N.shiftr c 6; 0x80 + N.land c 0x3F]
  else if c <? 0x10000 then [0xE0 + N.shiftr c 12; 0x80 + N.land (N.shiftr c 6) 0x3F; 0x80 + N.land c 0x3F]
  else [0xF0 + N.shiftr c 18; 0x80 + N.land (N.shiftr c 12) 0x3F; 0x80 + N.land (N.shiftr c 6) 0x3F; 0x80 + N.land c 0x3F].

Definition utf16_enc_sm (c : N) : list N :=
  if c <? 0x10000 then [c]
  else [0xD800 + N.shiftr (c - 0x10000) 10; 0xDC00 + N.land (c - 0x10000) 0x3FF].

Lemma land_3F x : N.land x 0x3F = x mod 64.
Proof. change 0x3F with (N.ones 6). rewrite N.land_ones. reflexivity. Qed.

Lemma utf8_enc_sm_eq c : utf8_enc_sm c = utf8_enc c.
Proof.
  unfold utf8_enc_sm, utf8_enc. rewrite !land_3F, !N.shiftr_div_pow2.
  change (2 ^ 6) with 64. change (2 ^ 12) with 4096. change (2 ^ 18) with 262144. reflexivity.
Qed.

Lemma utf16_enc_sm_eq c : utf16_enc_sm c = utf16_enc c.
Proof.
  unfold utf16_enc_sm, utf16_enc. change 0x3FF with (N.ones 10). rewrite N.land_ones, N.shiftr_div_pow2.
  change (2 ^ 10) with 1024. reflexivity.
Qed.
