(* Utf/LoopBridgeConvertTo32.v — utf32_convert_from_utf8 and utf32_convert_from_utf16 (dest, src, size, validation) of
   include/st_utf_conv_priv.h, the second passes of ST::utf8_to_utf32 / utf16_to_utf32 (and ST::string::to_utf32 ...), as
   TRANSLATED from the current headers (Gen/Leaf.v: each calls the translated decoder, which advances the source, and the
   translated char_error; dest is a write-only cursor) return, for inputs of any length, every validation mode and every
   sufficient fuel, the conversion_error_t and store exactly the units that the hand-written model passes of Utf/Model.v
   return and push (given room).  With the measuring passes (Utf/LoopBridgeMeasure.v) both passes of these conversions
   are tied by translation. *)
From Coq Require Import NArith ZArith List Bool Lia ZifyBool ZifyNat ZifyN.
From ST Require Import Base.Outcome Base.Units Base.Sweep Gen.Consts Utf.Spec Utf.Model Gen.Leaf Utf.LeafBridge Utf.LoopBridge
     Utf.LoopBridgeExtract Utf.LoopBridgeMeasure Utf.LoopBridgeWrite Utf.LoopBridgeConvert32.
Import ListNotations.
Local Open Scope Z_scope.
Local Open Scope outcome_scope.

Lemma land_pow22_small x : 0 <= x < 4194304 -> Z.land x 4194304 = 0.
Proof.
  intros H. apply Z.bits_inj'. intros n Hn. rewrite Z.land_spec, Z.bits_0.
  change 4194304 with (2 ^ 22). rewrite Z.pow2_bits_eqb by lia.
  destruct (22 =? n) eqn:E; [|apply andb_false_r]. apply Z.eqb_eq in E. subst n.
  destruct (Z.eq_dec x 0) as [->|Nz]; [reflexivity|].
  rewrite Z.bits_above_log2; [reflexivity|lia|]. apply Z.log2_lt_pow2; lia.
Qed.

(* char_error on what a decoder returns *)
Lemma char_error_class ch : decoded_class ch ->
  src_char_error (Z.of_N ch) = Z.of_N (cerr_code (char_error ch)) /\
  (src_char_error (Z.of_N ch) =? ext_success) = negb (is_error (char_error ch)).
Proof.
  intros [Hlt | (e & He & Herr & ->)].
  - assert (Hz : Z.land (Z.of_N ch) 4194304 = 0) by (apply land_pow22_small; lia).
    assert (Hn : N.land ch error_bit = 0%N).
    { apply N2Z.inj. rewrite of_N_land. exact Hz. }
    unfold src_char_error, char_error. rewrite (wrapu32_of_N ch) by lia. rewrite Hz, Hn. split; reflexivity.
  - destruct (Utf.LeafBridge.error_char_matches_source e He) as (_ & E2 & E3). rewrite E2, E3.
    split; [reflexivity|]. cbn in He.
    repeat (destruct He as [<-|He]; [try discriminate Herr; reflexivity|]). contradiction.
Qed.

Definition unit32_of (w : Z) : N := Z.to_N (w mod 4294967296).
Lemma unit32_of_N ch : (ch < 4294967296)%N -> unit32_of (Z.of_N ch) = N.land ch 0xFFFFFFFF.
Proof.
  intros H. unfold unit32_of. rewrite Z.mod_small by lia. rewrite N2Z.id.
  change 4294967295%N with (N.ones 32). rewrite N.land_ones, N.mod_small by (change (2 ^ 32)%N with 4294967296%N; lia). reflexivity.
Qed.
Lemma push32_ok free w v : push32 (S free, w) v = Ok (free, N.land v 0xFFFFFFFF :: w).
Proof. reflexivity. Qed.
Lemma subst32_stored : unit32_of (wrapu 32 ext_badchar_substitute) = N.land badchar_substitute 0xFFFFFFFF.
Proof. reflexivity. Qed.

(* ---- utf32_convert_from_utf8 ---- *)
Lemma c32f8_loop_S f p a b v sp ep out : src_utf32_convert_from_utf8_loop1 (S f) p a b v sp ep out =
  (if z2b (b2z (Z.ltb sp ep)) then
     let '(r, ni) := src_extract_utf8 (fun i_ => wrapu 8 (p i_)) sp ep in
     if z2b (b2z (negb (Z.eqb (src_char_error r) ext_success))) then
       if z2b (b2z (Z.eqb v ext_check_validity)) then Some (src_char_error r, out)
       else src_utf32_convert_from_utf8_loop1 f p a b v ni ep (out ++ [wrapu 32 ext_badchar_substitute])
     else src_utf32_convert_from_utf8_loop1 f p a b v ni ep (out ++ [r])
   else Some (ext_success, out)).
Proof. cbv beta iota zeta delta [src_utf32_convert_from_utf8_loop1]. destruct (src_extract_utf8 (fun i_ => wrapu 8 (p i_)) sp ep). reflexivity. Qed.

Definition c32f8_body (m : vmode) := fun (s : list N) (d : dst) =>
  '(bigch, rest) <- extract_utf8 s ;;
  let error := char_error bigch in
  if is_error error && is_check m then Ok (Return error)
  else
    let bigch := if is_error error then badchar_substitute else bigch in
    d' <- push32 d bigch ;; Ok (Continue rest d').

Theorem c32f8_loop_matches m v : (Z.eqb v ext_check_validity) = is_check m ->
  forall n s out i p a b fm fs, (length s <= n)%nat -> all_lt 256 s = true -> shows schar p i s ->
  (length s < fm)%nat -> (length s < fs)%nat ->
  exists e ws, src_utf32_convert_from_utf8_loop1 fs p a b v i (i + Z.of_nat (length s)) out = Some (Z.of_N (cerr_code e), out ++ ws) /\
    forall d : dst, (length ws <= fst d)%nat ->
      walk (c32f8_body m) fm s d = Ok (e, ((fst d - length ws)%nat, rev (map unit32_of ws) ++ snd d)).
Proof.
  intros Hv. induction n as [|n IH]; intros s out i p a b fm fs Hn A R Hfm Hfs;
    (destruct fm as [|fm]; [lia|]); (destruct fs as [|fs]; [lia|]);
    (destruct s as [|c t] eqn:Es;
     [ exists CSuccess, []; split;
       [ rewrite c32f8_loop_S; cbn [length]; replace (i <? i + Z.of_nat 0) with false by lia; cbn [b2z z2b Z.eqb negb];
         rewrite app_nil_r; reflexivity
       | intros [free w] _; cbn [walk fst snd length map rev app]; rewrite Nat.sub_0_r; reflexivity ] |]).
  - cbn [length] in Hn. lia.
  - rewrite <- Es in *. assert (Hne : s <> []) by (rewrite Es; discriminate).
    assert (Hlen : (1 <= length s)%nat) by (rewrite Es; cbn [length]; lia).
    pose proof (extract_utf8_matches s i (fun i_ => wrapu 8 (p i_)) Hne A (view_shows p i s A R)) as X.
    assert (Hw : forall d, walk (c32f8_body m) (S fm) s d =
      (r <- c32f8_body m s d ;; match r with Continue rest st' => walk (c32f8_body m) fm rest st' | Return e => Ok (e, d) end))
      by (intros d; rewrite Es; reflexivity).
    rewrite c32f8_loop_S. replace (i <? i + Z.of_nat (length s)) with true by lia. cbn [b2z z2b Z.eqb negb].
    destruct (extract_utf8 s) as [[ch rest]| | |] eqn:Eext; cbn [ext_ok] in X; try contradiction.
    destruct X as (k & Hk & Er & Ex & Hch & Hcls). rewrite Ex. cbv iota.
    destruct (char_error_class ch Hcls) as [Ec Ez]. rewrite Ec in Ez |- *. rewrite !z2b_b2z, Ez, Hv. rewrite negb_involutive.
    assert (Hrest : (length rest < length s)%nat) by (rewrite Er, skipn_length; lia).
    assert (Arest : all_lt 256 rest = true) by (rewrite Er; apply all_lt_skipn; exact A).
    assert (Rrest : shows schar p (i + Z.of_nat k) rest) by (rewrite Er; apply shows_skipn; [exact R|lia]).
    replace (i + Z.of_nat (length s)) with (i + Z.of_nat k + Z.of_nat (length rest)) by (rewrite Er, skipn_length; lia).
    destruct (is_error (char_error ch)) eqn:Eerr.
    + destruct (is_check m) eqn:Em.
      * exists (char_error ch), []. split; [rewrite app_nil_r; reflexivity|].
        intros d _. rewrite Hw. unfold c32f8_body at 1. rewrite Eext. cbn [bind]. cbv zeta. rewrite Eerr, Em. cbn [andb bind].
        cbn [fst snd length map rev app]. rewrite Nat.sub_0_r. destruct d; reflexivity.
      * destruct (IH rest (out ++ [wrapu 32 ext_badchar_substitute]) (i + Z.of_nat k) p a b fm fs ltac:(lia) Arest Rrest ltac:(lia) ltac:(lia))
          as (e & ws & Es2 & Emod).
        exists e, (wrapu 32 ext_badchar_substitute :: ws). split.
        -- rewrite Es2. rewrite <- app_assoc. reflexivity.
        -- intros [free w] Hd. cbn [fst snd length] in Hd. destruct free as [|free]; [lia|].
           rewrite Hw. unfold c32f8_body at 1. rewrite Eext. cbn [bind]. cbv zeta. rewrite Eerr, Em. cbn [andb].
           rewrite push32_ok. cbn [bind]. rewrite (Emod (free, _)) by (cbn [fst]; lia).
           cbn [fst snd length map rev Nat.sub]. rewrite subst32_stored. rewrite <- app_assoc. reflexivity.
    + destruct (IH rest (out ++ [Z.of_N ch]) (i + Z.of_nat k) p a b fm fs ltac:(lia) Arest Rrest ltac:(lia) ltac:(lia))
        as (e & ws & Es2 & Emod).
      exists e, (Z.of_N ch :: ws). split.
      * rewrite Es2. rewrite <- app_assoc. reflexivity.
      * intros [free w] Hd. cbn [fst snd length] in Hd. destruct free as [|free]; [lia|].
        rewrite Hw. unfold c32f8_body at 1. rewrite Eext. cbn [bind]. cbv zeta. rewrite Eerr. cbn [andb].
        rewrite push32_ok. cbn [bind]. rewrite (Emod (free, _)) by (cbn [fst]; lia).
        cbn [fst snd length map rev Nat.sub]. rewrite (unit32_of_N ch Hch). rewrite <- app_assoc. reflexivity.
Qed.

Theorem utf32_convert_from_utf8_matches_source l m fuel : all_lt 256 l = true -> (length l < fuel)%nat ->
  exists e ws, src_utf32_convert_from_utf8 fuel (arr8s l) (Z.of_nat (length l)) (mode_code m) = Some (Z.of_N (cerr_code e), ws) /\
    forall d : dst, (length ws <= fst d)%nat ->
      utf32_convert_from_utf8 d l m = Ok (e, ((fst d - length ws)%nat, rev (map unit32_of ws) ++ snd d)).
Proof.
  intros A Hf. unfold src_utf32_convert_from_utf8, utf32_convert_from_utf8. cbv zeta.
  assert (Hv : (mode_code m =? ext_check_validity) = is_check m) by (destruct m; reflexivity).
  destruct (c32f8_loop_matches m (mode_code m) Hv (length l) l [] 0 (arr8s l) 0 (Z.of_nat (length l)) (S (length l)) fuel
              ltac:(lia) A (shows_arr8s l) ltac:(lia) Hf) as (e & ws & Es & Em).
  exists e, ws. split; [exact Es|]. intros d Hd. fold (c32f8_body m). exact (Em d Hd).
Qed.

(* ---- utf32_convert_from_utf16 ---- *)
Lemma c32f16_loop_S f p a b v sp ep out : src_utf32_convert_from_utf16_loop1 (S f) p a b v sp ep out =
  (if z2b (b2z (Z.ltb sp ep)) then
     let '(r, ni) := src_extract_utf16 p sp ep in
     if z2b (b2z (negb (Z.eqb (src_char_error r) ext_success))) then
       if z2b (b2z (Z.eqb v ext_check_validity)) then Some (src_char_error r, out)
       else src_utf32_convert_from_utf16_loop1 f p a b v ni ep (out ++ [wrapu 32 ext_badchar_substitute])
     else src_utf32_convert_from_utf16_loop1 f p a b v ni ep (out ++ [r])
   else Some (ext_success, out)).
Proof. cbv beta iota zeta delta [src_utf32_convert_from_utf16_loop1]. destruct (src_extract_utf16 p sp ep). reflexivity. Qed.

Definition c32f16_body (m : vmode) := fun (s : list N) (d : dst) =>
  '(bigch, rest) <- extract_utf16 s ;;
  let error := char_error bigch in
  if is_error error && is_check m then Ok (Return error)
  else
    let bigch := if is_error error then badchar_substitute else bigch in
    d' <- push32 d bigch ;; Ok (Continue rest d').

Theorem c32f16_loop_matches m v : (Z.eqb v ext_check_validity) = is_check m ->
  forall n s out i p a b fm fs, (length s <= n)%nat -> all_lt 65536 s = true -> shows Z.of_N p i s ->
  (length s < fm)%nat -> (length s < fs)%nat ->
  exists e ws, src_utf32_convert_from_utf16_loop1 fs p a b v i (i + Z.of_nat (length s)) out = Some (Z.of_N (cerr_code e), out ++ ws) /\
    forall d : dst, (length ws <= fst d)%nat ->
      walk (c32f16_body m) fm s d = Ok (e, ((fst d - length ws)%nat, rev (map unit32_of ws) ++ snd d)).
Proof.
  intros Hv. induction n as [|n IH]; intros s out i p a b fm fs Hn A R Hfm Hfs;
    (destruct fm as [|fm]; [lia|]); (destruct fs as [|fs]; [lia|]);
    (destruct s as [|c t] eqn:Es;
     [ exists CSuccess, []; split;
       [ rewrite c32f16_loop_S; cbn [length]; replace (i <? i + Z.of_nat 0) with false by lia; cbn [b2z z2b Z.eqb negb];
         rewrite app_nil_r; reflexivity
       | intros [free w] _; cbn [walk fst snd length map rev app]; rewrite Nat.sub_0_r; reflexivity ] |]).
  - cbn [length] in Hn. lia.
  - rewrite <- Es in *. assert (Hne : s <> []) by (rewrite Es; discriminate).
    assert (Hlen : (1 <= length s)%nat) by (rewrite Es; cbn [length]; lia).
    pose proof (extract_utf16_matches s i p Hne A R) as X.
    assert (Hw : forall d, walk (c32f16_body m) (S fm) s d =
      (r <- c32f16_body m s d ;; match r with Continue rest st' => walk (c32f16_body m) fm rest st' | Return e => Ok (e, d) end))
      by (intros d; rewrite Es; reflexivity).
    rewrite c32f16_loop_S. replace (i <? i + Z.of_nat (length s)) with true by lia. cbn [b2z z2b Z.eqb negb].
    destruct (extract_utf16 s) as [[ch rest]| | |] eqn:Eext; cbn [ext_ok] in X; try contradiction.
    destruct X as (k & Hk & Er & Ex & Hch & Hcls). rewrite Ex. cbv iota.
    destruct (char_error_class ch Hcls) as [Ec Ez]. rewrite Ec in Ez |- *. rewrite !z2b_b2z, Ez, Hv. rewrite negb_involutive.
    assert (Hrest : (length rest < length s)%nat) by (rewrite Er, skipn_length; lia).
    assert (Arest : all_lt 65536 rest = true) by (rewrite Er; apply all_lt_skipn; exact A).
    assert (Rrest : shows Z.of_N p (i + Z.of_nat k) rest) by (rewrite Er; apply shows_skipn; [exact R|lia]).
    replace (i + Z.of_nat (length s)) with (i + Z.of_nat k + Z.of_nat (length rest)) by (rewrite Er, skipn_length; lia).
    destruct (is_error (char_error ch)) eqn:Eerr.
    + destruct (is_check m) eqn:Em.
      * exists (char_error ch), []. split; [rewrite app_nil_r; reflexivity|].
        intros d _. rewrite Hw. unfold c32f16_body at 1. rewrite Eext. cbn [bind]. cbv zeta. rewrite Eerr, Em. cbn [andb bind].
        cbn [fst snd length map rev app]. rewrite Nat.sub_0_r. destruct d; reflexivity.
      * destruct (IH rest (out ++ [wrapu 32 ext_badchar_substitute]) (i + Z.of_nat k) p a b fm fs ltac:(lia) Arest Rrest ltac:(lia) ltac:(lia))
          as (e & ws & Es2 & Emod).
        exists e, (wrapu 32 ext_badchar_substitute :: ws). split.
        -- rewrite Es2. rewrite <- app_assoc. reflexivity.
        -- intros [free w] Hd. cbn [fst snd length] in Hd. destruct free as [|free]; [lia|].
           rewrite Hw. unfold c32f16_body at 1. rewrite Eext. cbn [bind]. cbv zeta. rewrite Eerr, Em. cbn [andb].
           rewrite push32_ok. cbn [bind]. rewrite (Emod (free, _)) by (cbn [fst]; lia).
           cbn [fst snd length map rev Nat.sub]. rewrite subst32_stored. rewrite <- app_assoc. reflexivity.
    + destruct (IH rest (out ++ [Z.of_N ch]) (i + Z.of_nat k) p a b fm fs ltac:(lia) Arest Rrest ltac:(lia) ltac:(lia))
        as (e & ws & Es2 & Emod).
      exists e, (Z.of_N ch :: ws). split.
      * rewrite Es2. rewrite <- app_assoc. reflexivity.
      * intros [free w] Hd. cbn [fst snd length] in Hd. destruct free as [|free]; [lia|].
        rewrite Hw. unfold c32f16_body at 1. rewrite Eext. cbn [bind]. cbv zeta. rewrite Eerr. cbn [andb].
        rewrite push32_ok. cbn [bind]. rewrite (Emod (free, _)) by (cbn [fst]; lia).
        cbn [fst snd length map rev Nat.sub]. rewrite (unit32_of_N ch Hch). rewrite <- app_assoc. reflexivity.
Qed.

Theorem utf32_convert_from_utf16_matches_source l m fuel : all_lt 65536 l = true -> (length l < fuel)%nat ->
  exists e ws, src_utf32_convert_from_utf16 fuel (arr32 l) (Z.of_nat (length l)) (mode_code m) = Some (Z.of_N (cerr_code e), ws) /\
    forall d : dst, (length ws <= fst d)%nat ->
      utf32_convert_from_utf16 d l m = Ok (e, ((fst d - length ws)%nat, rev (map unit32_of ws) ++ snd d)).
Proof.
  intros A Hf. unfold src_utf32_convert_from_utf16, utf32_convert_from_utf16. cbv zeta.
  assert (Hv : (mode_code m =? ext_check_validity) = is_check m) by (destruct m; reflexivity).
  destruct (c32f16_loop_matches m (mode_code m) Hv (length l) l [] 0 (arr32 l) 0 (Z.of_nat (length l)) (S (length l)) fuel
              ltac:(lia) A (shows_arr32 l) ltac:(lia) Hf) as (e & ws & Es & Em).
  exists e, ws. split; [exact Es|]. intros d Hd. fold (c32f16_body m). exact (Em d Hd).
Qed.

Example convert_to32_example :
  src_utf32_convert_from_utf8 9 (arr8s [65; 0xE2; 0x82; 0xAC; 0xC3]%N) 5 ext_substitute_invalid = Some (0, [65; 8364; 65533]) /\
  src_utf32_convert_from_utf8 9 (arr8s [65; 0xE2; 0x82; 0xAC; 0xC3]%N) 5 ext_check_validity = Some (1, [65; 8364]) /\
  src_utf32_convert_from_utf16 9 (arr32 [65; 0xD83D; 0xDE00; 0xDC00]%N) 4 ext_assume_valid = Some (0, [65; 128512; 65533]) /\
  utf32_convert_from_utf16 (3%nat, []) [65; 0xD83D; 0xDE00; 0xDC00]%N AssumeValid = Ok (CSuccess, (0%nat, [65533; 128512; 65]%N)).
Proof. vm_compute. repeat split; reflexivity. Qed.
