(* Utf/LoopBridgeWrite.v — the two encoders of include/st_utf_conv_priv.h, write_utf8(char *&dest, ch) and
   write_utf16(char16_t *&dest, ch), as TRANSLATED from the current headers (Gen/Leaf.v: dest is a write-only cursor, the
   function returns its result and the list of units it stored, in order) store the units and return the
   conversion_error_t that the hand-written model encoders Utf/Model.write_utf8 / write_utf16 push and return — for every
   32-bit code unit.  Shifts and masks: Z.of_N commutes with shiftr / land (general lemmas), the remaining 6- or
   10-bit quantity is swept in the kernel VM. *)
From Coq Require Import NArith ZArith List Bool Lia ZifyBool ZifyNat ZifyN.
From ST Require Import Base.Outcome Base.Units Base.Sweep Utf.Spec Utf.Model Gen.Leaf Utf.LoopBridge Utf.LoopBridgeExtract.
Import ListNotations.
Local Open Scope Z_scope.
Local Open Scope outcome_scope.

Lemma of_N_land a b : Z.of_N (N.land a b) = Z.land (Z.of_N a) (Z.of_N b).
Proof. apply Z.bits_inj'. intros n Hn. rewrite Z.land_spec, !Z.testbit_of_N' by exact Hn. apply N.land_spec. Qed.
Lemma of_N_shiftr a k : Z.of_N (N.shiftr a k) = Z.shiftr (Z.of_N a) (Z.of_N k).
Proof.
  apply Z.bits_inj'. intros n Hn. rewrite Z.shiftr_spec by exact Hn. rewrite !Z.testbit_of_N' by lia.
  rewrite N.shiftr_spec by lia. f_equal. lia.
Qed.
Lemma shiftr_le a k : (N.shiftr a k <= a)%N.
Proof. rewrite N.shiftr_div_pow2. apply N.div_le_upper_bound; [apply N.pow_nonzero; lia|]. 
  assert (2 ^ k <> 0)%N by (apply N.pow_nonzero; lia). nia. Qed.
Lemma land_ones_lt a j : (N.land a (N.ones j) < 2 ^ j)%N.
Proof. rewrite N.land_ones. apply N.mod_lt. apply N.pow_nonzero. lia. Qed.

(* the quantity q = (ch >> k) & mask, as the translated code computes it and as the model computes it *)
Lemma field_eq n k j : (n < 4294967296)%N -> (j <= 10)%N ->
  wrapu 32 (Z.land (wrapu 32 (Z.shiftr (Z.of_N n) (Z.of_N k))) (wrapu 32 (Z.of_N (N.ones j)))) =
    Z.of_N (N.land (N.shiftr n k) (N.ones j)) /\ (N.land (N.shiftr n k) (N.ones j) < 2 ^ j)%N.
Proof.
  intros Hn Hj. pose proof (shiftr_le n k) as Hs. pose proof (land_ones_lt (N.shiftr n k) j) as Hl.
  assert (Hp : (2 ^ j <= 1024)%N) by (change 1024%N with (2 ^ 10)%N; apply N.pow_le_mono_r; lia).
  assert (Ho : (N.ones j < 4294967296)%N) by (rewrite N.ones_equiv; lia).
  split; [|exact Hl].
  rewrite <- of_N_shiftr, (wrapu32_of_N (N.shiftr n k)) by lia.
  rewrite (wrapu32_of_N (N.ones j) Ho), <- of_N_land. apply wrapu32_of_N. lia.
Qed.
Lemma field0_eq n j : (n < 4294967296)%N -> (j <= 10)%N ->
  wrapu 32 (Z.land (Z.of_N n) (wrapu 32 (Z.of_N (N.ones j)))) = Z.of_N (N.land n (N.ones j)) /\
  (N.land n (N.ones j) < 2 ^ j)%N.
Proof.
  intros Hn Hj. pose proof (land_ones_lt n j) as Hl.
  assert (Hp : (2 ^ j <= 1024)%N) by (change 1024%N with (2 ^ 10)%N; apply N.pow_le_mono_r; lia).
  assert (Ho : (N.ones j < 4294967296)%N) by (rewrite N.ones_equiv; lia).
  split; [|exact Hl]. rewrite (wrapu32_of_N (N.ones j) Ho), <- of_N_land. apply wrapu32_of_N. lia.
Qed.

(* the stored byte, as a function of the field q < 64, for the four lead constants *)
Definition stored8 (lead : Z) (q : N) : N := Z.to_N (wraps 8 (wrapu 32 (Z.lor (wrapu 32 lead) (Z.of_N q))) mod 256).
Definition lead8_agree (q : N) : bool :=
  (stored8 192 q =? N.land (N.lor 0xC0 q) 0xFF)%N && (stored8 224 q =? N.land (N.lor 0xE0 q) 0xFF)%N &&
  (stored8 240 q =? N.land (N.lor 0xF0 q) 0xFF)%N && (stored8 128 q =? N.land (N.lor 0x80 q) 0xFF)%N.
Lemma lead8_sweep : all_below 6 lead8_agree = true. Proof. vm_compute. reflexivity. Qed.
Lemma lead8 q : (q < 64)%N ->
  stored8 192 q = N.land (N.lor 0xC0 q) 0xFF /\ stored8 224 q = N.land (N.lor 0xE0 q) 0xFF /\
  stored8 240 q = N.land (N.lor 0xF0 q) 0xFF /\ stored8 128 q = N.land (N.lor 0x80 q) 0xFF.
Proof.
  intros H. pose proof (all_below_spec 6 lead8_agree lead8_sweep q H) as E.
  unfold lead8_agree in E. repeat (apply andb_true_iff in E; destruct E as [E ?]).
  repeat split; apply N.eqb_eq; assumption.
Qed.
Definition ascii_agree (q : N) : bool := (Z.to_N (wraps 8 (Z.of_N q) mod 256) =? N.land q 0xFF)%N.
Lemma ascii_sweep : all_below 7 ascii_agree = true. Proof. vm_compute. reflexivity. Qed.

Definition byte_of (w : Z) : N := Z.to_N (w mod 256).

Lemma src_write_utf8_eq ch : src_write_utf8 ch =
  (if z2b (b2z (wrapu 32 ch <? wrapu 32 128)) then (ext_success, [] ++ [wraps 8 ch])
   else if z2b (b2z (wrapu 32 ch <? wrapu 32 2048)) then
     (ext_success, ([] ++ [wraps 8 (wrapu 32 (Z.lor (wrapu 32 192) (wrapu 32 (Z.land (wrapu 32 (Z.shiftr (wrapu 32 ch) 6)) (wrapu 32 31)))))])
                   ++ [wraps 8 (wrapu 32 (Z.lor (wrapu 32 128) (wrapu 32 (Z.land (wrapu 32 ch) (wrapu 32 63)))))])
   else if z2b (b2z (wrapu 32 ch <? wrapu 32 65536)) then
     (ext_success, (([] ++ [wraps 8 (wrapu 32 (Z.lor (wrapu 32 224) (wrapu 32 (Z.land (wrapu 32 (Z.shiftr (wrapu 32 ch) 12)) (wrapu 32 15)))))])
                    ++ [wraps 8 (wrapu 32 (Z.lor (wrapu 32 128) (wrapu 32 (Z.land (wrapu 32 (Z.shiftr (wrapu 32 ch) 6)) (wrapu 32 63)))))])
                   ++ [wraps 8 (wrapu 32 (Z.lor (wrapu 32 128) (wrapu 32 (Z.land (wrapu 32 ch) (wrapu 32 63)))))])
   else if z2b (b2z (wrapu 32 ch <=? wrapu 32 1114111)) then
     (ext_success, ((([] ++ [wraps 8 (wrapu 32 (Z.lor (wrapu 32 240) (wrapu 32 (Z.land (wrapu 32 (Z.shiftr (wrapu 32 ch) 18)) (wrapu 32 7)))))])
                     ++ [wraps 8 (wrapu 32 (Z.lor (wrapu 32 128) (wrapu 32 (Z.land (wrapu 32 (Z.shiftr (wrapu 32 ch) 12)) (wrapu 32 63)))))])
                    ++ [wraps 8 (wrapu 32 (Z.lor (wrapu 32 128) (wrapu 32 (Z.land (wrapu 32 (Z.shiftr (wrapu 32 ch) 6)) (wrapu 32 63)))))])
                   ++ [wraps 8 (wrapu 32 (Z.lor (wrapu 32 128) (wrapu 32 (Z.land (wrapu 32 ch) (wrapu 32 63)))))])
   else (ext_out_of_range, [])).
Proof. reflexivity. Qed.

(* one stored byte of a multi-byte form: field (ch >> k) & ones j under the lead constant *)
Lemma enc_byte lead n k j : (n < 4294967296)%N -> (j <= 6)%N ->
  byte_of (wraps 8 (wrapu 32 (Z.lor (wrapu 32 lead) (wrapu 32 (Z.land (wrapu 32 (Z.shiftr (Z.of_N n) (Z.of_N k))) (wrapu 32 (Z.of_N (N.ones j))))))))
    = stored8 lead (N.land (N.shiftr n k) (N.ones j)) /\ (N.land (N.shiftr n k) (N.ones j) < 64)%N.
Proof.
  intros Hn Hj. destruct (field_eq n k j Hn ltac:(lia)) as [E L]. rewrite E.
  assert (2 ^ j <= 64)%N by (change 64%N with (2 ^ 6)%N; apply N.pow_le_mono_r; lia).
  split; [reflexivity|lia].
Qed.
Lemma enc_byte0 lead n j : (n < 4294967296)%N -> (j <= 6)%N ->
  byte_of (wraps 8 (wrapu 32 (Z.lor (wrapu 32 lead) (wrapu 32 (Z.land (Z.of_N n) (wrapu 32 (Z.of_N (N.ones j))))))))
    = stored8 lead (N.land n (N.ones j)) /\ (N.land n (N.ones j) < 64)%N.
Proof.
  intros Hn Hj. destruct (field0_eq n j Hn ltac:(lia)) as [E L]. rewrite E.
  assert (2 ^ j <= 64)%N by (change 64%N with (2 ^ 6)%N; apply N.pow_le_mono_r; lia).
  split; [reflexivity|lia].
Qed.

(* what a call of an encoder must satisfy: with enough room the model pushes exactly the stored units and returns the code *)
Definition write_ok (m : dst -> outcome (cerr * dst)) (srcv : Z * list Z) (unit_of : Z -> N) : Prop :=
  forall d : dst, (length (snd srcv) <= fst d)%nat ->
    m d = Ok (cerr_of_code (Z.to_N (fst srcv)), ((fst d - length (snd srcv))%nat, rev (map unit_of (snd srcv)) ++ snd d)).

Lemma push8_ok free w v : push8 (S free, w) v = Ok (free, N.land v 0xFF :: w).
Proof. reflexivity. Qed.

Theorem write_utf8_matches_source n : (n < 4294967296)%N ->
  write_ok (fun d => write_utf8 d n) (src_write_utf8 (Z.of_N n)) byte_of.
Proof.
  intros Hn. rewrite src_write_utf8_eq. rewrite !z2b_b2z. rewrite (wrapu32_of_N n Hn).
  change (Z.of_N n <? wrapu 32 128) with (Z.of_N n <? Z.of_N 128). change (Z.of_N n <? wrapu 32 2048) with (Z.of_N n <? Z.of_N 2048).
  change (Z.of_N n <? wrapu 32 65536) with (Z.of_N n <? Z.of_N 65536).
  change (Z.of_N n <=? wrapu 32 1114111) with (Z.of_N n <=? Z.of_N 1114111). rewrite !ltb_N, !leb_N.
  unfold write_ok, write_utf8.
  destruct (n <? 128)%N eqn:E1.
  { intros [free w] Hd. cbn [fst snd length app map rev] in *. destruct free as [|free]; [lia|]. rewrite push8_ok. cbn [bind].
    repeat f_equal; [lia|]. unfold byte_of. symmetry. apply N.eqb_eq.
    apply (all_below_spec 7 ascii_agree ascii_sweep n). change (2 ^ N.of_nat 7)%N with 128%N. lia. }
  destruct (n <? 2048)%N eqn:E2.
  { destruct (enc_byte 192 n 6 5 Hn ltac:(lia)) as [B1 Q1]. destruct (enc_byte0 128 n 6 Hn ltac:(lia)) as [B2 Q2].
    destruct (lead8 _ Q1) as (S1 & _ & _ & _). destruct (lead8 _ Q2) as (_ & _ & _ & S2).
    intros [free w] Hd. cbn [fst snd length app map rev] in *.
    destruct free as [|[|free]]; try lia. rewrite !push8_ok. cbn [bind]. rewrite !push8_ok. cbn [bind].
    change (Z.of_N 6) with 6 in B1. change (Z.of_N (N.ones 5)) with 31 in B1. change (Z.of_N (N.ones 6)) with 63 in B2.
    rewrite B1, B2, S1, S2. repeat f_equal; lia. }
  destruct (n <? 65536)%N eqn:E3.
  { destruct (enc_byte 224 n 12 4 Hn ltac:(lia)) as [B1 Q1]. destruct (enc_byte 128 n 6 6 Hn ltac:(lia)) as [B2 Q2].
    destruct (enc_byte0 128 n 6 Hn ltac:(lia)) as [B3 Q3].
    destruct (lead8 _ Q1) as (_ & S1 & _ & _). destruct (lead8 _ Q2) as (_ & _ & _ & S2). destruct (lead8 _ Q3) as (_ & _ & _ & S3).
    intros [free w] Hd. cbn [fst snd length app map rev] in *.
    destruct free as [|[|[|free]]]; try lia. repeat (rewrite !push8_ok; cbn [bind]).
    change (Z.of_N 12) with 12 in B1. change (Z.of_N (N.ones 4)) with 15 in B1.
    change (Z.of_N 6) with 6 in B2. change (Z.of_N (N.ones 6)) with 63 in B2, B3.
    rewrite B1, B2, B3, S1, S2, S3. repeat f_equal; lia. }
  destruct (n <=? 1114111)%N eqn:E4.
  { destruct (enc_byte 240 n 18 3 Hn ltac:(lia)) as [B1 Q1]. destruct (enc_byte 128 n 12 6 Hn ltac:(lia)) as [B2 Q2].
    destruct (enc_byte 128 n 6 6 Hn ltac:(lia)) as [B3 Q3]. destruct (enc_byte0 128 n 6 Hn ltac:(lia)) as [B4 Q4].
    destruct (lead8 _ Q1) as (_ & _ & S1 & _). destruct (lead8 _ Q2) as (_ & _ & _ & S2). destruct (lead8 _ Q3) as (_ & _ & _ & S3).
    destruct (lead8 _ Q4) as (_ & _ & _ & S4).
    intros [free w] Hd. cbn [fst snd length app map rev] in *.
    destruct free as [|[|[|[|free]]]]; try lia. repeat (rewrite !push8_ok; cbn [bind]).
    change (Z.of_N 18) with 18 in B1. change (Z.of_N (N.ones 3)) with 7 in B1.
    change (Z.of_N 12) with 12 in B2. change (Z.of_N 6) with 6 in B3. change (Z.of_N (N.ones 6)) with 63 in B2, B3, B4.
    rewrite B1, B2, B3, B4, S1, S2, S3, S4. repeat f_equal; lia. }
  intros [free w] Hd. cbn [fst snd length app map rev]. repeat f_equal. lia.
Qed.

(* ---- write_utf16 ---- *)
Definition unit16_of (w : Z) : N := Z.to_N (w mod 65536).
Definition stored16 (lead : Z) (q : N) : N := Z.to_N (wrapu 16 (wrapu 32 (Z.lor (wrapu 32 lead) (Z.of_N q))) mod 65536).
Definition lead16_agree (q : N) : bool :=
  (stored16 55296 q =? N.land (N.lor 0xD800 q) 0xFFFF)%N && (stored16 56320 q =? N.land (N.lor 0xDC00 q) 0xFFFF)%N.
Lemma lead16_sweep : all_below 10 lead16_agree = true. Proof. vm_compute. reflexivity. Qed.
Lemma lead16 q : (q < 1024)%N ->
  stored16 55296 q = N.land (N.lor 0xD800 q) 0xFFFF /\ stored16 56320 q = N.land (N.lor 0xDC00 q) 0xFFFF.
Proof.
  intros H. pose proof (all_below_spec 10 lead16_agree lead16_sweep q H) as E.
  unfold lead16_agree in E. apply andb_true_iff in E. destruct E as [E1 E2]. split; apply N.eqb_eq; assumption.
Qed.

Lemma src_write_utf16_eq ch : src_write_utf16 ch =
  (if z2b (b2z (wrapu 32 ch <? wrapu 32 65536)) then (ext_success, [] ++ [wrapu 16 ch])
   else if z2b (b2z (wrapu 32 ch <=? wrapu 32 1114111)) then
     let ch1 := wrapu 32 (wrapu 32 (wrapu 32 ch - wrapu 32 65536)) in
     (ext_success, ([] ++ [wrapu 16 (wrapu 32 (Z.lor (wrapu 32 55296) (wrapu 32 (Z.land (wrapu 32 (Z.shiftr (wrapu 32 ch1) 10)) (wrapu 32 1023)))))])
                   ++ [wrapu 16 (wrapu 32 (Z.lor (wrapu 32 56320) (wrapu 32 (Z.land (wrapu 32 ch1) (wrapu 32 1023)))))])
   else (ext_out_of_range, [])).
Proof. reflexivity. Qed.

Lemma push16_ok free w v : push16 (S free, w) v = Ok (free, N.land v 0xFFFF :: w).
Proof. reflexivity. Qed.

Theorem write_utf16_matches_source n : (n < 4294967296)%N ->
  write_ok (fun d => write_utf16 d n) (src_write_utf16 (Z.of_N n)) unit16_of.
Proof.
  intros Hn. rewrite src_write_utf16_eq. rewrite !z2b_b2z. rewrite (wrapu32_of_N n Hn).
  change (Z.of_N n <? wrapu 32 65536) with (Z.of_N n <? Z.of_N 65536).
  change (Z.of_N n <=? wrapu 32 1114111) with (Z.of_N n <=? Z.of_N 1114111). rewrite !ltb_N, !leb_N.
  unfold write_ok, write_utf16.
  destruct (n <? 65536)%N eqn:E1.
  { intros [free w] Hd. cbn [fst snd length app map rev] in *. destruct free as [|free]; [lia|]. rewrite push16_ok. cbn [bind].
    repeat f_equal; [lia|]. unfold unit16_of, wrapu. change (2 ^ 16) with 65536. rewrite Z.mod_mod by lia.
    rewrite Z.mod_small by lia. change 65535%N with (N.ones 16). rewrite N.land_ones, N.mod_small by (change (2 ^ 16)%N with 65536%N; lia). lia. }
  destruct (n <=? 1114111)%N eqn:E2.
  { cbv zeta.
    assert (Hc : wrapu 32 (wrapu 32 (Z.of_N n - wrapu 32 65536)) = Z.of_N (n - 65536)).
    { change (wrapu 32 65536) with 65536. replace (Z.of_N n - 65536) with (Z.of_N (n - 65536)) by lia. rewrite !wrapu32_of_N by lia. reflexivity. }
    rewrite Hc. assert (Hn' : (n - 65536 < 4294967296)%N) by lia.
    rewrite (wrapu32_of_N (n - 65536) Hn').
    destruct (field_eq (n - 65536) 10 10 Hn' ltac:(lia)) as [F1 Q1]. destruct (field0_eq (n - 65536) 10 Hn' ltac:(lia)) as [F2 Q2].
    change (Z.of_N 10) with 10 in F1. change (Z.of_N (N.ones 10)) with 1023 in F1, F2. rewrite F1, F2.
    change (2 ^ 10)%N with 1024%N in Q1, Q2. change (N.ones 10) with 1023%N in *.
    destruct (lead16 _ Q1) as (S1 & _). destruct (lead16 _ Q2) as (_ & S2).
    intros [free w] Hd. cbn [fst snd length app map rev] in *.
    destruct free as [|[|free]]; try lia. repeat (rewrite !push16_ok; cbn [bind]).
    unfold unit16_of. fold (stored16 55296 (N.land (N.shiftr (n - 65536) 10) 1023)). fold (stored16 56320 (N.land (n - 65536) 1023)).
    rewrite S1, S2. repeat f_equal; lia. }
  intros [free w] Hd. cbn [fst snd length app map rev]. repeat f_equal. lia.
Qed.

Example encoders_example :
  src_write_utf8 8364 = (0, [-30; -126; -84]) /\ map byte_of (snd (src_write_utf8 8364)) = [0xE2; 0x82; 0xAC]%N /\
  src_write_utf16 128512 = (0, [55357; 56832]) /\ fst (src_write_utf8 1114112) = 4 /\
  write_utf8 (3%nat, []) 8364 = Ok (CSuccess, (0%nat, [0xAC; 0x82; 0xE2]%N)).
Proof. vm_compute. repeat split; reflexivity. Qed.
