(* Utf/LeafBridge.v — utf8_measure, utf16_measure, error_char and char_error of Utf/Model.v compute what the functions
   found in the CURRENT headers compute (Gen/Leaf.v, regenerated from the clang AST on every run), for every 32-bit
   code unit / every enumerator of conversion_error_t. *)
From Coq Require Import NArith ZArith Bool Lia List.
From ST Require Import Base.Outcome Base.Units Base.Sweep Utf.Spec Utf.Model Gen.Leaf Gen.Consts.
Import ListNotations.
Local Open Scope Z_scope.

Lemma wrapu32_small x : 0 <= x < 2 ^ 32 -> wrapu 32 x = x.
Proof. intros H. unfold wrapu. apply Z.mod_small. exact H. Qed.
Lemma wrapu64_small x : 0 <= x < 2 ^ 64 -> wrapu 64 x = x.
Proof. intros H. unfold wrapu. apply Z.mod_small. exact H. Qed.

Theorem utf8_measure_matches_source ch : (ch < 2 ^ 32)%N ->
  src_utf8_measure (Z.of_N ch) = Z.of_nat (utf8_measure ch).
Proof.
  intros H. assert (Hz : 0 <= Z.of_N ch < 2 ^ 32) by lia.
  unfold src_utf8_measure, utf8_measure.
  rewrite !(wrapu32_small (Z.of_N ch) Hz).
  rewrite !wrapu32_small by lia. rewrite !wrapu64_small by lia.
  unfold z2b, b2z.
  destruct (N.ltb_spec ch 0x80); [replace (Z.of_N ch <? 128) with true by (symmetry; apply Z.ltb_lt; lia); reflexivity|].
  replace (Z.of_N ch <? 128) with false by (symmetry; apply Z.ltb_ge; lia). cbn [negb Z.eqb].
  destruct (N.ltb_spec ch 0x800); [replace (Z.of_N ch <? 2048) with true by (symmetry; apply Z.ltb_lt; lia); reflexivity|].
  replace (Z.of_N ch <? 2048) with false by (symmetry; apply Z.ltb_ge; lia). cbn [negb Z.eqb].
  destruct (N.ltb_spec ch 0x10000); [replace (Z.of_N ch <? 65536) with true by (symmetry; apply Z.ltb_lt; lia); reflexivity|].
  replace (Z.of_N ch <? 65536) with false by (symmetry; apply Z.ltb_ge; lia). cbn [negb Z.eqb].
  destruct (N.leb_spec ch 0x10FFFF); [replace (Z.of_N ch <=? 1114111) with true by (symmetry; apply Z.leb_le; lia); reflexivity|].
  replace (Z.of_N ch <=? 1114111) with false by (symmetry; apply Z.leb_gt; lia). cbn [negb Z.eqb].
  vm_compute. reflexivity.
Qed.

Theorem utf16_measure_matches_source ch : (ch < 2 ^ 32)%N ->
  src_utf16_measure (Z.of_N ch) = Z.of_nat (utf16_measure ch).
Proof.
  intros H. assert (Hz : 0 <= Z.of_N ch < 2 ^ 32) by lia.
  unfold src_utf16_measure, utf16_measure.
  rewrite !(wrapu32_small (Z.of_N ch) Hz).
  rewrite !wrapu32_small by lia. rewrite !wrapu64_small by lia.
  unfold z2b, b2z.
  destruct (N.ltb_spec ch 0x10000).
  - replace (Z.of_N ch <? 65536) with true by (symmetry; apply Z.ltb_lt; lia). reflexivity.
  - replace (Z.of_N ch <? 65536) with false by (symmetry; apply Z.ltb_ge; lia).
    destruct (N.ltb_spec 0x10FFFF ch).
    + replace (Z.of_N ch >? 1114111) with true by (symmetry; apply Z.gtb_lt; lia). reflexivity.
    + replace (Z.of_N ch >? 1114111) with false by (rewrite Z.gtb_ltb; symmetry; apply Z.ltb_ge; lia). reflexivity.
Qed.

(* the enumerators of conversion_error_t, in declaration order *)
Definition enumerators : list cerr := [CSuccess; CIncompleteUtf8; CIncompleteSurrogate; CInvalidUtf8; COutOfRange; CLatin1OutOfRange].

Theorem error_char_matches_source : forall e, In e enumerators ->
  src_error_char (Z.of_N (cerr_code e)) = Z.of_N (error_char e) /\
  src_char_error (Z.of_N (error_char e)) = Z.of_N (cerr_code (char_error (error_char e))) /\
  char_error (error_char e) = e.
Proof.
  intros e H. cbn in H.
  repeat (destruct H as [<-|H]; [vm_compute; repeat split; reflexivity|]). contradiction.
Qed.

Lemma land_pow2_small x n : 0 <= n -> 0 <= x < 2 ^ n -> Z.land x (2 ^ n) = 0.
Proof.
  intros Hn Hx. apply Z.bits_inj'. intros k Hk. rewrite Z.land_spec, Z.bits_0.
  destruct (Z.eq_dec k n) as [->|Hne].
  - destruct (Z.eq_dec x 0) as [->|Hx0]; [rewrite Z.bits_0; reflexivity|].
    rewrite (Z.bits_above_log2 x n); [reflexivity|lia|]. apply Z.log2_lt_pow2; lia.
  - rewrite Z.pow2_bits_false by lia. apply andb_false_r.
Qed.

(* a code unit without the in-band error bit is no error, in the source and in the model (swept over the bit's
   neighbourhood is not needed: stated for every 32-bit value through the bit test itself) *)
Theorem char_error_matches_source_on_characters ch : (ch < 2 ^ 22)%N ->
  src_char_error (Z.of_N ch) = 0 /\ char_error ch = CSuccess.
Proof.
  intros H. assert (Hz : 0 <= Z.of_N ch < 2 ^ 22) by lia.
  assert (L0 : N.land ch 0x400000 = 0%N).
  { apply N.bits_inj. intros n. rewrite N.land_spec, N.bits_0.
    destruct (N.eq_dec n 22) as [->|Hn].
    - rewrite (N.bits_above_log2 ch 22); [reflexivity|].
      destruct (N.eq_dec ch 0) as [->|Hc]; [cbn; lia|]. apply N.log2_lt_pow2; lia.
    - replace (N.testbit 0x400000 n) with false; [apply andb_false_r|].
      symmetry. change 0x400000%N with (2 ^ 22)%N. apply N.pow2_bits_false. congruence. }
  split.
  - unfold src_char_error. rewrite !(wrapu32_small (Z.of_N ch)) by lia.
    change 4194304 with (2 ^ 22). rewrite (land_pow2_small (Z.of_N ch) 22) by lia. reflexivity.
  - unfold char_error, error_bit. rewrite L0. reflexivity.
Qed.
