(* Utf/SourceFit4.v — source-level fit of the two passes, UTF-16 -> UTF-8 (see Utf/SourceFit.v).  This is the one
   converting pass that contains an ST_ASSERT (write_utf8's out-of-range result "cannot happen" after extract_utf16).
   For a UTF-16 string of any length and every validation mode, the translated utf8_convert_from_utf16 never ends in
   ext_abort — the assertion is unreachable in the code found in the headers — and it stores at most what the translated
   utf8_measure_from_utf16 returned, exactly that on success. *)
From Coq Require Import NArith ZArith List Bool Lia ZifyBool ZifyNat ZifyN.
From ST Require Import Base.Outcome Base.Units Utf.Spec Utf.Tokens Utf.Model Utf.ProofsTok Utf.ProofsWalk Utf.ProofsGeneric
  Utf.ProofsFrom16 Gen.Leaf Utf.LoopBridge Utf.LoopBridgeWrite Utf.LoopBridgeMeasure Utf.LoopBridgeConvert32
  Utf.LoopBridgeConvert16To8 Utf.SourceFit.
Import ListNotations.
Local Open Scope Z_scope.

Theorem utf16_to_utf8_source_passes_fit l m fuel : all_lt 65536 l = true ->
  4 * Z.of_nat (length l) < 18446744073709551616 -> (length l < fuel)%nat ->
  exists e ws n, src_utf8_convert_from_utf16 fuel (arr32 l) (Z.of_nat (length l)) (mode_code m) = Some (Z.of_N (cerr_code e), ws) /\
                 src_utf8_measure_from_utf16 fuel (arr32 l) (Z.of_nat (length l)) = Some (Z.of_nat n) /\
                 (length ws <= n)%nat /\ (e = CSuccess -> length ws = n).
Proof.
  intros A Hb Hf.
  destruct (utf8_convert_from_utf16_matches_source l m fuel A Hf) as (oe & ws & Es & Em).
  destruct (utf8_measure_from_utf16_matches_source l fuel A Hb Hf) as (n & Mn & Ms).
  rewrite (utf8_measure_from_utf16_tokens l A) in Mn. inversion Mn as [Hn].
  destruct oe as [e|].
  - exists e, ws, (total_cost (mcost T8) (tok E16 l)). split; [exact Es|]. split; [rewrite Hn; exact Ms|].
    apply (fit_core (pc E16 T8 m false) (mcost T8) (tok E16 l) (fun d => utf8_convert_from_utf16 d l m) e (length ws) (rev (map byte_of ws))).
    + intros d. apply utf8_convert_from_utf16_tokens. exact A.
    + intros t l0. apply pc_cost. discriminate.
    + intros t er. apply pc_real_error.
    + exact Em.
  - exfalso. set (po := pieces_out (pc E16 T8 m false) (tok E16 l)).
    pose proof (Em ((length ws + length (fst po))%nat, @nil N) ltac:(cbn; lia)) as H1.
    rewrite (utf8_convert_from_utf16_tokens _ l m A) in H1.
    rewrite (twalk_emit (pc E16 T8 m false) (tok E16 l)) in H1 by (fold po; lia).
    cbn [model_of] in H1. discriminate H1.
Qed.
