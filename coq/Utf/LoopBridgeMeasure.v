(* Utf/LoopBridgeMeasure.v — the four measuring passes of include/st_utf_conv_priv.h that decode their input,
   utf8_measure_from_utf16, utf16_measure_from_utf8, utf32_measure_from_utf8 and utf32_measure_from_utf16, as TRANSLATED
   from the current headers (Gen/Leaf.v; each calls the translated decoder, which advances the loop's pointer), return
   the number the model passes of Utf/Model.v return — for inputs of any length and every sufficient fuel. *)
From Coq Require Import NArith ZArith List Bool Lia ZifyBool ZifyNat ZifyN.
From ST Require Import Base.Outcome Base.Units Base.Sweep Utf.Spec Utf.Model Gen.Leaf Utf.LeafBridge Utf.LoopBridge Utf.LoopBridgeExtract.
Import ListNotations.
Local Open Scope Z_scope.
Local Open Scope outcome_scope.

Lemma shows_skipn f p i s k : shows f p i s -> (k <= length s)%nat -> shows f p (i + Z.of_nat k) (skipn k s).
Proof.
  intros R Hk j Hj. rewrite skipn_length in Hj. specialize (R (k + j)%nat ltac:(lia)).
  replace (i + Z.of_nat k + Z.of_nat j) with (i + Z.of_nat (k + j)) by lia. rewrite R. f_equal.
  rewrite <- (firstn_skipn k s) at 1. rewrite app_nth2; rewrite firstn_length_le by lia; [f_equal; lia|lia].
Qed.
Lemma all_lt_skipn b s k : all_lt b s = true -> all_lt b (skipn k s) = true.
Proof.
  unfold all_lt. rewrite !forallb_forall. intros H x Hx. apply H.
  rewrite <- (firstn_skipn k s). apply in_or_app. right. exact Hx.
Qed.
Definition byte_view_agrees (b : N) : bool := wrapu 8 (schar b) =? Z.of_N b.
Lemma byte_view_sweep : all_below 8 byte_view_agrees = true. Proof. vm_compute. reflexivity. Qed.
Lemma view_shows p i s : all_lt 256 s = true -> shows schar p i s -> shows Z.of_N (fun i_ => wrapu 8 (p i_)) i s.
Proof.
  intros A R k Hk. cbv beta. rewrite (R k Hk). apply Z.eqb_eq.
  apply (all_below_spec 8 byte_view_agrees byte_view_sweep). change (2 ^ N.of_nat 8)%N with 256%N.
  unfold all_lt in A. rewrite forallb_forall in A. apply N.ltb_lt. apply A. apply nth_In. exact Hk.
Qed.
Lemma shows_arr16 l : shows Z.of_N (arr32 l) 0 l.
Proof. exact (shows_arr32 l). Qed.

(* ---- utf8_measure_from_utf16 ---- *)
Lemma m8f16_loop_S f p a b acc sp ep : src_utf8_measure_from_utf16_loop1 (S f) p a b acc sp ep =
  (if z2b (b2z (Z.ltb sp ep)) then
     let '(r, ni) := src_extract_utf16 p sp ep in let acc' := wrapu 64 (wrapu 64 (wrapu 64 acc + src_utf8_measure r)) in let sp' := ni in
     src_utf8_measure_from_utf16_loop1 f p a b acc' sp' ep
   else Some acc).
Proof. reflexivity. Qed.

Definition m8f16_body := fun (s : list N) (n : nat) => '(ch, rest) <- extract_utf16 s ;; Ok (Continue rest (utf8_measure ch + n)%nat).

Theorem m8f16_loop_matches : forall n s acc i p a b fm fs, (length s <= n)%nat -> all_lt 65536 s = true -> shows Z.of_N p i s ->
  (length s < fm)%nat -> (length s < fs)%nat -> Z.of_nat acc + 4 * Z.of_nat (length s) < 18446744073709551616 ->
  exists m, walk m8f16_body fm s acc = Ok (CSuccess, m) /\
            src_utf8_measure_from_utf16_loop1 fs p a b (Z.of_nat acc) i (i + Z.of_nat (length s)) = Some (Z.of_nat m).
Proof.
  induction n as [|n IH]; intros s acc i p a b fm fs Hn A R Hfm Hfs Hb;
    (destruct fm as [|fm]; [lia|]); (destruct fs as [|fs]; [lia|]);
    (destruct s as [|c t] eqn:Es;
     [ exists acc; split; [reflexivity|]; rewrite m8f16_loop_S; cbn [length];
       replace (i <? i + Z.of_nat 0) with false by lia; reflexivity |]).
  - cbn [length] in Hn. lia.
  - rewrite <- Es in *. assert (Hne : s <> []) by (rewrite Es; discriminate).
    assert (Hlen : (1 <= length s)%nat) by (rewrite Es; cbn [length]; lia).
    pose proof (extract_utf16_matches s i p Hne A R) as X.
    replace (walk m8f16_body (S fm) s acc) with
      (r <- m8f16_body s acc ;; match r with Continue rest st' => walk m8f16_body fm rest st' | Return e => Ok (e, acc) end)
      by (rewrite Es; reflexivity).
    unfold m8f16_body at 1. rewrite m8f16_loop_S. replace (i <? i + Z.of_nat (length s)) with true by lia.
    cbn [b2z z2b Z.eqb negb].
    destruct (extract_utf16 s) as [[ch rest]| | |]; cbn [ext_ok] in X; try contradiction.
    destruct X as (k & Hk & Er & Ex & Hch & _). rewrite Ex. cbn [bind]. cbv zeta.
    pose proof (utf8_measure_le4 ch) as Hm.
    rewrite utf8_measure_matches_source by (change (2 ^ 32)%N with 4294967296%N; lia).
    rewrite (Utf.LeafBridge.wrapu64_small (Z.of_nat acc)) by (change (2 ^ 64) with 18446744073709551616; lia).
    rewrite !(Utf.LeafBridge.wrapu64_small (Z.of_nat acc + Z.of_nat (utf8_measure ch))) by (change (2 ^ 64) with 18446744073709551616; lia).
    replace (Z.of_nat acc + Z.of_nat (utf8_measure ch)) with (Z.of_nat (utf8_measure ch + acc)) by lia.
    replace (i + Z.of_nat (length s)) with (i + Z.of_nat k + Z.of_nat (length rest)) by (rewrite Er, skipn_length; lia).
    apply IH; try (rewrite Er, skipn_length; lia).
    + rewrite Er. apply all_lt_skipn. exact A.
    + rewrite Er. apply shows_skipn; [exact R|lia].
Qed.

Theorem utf8_measure_from_utf16_matches_source l fuel : all_lt 65536 l = true ->
  4 * Z.of_nat (length l) < 18446744073709551616 -> (length l < fuel)%nat ->
  exists n, utf8_measure_from_utf16 (Some l) = Ok n /\
            src_utf8_measure_from_utf16 fuel (arr32 l) (Z.of_nat (length l)) = Some (Z.of_nat n).
Proof.
  intros A Hb Hf. unfold utf8_measure_from_utf16, measure_walk, src_utf8_measure_from_utf16. rewrite nonnull_param. cbv zeta.
  destruct (m8f16_loop_matches (length l) l 0%nat 0 (arr32 l) 0 (Z.of_nat (length l)) (S (length l)) fuel ltac:(lia) A (shows_arr32 l)
              ltac:(lia) Hf ltac:(lia)) as (n & Em & Es).
  fold m8f16_body. rewrite Em. cbn [bind]. exists n. split; [reflexivity|].
  change (wrapu 64 0) with (Z.of_nat 0). exact Es.
Qed.

(* ---- utf16_measure_from_utf8 ---- *)
Lemma m16f8_loop_S f p a b acc sp ep : src_utf16_measure_from_utf8_loop1 (S f) p a b acc sp ep =
  (if z2b (b2z (Z.ltb sp ep)) then
     let '(r, ni) := src_extract_utf8 (fun i_ => wrapu 8 (p i_)) sp ep in let acc' := wrapu 64 (wrapu 64 (wrapu 64 acc + src_utf16_measure r)) in let sp' := ni in
     src_utf16_measure_from_utf8_loop1 f p a b acc' sp' ep
   else Some acc).
Proof. reflexivity. Qed.

Definition m16f8_body := fun (s : list N) (n : nat) => '(ch, rest) <- extract_utf8 s ;; Ok (Continue rest (utf16_measure ch + n)%nat).

Theorem m16f8_loop_matches : forall n s acc i p a b fm fs, (length s <= n)%nat -> all_lt 256 s = true -> shows schar p i s ->
  (length s < fm)%nat -> (length s < fs)%nat -> Z.of_nat acc + 4 * Z.of_nat (length s) < 18446744073709551616 ->
  exists m, walk m16f8_body fm s acc = Ok (CSuccess, m) /\
            src_utf16_measure_from_utf8_loop1 fs p a b (Z.of_nat acc) i (i + Z.of_nat (length s)) = Some (Z.of_nat m).
Proof.
  induction n as [|n IH]; intros s acc i p a b fm fs Hn A R Hfm Hfs Hb;
    (destruct fm as [|fm]; [lia|]); (destruct fs as [|fs]; [lia|]);
    (destruct s as [|c t] eqn:Es;
     [ exists acc; split; [reflexivity|]; rewrite m16f8_loop_S; cbn [length];
       replace (i <? i + Z.of_nat 0) with false by lia; reflexivity |]).
  - cbn [length] in Hn. lia.
  - rewrite <- Es in *. assert (Hne : s <> []) by (rewrite Es; discriminate).
    assert (Hlen : (1 <= length s)%nat) by (rewrite Es; cbn [length]; lia).
    pose proof (extract_utf8_matches s i (fun i_ => wrapu 8 (p i_)) Hne A (view_shows p i s A R)) as X.
    replace (walk m16f8_body (S fm) s acc) with
      (r <- m16f8_body s acc ;; match r with Continue rest st' => walk m16f8_body fm rest st' | Return e => Ok (e, acc) end)
      by (rewrite Es; reflexivity).
    unfold m16f8_body at 1. rewrite m16f8_loop_S. replace (i <? i + Z.of_nat (length s)) with true by lia.
    cbn [b2z z2b Z.eqb negb].
    destruct (extract_utf8 s) as [[ch rest]| | |]; cbn [ext_ok] in X; try contradiction.
    destruct X as (k & Hk & Er & Ex & Hch & _). rewrite Ex. cbn [bind]. cbv zeta.
    pose proof (utf16_measure_le4 ch) as Hm.
    rewrite utf16_measure_matches_source by (change (2 ^ 32)%N with 4294967296%N; lia).
    rewrite (Utf.LeafBridge.wrapu64_small (Z.of_nat acc)) by (change (2 ^ 64) with 18446744073709551616; lia).
    rewrite !(Utf.LeafBridge.wrapu64_small (Z.of_nat acc + Z.of_nat (utf16_measure ch))) by (change (2 ^ 64) with 18446744073709551616; lia).
    replace (Z.of_nat acc + Z.of_nat (utf16_measure ch)) with (Z.of_nat (utf16_measure ch + acc)) by lia.
    replace (i + Z.of_nat (length s)) with (i + Z.of_nat k + Z.of_nat (length rest)) by (rewrite Er, skipn_length; lia).
    apply IH; try (rewrite Er, skipn_length; lia).
    + rewrite Er. apply all_lt_skipn. exact A.
    + rewrite Er. apply shows_skipn; [exact R|lia].
Qed.

Theorem utf16_measure_from_utf8_matches_source l fuel : all_lt 256 l = true ->
  4 * Z.of_nat (length l) < 18446744073709551616 -> (length l < fuel)%nat ->
  exists n, utf16_measure_from_utf8 (Some l) = Ok n /\
            src_utf16_measure_from_utf8 fuel (arr8s l) (Z.of_nat (length l)) = Some (Z.of_nat n).
Proof.
  intros A Hb Hf. unfold utf16_measure_from_utf8, measure_walk, src_utf16_measure_from_utf8. rewrite nonnull_param. cbv zeta.
  destruct (m16f8_loop_matches (length l) l 0%nat 0 (arr8s l) 0 (Z.of_nat (length l)) (S (length l)) fuel ltac:(lia) A (shows_arr8s l)
              ltac:(lia) Hf ltac:(lia)) as (n & Em & Es).
  fold m16f8_body. rewrite Em. cbn [bind]. exists n. split; [reflexivity|].
  change (wrapu 64 0) with (Z.of_nat 0). exact Es.
Qed.

(* ---- utf32_measure_from_utf8 ---- *)
Lemma m32f8_loop_S f p a b acc sp ep : src_utf32_measure_from_utf8_loop1 (S f) p a b acc sp ep =
  (if z2b (b2z (Z.ltb sp ep)) then
     let '(r, ni) := src_extract_utf8 (fun i_ => wrapu 8 (p i_)) sp ep in let sp' := ni in let acc' := wrapu 64 (acc + 1) in
     src_utf32_measure_from_utf8_loop1 f p a b acc' sp' ep
   else Some acc).
Proof. reflexivity. Qed.

Definition m32f8_body := fun (s : list N) (n : nat) => '(_, rest) <- extract_utf8 s ;; Ok (Continue rest (S n)).

Theorem m32f8_loop_matches : forall n s acc i p a b fm fs, (length s <= n)%nat -> all_lt 256 s = true -> shows schar p i s ->
  (length s < fm)%nat -> (length s < fs)%nat -> Z.of_nat acc + 4 * Z.of_nat (length s) < 18446744073709551616 ->
  exists m, walk m32f8_body fm s acc = Ok (CSuccess, m) /\
            src_utf32_measure_from_utf8_loop1 fs p a b (Z.of_nat acc) i (i + Z.of_nat (length s)) = Some (Z.of_nat m).
Proof.
  induction n as [|n IH]; intros s acc i p a b fm fs Hn A R Hfm Hfs Hb;
    (destruct fm as [|fm]; [lia|]); (destruct fs as [|fs]; [lia|]);
    (destruct s as [|c t] eqn:Es;
     [ exists acc; split; [reflexivity|]; rewrite m32f8_loop_S; cbn [length];
       replace (i <? i + Z.of_nat 0) with false by lia; reflexivity |]).
  - cbn [length] in Hn. lia.
  - rewrite <- Es in *. assert (Hne : s <> []) by (rewrite Es; discriminate).
    assert (Hlen : (1 <= length s)%nat) by (rewrite Es; cbn [length]; lia).
    pose proof (extract_utf8_matches s i (fun i_ => wrapu 8 (p i_)) Hne A (view_shows p i s A R)) as X.
    replace (walk m32f8_body (S fm) s acc) with
      (r <- m32f8_body s acc ;; match r with Continue rest st' => walk m32f8_body fm rest st' | Return e => Ok (e, acc) end)
      by (rewrite Es; reflexivity).
    unfold m32f8_body at 1. rewrite m32f8_loop_S. replace (i <? i + Z.of_nat (length s)) with true by lia.
    cbn [b2z z2b Z.eqb negb].
    destruct (extract_utf8 s) as [[ch rest]| | |]; cbn [ext_ok] in X; try contradiction.
    destruct X as (k & Hk & Er & Ex & Hch & _). rewrite Ex. cbn [bind]. cbv zeta.
    rewrite (Utf.LeafBridge.wrapu64_small (Z.of_nat acc + 1)) by (change (2 ^ 64) with 18446744073709551616; lia).
    replace (Z.of_nat acc + 1) with (Z.of_nat (S acc)) by lia.
    replace (i + Z.of_nat (length s)) with (i + Z.of_nat k + Z.of_nat (length rest)) by (rewrite Er, skipn_length; lia).
    apply IH; try (rewrite Er, skipn_length; lia).
    + rewrite Er. apply all_lt_skipn. exact A.
    + rewrite Er. apply shows_skipn; [exact R|lia].
Qed.

Theorem utf32_measure_from_utf8_matches_source l fuel : all_lt 256 l = true ->
  4 * Z.of_nat (length l) < 18446744073709551616 -> (length l < fuel)%nat ->
  exists n, utf32_measure_from_utf8 (Some l) = Ok n /\
            src_utf32_measure_from_utf8 fuel (arr8s l) (Z.of_nat (length l)) = Some (Z.of_nat n).
Proof.
  intros A Hb Hf. unfold utf32_measure_from_utf8, measure_walk, src_utf32_measure_from_utf8. rewrite nonnull_param. cbv zeta.
  destruct (m32f8_loop_matches (length l) l 0%nat 0 (arr8s l) 0 (Z.of_nat (length l)) (S (length l)) fuel ltac:(lia) A (shows_arr8s l)
              ltac:(lia) Hf ltac:(lia)) as (n & Em & Es).
  fold m32f8_body. rewrite Em. cbn [bind]. exists n. split; [reflexivity|].
  change (wrapu 64 0) with (Z.of_nat 0). exact Es.
Qed.

(* ---- utf32_measure_from_utf16 ---- *)
Lemma m32f16_loop_S f p a b acc sp ep : src_utf32_measure_from_utf16_loop1 (S f) p a b acc sp ep =
  (if z2b (b2z (Z.ltb sp ep)) then
     let '(r, ni) := src_extract_utf16 p sp ep in let sp' := ni in let acc' := wrapu 64 (acc + 1) in
     src_utf32_measure_from_utf16_loop1 f p a b acc' sp' ep
   else Some acc).
Proof. reflexivity. Qed.

Definition m32f16_body := fun (s : list N) (n : nat) => '(_, rest) <- extract_utf16 s ;; Ok (Continue rest (S n)).

Theorem m32f16_loop_matches : forall n s acc i p a b fm fs, (length s <= n)%nat -> all_lt 65536 s = true -> shows Z.of_N p i s ->
  (length s < fm)%nat -> (length s < fs)%nat -> Z.of_nat acc + 4 * Z.of_nat (length s) < 18446744073709551616 ->
  exists m, walk m32f16_body fm s acc = Ok (CSuccess, m) /\
            src_utf32_measure_from_utf16_loop1 fs p a b (Z.of_nat acc) i (i + Z.of_nat (length s)) = Some (Z.of_nat m).
Proof.
  induction n as [|n IH]; intros s acc i p a b fm fs Hn A R Hfm Hfs Hb;
    (destruct fm as [|fm]; [lia|]); (destruct fs as [|fs]; [lia|]);
    (destruct s as [|c t] eqn:Es;
     [ exists acc; split; [reflexivity|]; rewrite m32f16_loop_S; cbn [length];
       replace (i <? i + Z.of_nat 0) with false by lia; reflexivity |]).
  - cbn [length] in Hn. lia.
  - rewrite <- Es in *. assert (Hne : s <> []) by (rewrite Es; discriminate).
    assert (Hlen : (1 <= length s)%nat) by (rewrite Es; cbn [length]; lia).
    pose proof (extract_utf16_matches s i p Hne A R) as X.
    replace (walk m32f16_body (S fm) s acc) with
      (r <- m32f16_body s acc ;; match r with Continue rest st' => walk m32f16_body fm rest st' | Return e => Ok (e, acc) end)
      by (rewrite Es; reflexivity).
    unfold m32f16_body at 1. rewrite m32f16_loop_S. replace (i <? i + Z.of_nat (length s)) with true by lia.
    cbn [b2z z2b Z.eqb negb].
    destruct (extract_utf16 s) as [[ch rest]| | |]; cbn [ext_ok] in X; try contradiction.
    destruct X as (k & Hk & Er & Ex & Hch & _). rewrite Ex. cbn [bind]. cbv zeta.
    rewrite (Utf.LeafBridge.wrapu64_small (Z.of_nat acc + 1)) by (change (2 ^ 64) with 18446744073709551616; lia).
    replace (Z.of_nat acc + 1) with (Z.of_nat (S acc)) by lia.
    replace (i + Z.of_nat (length s)) with (i + Z.of_nat k + Z.of_nat (length rest)) by (rewrite Er, skipn_length; lia).
    apply IH; try (rewrite Er, skipn_length; lia).
    + rewrite Er. apply all_lt_skipn. exact A.
    + rewrite Er. apply shows_skipn; [exact R|lia].
Qed.

Theorem utf32_measure_from_utf16_matches_source l fuel : all_lt 65536 l = true ->
  4 * Z.of_nat (length l) < 18446744073709551616 -> (length l < fuel)%nat ->
  exists n, utf32_measure_from_utf16 (Some l) = Ok n /\
            src_utf32_measure_from_utf16 fuel (arr32 l) (Z.of_nat (length l)) = Some (Z.of_nat n).
Proof.
  intros A Hb Hf. unfold utf32_measure_from_utf16, measure_walk, src_utf32_measure_from_utf16. rewrite nonnull_param. cbv zeta.
  destruct (m32f16_loop_matches (length l) l 0%nat 0 (arr32 l) 0 (Z.of_nat (length l)) (S (length l)) fuel ltac:(lia) A (shows_arr32 l)
              ltac:(lia) Hf ltac:(lia)) as (n & Em & Es).
  fold m32f16_body. rewrite Em. cbn [bind]. exists n. split; [reflexivity|].
  change (wrapu 64 0) with (Z.of_nat 0). exact Es.
Qed.

Example decoding_measures_example :
  src_utf8_measure_from_utf16 9 (arr32 [65; 0xD83D; 0xDE00; 0xDC00]%N) 4 = Some 8 /\
  src_utf16_measure_from_utf8 9 (arr8s [65; 0xF0; 0x9F; 0x98; 0x80; 0xC3]%N) 6 = Some 4 /\
  src_utf32_measure_from_utf8 9 (arr8s [65; 0xF0; 0x9F; 0x98; 0x80; 0xC3]%N) 6 = Some 3 /\
  src_utf32_measure_from_utf16 9 (arr32 [65; 0xD83D; 0xDE00; 0xDC00]%N) 4 = Some 3 /\
  utf8_measure_from_utf16 (Some [65; 0xD83D; 0xDE00; 0xDC00]%N) = Ok 8%nat.
Proof. vm_compute. repeat split; reflexivity. Qed.
