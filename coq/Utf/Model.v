(* Utf/Model.v — include/st_utf_conv_priv.h, include/st_utf_conv.h and the
   ST::string entry points of include/st_string.h built on them, transcribed
   statement by statement.

   * a pointer walking an input range is the remaining suffix (a list N);
     `sp < ep` is "suffix non-empty", `p + k > end` is "fewer than k units left",
     `p[i]` is the bounds-checked read `rdu s i` (Fault OOBRead outside);
   * a destination is an array of exactly the allocated size: `dst` holds the
     number of cells still free and the cells written so far (newest first);
     a write with no cell free is Fault OOBWrite, a destination not completely
     written when a conversion returns successfully is Fault Unwritten;
   * every loop is the fuelled `walk` (fuel matched first; exhaustion = Fault Hang);
   * each *_measure_from_* and *_convert_from_* is its own pass; each public
     wrapper spells out assert / measure / return on 0 / allocate / convert / raise.

   utf16_convert_from_utf8 is the version of fix commit b1ca115 (a write_utf16
   failure is treated like a decode error).                                    *)
From Coq Require Import NArith List Bool.
From ST Require Import Base.Outcome Base.Units Gen.Consts Utf.Spec.
Import ListNotations.
Local Open Scope N_scope.
Local Open Scope outcome_scope.

(* ------------------------------------------------------------------ errors *)
Inductive cerr :=
| CSuccess | CIncompleteUtf8 | CIncompleteSurrogate | CInvalidUtf8 | COutOfRange | CLatin1OutOfRange
| CInvalidEnum (n : N).       (* a conversion_error_t value outside the enumerators *)

Definition cerr_code (e : cerr) : N :=
  match e with
  | CSuccess => 0 | CIncompleteUtf8 => 1 | CIncompleteSurrogate => 2 | CInvalidUtf8 => 3
  | COutOfRange => 4 | CLatin1OutOfRange => 5 | CInvalidEnum n => n
  end.
Definition cerr_of_code (n : N) : cerr :=
  match n with
  | 0 => CSuccess | 1 => CIncompleteUtf8 | 2 => CIncompleteSurrogate | 3 => CInvalidUtf8
  | 4 => COutOfRange | 5 => CLatin1OutOfRange | _ => CInvalidEnum n
  end.
Definition is_error (e : cerr) : bool := match e with CSuccess => false | _ => true end.

(* raise_conversion_error: every enumerator but success throws ST::unicode_error *)
Definition raise_conversion_error (e : cerr) : outcome unit :=
  match e with
  | CSuccess => Ok tt
  | CInvalidEnum _ => Abort AbOther
  | _ => Throw UnicodeError
  end.

(* the in-band error bit *)
Definition error_bit : N := 0x400000.
Definition error_char (e : cerr) : N := N.lor (cerr_code e) error_bit.
Definition char_error (ch : N) : cerr :=
  if negb (N.land ch error_bit =? 0) then cerr_of_code (N.ldiff ch error_bit) else CSuccess.

Definition is_check (m : vmode) : bool := match m with CheckValidity => true | _ => false end.

(* ------------------------------------------------------------ memory access *)
Definition rdu (s : list N) (i : nat) : outcome N := of_opt OOBRead (nth_error s i).

(* p + n <= end, for the suffix s = [p, end) *)
Fixpoint at_least (n : nat) (s : list N) : bool :=
  match n with
  | O => true
  | S k => match s with [] => false | _ :: t => at_least k t end
  end.

(* destination: (cells still free, cells written so far in reverse order) *)
Definition dst := (nat * list N)%type.
Definition alloc (n : nat) : dst := (n, []).
Definition push (d : dst) (v : N) : outcome dst :=
  match fst d with
  | O => Fault OOBWrite
  | S r => Ok (r, v :: snd d)
  end.
Definition push8 (d : dst) (v : N) : outcome dst := push d (N.land v 0xFF).         (* char *)
Definition push16 (d : dst) (v : N) : outcome dst := push d (N.land v 0xFFFF).      (* char16_t *)
Definition push32 (d : dst) (v : N) : outcome dst := push d (N.land v 0xFFFFFFFF).  (* char32_t *)
Fixpoint push_all8 (d : dst) (l : list N) : outcome dst :=    (* char_traits<char>::copy(dest, l, n); dest += n *)
  match l with
  | [] => Ok d
  | v :: t => d' <- push8 d v ;; push_all8 d' t
  end.
(* the pass returned success: every allocated cell must have been written *)
Definition finish (d : dst) : outcome (list N) :=
  match fst d with
  | O => Ok (rev (snd d))
  | S _ => Fault Unwritten
  end.

(* ST_ASSERT(size < ST_HUGE_BUFFER_SIZE, ...) *)
Definition huge_guard (l : list N) : outcome unit :=
  if N.of_nat (length l) <? huge_buffer_size then Ok tt else Abort AbHuge.

(* a (pointer, size) argument: None is the null pointer (the harness passes size 0 with it) *)
Definition units_of (src : option (list N)) : list N := match src with Some l => l | None => [] end.

(* ------------------------------------------------------------------- loops *)
Inductive step_result (St : Type) :=
| Continue (rest : list N) (st : St)
| Return (e : cerr).
Arguments Continue {St} rest st.
Arguments Return {St} e.

(* while (sp < ep) body *)
Fixpoint walk {St : Type} (body : list N -> St -> outcome (step_result St))
         (fuel : nat) (s : list N) (st : St) : outcome (cerr * St) :=
  match fuel with
  | O => Fault Hang
  | S f =>
      match s with
      | [] => Ok (CSuccess, st)
      | _ :: _ =>
          r <- body s st ;;
          match r with
          | Continue rest st' => walk body f rest st'
          | Return e => Ok (e, st)
          end
      end
  end.

(* ------------------------------------------------------ validate_utf8 (68-101) *)
Definition cont (b : N) : bool := N.land b 0xC0 =? 0x80.

Definition validate_utf8_body (s : list N) (st : unit) : outcome (step_result unit) :=
  b0 <- rdu s 0 ;;
  if b0 <? 0x80 then Ok (Continue (skipn 1 s) tt)
  else if N.land b0 0xE0 =? 0xC0 then
    if negb (at_least 2 s) then Ok (Return CIncompleteUtf8) else
    b1 <- rdu s 1 ;; if negb (cont b1) then Ok (Return CInvalidUtf8) else
    Ok (Continue (skipn 2 s) tt)
  else if N.land b0 0xF0 =? 0xE0 then
    if negb (at_least 3 s) then Ok (Return CIncompleteUtf8) else
    b1 <- rdu s 1 ;; if negb (cont b1) then Ok (Return CInvalidUtf8) else
    b2 <- rdu s 2 ;; if negb (cont b2) then Ok (Return CInvalidUtf8) else
    Ok (Continue (skipn 3 s) tt)
  else if N.land b0 0xF8 =? 0xF0 then
    if negb (at_least 4 s) then Ok (Return CIncompleteUtf8) else
    b1 <- rdu s 1 ;; if negb (cont b1) then Ok (Return CInvalidUtf8) else
    b2 <- rdu s 2 ;; if negb (cont b2) then Ok (Return CInvalidUtf8) else
    b3 <- rdu s 3 ;; if negb (cont b3) then Ok (Return CInvalidUtf8) else
    Ok (Continue (skipn 4 s) tt)
  else Ok (Return CInvalidUtf8).

Definition validate_utf8 (buffer : list N) : outcome cerr :=
  '(e, _) <- walk validate_utf8_body (S (length buffer)) buffer tt ;; Ok e.

(* ------------------------------------------------------- cleanup_utf8 (114-176) *)
(* append_chars(output, src, count): copies only when output is non-null *)
Definition append_chars (output : option dst) (src : list N) : outcome (option dst) :=
  match output with
  | None => Ok None
  | Some d => d' <- push_all8 d src ;; Ok (Some d')
  end.

(* state: (output_size, output) *)
Definition cleanup_bad (s : list N) (st : nat * option dst) : outcome (step_result (nat * option dst)) :=
  o <- append_chars (snd st) badchar_substitute_utf8 ;;
  Ok (Continue (skipn 1 s) ((length badchar_substitute_utf8 + fst st)%nat, o)).
Definition cleanup_copy (n : nat) (s : list N) (st : nat * option dst) : outcome (step_result (nat * option dst)) :=
  o <- append_chars (snd st) (firstn n s) ;;
  Ok (Continue (skipn n s) ((n + fst st)%nat, o)).

Definition cleanup_utf8_body (s : list N) (st : nat * option dst) : outcome (step_result (nat * option dst)) :=
  b0 <- rdu s 0 ;;
  if b0 <? 0x80 then
    o <- (match snd st with None => Ok None | Some d => d' <- push8 d b0 ;; Ok (Some d') end) ;;
    Ok (Continue (skipn 1 s) (S (fst st), o))
  else if N.land b0 0xE0 =? 0xC0 then
    bad <- (if negb (at_least 2 s) then Ok true else b1 <- rdu s 1 ;; Ok (negb (cont b1))) ;;
    if bad then cleanup_bad s st else cleanup_copy 2 s st
  else if N.land b0 0xF0 =? 0xE0 then
    bad <- (if negb (at_least 3 s) then Ok true else
            b1 <- rdu s 1 ;; if negb (cont b1) then Ok true else
            b2 <- rdu s 2 ;; Ok (negb (cont b2))) ;;
    if bad then cleanup_bad s st else cleanup_copy 3 s st
  else if N.land b0 0xF8 =? 0xF0 then
    bad <- (if negb (at_least 4 s) then Ok true else
            b1 <- rdu s 1 ;; if negb (cont b1) then Ok true else
            b2 <- rdu s 2 ;; if negb (cont b2) then Ok true else
            b3 <- rdu s 3 ;; Ok (negb (cont b3))) ;;
    if bad then cleanup_bad s st else cleanup_copy 4 s st
  else cleanup_bad s st.

Definition cleanup_utf8 (output : option dst) (buffer : list N) : outcome (nat * option dst) :=
  '(_, st) <- walk cleanup_utf8_body (S (length buffer)) buffer (0%nat, output) ;; Ok st.

(* cleanup_utf8_buffer: measure with a null output, allocate, run again *)
Definition cleanup_utf8_buffer (buffer : list N) : outcome (list N) :=
  '(clean_size, _) <- cleanup_utf8 None buffer ;;
  '(_, o) <- cleanup_utf8 (Some (alloc clean_size)) buffer ;;
  match o with
  | Some d => finish d
  | None => Fault NullDeref
  end.

(* ------------------------------------------------------ extract_utf8 (193-230) *)
Definition extract_utf8 (s : list N) : outcome (N * list N) :=
  b0 <- rdu s 0 ;;
  if b0 <? 0x80 then Ok (b0, skipn 1 s)
  else if N.land b0 0xE0 =? 0xC0 then
    bad <- (if negb (at_least 2 s) then Ok true else b1 <- rdu s 1 ;; Ok (negb (cont b1))) ;;
    if bad then Ok (error_char CIncompleteUtf8, skipn 1 s) else
    b1 <- rdu s 1 ;;
    Ok (N.lor (N.shiftl (N.land b0 0x1F) 6) (N.land b1 0x3F), skipn 2 s)
  else if N.land b0 0xF0 =? 0xE0 then
    bad <- (if negb (at_least 3 s) then Ok true else
            b1 <- rdu s 1 ;; if negb (cont b1) then Ok true else
            b2 <- rdu s 2 ;; Ok (negb (cont b2))) ;;
    if bad then Ok (error_char CIncompleteUtf8, skipn 1 s) else
    b1 <- rdu s 1 ;; b2 <- rdu s 2 ;;
    Ok (N.lor (N.lor (N.shiftl (N.land b0 0x0F) 12) (N.shiftl (N.land b1 0x3F) 6)) (N.land b2 0x3F), skipn 3 s)
  else if N.land b0 0xF8 =? 0xF0 then
    bad <- (if negb (at_least 4 s) then Ok true else
            b1 <- rdu s 1 ;; if negb (cont b1) then Ok true else
            b2 <- rdu s 2 ;; if negb (cont b2) then Ok true else
            b3 <- rdu s 3 ;; Ok (negb (cont b3))) ;;
    if bad then Ok (error_char CIncompleteUtf8, skipn 1 s) else
    b1 <- rdu s 1 ;; b2 <- rdu s 2 ;; b3 <- rdu s 3 ;;
    Ok (N.lor (N.lor (N.lor (N.shiftl (N.land b0 0x07) 18) (N.shiftl (N.land b1 0x3F) 12))
                     (N.shiftl (N.land b2 0x3F) 6)) (N.land b3 0x3F), skipn 4 s)
  else Ok (error_char CInvalidUtf8, skipn 1 s).

(* ------------------------------------------- utf8_measure / write_utf8 (232-272) *)
Definition utf8_measure (ch : N) : nat :=
  if ch <? 0x80 then 1%nat
  else if ch <? 0x800 then 2%nat
  else if ch <? 0x10000 then 3%nat
  else if ch <=? 0x10FFFF then 4%nat
  else length badchar_substitute_utf8.

Definition write_utf8 (d : dst) (ch : N) : outcome (cerr * dst) :=
  if ch <? 0x80 then
    d1 <- push8 d ch ;; Ok (CSuccess, d1)
  else if ch <? 0x800 then
    d1 <- push8 d (N.lor 0xC0 (N.land (N.shiftr ch 6) 0x1F)) ;;
    d2 <- push8 d1 (N.lor 0x80 (N.land ch 0x3F)) ;; Ok (CSuccess, d2)
  else if ch <? 0x10000 then
    d1 <- push8 d (N.lor 0xE0 (N.land (N.shiftr ch 12) 0x0F)) ;;
    d2 <- push8 d1 (N.lor 0x80 (N.land (N.shiftr ch 6) 0x3F)) ;;
    d3 <- push8 d2 (N.lor 0x80 (N.land ch 0x3F)) ;; Ok (CSuccess, d3)
  else if ch <=? 0x10FFFF then
    d1 <- push8 d (N.lor 0xF0 (N.land (N.shiftr ch 18) 0x07)) ;;
    d2 <- push8 d1 (N.lor 0x80 (N.land (N.shiftr ch 12) 0x3F)) ;;
    d3 <- push8 d2 (N.lor 0x80 (N.land (N.shiftr ch 6) 0x3F)) ;;
    d4 <- push8 d3 (N.lor 0x80 (N.land ch 0x3F)) ;; Ok (CSuccess, d4)
  else Ok (COutOfRange, d).

(* ----------------------------------------------------- extract_utf16 (275-303) *)
Definition extract_utf16 (s : list N) : outcome (N * list N) :=
  u0 <- rdu s 0 ;;
  if (0xD800 <=? u0) && (u0 <=? 0xDFFF) then
    if negb (at_least 2 s) then Ok (error_char CIncompleteSurrogate, skipn 1 s)       (* utf16 + 1 >= end *)
    else if u0 <? 0xDC00 then
      u1 <- rdu s 1 ;;
      if (0xDC00 <=? u1) && (u1 <=? 0xDFFF)
      then Ok (0x10000 + N.shiftl (N.land u0 0x3FF) 10 + N.land u1 0x3FF, skipn 2 s)
      else Ok (error_char CIncompleteSurrogate, skipn 1 s)
    else
      u1 <- rdu s 1 ;;
      if (0xD800 <=? u1) && (u1 <=? 0xDBFF)
      then Ok (0x10000 + N.land u0 0x3FF + N.shiftl (N.land u1 0x3FF) 10, skipn 2 s)
      else Ok (error_char CIncompleteSurrogate, skipn 1 s)
  else Ok (u0, skipn 1 s).

(* ----------------------------------------- utf16_measure / write_utf16 (306-330) *)
Definition utf16_measure (ch : N) : nat :=
  if (ch <? 0x10000) || (0x10FFFF <? ch) then 1%nat else 2%nat.

Definition write_utf16 (d : dst) (ch : N) : outcome (cerr * dst) :=
  if ch <? 0x10000 then
    d1 <- push16 d ch ;; Ok (CSuccess, d1)
  else if ch <=? 0x10FFFF then
    let ch' := ch - 0x10000 in
    d1 <- push16 d (N.lor 0xD800 (N.land (N.shiftr ch' 10) 0x3FF)) ;;
    d2 <- push16 d1 (N.lor 0xDC00 (N.land ch' 0x3FF)) ;; Ok (CSuccess, d2)
  else Ok (COutOfRange, d).

(* a measuring loop: the state is the running total; the error slot is unused *)
Definition measure_walk (body : list N -> nat -> outcome (step_result nat)) (src : option (list N)) : outcome nat :=
  match src with
  | None => Ok 0%nat                                   (* if (!ptr) return 0; *)
  | Some l => '(_, n) <- walk body (S (length l)) l 0%nat ;; Ok n
  end.

(* substitute or report, the policy switch every converter repeats *)
Definition on_error8 (m : vmode) (e : cerr) (rest : list N) (d : dst) : outcome (step_result dst) :=
  if is_check m then Ok (Return e)
  else d' <- push_all8 d badchar_substitute_utf8 ;; Ok (Continue rest d').
Definition on_error16 (m : vmode) (e : cerr) (rest : list N) (d : dst) : outcome (step_result dst) :=
  if is_check m then Ok (Return e)
  else d' <- push16 d badchar_substitute ;; Ok (Continue rest d').

(* ------------------------------------------------------ UTF-8 from UTF-16 (333-370) *)
Definition utf8_measure_from_utf16 (utf16 : option (list N)) : outcome nat :=
  measure_walk (fun s n => '(ch, rest) <- extract_utf16 s ;; Ok (Continue rest (utf8_measure ch + n)%nat)) utf16.

Definition utf8_convert_from_utf16 (d : dst) (utf16 : list N) (m : vmode) : outcome (cerr * dst) :=
  walk (fun s d =>
          '(bigch, rest) <- extract_utf16 s ;;
          let error := char_error bigch in
          if is_error error then on_error8 m error rest d
          else
            '(e2, d') <- write_utf8 d bigch ;;
            if is_error e2 then Abort AbConvRange          (* ST_ASSERT(error == success, ...) *)
            else Ok (Continue rest d'))
       (S (length utf16)) utf16 d.

(* ------------------------------------------------------ UTF-8 from UTF-32 (373-405) *)
Definition utf8_measure_from_utf32 (utf32 : option (list N)) : outcome nat :=
  measure_walk (fun s n => ch <- rdu s 0 ;; Ok (Continue (skipn 1 s) (utf8_measure ch + n)%nat)) utf32.

Definition utf8_convert_from_utf32 (d : dst) (utf32 : list N) (m : vmode) : outcome (cerr * dst) :=
  walk (fun s d =>
          ch <- rdu s 0 ;;
          '(error, d') <- write_utf8 d ch ;;
          if is_error error then on_error8 m error (skipn 1 s) d'
          else Ok (Continue (skipn 1 s) d'))
       (S (length utf32)) utf32 d.

(* ----------------------------------------------------- UTF-8 from Latin-1 (408-437) *)
Definition utf8_measure_from_latin_1 (astr : option (list N)) : outcome nat :=
  measure_walk (fun s n => b <- rdu s 0 ;;
                           Ok (Continue (skipn 1 s) ((if negb (N.land b 0x80 =? 0) then 2 else 1) + n)%nat)) astr.

Definition utf8_convert_from_latin_1 (d : dst) (astr : list N) : outcome (cerr * dst) :=
  walk (fun s d =>
          b <- rdu s 0 ;;
          if negb (N.land b 0x80 =? 0) then
            d1 <- push8 d (N.lor 0xC0 (N.land (N.shiftr b 6) 0x1F)) ;;
            d2 <- push8 d1 (N.lor 0x80 (N.land b 0x3F)) ;;
            Ok (Continue (skipn 1 s) d2)
          else
            d1 <- push8 d b ;; Ok (Continue (skipn 1 s) d1))
       (S (length astr)) astr d.

(* ------------------------------------------------------ UTF-16 from UTF-8 (440-475) *)
Definition utf16_measure_from_utf8 (utf8 : option (list N)) : outcome nat :=
  measure_walk (fun s n => '(ch, rest) <- extract_utf8 s ;; Ok (Continue rest (utf16_measure ch + n)%nat)) utf8.

(* a decoded value above 0x10FFFF (4-byte form) makes write_utf16 fail: handled like a decode error *)
Definition utf16_convert_from_utf8 (d : dst) (utf8 : list N) (m : vmode) : outcome (cerr * dst) :=
  walk (fun s d =>
          '(bigch, rest) <- extract_utf8 s ;;
          let error := char_error bigch in
          '(error, d) <- (if negb (is_error error) then write_utf16 d bigch else Ok (error, d)) ;;
          if is_error error then on_error16 m error rest d
          else Ok (Continue rest d))
       (S (length utf8)) utf8 d.

(* ----------------------------------------------------- UTF-16 from UTF-32 (478-508) *)
Definition utf16_measure_from_utf32 (utf32 : option (list N)) : outcome nat :=
  measure_walk (fun s n => ch <- rdu s 0 ;; Ok (Continue (skipn 1 s) (utf16_measure ch + n)%nat)) utf32.

Definition utf16_convert_from_utf32 (d : dst) (utf32 : list N) (m : vmode) : outcome (cerr * dst) :=
  walk (fun s d =>
          ch <- rdu s 0 ;;
          '(error, d') <- write_utf16 d ch ;;
          if is_error error then on_error16 m error (skipn 1 s) d'
          else Ok (Continue (skipn 1 s) d'))
       (S (length utf32)) utf32 d.

(* ------------------------------------------------------ UTF-32 from UTF-8 (511-547) *)
Definition utf32_measure_from_utf8 (utf8 : option (list N)) : outcome nat :=
  measure_walk (fun s n => '(_, rest) <- extract_utf8 s ;; Ok (Continue rest (S n))) utf8.

Definition utf32_convert_from_utf8 (d : dst) (utf8 : list N) (m : vmode) : outcome (cerr * dst) :=
  walk (fun s d =>
          '(bigch, rest) <- extract_utf8 s ;;
          let error := char_error bigch in
          if is_error error && is_check m then Ok (Return error)
          else
            let bigch := if is_error error then badchar_substitute else bigch in
            d' <- push32 d bigch ;; Ok (Continue rest d'))
       (S (length utf8)) utf8 d.

(* ----------------------------------------------------- UTF-32 from UTF-16 (550-586) *)
Definition utf32_measure_from_utf16 (utf16 : option (list N)) : outcome nat :=
  measure_walk (fun s n => '(_, rest) <- extract_utf16 s ;; Ok (Continue rest (S n))) utf16.

Definition utf32_convert_from_utf16 (d : dst) (utf16 : list N) (m : vmode) : outcome (cerr * dst) :=
  walk (fun s d =>
          '(bigch, rest) <- extract_utf16 s ;;
          let error := char_error bigch in
          if is_error error && is_check m then Ok (Return error)
          else
            let bigch := if is_error error then badchar_substitute else bigch in
            d' <- push32 d bigch ;; Ok (Continue rest d'))
       (S (length utf16)) utf16 d.

(* ------------------------------------------- UTF-16 / UTF-32 from Latin-1 (588-602) *)
Definition utf16_convert_from_latin_1 (d : dst) (astr : list N) : outcome (cerr * dst) :=
  walk (fun s d => b <- rdu s 0 ;; d' <- push16 d (N.land b 0xFF) ;; Ok (Continue (skipn 1 s) d'))
       (S (length astr)) astr d.
Definition utf32_convert_from_latin_1 (d : dst) (astr : list N) : outcome (cerr * dst) :=
  walk (fun s d => b <- rdu s 0 ;; d' <- push32 d (N.land b 0xFF) ;; Ok (Continue (skipn 1 s) d'))
       (S (length astr)) astr d.

(* ------------------------------------------------------------- Latin-1 (604-702) *)
Definition latin_1_measure_from_utf8 := utf32_measure_from_utf8.
Definition latin_1_measure_from_utf16 := utf32_measure_from_utf16.

Definition latin_1_put (sub : bool) (bigch : N) (rest : list N) (d : dst) : outcome (step_result dst) :=
  if negb (bigch <? 0x100) then
    if sub then d' <- push8 d 63 ;; Ok (Continue rest d')
    else Ok (Return CLatin1OutOfRange)
  else d' <- push8 d bigch ;; Ok (Continue rest d').

Definition latin_1_convert_from_utf8 (d : dst) (utf8 : list N) (m : vmode) (sub : bool) : outcome (cerr * dst) :=
  walk (fun s d =>
          '(bigch, rest) <- extract_utf8 s ;;
          let error := char_error bigch in
          if is_error error && is_check m then Ok (Return error)
          else latin_1_put sub (if is_error error then 63 else bigch) rest d)
       (S (length utf8)) utf8 d.

Definition latin_1_convert_from_utf16 (d : dst) (utf16 : list N) (m : vmode) (sub : bool) : outcome (cerr * dst) :=
  walk (fun s d =>
          '(bigch, rest) <- extract_utf16 s ;;
          let error := char_error bigch in
          if is_error error && is_check m then Ok (Return error)
          else latin_1_put sub (if is_error error then 63 else bigch) rest d)
       (S (length utf16)) utf16 d.

Definition latin_1_convert_from_utf32 (d : dst) (utf32 : list N) (m : vmode) (sub : bool) : outcome (cerr * dst) :=
  walk (fun s d =>
          bigch <- rdu s 0 ;;
          if (0x10FFFF <? bigch) && is_check m then Ok (Return COutOfRange)
          else latin_1_put sub (if 0x10FFFF <? bigch then 63 else bigch) (skipn 1 s) d)
       (S (length utf32)) utf32 d.

(* =================================================================== st_utf_conv.h *)
(* the tail every allocating wrapper shares: raise_conversion_error(error); return result; *)
Definition raise_and_return (r : cerr * dst) : outcome (list N) :=
  _ <- raise_conversion_error (fst r) ;; finish (snd r).

Definition utf16_to_utf8 (m : vmode) (utf16 : option (list N)) : outcome (list N) :=
  _ <- huge_guard (units_of utf16) ;;
  u8size <- utf8_measure_from_utf16 utf16 ;;
  if Nat.eqb u8size 0 then Ok [] else
  r <- utf8_convert_from_utf16 (alloc u8size) (units_of utf16) m ;;
  raise_and_return r.

Definition utf32_to_utf8 (m : vmode) (utf32 : option (list N)) : outcome (list N) :=
  _ <- huge_guard (units_of utf32) ;;
  u8size <- utf8_measure_from_utf32 utf32 ;;
  if Nat.eqb u8size 0 then Ok [] else
  r <- utf8_convert_from_utf32 (alloc u8size) (units_of utf32) m ;;
  raise_and_return r.

Definition latin_1_to_utf8 (astr : option (list N)) : outcome (list N) :=
  _ <- huge_guard (units_of astr) ;;
  u8size <- utf8_measure_from_latin_1 astr ;;
  if Nat.eqb u8size 0 then Ok [] else
  r <- utf8_convert_from_latin_1 (alloc u8size) (units_of astr) ;;
  finish (snd r).

Definition utf8_to_utf16 (m : vmode) (utf8 : option (list N)) : outcome (list N) :=
  _ <- huge_guard (units_of utf8) ;;
  u16size <- utf16_measure_from_utf8 utf8 ;;
  if Nat.eqb u16size 0 then Ok [] else
  r <- utf16_convert_from_utf8 (alloc u16size) (units_of utf8) m ;;
  raise_and_return r.

Definition utf32_to_utf16 (m : vmode) (utf32 : option (list N)) : outcome (list N) :=
  _ <- huge_guard (units_of utf32) ;;
  u16size <- utf16_measure_from_utf32 utf32 ;;
  if Nat.eqb u16size 0 then Ok [] else
  r <- utf16_convert_from_utf32 (alloc u16size) (units_of utf32) m ;;
  raise_and_return r.

Definition is_null (src : option (list N)) : bool := match src with None => true | Some _ => false end.

Definition latin_1_to_utf16 (astr : option (list N)) : outcome (list N) :=
  _ <- huge_guard (units_of astr) ;;
  if is_null astr || Nat.eqb (length (units_of astr)) 0 then Ok [] else
  r <- utf16_convert_from_latin_1 (alloc (length (units_of astr))) (units_of astr) ;;
  finish (snd r).

Definition utf8_to_utf32 (m : vmode) (utf8 : option (list N)) : outcome (list N) :=
  _ <- huge_guard (units_of utf8) ;;
  u32size <- utf32_measure_from_utf8 utf8 ;;
  if Nat.eqb u32size 0 then Ok [] else
  r <- utf32_convert_from_utf8 (alloc u32size) (units_of utf8) m ;;
  raise_and_return r.

Definition utf16_to_utf32 (m : vmode) (utf16 : option (list N)) : outcome (list N) :=
  _ <- huge_guard (units_of utf16) ;;
  u32size <- utf32_measure_from_utf16 utf16 ;;
  if Nat.eqb u32size 0 then Ok [] else
  r <- utf32_convert_from_utf16 (alloc u32size) (units_of utf16) m ;;
  raise_and_return r.

Definition latin_1_to_utf32 (astr : option (list N)) : outcome (list N) :=
  _ <- huge_guard (units_of astr) ;;
  if is_null astr || Nat.eqb (length (units_of astr)) 0 then Ok [] else
  r <- utf32_convert_from_latin_1 (alloc (length (units_of astr))) (units_of astr) ;;
  finish (snd r).

Definition utf8_to_latin_1 (m : vmode) (sub : bool) (utf8 : option (list N)) : outcome (list N) :=
  _ <- huge_guard (units_of utf8) ;;
  asize <- latin_1_measure_from_utf8 utf8 ;;
  if Nat.eqb asize 0 then Ok [] else
  r <- latin_1_convert_from_utf8 (alloc asize) (units_of utf8) m sub ;;
  raise_and_return r.

Definition utf16_to_latin_1 (m : vmode) (sub : bool) (utf16 : option (list N)) : outcome (list N) :=
  _ <- huge_guard (units_of utf16) ;;
  asize <- latin_1_measure_from_utf16 utf16 ;;
  if Nat.eqb asize 0 then Ok [] else
  r <- latin_1_convert_from_utf16 (alloc asize) (units_of utf16) m sub ;;
  raise_and_return r.

(* no measuring pass: result.allocate(size) *)
Definition utf32_to_latin_1 (m : vmode) (sub : bool) (utf32 : option (list N)) : outcome (list N) :=
  _ <- huge_guard (units_of utf32) ;;
  r <- latin_1_convert_from_utf32 (alloc (length (units_of utf32))) (units_of utf32) m sub ;;
  raise_and_return r.

(* ST::buffer<T>(const T *data, size_t size): the plain copy behind the same-width wchar_t routes *)
Definition buffer_from_ptr (data : option (list N)) : outcome (list N) :=
  if is_null data && negb (Nat.eqb (length (units_of data)) 0) then Abort AbNullData
  else Ok (units_of data).

(* ---- wchar_t aliases: enable_if on sizeof(wchar_t), value from Gen/Consts ---- *)
Definition wchar16 : bool := sizeof_wchar =? sizeof_char16.

Definition wchar_to_utf8 (m : vmode) (w : option (list N)) : outcome (list N) :=
  if wchar16 then utf16_to_utf8 m w else utf32_to_utf8 m w.
Definition wchar_to_utf16 (m : vmode) (w : option (list N)) : outcome (list N) :=
  if wchar16 then buffer_from_ptr w          (* (void)validation *)
  else utf32_to_utf16 m w.
Definition wchar_to_utf32 (m : vmode) (w : option (list N)) : outcome (list N) :=
  if wchar16 then utf16_to_utf32 m w
  else buffer_from_ptr w.                    (* (void)validation *)
Definition wchar_to_latin_1 (m : vmode) (sub : bool) (w : option (list N)) : outcome (list N) :=
  if wchar16 then utf16_to_latin_1 m sub w else utf32_to_latin_1 m sub w.
(* utf8_to_wchar repeats the body of utf8_to_utf16 / utf8_to_utf32 with a wchar_buffer result *)
Definition utf8_to_wchar (m : vmode) (utf8 : option (list N)) : outcome (list N) :=
  if wchar16 then
    _ <- huge_guard (units_of utf8) ;;
    u16size <- utf16_measure_from_utf8 utf8 ;;
    if Nat.eqb u16size 0 then Ok [] else
    r <- utf16_convert_from_utf8 (alloc u16size) (units_of utf8) m ;;
    raise_and_return r
  else
    _ <- huge_guard (units_of utf8) ;;
    u32size <- utf32_measure_from_utf8 utf8 ;;
    if Nat.eqb u32size 0 then Ok [] else
    r <- utf32_convert_from_utf8 (alloc u32size) (units_of utf8) m ;;
    raise_and_return r.
Definition utf16_to_wchar (m : vmode) (utf16 : option (list N)) : outcome (list N) :=
  if wchar16 then buffer_from_ptr utf16
  else
    _ <- huge_guard (units_of utf16) ;;
    u32size <- utf32_measure_from_utf16 utf16 ;;
    if Nat.eqb u32size 0 then Ok [] else
    r <- utf32_convert_from_utf16 (alloc u32size) (units_of utf16) m ;;
    raise_and_return r.
Definition utf32_to_wchar (m : vmode) (utf32 : option (list N)) : outcome (list N) :=
  if wchar16 then
    _ <- huge_guard (units_of utf32) ;;
    u16size <- utf16_measure_from_utf32 utf32 ;;
    if Nat.eqb u16size 0 then Ok [] else
    r <- utf16_convert_from_utf32 (alloc u16size) (units_of utf32) m ;;
    raise_and_return r
  else buffer_from_ptr utf32.                (* (void)validation *)
Definition latin_1_to_wchar (astr : option (list N)) : outcome (list N) :=
  _ <- huge_guard (units_of astr) ;;
  if is_null astr || Nat.eqb (length (units_of astr)) 0 then Ok [] else
  r <- (if wchar16 then utf16_convert_from_latin_1 (alloc (length (units_of astr))) (units_of astr)
        else utf32_convert_from_latin_1 (alloc (length (units_of astr))) (units_of astr)) ;;
  finish (snd r).

(* ====================================================================== st_string.h *)
(* ST::string::set(const char_buffer &init, validation)  (also the && overload) *)
Definition string_set (m : vmode) (init : list N) : outcome (list N) :=
  match m with
  | CheckValidity =>
      e <- validate_utf8 init ;;
      _ <- raise_conversion_error e ;;
      Ok init
  | SubstituteInvalid => cleanup_utf8_buffer init
  | AssumeValid => Ok init
  end.

(* ST::string::_set_utf8(const char *utf8, size_t size, validation) *)
Definition set_utf8 (m : vmode) (utf8 : option (list N)) : outcome (list N) :=
  _ <- huge_guard (units_of utf8) ;;
  match utf8 with
  | None => Ok []
  | Some l => cb <- buffer_from_ptr (Some l) ;; string_set m cb
  end.

(* constructors / set / operator= / from_* : the content of the resulting ST::string *)
Definition string_from_utf8 := set_utf8.
Definition string_from_utf16 := utf16_to_utf8.       (* from_validated(utf16_to_utf8(...)) *)
Definition string_from_utf32 := utf32_to_utf8.
Definition string_from_wchar := wchar_to_utf8.
Definition string_from_latin_1 := latin_1_to_utf8.
(* operator"" _st (const char *, size_t) = from_validated: no validation at all *)
Definition string_literal_char (str : option (list N)) : outcome (list N) := buffer_from_ptr str.

(* to_* of a string whose content is s: hard-wired assume_valid *)
Definition string_to_utf8 (s : list N) : outcome (list N) := Ok s.
Definition string_to_utf16 (s : list N) : outcome (list N) := utf8_to_utf16 AssumeValid (Some s).
Definition string_to_utf32 (s : list N) : outcome (list N) := utf8_to_utf32 AssumeValid (Some s).
Definition string_to_wchar (s : list N) : outcome (list N) := utf8_to_wchar AssumeValid (Some s).
Definition string_to_latin_1 (sub : bool) (s : list N) : outcome (list N) := utf8_to_latin_1 AssumeValid sub (Some s).

(* calls that omit the mode use ST_DEFAULT_VALIDATION (dm is the build's setting) *)
Definition with_default {A} (dm : vmode) (f : vmode -> A) : A := f dm.
