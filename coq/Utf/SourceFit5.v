(* Utf/SourceFit5.v — source-level fit, the two widening copies from Latin-1 (see Utf/SourceFit.v): latin_1_to_utf16 /
   latin_1_to_utf32 allocate `size` units, and the translated utf16_convert_from_latin_1 / utf32_convert_from_latin_1
   store exactly `size` units, for a Latin-1 string of any length. *)
From Coq Require Import NArith ZArith List Bool Lia ZifyBool ZifyNat ZifyN.
From ST Require Import Base.Outcome Base.Units Utf.Spec Utf.Tokens Utf.Model Utf.ProofsTok Utf.ProofsWalk Utf.ProofsGeneric
  Utf.ProofsFromL1 Gen.Leaf Utf.LoopBridge Utf.LoopBridgeWrite Utf.LoopBridgeConvertTo32 Utf.LoopBridgeLatin1 Utf.SourceFit.
Import ListNotations.
Local Open Scope Z_scope.

Theorem latin_1_to_utf16_source_pass_fits l fuel : all_lt 256 l = true -> (length l < fuel)%nat ->
  exists ws, src_utf16_convert_from_latin_1 fuel (arr8s l) (Z.of_nat (length l)) = Some ws /\ length ws = length l.
Proof.
  intros A Hf. destruct (utf16_convert_from_latin_1_matches_source l fuel A Hf) as (ws & Es & Em).
  exists ws. split; [exact Es|].
  rewrite <- (tokL1_count T16 l ltac:(tauto) A).
  apply (fit_core (pcL1 T16) (mcost T16) (tok EL1 l) (fun d => utf16_convert_from_latin_1 d l) CSuccess (length ws) (rev (map unit16_of ws))).
  - intros d. unfold utf16_convert_from_latin_1, push16.
    apply (copy_convert_tokens T16 0xFFFF); [tauto| |exact A].
    intros b B. rewrite land_FF by exact B. apply land_FFFF. lia.
  - intros t l0. unfold pcL1. apply pc_cost. discriminate.
  - intros t er. unfold pcL1. apply pc_real_error.
  - exact Em.
  - reflexivity.
Qed.

Theorem latin_1_to_utf32_source_pass_fits l fuel : all_lt 256 l = true -> (length l < fuel)%nat ->
  exists ws, src_utf32_convert_from_latin_1 fuel (arr8s l) (Z.of_nat (length l)) = Some ws /\ length ws = length l.
Proof.
  intros A Hf. destruct (utf32_convert_from_latin_1_matches_source l fuel A Hf) as (ws & Es & Em).
  exists ws. split; [exact Es|].
  rewrite <- (tokL1_count T32 l ltac:(tauto) A).
  apply (fit_core (pcL1 T32) (mcost T32) (tok EL1 l) (fun d => utf32_convert_from_latin_1 d l) CSuccess (length ws) (rev (map unit32_of ws))).
  - intros d. unfold utf32_convert_from_latin_1, push32.
    apply (copy_convert_tokens T32 0xFFFFFFFF); [tauto| |exact A].
    intros b B. rewrite land_FF by exact B. apply land_FFFFFFFF. lia.
  - intros t l0. unfold pcL1. apply pc_cost. discriminate.
  - intros t er. unfold pcL1. apply pc_real_error.
  - exact Em.
  - reflexivity.
Qed.
