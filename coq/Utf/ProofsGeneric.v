(* Utf/ProofsGeneric.v — the shape every allocating converter shares, proved once:
   measure pass = total cost of the tokens, convert pass = pieces written token by
   token into a destination of exactly that size, wrapper = assemble of the
   specification's pieces.                                                        *)
From Coq Require Import NArith Arith List Bool Lia.
From ST Require Import Base.Outcome Base.Units Gen.Consts Utf.Spec Utf.Tokens Utf.Model
     Utf.ProofsWalk Utf.ProofsTok Utf.ProofsEnc.
Import ListNotations.
Local Open Scope N_scope.
Local Open Scope outcome_scope.

(* the error code the code reports for a token it cannot convert *)
Definition err_of (e : encoding) (tg : target) (t : token) : cerr :=
  match t with
  | Bad b => match e with E8 => err8 b | E16 => CIncompleteSurrogate | _ => COutOfRange end
  | Good _ _ => match tg with TL1 => CLatin1OutOfRange | _ => COutOfRange end
  end.

(* the specification's piece for a token, as "units to write or error to return" *)
Definition pc (e : encoding) (tg : target) (m : vmode) (sub : bool) (t : token) : list N + cerr :=
  match piece_of tg m sub t with
  | PUnits l => inl l
  | PThrow => inr (err_of e tg t)
  end.

(* what the measuring pass counts for a token *)
Definition mcost (tg : target) (t : token) : nat :=
  match tg with
  | T32 | TL1 => 1%nat
  | T16 => match t with Good _ v => utf16_measure v | Bad _ => 1%nat end
  | T8 => match t with Good _ v => utf8_measure v | Bad _ => length badchar_substitute_utf8 end
  | TS => length (cleanup_piece t)
  end.

Lemma real_error_err_of e tg t : real_error (err_of e tg t).
Proof.
  unfold err_of. destruct t as [u v|b]; [destruct tg; exact I|].
  destruct e; try exact I. unfold err8. destruct (in_range 192 247 b); exact I.
Qed.

Lemma real_error_raise e : real_error e -> raise_conversion_error e = Throw UnicodeError.
Proof. destruct e; cbn; intros H; try reflexivity; contradiction. Qed.

Lemma real_error_is_error e : real_error e -> is_error e = true.
Proof. destruct e; cbn; intros H; try reflexivity; contradiction. Qed.

Lemma pc_real_error e tg m sub t er : pc e tg m sub t = inr er -> real_error er.
Proof. unfold pc. destruct (piece_of tg m sub t); intros H; inversion H; subst. apply real_error_err_of. Qed.

(* length of a written piece = what the measuring pass counted (TS excluded: own proof) *)
Lemma pc_cost e tg m sub t l : tg <> TS -> pc e tg m sub t = inl l -> length l = mcost tg t.
Proof.
  intros NTS. unfold pc. destruct (piece_of tg m sub t) as [l'|] eqn:P; intros H; inversion H; subst; clear H.
  unfold piece_of in P. destruct t as [u v|b].
  - unfold render in P. destruct tg; try congruence; cbn [mcost].
    + destruct (v <=? 1114111) eqn:R.
      * inversion P; subst. symmetry. apply utf8_measure_enc. apply N.leb_le. exact R.
      * unfold unrepresentable in P. apply N.leb_gt in R. rewrite (utf8_measure_range v R).
        destruct m; inversion P; subst; reflexivity.
    + destruct (v <=? 1114111) eqn:R.
      * inversion P; subst. symmetry. apply utf16_measure_enc. apply N.leb_le. exact R.
      * unfold unrepresentable in P. apply N.leb_gt in R. rewrite (utf16_measure_range v R).
        destruct m; inversion P; subst; reflexivity.
    + inversion P; subst. reflexivity.
    + destruct (v <? 256); [inversion P; subst; reflexivity|].
      unfold unrepresentable in P. destruct sub; inversion P; subst. reflexivity.
  - destruct tg; try congruence; cbn [mcost]; destruct m; inversion P; subst; reflexivity.
Qed.

Lemma mcost_pos tg t : tg <> TS -> (1 <= mcost tg t)%nat.
Proof.
  intros NTS. destruct tg; try congruence; cbn [mcost]; try lia.
  - destruct t as [u v|b]; [|cbn; lia]. unfold utf8_measure.
    destruct (v <? 128), (v <? 2048), (v <? 65536), (v <=? 1114111); cbn; lia.
  - destruct t as [u v|b]; [|lia]. unfold utf16_measure. destruct ((v <? 65536) || (1114111 <? v)); lia.
Qed.

Lemma total_cost_zero cost ts : (forall t, 1 <= cost t)%nat -> total_cost cost ts = 0%nat -> ts = [].
Proof.
  intros Hp. destruct ts as [|t r]; [reflexivity|]. cbn [total_cost fold_right]. specialize (Hp t). lia.
Qed.

(* the result of a conversion, from the pieces *)
Definition result_of (p : list N * cerr) : outcome (list N) :=
  match snd p with CSuccess => Ok (fst p) | _ => Throw UnicodeError end.

Lemma convert_into_measured pcf cost ts n :
  (forall t l, pcf t = inl l -> length l = cost t) ->
  (forall t e, pcf t = inr e -> real_error e) ->
  n = total_cost cost ts ->
  (r <- twalk (emit_tb pcf) ts (alloc n) ;; raise_and_return r) = result_of (pieces_out pcf ts).
Proof.
  intros Hc He ->.
  assert (He' : forall t e, pcf t = inr e -> e <> CSuccess).
  { intros t e H E. subst. exact (He t _ H). }
  destruct (pieces_out_cost pcf cost Hc He' ts) as [L1 L2].
  unfold alloc. rewrite twalk_emit by exact L1. cbn [bind]. unfold raise_and_return, result_of. cbn [fst snd].
  destruct (snd (pieces_out pcf ts)) eqn:E.
  - cbn [raise_conversion_error bind]. rewrite (L2 eq_refl), Nat.sub_diag. unfold finish. cbn [fst snd].
    rewrite app_nil_r, rev_involutive. reflexivity.
  - reflexivity.
  - reflexivity.
  - reflexivity.
  - reflexivity.
  - reflexivity.
  - (* CInvalidEnum is never produced *)
    exfalso. clear L1 L2. revert E. induction ts as [|t r IH]; cbn [pieces_out]; [cbn; discriminate|].
    destruct (pcf t) as [l|er] eqn:P.
    + destruct (pieces_out pcf r). cbn [snd] in *. exact IH.
    + cbn [snd]. intros ->. exact (He t _ P).
Qed.

Lemma two_pass l pcf cost ts (measure : outcome nat) (convert : dst -> outcome (cerr * dst)) :
  N.of_nat (length l) < huge_buffer_size ->
  measure = Ok (total_cost cost ts) ->
  (forall d, convert d = twalk (emit_tb pcf) ts d) ->
  (forall t l', pcf t = inl l' -> length l' = cost t) ->
  (forall t e, pcf t = inr e -> real_error e) ->
  (forall t, 1 <= cost t)%nat ->
  (_ <- huge_guard l ;; n <- measure ;;
   if Nat.eqb n 0 then Ok [] else r <- convert (alloc n) ;; raise_and_return r)
  = result_of (pieces_out pcf ts).
Proof.
  intros HL HM HC Hc He Hp. unfold huge_guard. apply N.ltb_lt in HL. rewrite HL. cbn [bind].
  rewrite HM. cbn [bind]. destruct (Nat.eqb (total_cost cost ts) 0) eqn:Z.
  - apply Nat.eqb_eq in Z. rewrite (total_cost_zero cost ts Hp Z). reflexivity.
  - rewrite HC. apply (convert_into_measured pcf cost ts _ Hc He eq_refl).
Qed.

(* pieces of the code = assemble of the specification's pieces *)
Definition sres_outcome (r : sres) : outcome (list N) :=
  match r with SOk l => Ok l | _ => Throw UnicodeError end.

Lemma pieces_assemble e tg m sub ts :
  result_of (pieces_out (pc e tg m sub) ts) = sres_outcome (repair tg m sub ts).
Proof.
  unfold repair. induction ts as [|t r IH]; [reflexivity|].
  cbn [pieces_out map assemble]. unfold pc at 1. destruct (piece_of tg m sub t) as [l|].
  - unfold result_of in *. destruct (pieces_out (pc e tg m sub) r) as [o e2]. cbn [fst snd] in *.
    destruct (assemble (map (piece_of tg m sub) r)); destruct e2; cbn [sres_outcome] in *;
      try discriminate; try reflexivity; inversion IH; subst; reflexivity.
  - unfold result_of. cbn [snd sres_outcome]. pose proof (real_error_err_of e tg t) as R.
    destruct (err_of e tg t); try reflexivity; contradiction.
Qed.

(* ---- refinement of the specification's result ---- *)
Definition refines (o : outcome (list N)) (r : sres) : Prop :=
  match r with
  | SOk l => o = Ok l
  | SThrow => o = Throw UnicodeError
  | SAnyOk => exists l, o = Ok l
  | SAny => (exists l, o = Ok l) \/ o = Throw UnicodeError
  end.

Lemma assemble_ok_or_throw ps : (exists l, assemble ps = SOk l) \/ assemble ps = SThrow.
Proof.
  induction ps as [|p r IH]; [left; eexists; reflexivity|]. destruct p as [l|]; cbn [assemble]; [|right; reflexivity].
  destruct IH as [[l' E]|E]; rewrite E; [left; eexists; reflexivity|right; reflexivity].
Qed.

(* when no piece throws, assemble gives units *)
Lemma assemble_no_throw ps : (forall p, In p ps -> p <> PThrow) -> exists l, assemble ps = SOk l.
Proof.
  induction ps as [|p r IH]; intros H; [eexists; reflexivity|].
  destruct p as [l|]; [|exfalso; exact (H PThrow (or_introl eq_refl) eq_refl)].
  cbn [assemble]. destruct IH as [l' E]; [intros q Hq; apply H; right; exact Hq|]. rewrite E. eexists; reflexivity.
Qed.

Lemma piece_av tg sub t : piece_of tg AssumeValid sub t = piece_of tg SubstituteInvalid sub t.
Proof. destruct t as [u v|b]; cbn [piece_of]; [|reflexivity]. destruct (render tg u v); [reflexivity|]. destruct tg; reflexivity. Qed.

Lemma repair_av tg sub ts : repair tg AssumeValid sub ts = repair tg SubstituteInvalid sub ts.
Proof. unfold repair. rewrite (map_ext _ _ (piece_av tg sub)). reflexivity. Qed.

(* outside check_validity only a Latin-1 target without substitution can throw *)
Lemma piece_no_throw tg m sub t : m <> CheckValidity ->
  (tg <> TL1 \/ sub = true \/ match t with Good _ v => (v <? 0x100) = true | Bad _ => True end) ->
  piece_of tg m sub t <> PThrow.
Proof.
  intros Hm H. destruct t as [u v|b]; cbn [piece_of].
  - destruct (render tg u v) eqn:R; [discriminate|]. unfold unrepresentable.
    destruct tg; try (destruct m; [discriminate|discriminate|congruence]).
    destruct sub; [discriminate|]. destruct H as [H|[H|H]]; try congruence.
    cbn [render] in R. rewrite H in R. discriminate.
  - destruct m; [discriminate|discriminate|congruence].
Qed.

Lemma conv_refines tg m sub ts o :
  o = sres_outcome (repair tg m sub ts) -> refines o (spec_tokens tg m sub ts).
Proof.
  intros ->. unfold spec_tokens. destruct m.
  - (* assume_valid *)
    rewrite repair_av. destruct (existsb (unfixed tg) ts) eqn:U.
    + assert (NT : (tg <> TL1 \/ sub = true \/
                    existsb (fun t => match t with Good _ v => negb (v <? 0x100) | Bad _ => false end) ts = false) ->
                   exists l, repair tg SubstituteInvalid sub ts = SOk l).
      { intros H. unfold repair. apply assemble_no_throw. intros p Hp. apply in_map_iff in Hp.
        destruct Hp as (t & <- & Ht). apply piece_no_throw; [discriminate|].
        destruct H as [H|[H|H]]; [tauto|tauto|]. right; right.
        destruct t as [u v|b]; [|exact I]. destruct (v <? 256) eqn:V; [reflexivity|].
        exfalso. assert (X : existsb (fun t => match t with Good _ v => negb (v <? 0x100) | Bad _ => false end) ts = true).
        { apply existsb_exists. exists (Good u v). split; [exact Ht|]. rewrite V. reflexivity. }
        congruence. }
      destruct tg; try (destruct NT as [l E]; [left; discriminate|]; rewrite E; cbn; eexists; reflexivity).
      destruct sub.
      * destruct NT as [l E]; [tauto|]. rewrite E. cbn. eexists; reflexivity.
      * destruct (existsb (fun t => match t with Good _ v => negb (v <? 256) | Bad _ => false end) ts) eqn:X.
        -- cbn [refines]. destruct (assemble_ok_or_throw (map (piece_of TL1 SubstituteInvalid false) ts)) as [[l E]|E];
             unfold repair; rewrite E; cbn; [left; eexists; reflexivity|right; reflexivity].
        -- destruct NT as [l E]; [tauto|]. rewrite E. cbn. eexists; reflexivity.
    + unfold repair. destruct (assemble_ok_or_throw (map (piece_of tg SubstituteInvalid sub) ts)) as [[l E]|E];
        rewrite E; reflexivity.
  - unfold repair. destruct (assemble_ok_or_throw (map (piece_of tg SubstituteInvalid sub) ts)) as [[l E]|E];
      rewrite E; reflexivity.
  - unfold repair. destruct (assemble_ok_or_throw (map (piece_of tg CheckValidity sub) ts)) as [[l E]|E];
      rewrite E; reflexivity.
Qed.

(* masks of the element widths are the identity on values in range *)
Lemma land_FFFF v : v < 65536 -> N.land v 0xFFFF = v.
Proof. intros H. change 0xFFFF with (N.ones 16). rewrite N.land_ones. apply N.mod_small. exact H. Qed.
Lemma land_FFFFFFFF v : v < 4294967296 -> N.land v 0xFFFFFFFF = v.
Proof. intros H. change 0xFFFFFFFF with (N.ones 32). rewrite N.land_ones. apply N.mod_small. exact H. Qed.
Lemma land_FF v : v < 256 -> N.land v 0xFF = v.
Proof. intros H. change 0xFF with (N.ones 8). rewrite N.land_ones. apply N.mod_small. exact H. Qed.
