(* Utf/ProofsTok.v — the three UTF-8 deciders of the code (extract_utf8,
   validate_utf8's loop body, cleanup_utf8's loop body) and extract_utf16 take
   exactly the first token of the specification's tokeniser.                   *)
From Coq Require Import NArith List Bool Lia.
From ST Require Import Base.Outcome Base.Units Gen.Consts Utf.Spec Utf.Tokens Utf.Model Utf.BitLemmas Utf.ProofsWalk.
Import ListNotations.
Local Open Scope N_scope.
Local Open Scope outcome_scope.

Lemma all_lt_cons b x s : all_lt b (x :: s) = true <-> x < b /\ all_lt b s = true.
Proof.
  unfold all_lt. cbn [forallb]. rewrite andb_true_iff, N.ltb_lt. tauto.
Qed.

(* the value a decoder returns for a token: the decoded value, or an in-band error.
   For UTF-8 the error code is decided by the offending byte itself: a lead byte (C0..F7)
   without its continuation bytes is "incomplete", any other byte is "invalid". *)
Definition err8 (b : N) : cerr := if in_range 0xC0 0xF7 b then CIncompleteUtf8 else CInvalidUtf8.
Definition chval8 (t : token) : N :=
  match t with Good _ v => v | Bad b => error_char (err8 b) end.
Definition chval16 (t : token) : N :=
  match t with Good _ v => v | Bad _ => error_char CIncompleteSurrogate end.

Lemma in_range_false lo hi b : in_range lo hi b = false -> b < lo \/ hi < b.
Proof.
  unfold in_range. intros H. apply andb_false_iff in H. destruct H as [H|H]; apply N.leb_gt in H; lia.
Qed.

Lemma err8_lead b : in_range 0xC0 0xDF b = true \/ in_range 0xE0 0xEF b = true \/ in_range 0xF0 0xF7 b = true ->
  err8 b = CIncompleteUtf8.
Proof.
  intros H. unfold err8. assert (E : in_range 192 247 b = true); [|rewrite E; reflexivity].
  unfold in_range. apply andb_true_iff. rewrite !N.leb_le.
  destruct H as [H|[H|H]]; apply in_range_bounds in H; lia.
Qed.

Lemma err8_other b : (b <? 128) = false -> in_range 0xC0 0xDF b = false -> in_range 0xE0 0xEF b = false ->
  in_range 0xF0 0xF7 b = false -> err8 b = CInvalidUtf8.
Proof.
  intros L A B C. unfold err8. assert (E : in_range 192 247 b = false); [|rewrite E; reflexivity].
  apply in_range_false in A, B, C. apply N.ltb_ge in L.
  unfold in_range. apply andb_false_iff. rewrite !N.leb_gt. lia.
Qed.

Ltac cbn_model := cbn [at_least negb rdu nth_error of_opt bind skipn firstn fst snd andb orb].

(* ---------------------------------------------------------------- extract_utf8 *)
Lemma extract_utf8_step s t rest : all_lt 256 s = true -> step8 s = Some (t, rest) ->
  extract_utf8 s = Ok (chval8 t, rest) /\ match t with Good _ v => v < 0x200000 | Bad _ => True end.
Proof.
  intros A H. destruct s as [|b0 s]; [discriminate|].
  apply all_lt_cons in A. destruct A as [B0 A].
  unfold extract_utf8. cbn_model. cbn [step8] in H.
  rewrite (mask_C0 b0 B0), (mask_E0 b0 B0), (mask_F0 b0 B0).
  destruct (b0 <? 128) eqn:L0.
  { inversion H; subst. split; [reflexivity|]. apply N.ltb_lt in L0. lia. }
  destruct (in_range 192 223 b0) eqn:R0.
  { destruct s as [|b1 s1].
    - inversion H; subst. cbn_model. cbn [chval8]; rewrite err8_lead by tauto; split; [reflexivity|exact I].
    - apply all_lt_cons in A. destruct A as [B1 A]. cbn_model.
      rewrite (mask_cont b1 B1). destruct (is_cont b1) eqn:C1; cbn_model; inversion H; subst.
      + cbn [chval8]. rewrite (decode2 b0 b1 B0 B1 R0 C1). split; [reflexivity|].
        apply in_range_bounds in R0, C1. lia.
      + cbn [chval8]; rewrite err8_lead by tauto; split; [reflexivity|exact I]. }
  destruct (in_range 224 239 b0) eqn:R1.
  { destruct s as [|b1 [|b2 s2]].
    - inversion H; subst. cbn_model. cbn [chval8]; rewrite err8_lead by tauto; split; [reflexivity|exact I].
    - inversion H; subst. cbn_model. cbn [chval8]; rewrite err8_lead by tauto; split; [reflexivity|exact I].
    - apply all_lt_cons in A. destruct A as [B1 A]. apply all_lt_cons in A. destruct A as [B2 A]. cbn_model.
      rewrite (mask_cont b1 B1), (mask_cont b2 B2).
      destruct (is_cont b1) eqn:C1; cbn_model; [destruct (is_cont b2) eqn:C2; cbn_model|]; inversion H; subst.
      + cbn [chval8]. rewrite (decode3 b0 b1 b2 B0 B1 B2 R1 C1 C2). split; [reflexivity|].
        apply in_range_bounds in R1, C1, C2. lia.
      + cbn [chval8]; rewrite err8_lead by tauto; split; [reflexivity|exact I].
      + cbn [chval8]; rewrite err8_lead by tauto; split; [reflexivity|exact I]. }
  destruct (in_range 240 247 b0) eqn:R2.
  { destruct s as [|b1 [|b2 [|b3 s3]]].
    - inversion H; subst. cbn_model. cbn [chval8]; rewrite err8_lead by tauto; split; [reflexivity|exact I].
    - inversion H; subst. cbn_model. cbn [chval8]; rewrite err8_lead by tauto; split; [reflexivity|exact I].
    - inversion H; subst. cbn_model. cbn [chval8]; rewrite err8_lead by tauto; split; [reflexivity|exact I].
    - apply all_lt_cons in A. destruct A as [B1 A]. apply all_lt_cons in A. destruct A as [B2 A].
      apply all_lt_cons in A. destruct A as [B3 A]. cbn_model.
      rewrite (mask_cont b1 B1), (mask_cont b2 B2), (mask_cont b3 B3).
      destruct (is_cont b1) eqn:C1; cbn_model;
        [destruct (is_cont b2) eqn:C2; cbn_model; [destruct (is_cont b3) eqn:C3; cbn_model|]|]; inversion H; subst.
      + cbn [chval8]. rewrite (decode4 b0 b1 b2 b3 B0 B1 B2 B3 R2 C1 C2 C3). split; [reflexivity|].
        apply in_range_bounds in R2, C1, C2, C3. lia.
      + cbn [chval8]; rewrite err8_lead by tauto; split; [reflexivity|exact I].
      + cbn [chval8]; rewrite err8_lead by tauto; split; [reflexivity|exact I].
      + cbn [chval8]; rewrite err8_lead by tauto; split; [reflexivity|exact I]. }
  inversion H; subst. cbn [chval8]. rewrite (err8_other b0 L0 R0 R1 R2). split; [reflexivity|exact I].
Qed.

(* ------------------------------------------------------- validate_utf8's loop body *)
Definition real_error (e : cerr) : Prop :=
  match e with CSuccess | CInvalidEnum _ => False | _ => True end.

Lemma validate_body_step s t rest : all_lt 256 s = true -> step8 s = Some (t, rest) ->
  match t with
  | Good _ _ => validate_utf8_body s tt = Ok (Continue rest tt)
  | Bad _ => exists e, validate_utf8_body s tt = Ok (Return e) /\ real_error e
  end.
Proof.
  intros A H. destruct s as [|b0 s]; [discriminate|].
  apply all_lt_cons in A. destruct A as [B0 A].
  unfold validate_utf8_body. cbn_model. cbn [step8] in H.
  rewrite (mask_C0 b0 B0), (mask_E0 b0 B0), (mask_F0 b0 B0).
  destruct (b0 <? 128) eqn:L0.
  { inversion H; subst. reflexivity. }
  destruct (in_range 192 223 b0) eqn:R0.
  { destruct s as [|b1 s1].
    - inversion H; subst. cbn_model. eexists; split; [reflexivity|exact I].
    - apply all_lt_cons in A. destruct A as [B1 A]. cbn_model.
      rewrite (mask_cont b1 B1). destruct (is_cont b1) eqn:C1; cbn_model; inversion H; subst.
      + reflexivity.
      + eexists; split; [reflexivity|exact I]. }
  destruct (in_range 224 239 b0) eqn:R1.
  { destruct s as [|b1 [|b2 s2]].
    - inversion H; subst. cbn_model. eexists; split; [reflexivity|exact I].
    - inversion H; subst. cbn_model. eexists; split; [reflexivity|exact I].
    - apply all_lt_cons in A. destruct A as [B1 A]. apply all_lt_cons in A. destruct A as [B2 A]. cbn_model.
      rewrite (mask_cont b1 B1), (mask_cont b2 B2).
      destruct (is_cont b1) eqn:C1; cbn_model; [destruct (is_cont b2) eqn:C2; cbn_model|]; inversion H; subst.
      + reflexivity.
      + eexists; split; [reflexivity|exact I].
      + eexists; split; [reflexivity|exact I]. }
  destruct (in_range 240 247 b0) eqn:R2.
  { destruct s as [|b1 [|b2 [|b3 s3]]].
    - inversion H; subst. cbn_model. eexists; split; [reflexivity|exact I].
    - inversion H; subst. cbn_model. eexists; split; [reflexivity|exact I].
    - inversion H; subst. cbn_model. eexists; split; [reflexivity|exact I].
    - apply all_lt_cons in A. destruct A as [B1 A]. apply all_lt_cons in A. destruct A as [B2 A].
      apply all_lt_cons in A. destruct A as [B3 A]. cbn_model.
      rewrite (mask_cont b1 B1), (mask_cont b2 B2), (mask_cont b3 B3).
      destruct (is_cont b1) eqn:C1; cbn_model;
        [destruct (is_cont b2) eqn:C2; cbn_model; [destruct (is_cont b3) eqn:C3; cbn_model|]|]; inversion H; subst.
      + reflexivity.
      + eexists; split; [reflexivity|exact I].
      + eexists; split; [reflexivity|exact I].
      + eexists; split; [reflexivity|exact I]. }
  inversion H; subst. eexists; split; [reflexivity|exact I].
Qed.

(* -------------------------------------------------------- cleanup_utf8's loop body *)
(* what cleanup writes for a token: a Good token verbatim, U+FFFD for a Bad unit *)
Definition cleanup_piece (t : token) : list N :=
  match t with Good u _ => u | Bad _ => badchar_substitute_utf8 end.

Definition cleanup_result (t : token) (rest : list N) (st : nat * option dst) : outcome (step_result (nat * option dst)) :=
  o <- append_chars (snd st) (cleanup_piece t) ;;
  Ok (Continue rest ((length (cleanup_piece t) + fst st)%nat, o)).

Lemma cleanup_body_step s t rest st : all_lt 256 s = true -> step8 s = Some (t, rest) ->
  cleanup_utf8_body s st = cleanup_result t rest st.
Proof.
  intros A H. destruct s as [|b0 s]; [discriminate|].
  apply all_lt_cons in A. destruct A as [B0 A].
  unfold cleanup_utf8_body, cleanup_result. cbn_model. cbn [step8] in H.
  rewrite (mask_C0 b0 B0), (mask_E0 b0 B0), (mask_F0 b0 B0).
  destruct (b0 <? 128) eqn:L0.
  { inversion H; subst. cbn [cleanup_piece length]. unfold append_chars.
    destruct (snd st) as [d|]; cbn [bind push_all8]; [|reflexivity].
    destruct (push8 d b0); reflexivity. }
  destruct (in_range 192 223 b0) eqn:R0.
  { destruct s as [|b1 s1].
    - inversion H; subst. cbn_model. reflexivity.
    - apply all_lt_cons in A. destruct A as [B1 A]. cbn_model.
      rewrite (mask_cont b1 B1). destruct (is_cont b1) eqn:C1; cbn_model; inversion H; subst; reflexivity. }
  destruct (in_range 224 239 b0) eqn:R1.
  { destruct s as [|b1 [|b2 s2]].
    - inversion H; subst. cbn_model. reflexivity.
    - inversion H; subst. cbn_model. reflexivity.
    - apply all_lt_cons in A. destruct A as [B1 A]. apply all_lt_cons in A. destruct A as [B2 A]. cbn_model.
      rewrite (mask_cont b1 B1), (mask_cont b2 B2).
      destruct (is_cont b1) eqn:C1; cbn_model; [destruct (is_cont b2) eqn:C2; cbn_model|]; inversion H; subst; reflexivity. }
  destruct (in_range 240 247 b0) eqn:R2.
  { destruct s as [|b1 [|b2 [|b3 s3]]].
    - inversion H; subst. cbn_model. reflexivity.
    - inversion H; subst. cbn_model. reflexivity.
    - inversion H; subst. cbn_model. reflexivity.
    - apply all_lt_cons in A. destruct A as [B1 A]. apply all_lt_cons in A. destruct A as [B2 A].
      apply all_lt_cons in A. destruct A as [B3 A]. cbn_model.
      rewrite (mask_cont b1 B1), (mask_cont b2 B2), (mask_cont b3 B3).
      destruct (is_cont b1) eqn:C1; cbn_model;
        [destruct (is_cont b2) eqn:C2; cbn_model; [destruct (is_cont b3) eqn:C3; cbn_model|]|];
        inversion H; subst; reflexivity. }
  inversion H; subst. reflexivity.
Qed.

(* --------------------------------------------------------------- extract_utf16 *)
Lemma extract_utf16_step s t rest : step16 s = Some (t, rest) ->
  extract_utf16 s = Ok (chval16 t, rest) /\
  match t with
  | Good [u] v => v = u /\ is_hi u = false /\ is_lo u = false
  | Good _ v => 0x10000 <= v /\ v <= 0x10FFFF
  | Bad _ => True
  end.
Proof.
  intros H. destruct s as [|u0 s]; [discriminate|].
  unfold extract_utf16. cbn_model. cbn [step16] in H.
  assert (S : ((0xD800 <=? u0) && (u0 <=? 0xDFFF)) = is_hi u0 || is_lo u0).
  { unfold is_hi, is_lo, in_range.
    destruct (0xD800 <=? u0) eqn:E1, (u0 <=? 0xDFFF) eqn:E2, (u0 <=? 0xDBFF) eqn:E3, (0xDC00 <=? u0) eqn:E4;
      cbn; try reflexivity; rewrite ?N.leb_le, ?N.leb_gt in *; lia. }
  rewrite S. clear S.
  destruct (is_hi u0) eqn:Hi.
  { cbn [orb]. assert (L : (u0 <? 0xDC00) = true).
    { unfold is_hi in Hi. apply in_range_bounds in Hi. apply N.ltb_lt. lia. }
    destruct s as [|u1 s1].
    - inversion H; subst. cbn_model. split; [reflexivity|exact I].
    - cbn_model. rewrite L. cbn_model. fold (in_range 0xDC00 0xDFFF u1). fold (is_lo u1).
      destruct (is_lo u1) eqn:Lo; inversion H; subst.
      + cbn [chval16]. rewrite (pair_hi_lo u0 u1 Hi Lo). split; [reflexivity|].
        unfold pair_value, is_hi, is_lo in *. apply in_range_bounds in Hi, Lo. lia.
      + split; [reflexivity|exact I]. }
  destruct (is_lo u0) eqn:Lo0.
  { cbn [orb]. assert (L : (u0 <? 0xDC00) = false).
    { unfold is_lo in Lo0. apply in_range_bounds in Lo0. apply N.ltb_ge. lia. }
    destruct s as [|u1 s1].
    - inversion H; subst. cbn_model. split; [reflexivity|exact I].
    - cbn_model. rewrite L. cbn_model. fold (in_range 0xD800 0xDBFF u1). fold (is_hi u1).
      destruct (is_hi u1) eqn:Hi1; inversion H; subst.
      + cbn [chval16]. rewrite (pair_lo_hi u0 u1 Lo0 Hi1). split; [reflexivity|].
        unfold pair_value, is_hi, is_lo in *. apply in_range_bounds in Hi1, Lo0. lia.
      + split; [reflexivity|exact I]. }
  cbn [orb]. inversion H; subst. split; [reflexivity|]. repeat split; assumption.
Qed.
