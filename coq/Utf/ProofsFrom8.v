(* Utf/ProofsFrom8.v — the converters that read UTF-8 through extract_utf8
   (utf8_to_utf16, utf8_to_utf32, utf8_to_latin_1, utf8_to_wchar): each pass is the
   token-level pass of Utf/ProofsGeneric.v, each wrapper refines Tokens.spec_conv.  *)
From Coq Require Import NArith Arith List Bool Lia.
From ST Require Import Base.Outcome Base.Units Gen.Consts Utf.Spec Utf.Tokens Utf.Model
     Utf.BitLemmas Utf.ProofsWalk Utf.ProofsTok Utf.ProofsEnc Utf.ProofsGeneric.
Import ListNotations.
Local Open Scope N_scope.
Local Open Scope outcome_scope.

Lemma char_error_err8 b : char_error (error_char (err8 b)) = err8 b.
Proof. unfold err8. destruct (in_range 192 247 b); reflexivity. Qed.
Lemma is_error_err8 b : is_error (err8 b) = true.
Proof. unfold err8. destruct (in_range 192 247 b); reflexivity. Qed.
Lemma utf16_measure_err8 b : utf16_measure (error_char (err8 b)) = 1%nat.
Proof. unfold err8. destruct (in_range 192 247 b); reflexivity. Qed.

(* ------------------------------------------------------------- measuring passes *)
Lemma utf16_measure_from_utf8_tokens s : all_lt 256 s = true ->
  utf16_measure_from_utf8 (Some s) = Ok (total_cost (mcost T16) (tok E8 s)).
Proof.
  intros A. unfold utf16_measure_from_utf8. apply (measure_walk_tokens E8); [|exact A].
  intros s0 t rest n A0 E. destruct (extract_utf8_step s0 t rest A0 E) as [X _]. rewrite X. cbn [bind].
  destruct t as [u v|b]; cbn [chval8 mcost]; [reflexivity|]. rewrite utf16_measure_err8. reflexivity.
Qed.

Lemma utf32_measure_from_utf8_tokens s : all_lt 256 s = true ->
  utf32_measure_from_utf8 (Some s) = Ok (total_cost (mcost T32) (tok E8 s)).
Proof.
  intros A. unfold utf32_measure_from_utf8. apply (measure_walk_tokens E8); [|exact A].
  intros s0 t rest n A0 E. destruct (extract_utf8_step s0 t rest A0 E) as [X _]. rewrite X. reflexivity.
Qed.

Lemma latin_1_measure_from_utf8_tokens s : all_lt 256 s = true ->
  latin_1_measure_from_utf8 (Some s) = Ok (total_cost (mcost TL1) (tok E8 s)).
Proof. exact (utf32_measure_from_utf8_tokens s). Qed.

(* ------------------------------------------------------------- converting passes *)
Lemma utf16_convert_from_utf8_tokens d s m : all_lt 256 s = true ->
  utf16_convert_from_utf8 d s m = twalk (emit_tb (pc E8 T16 m false)) (tok E8 s) d.
Proof.
  intros A. unfold utf16_convert_from_utf8. apply (walk_twalk E8); [|exact A|lia].
  intros s0 t rest d0 A0 E. destruct (extract_utf8_step s0 t rest A0 E) as [X V]. rewrite X. cbn [bind].
  unfold emit_tb, pc, lift_step. destruct t as [u v|b]; cbn [chval8 piece_of].
  - rewrite (char_error_value v) by lia. cbn [is_error negb]. unfold render.
    destruct (v <=? 1114111) eqn:R.
    + apply N.leb_le in R. rewrite (write_utf16_ok d0 v R).
      destruct (push_list d0 (utf16_enc v)); reflexivity.
    + apply N.leb_gt in R. rewrite (write_utf16_range d0 v R). cbn [bind is_error].
      unfold on_error16, unrepresentable. destruct m; cbn [is_check err_of]; try reflexivity;
        unfold push16; cbn [subst push_list]; change (N.land badchar_substitute 65535) with 65533;
        destruct (push d0 65533); reflexivity.
  - rewrite char_error_err8, is_error_err8. cbn [negb bind]. rewrite is_error_err8.
    unfold on_error16. destruct m; cbn [is_check err_of]; try reflexivity;
      unfold push16; cbn [subst push_list]; change (N.land badchar_substitute 65535) with 65533;
      destruct (push d0 65533); reflexivity.
Qed.

Lemma utf32_convert_from_utf8_tokens d s m : all_lt 256 s = true ->
  utf32_convert_from_utf8 d s m = twalk (emit_tb (pc E8 T32 m false)) (tok E8 s) d.
Proof.
  intros A. unfold utf32_convert_from_utf8. apply (walk_twalk E8); [|exact A|lia].
  intros s0 t rest d0 A0 E. destruct (extract_utf8_step s0 t rest A0 E) as [X V]. rewrite X. cbn [bind].
  unfold emit_tb, pc, lift_step. destruct t as [u v|b]; cbn [chval8 piece_of].
  - rewrite (char_error_value v) by lia. cbn [is_error andb render]. unfold push32.
    rewrite land_FFFFFFFF by lia. cbn [push_list]. destruct (push d0 v); reflexivity.
  - rewrite char_error_err8, is_error_err8. cbn [andb].
    destruct m; cbn [is_check err_of]; try reflexivity;
      unfold push32; cbn [subst push_list]; change (N.land badchar_substitute 4294967295) with 65533;
      destruct (push d0 65533); reflexivity.
Qed.

Lemma latin_1_convert_from_utf8_tokens d s m sub : all_lt 256 s = true ->
  latin_1_convert_from_utf8 d s m sub = twalk (emit_tb (pc E8 TL1 m sub)) (tok E8 s) d.
Proof.
  intros A. unfold latin_1_convert_from_utf8. apply (walk_twalk E8); [|exact A|lia].
  intros s0 t rest d0 A0 E. destruct (extract_utf8_step s0 t rest A0 E) as [X V]. rewrite X. cbn [bind].
  unfold emit_tb, pc, lift_step. destruct t as [u v|b]; cbn [chval8 piece_of].
  - rewrite (char_error_value v) by lia. cbn [is_error andb render]. unfold latin_1_put.
    destruct (v <? 256) eqn:R; cbn [negb].
    + apply N.ltb_lt in R. unfold push8. rewrite land_FF by exact R. cbn [push_list]. destruct (push d0 v); reflexivity.
    + unfold unrepresentable. destruct sub; cbn [err_of]; [|reflexivity].
      unfold push8. change (N.land 63 255) with 63. cbn [push_list]. destruct (push d0 63); reflexivity.
  - rewrite char_error_err8, is_error_err8. cbn [andb].
    destruct m; cbn [is_check err_of]; try reflexivity;
      unfold latin_1_put; change (negb (63 <? 256)) with false; cbv iota;
      unfold push8; change (N.land 63 255) with 63; cbn [subst push_list]; destruct (push d0 63); reflexivity.
Qed.

(* ------------------------------------------------------------------- wrappers *)
Theorem utf8_to_utf16_result m s : all_lt 256 s = true -> N.of_nat (length s) < huge_buffer_size ->
  utf8_to_utf16 m (Some s) = sres_outcome (repair T16 m false (tok E8 s)).
Proof.
  intros A L. unfold utf8_to_utf16. cbn [units_of].
  rewrite <- (pieces_assemble E8).
  apply (two_pass s (pc E8 T16 m false) (mcost T16) (tok E8 s)).
  - exact L.
  - apply utf16_measure_from_utf8_tokens; exact A.
  - intros d. apply utf16_convert_from_utf8_tokens; exact A.
  - intros t l'. apply pc_cost. discriminate.
  - intros t e. apply pc_real_error.
  - intros t. apply mcost_pos. discriminate.
Qed.

Theorem utf8_to_utf32_result m s : all_lt 256 s = true -> N.of_nat (length s) < huge_buffer_size ->
  utf8_to_utf32 m (Some s) = sres_outcome (repair T32 m false (tok E8 s)).
Proof.
  intros A L. unfold utf8_to_utf32. cbn [units_of].
  rewrite <- (pieces_assemble E8).
  apply (two_pass s (pc E8 T32 m false) (mcost T32) (tok E8 s)).
  - exact L.
  - apply utf32_measure_from_utf8_tokens; exact A.
  - intros d. apply utf32_convert_from_utf8_tokens; exact A.
  - intros t l'. apply pc_cost. discriminate.
  - intros t e. apply pc_real_error.
  - intros t. apply mcost_pos. discriminate.
Qed.

Theorem utf8_to_latin_1_result m sub s : all_lt 256 s = true -> N.of_nat (length s) < huge_buffer_size ->
  utf8_to_latin_1 m sub (Some s) = sres_outcome (repair TL1 m sub (tok E8 s)).
Proof.
  intros A L. unfold utf8_to_latin_1. cbn [units_of].
  rewrite <- (pieces_assemble E8).
  apply (two_pass s (pc E8 TL1 m sub) (mcost TL1) (tok E8 s)).
  - exact L.
  - apply latin_1_measure_from_utf8_tokens; exact A.
  - intros d. apply latin_1_convert_from_utf8_tokens; exact A.
  - intros t l'. apply pc_cost. discriminate.
  - intros t e. apply pc_real_error.
  - intros t. apply mcost_pos. discriminate.
Qed.

(* wchar_t alias: by sizeof(wchar_t) from Gen/Consts the 32-bit branch is taken *)
Theorem utf8_to_wchar_result m s : all_lt 256 s = true -> N.of_nat (length s) < huge_buffer_size ->
  utf8_to_wchar m (Some s) = sres_outcome (repair wchar_target m false (tok E8 s)).
Proof.
  intros A L. change wchar_target with T32. change (utf8_to_wchar m (Some s)) with (utf8_to_utf32 m (Some s)).
  apply utf8_to_utf32_result; assumption.
Qed.
