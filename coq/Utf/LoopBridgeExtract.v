(* Utf/LoopBridgeExtract.v — the two decoders of include/st_utf_conv_priv.h, extract_utf8(const unsigned char *&utf8, end)
   and extract_utf16(const char16_t *&utf16, end), as TRANSLATED from the current headers (Gen/Leaf.v: the advanced
   pointer is an index that is returned with the result), return the code point (or in-band error mark) and consume
   the units that the hand-written model decoders Utf/Model.extract_utf8 / extract_utf16 return and consume — for every
   non-empty suffix of units.  Bit arithmetic: one finite sweep per byte / per 16-bit unit contribution (kernel VM), the
   contributions being combined by a general lemma about lor / + below 2^32. *)
From Coq Require Import NArith ZArith List Bool Lia ZifyBool ZifyNat ZifyN.
From ST Require Import Base.Outcome Base.Units Base.Sweep Utf.Spec Utf.Model Gen.Leaf Utf.LoopBridge.
Import ListNotations.
Local Open Scope Z_scope.
Local Open Scope outcome_scope.

Lemma z2b_b2z b : z2b (b2z b) = b. Proof. destruct b; reflexivity. Qed.

(* ---- Z.of_N commutes with lor; lor stays below a power of two ---- *)
Lemma of_N_lor a b : Z.of_N (N.lor a b) = Z.lor (Z.of_N a) (Z.of_N b).
Proof.
  apply Z.bits_inj'. intros n Hn. rewrite Z.lor_spec, !Z.testbit_of_N' by exact Hn. apply N.lor_spec.
Qed.
Lemma lor_lt_pow2 a b n : (a < 2 ^ n)%N -> (b < 2 ^ n)%N -> (N.lor a b < 2 ^ n)%N.
Proof.
  intros Ha Hb. destruct (N.eq_dec a 0) as [->|Na]; [rewrite N.lor_0_l; exact Hb|].
  destruct (N.eq_dec b 0) as [->|Nb]; [rewrite N.lor_0_r; exact Ha|].
  assert (Nl : N.lor a b <> 0%N) by (intros E; apply N.lor_eq_0_iff in E; destruct E; contradiction).
  apply N.log2_lt_pow2; [lia|]. rewrite N.log2_lor.
  apply N.max_lub_lt; apply N.log2_lt_pow2; lia.
Qed.
Lemma wrapu32_of_N x : (x < 4294967296)%N -> wrapu 32 (Z.of_N x) = Z.of_N x.
Proof. intros H. unfold wrapu. change (2 ^ 32) with 4294967296. apply Z.mod_small. lia. Qed.
Lemma lor_step x y : (x < 2097152)%N -> (y < 2097152)%N ->
  wrapu 32 (wrapu 32 (Z.lor (wrapu 32 (Z.of_N x)) (Z.of_N y))) = Z.of_N (N.lor x y) /\ (N.lor x y < 2097152)%N.
Proof.
  intros Hx Hy. pose proof (lor_lt_pow2 x y 21 Hx Hy) as Hl. change (2 ^ 21)%N with 2097152%N in Hl.
  split; [|exact Hl]. rewrite (wrapu32_of_N x) by lia. rewrite <- of_N_lor, !wrapu32_of_N by lia. reflexivity.
Qed.

(* ---- per-byte contributions of extract_utf8 (u = the unsigned char promoted to int) ---- *)
Definition A8 (m k : Z) (u : Z) : Z := wrapu 32 (wraps 32 (Z.shiftl (wraps 32 (Z.land (wraps 32 u) m)) k)).
Definition B8 (u : Z) : Z := wrapu 32 (wraps 32 (Z.land (wraps 32 u) 63)).
Definition contrib_agree (b : N) : bool :=
  (A8 31 6 (Z.of_N b) =? Z.of_N (N.shiftl (N.land b 0x1F) 6)) && (A8 15 12 (Z.of_N b) =? Z.of_N (N.shiftl (N.land b 0x0F) 12)) &&
  (A8 7 18 (Z.of_N b) =? Z.of_N (N.shiftl (N.land b 0x07) 18)) && (A8 63 6 (Z.of_N b) =? Z.of_N (N.shiftl (N.land b 0x3F) 6)) &&
  (A8 63 12 (Z.of_N b) =? Z.of_N (N.shiftl (N.land b 0x3F) 12)) && (B8 (Z.of_N b) =? Z.of_N (N.land b 0x3F)) &&
  (N.shiftl (N.land b 0x1F) 6 <? 2097152)%N && (N.shiftl (N.land b 0x0F) 12 <? 2097152)%N && (N.shiftl (N.land b 0x07) 18 <? 2097152)%N &&
  (N.shiftl (N.land b 0x3F) 6 <? 2097152)%N && (N.shiftl (N.land b 0x3F) 12 <? 2097152)%N && (N.land b 0x3F <? 2097152)%N.
Lemma contrib_sweep : all_below 8 contrib_agree = true. Proof. vm_compute. reflexivity. Qed.
Lemma contrib b : (b < 256)%N ->
  A8 31 6 (Z.of_N b) = Z.of_N (N.shiftl (N.land b 0x1F) 6) /\ A8 15 12 (Z.of_N b) = Z.of_N (N.shiftl (N.land b 0x0F) 12) /\
  A8 7 18 (Z.of_N b) = Z.of_N (N.shiftl (N.land b 0x07) 18) /\ A8 63 6 (Z.of_N b) = Z.of_N (N.shiftl (N.land b 0x3F) 6) /\
  A8 63 12 (Z.of_N b) = Z.of_N (N.shiftl (N.land b 0x3F) 12) /\ B8 (Z.of_N b) = Z.of_N (N.land b 0x3F) /\
  (N.shiftl (N.land b 0x1F) 6 < 2097152)%N /\ (N.shiftl (N.land b 0x0F) 12 < 2097152)%N /\ (N.shiftl (N.land b 0x07) 18 < 2097152)%N /\
  (N.shiftl (N.land b 0x3F) 6 < 2097152)%N /\ (N.shiftl (N.land b 0x3F) 12 < 2097152)%N /\ (N.land b 0x3F < 2097152)%N.
Proof.
  intros H. pose proof (all_below_spec 8 contrib_agree contrib_sweep b H) as E.
  unfold contrib_agree in E. repeat (apply andb_true_iff in E; destruct E as [E ?]).
  repeat split; try (apply Z.eqb_eq; assumption); apply N.ltb_lt; assumption.
Qed.

(* the tests on the lead byte and on continuation bytes *)
Definition V (b : N) : Z := wraps 32 (Z.of_N b).
Definition tests8_agree (b : N) : bool :=
  Bool.eqb (V b <? 128) (b <? 0x80)%N &&
  Bool.eqb (wraps 32 (Z.land (V b) 224) =? 192) (N.land b 0xE0 =? 0xC0)%N &&
  Bool.eqb (wraps 32 (Z.land (V b) 240) =? 224) (N.land b 0xF0 =? 0xE0)%N &&
  Bool.eqb (wraps 32 (Z.land (V b) 248) =? 240) (N.land b 0xF8 =? 0xF0)%N &&
  Bool.eqb (wraps 32 (Z.land (V b) 192) =? 128) (cont b) && (wrapu 32 (Z.of_N b) =? Z.of_N b).
Lemma tests8_sweep : all_below 8 tests8_agree = true. Proof. vm_compute. reflexivity. Qed.
Lemma tests8 b : (b < 256)%N ->
  (V b <? 128) = (b <? 0x80)%N /\
  (wraps 32 (Z.land (V b) 224) =? 192) = (N.land b 0xE0 =? 0xC0)%N /\
  (wraps 32 (Z.land (V b) 240) =? 224) = (N.land b 0xF0 =? 0xE0)%N /\
  (wraps 32 (Z.land (V b) 248) =? 240) = (N.land b 0xF8 =? 0xF0)%N /\
  (wraps 32 (Z.land (V b) 192) =? 128) = cont b /\ wrapu 32 (Z.of_N b) = Z.of_N b.
Proof.
  intros H. pose proof (all_below_spec 8 tests8_agree tests8_sweep b H) as E.
  unfold tests8_agree in E. repeat (apply andb_true_iff in E; destruct E as [E ?]).
  repeat split; try (apply Bool.eqb_prop; assumption). apply Z.eqb_eq. assumption.
Qed.

Lemma error_char_src e : In e Utf.LeafBridge.enumerators -> src_error_char (Z.of_N (cerr_code e)) = Z.of_N (error_char e).
Proof. intros H. exact (proj1 (Utf.LeafBridge.error_char_matches_source e H)). Qed.

Lemma src_extract_utf8_eq p i e : src_extract_utf8 p i e =
  (if z2b (b2z (wraps 32 (p i) <? 128)) then (wrapu 32 (p i), i + 1)
   else if z2b (b2z (wraps 32 (Z.land (wraps 32 (p i)) 224) =? 192)) then
     if z2b (b2z (z2b (b2z (i + 2 >? e)) || z2b (b2z (negb (wraps 32 (Z.land (wraps 32 (p (i + 1))) 192) =? 128)))))
     then (src_error_char ext_incomplete_utf8_seq, i + 1)
     else (wrapu 32 (wrapu 32 (Z.lor (wrapu 32 (A8 31 6 (p i))) (B8 (p (i + 1))))), i + 1 + 1)
   else if z2b (b2z (wraps 32 (Z.land (wraps 32 (p i)) 240) =? 224)) then
     if z2b (b2z (z2b (b2z (z2b (b2z (i + 3 >? e)) || z2b (b2z (negb (wraps 32 (Z.land (wraps 32 (p (i + 1))) 192) =? 128)))))
                  || z2b (b2z (negb (wraps 32 (Z.land (wraps 32 (p (i + 2))) 192) =? 128)))))
     then (src_error_char ext_incomplete_utf8_seq, i + 1)
     else (wrapu 32 (wrapu 32 (Z.lor (wrapu 32 (wrapu 32 (wrapu 32 (Z.lor (wrapu 32 (A8 15 12 (p i))) (A8 63 6 (p (i + 1)))))))
                                      (B8 (p (i + 1 + 1))))), i + 1 + 1 + 1)
   else if z2b (b2z (wraps 32 (Z.land (wraps 32 (p i)) 248) =? 240)) then
     if z2b (b2z (z2b (b2z (z2b (b2z (z2b (b2z (i + 4 >? e)) || z2b (b2z (negb (wraps 32 (Z.land (wraps 32 (p (i + 1))) 192) =? 128)))))
                               || z2b (b2z (negb (wraps 32 (Z.land (wraps 32 (p (i + 2))) 192) =? 128)))))
                  || z2b (b2z (negb (wraps 32 (Z.land (wraps 32 (p (i + 3))) 192) =? 128)))))
     then (src_error_char ext_incomplete_utf8_seq, i + 1)
     else (wrapu 32 (wrapu 32 (Z.lor (wrapu 32 (wrapu 32 (wrapu 32 (Z.lor (wrapu 32 (wrapu 32 (wrapu 32 (Z.lor (wrapu 32 (A8 7 18 (p i)))
                 (A8 63 12 (p (i + 1))))))) (A8 63 6 (p (i + 1 + 1))))))) (B8 (p (i + 1 + 1 + 1))))), i + 1 + 1 + 1 + 1)
   else (src_error_char ext_invalid_utf8_seq, i + 1)).
Proof. reflexivity. Qed.

(* what a decoder call must satisfy: the model decodes to (ch, rest), rest being s without its first k units, and the
   translated function returns that code point and the index advanced by k *)
(* what a decoder returns: a code point below 2^21 or the in-band mark of an error *)
Definition decoded_class (ch : N) : Prop :=
  (ch < 2097152)%N \/ exists e, In e Utf.LeafBridge.enumerators /\ is_error e = true /\ ch = error_char e.

Definition ext_ok (m : outcome (N * list N)) (srcv : Z * Z) (s : list N) (i : Z) : Prop :=
  match m with
  | Ok (ch, rest) => exists k, (1 <= k <= length s)%nat /\ rest = skipn k s /\ srcv = (Z.of_N ch, i + Z.of_nat k) /\ (ch < 4294967296)%N /\
                               decoded_class ch
  | _ => False
  end.

Lemma shows_k p i s k : shows Z.of_N p i s -> (k < length s)%nat -> p (i + Z.of_nat k) = Z.of_N (nth k s 0%N).
Proof. intros R H. exact (R k H). Qed.

Ltac err_leaf E :=
  exists 1%nat; split; [cbn [length]; lia|]; split; [reflexivity|]; split;
  [ f_equal; exact (error_char_src E ltac:(cbn; tauto))
  | split; [reflexivity | right; exists E; split; [cbn; tauto | split; reflexivity]] ].

Theorem extract_utf8_matches : forall s i p, s <> [] -> all_lt 256 s = true -> shows Z.of_N p i s ->
  ext_ok (extract_utf8 s) (src_extract_utf8 p i (i + Z.of_nat (length s))) s i.
Proof.
  intros s i p Hne A R. destruct s as [|b0 s1]; [contradiction|].
  destruct (all_lt_cons _ _ _ A) as [H0 A1].
  destruct (tests8 b0 H0) as (T1 & T2 & T3 & T4 & _ & W0).
  destruct (contrib b0 H0) as (K2 & K3 & K4 & _ & _ & _ & L2 & L3 & L4 & _ & _ & _).
  pose proof (shows_k p i _ 0 R ltac:(cbn; lia)) as R0. rewrite Z.add_0_r in R0. cbn [nth] in R0.
  unfold extract_utf8. cbn [rdu nth_error of_opt bind]. rewrite src_extract_utf8_eq. rewrite !z2b_b2z. rewrite R0.
  fold (V b0). rewrite T1, T2, T3, T4.
  replace (i + 1 + 1 + 1) with (i + 3) by lia. replace (i + 1 + 1) with (i + 2) by lia.
  destruct (b0 <? 128)%N eqn:E1.
  { cbn [ext_ok]. exists 1%nat. split; [cbn [length]; lia|]. split; [reflexivity|]. split; [rewrite W0; reflexivity|split; [lia|left; lia]]. }
  destruct (N.land b0 224 =? 192)%N.
  { destruct s1 as [|b1 s2].
    { cbn [at_least negb bind length]. replace (i + 2 >? i + Z.of_nat 1) with true by lia. cbn [orb ext_ok]. err_leaf CIncompleteUtf8. }
    destruct (all_lt_cons _ _ _ A1) as [H1 A2]. destruct (tests8 b1 H1) as (_ & _ & _ & _ & C1 & _).
    destruct (contrib b1 H1) as (_ & _ & _ & _ & _ & B1 & _ & _ & _ & _ & _ & M1).
    pose proof (shows_k p i _ 1 R ltac:(cbn; lia)) as R1. cbn [nth] in R1. change (Z.of_nat 1) with 1 in R1.
    cbn [at_least negb rdu nth_error of_opt bind length]. rewrite R1. fold (V b1). rewrite C1.
    replace (i + 2 >? i + Z.of_nat (S (S (length s2)))) with false by lia. cbn [orb].
    destruct (cont b1); cbn [negb bind ext_ok]; [|err_leaf CIncompleteUtf8].
    rewrite K2, B1. destruct (lor_step _ _ L2 M1) as [EV LV]. rewrite EV.
    exists 2%nat. split; [cbn [length]; lia|]. split; [reflexivity|]. split; [reflexivity|split; [lia|left; lia]]. }
  destruct (N.land b0 240 =? 224)%N.
  { destruct s1 as [|b1 s2].
    { cbn [at_least negb bind length]. replace (i + 3 >? i + Z.of_nat 1) with true by lia. cbn [orb ext_ok]. err_leaf CIncompleteUtf8. }
    destruct s2 as [|b2 s3].
    { cbn [at_least negb bind length]. replace (i + 3 >? i + Z.of_nat 2) with true by lia. cbn [orb ext_ok]. err_leaf CIncompleteUtf8. }
    destruct (all_lt_cons _ _ _ A1) as [H1 A2]. destruct (all_lt_cons _ _ _ A2) as [H2 A3].
    destruct (tests8 b1 H1) as (_ & _ & _ & _ & C1 & _). destruct (tests8 b2 H2) as (_ & _ & _ & _ & C2 & _).
    destruct (contrib b1 H1) as (_ & _ & _ & B1 & _ & _ & _ & _ & _ & M1 & _ & _).
    destruct (contrib b2 H2) as (_ & _ & _ & _ & _ & B2 & _ & _ & _ & _ & _ & M2).
    pose proof (shows_k p i _ 1 R ltac:(cbn; lia)) as R1. cbn [nth] in R1. change (Z.of_nat 1) with 1 in R1.
    pose proof (shows_k p i _ 2 R ltac:(cbn; lia)) as R2. cbn [nth] in R2. change (Z.of_nat 2) with 2 in R2.
    cbn [at_least negb rdu nth_error of_opt bind length]. rewrite R1, R2. fold (V b1) (V b2). rewrite C1, C2.
    replace (i + 3 >? i + Z.of_nat (S (S (S (length s3))))) with false by lia. cbn [orb].
    destruct (cont b1); cbn [negb bind orb ext_ok]; [|err_leaf CIncompleteUtf8].
    destruct (cont b2); cbn [negb bind orb ext_ok]; [|err_leaf CIncompleteUtf8].
    rewrite K3, B1, B2. destruct (lor_step _ _ L3 M1) as [EV1 LV1]. rewrite EV1.
    destruct (lor_step _ _ LV1 M2) as [EV2 LV2]. rewrite EV2.
    exists 3%nat. split; [cbn [length]; lia|]. split; [reflexivity|]. split; [reflexivity|split; [lia|left; lia]]. }
  destruct (N.land b0 248 =? 240)%N.
  { destruct s1 as [|b1 s2].
    { cbn [at_least negb bind length]. replace (i + 4 >? i + Z.of_nat 1) with true by lia. cbn [orb ext_ok]. err_leaf CIncompleteUtf8. }
    destruct s2 as [|b2 s3].
    { cbn [at_least negb bind length]. replace (i + 4 >? i + Z.of_nat 2) with true by lia. cbn [orb ext_ok]. err_leaf CIncompleteUtf8. }
    destruct s3 as [|b3 s4].
    { cbn [at_least negb bind length]. replace (i + 4 >? i + Z.of_nat 3) with true by lia. cbn [orb ext_ok]. err_leaf CIncompleteUtf8. }
    destruct (all_lt_cons _ _ _ A1) as [H1 A2]. destruct (all_lt_cons _ _ _ A2) as [H2 A3]. destruct (all_lt_cons _ _ _ A3) as [H3 A4].
    destruct (tests8 b1 H1) as (_ & _ & _ & _ & C1 & _). destruct (tests8 b2 H2) as (_ & _ & _ & _ & C2 & _).
    destruct (tests8 b3 H3) as (_ & _ & _ & _ & C3 & _).
    destruct (contrib b1 H1) as (_ & _ & _ & _ & B1 & _ & _ & _ & _ & _ & M1 & _).
    destruct (contrib b2 H2) as (_ & _ & _ & B2 & _ & _ & _ & _ & _ & M2 & _ & _).
    destruct (contrib b3 H3) as (_ & _ & _ & _ & _ & B3 & _ & _ & _ & _ & _ & M3).
    pose proof (shows_k p i _ 1 R ltac:(cbn; lia)) as R1. cbn [nth] in R1. change (Z.of_nat 1) with 1 in R1.
    pose proof (shows_k p i _ 2 R ltac:(cbn; lia)) as R2. cbn [nth] in R2. change (Z.of_nat 2) with 2 in R2.
    pose proof (shows_k p i _ 3 R ltac:(cbn; lia)) as R3. cbn [nth] in R3. change (Z.of_nat 3) with 3 in R3.
    cbn [at_least negb rdu nth_error of_opt bind length]. rewrite R1, R2, R3. fold (V b1) (V b2) (V b3). rewrite C1, C2, C3.
    replace (i + 4 >? i + Z.of_nat (S (S (S (S (length s4)))))) with false by lia. cbn [orb].
    destruct (cont b1); cbn [negb bind orb ext_ok]; [|err_leaf CIncompleteUtf8].
    destruct (cont b2); cbn [negb bind orb ext_ok]; [|err_leaf CIncompleteUtf8].
    destruct (cont b3); cbn [negb bind orb ext_ok]; [|err_leaf CIncompleteUtf8].
    rewrite K4, B1, B2, B3. destruct (lor_step _ _ L4 M1) as [EV1 LV1]. rewrite EV1.
    destruct (lor_step _ _ LV1 M2) as [EV2 LV2]. rewrite EV2. destruct (lor_step _ _ LV2 M3) as [EV3 LV3]. rewrite EV3.
    exists 4%nat. split; [cbn [length]; lia|]. split; [reflexivity|]. split; [f_equal; lia|split; [lia|left; lia]]. }
  cbn [ext_ok]. err_leaf CInvalidUtf8.
Qed.

(* ---- extract_utf16 ---- *)
Definition C16 (u : Z) : Z := wraps 32 (Z.shiftl (wraps 32 (Z.land (wraps 32 u) 1023)) 10).
Definition D16 (u : Z) : Z := wraps 32 (Z.land (wraps 32 u) 1023).
Definition unit16_agree (w : N) : bool :=
  (C16 (Z.of_N w) =? Z.of_N (N.shiftl (N.land w 0x3FF) 10)) && (D16 (Z.of_N w) =? Z.of_N (N.land w 0x3FF)) &&
  (N.shiftl (N.land w 0x3FF) 10 <? 1048576)%N && (N.land w 0x3FF <? 1024)%N &&
  (wraps 32 (Z.of_N w) =? Z.of_N w) && (wrapu 32 (Z.of_N w) =? Z.of_N w).
Lemma unit16_sweep : all_below 16 unit16_agree = true. Proof. vm_compute. reflexivity. Qed.
Lemma unit16 w : (w < 65536)%N ->
  C16 (Z.of_N w) = Z.of_N (N.shiftl (N.land w 0x3FF) 10) /\ D16 (Z.of_N w) = Z.of_N (N.land w 0x3FF) /\
  (N.shiftl (N.land w 0x3FF) 10 < 1048576)%N /\ (N.land w 0x3FF < 1024)%N /\
  wraps 32 (Z.of_N w) = Z.of_N w /\ wrapu 32 (Z.of_N w) = Z.of_N w.
Proof.
  intros H. pose proof (all_below_spec 16 unit16_agree unit16_sweep w H) as E.
  unfold unit16_agree in E. repeat (apply andb_true_iff in E; destruct E as [E ?]).
  repeat split; try (apply Z.eqb_eq; assumption); apply N.ltb_lt; assumption.
Qed.

Lemma geb_N w c : (Z.of_N w >=? Z.of_N c) = (c <=? w)%N.
Proof. rewrite Z.geb_leb. destruct (N.leb_spec c w); [apply Z.leb_le|apply Z.leb_gt]; lia. Qed.
Lemma leb_N w c : (Z.of_N w <=? Z.of_N c) = (w <=? c)%N.
Proof. destruct (N.leb_spec w c); [apply Z.leb_le|apply Z.leb_gt]; lia. Qed.
Lemma ltb_N w c : (Z.of_N w <? Z.of_N c) = (w <? c)%N.
Proof. destruct (N.ltb_spec w c); [apply Z.ltb_lt|apply Z.ltb_ge]; lia. Qed.

Lemma sum_step x y : (x < 1048576)%N -> (y < 1048576)%N ->
  wrapu 32 (wraps 32 (wraps 32 (65536 + Z.of_N x) + Z.of_N y)) = Z.of_N (65536 + x + y).
Proof.
  intros Hx Hy. unfold wraps, wrapu. change (2 ^ (32 - 1)) with 2147483648. change (2 ^ 32) with 4294967296.
  rewrite (Z.mod_small (65536 + Z.of_N x + 2147483648)) by lia.
  replace (65536 + Z.of_N x + 2147483648 - 2147483648 + Z.of_N y + 2147483648) with (65536 + Z.of_N x + Z.of_N y + 2147483648) by lia.
  rewrite (Z.mod_small (65536 + Z.of_N x + Z.of_N y + 2147483648)) by lia.
  rewrite Z.mod_small by lia. lia.
Qed.

Lemma src_extract_utf16_eq p i e : src_extract_utf16 p i e =
  (if z2b (b2z (z2b (b2z (wraps 32 (p i) >=? 55296)) && z2b (b2z (wraps 32 (p i) <=? 57343)))) then
     if z2b (b2z (i + 1 >=? e)) then (src_error_char ext_incomplete_surrogate_pair, i + 1)
     else if z2b (b2z (wraps 32 (p i) <? 56320)) then
       if z2b (b2z (z2b (b2z (wraps 32 (p (i + 1)) >=? 56320)) && z2b (b2z (wraps 32 (p (i + 1)) <=? 57343))))
       then (wrapu 32 (wraps 32 (wraps 32 (65536 + C16 (p (i + 0))) + D16 (p (i + 1)))), i + 2)
       else (src_error_char ext_incomplete_surrogate_pair, i + 1)
     else
       if z2b (b2z (z2b (b2z (wraps 32 (p (i + 1)) >=? 55296)) && z2b (b2z (wraps 32 (p (i + 1)) <=? 56319))))
       then (wrapu 32 (wraps 32 (wraps 32 (65536 + D16 (p (i + 0))) + C16 (p (i + 1)))), i + 2)
       else (src_error_char ext_incomplete_surrogate_pair, i + 1)
   else (wrapu 32 (p i), i + 1)).
Proof. reflexivity. Qed.

Theorem extract_utf16_matches : forall s i p, s <> [] -> all_lt 65536 s = true -> shows Z.of_N p i s ->
  ext_ok (extract_utf16 s) (src_extract_utf16 p i (i + Z.of_nat (length s))) s i.
Proof.
  intros s i p Hne A R. destruct s as [|u0 s1]; [contradiction|].
  destruct (all_lt_cons _ _ _ A) as [H0 A1].
  destruct (unit16 u0 H0) as (KC0 & KD0 & LC0 & LD0 & WS0 & WU0).
  pose proof (shows_k p i _ 0 R ltac:(cbn; lia)) as R0. rewrite Z.add_0_r in R0. cbn [nth] in R0.
  unfold extract_utf16. cbn [rdu nth_error of_opt bind]. rewrite src_extract_utf16_eq. rewrite !z2b_b2z.
  rewrite Z.add_0_r. rewrite R0, WS0, WU0.
  change 55296 with (Z.of_N 55296). change 57343 with (Z.of_N 57343). change 56320 with (Z.of_N 56320). change 56319 with (Z.of_N 56319).
  rewrite !geb_N, !leb_N, !ltb_N.
  destruct ((55296 <=? u0)%N && (u0 <=? 57343)%N).
  2:{ cbn [ext_ok]. exists 1%nat. split; [cbn [length]; lia|]. split; [reflexivity|]. split; [reflexivity|split; [lia|left; lia]]. }
  destruct s1 as [|u1 s2].
  { cbn [at_least negb length]. replace (i + 1 >=? i + Z.of_nat 1) with true by lia. cbn [ext_ok]. err_leaf CIncompleteSurrogate. }
  destruct (all_lt_cons _ _ _ A1) as [H1 A2].
  destruct (unit16 u1 H1) as (KC1 & KD1 & LC1 & LD1 & WS1 & WU1).
  pose proof (shows_k p i _ 1 R ltac:(cbn; lia)) as R1. cbn [nth] in R1. change (Z.of_nat 1) with 1 in R1.
  cbn [at_least negb length rdu nth_error of_opt bind]. replace (i + 1 >=? i + Z.of_nat (S (S (length s2)))) with false by lia.
  rewrite R1, WS1. rewrite !geb_N, !leb_N.
  destruct (u0 <? 56320)%N.
  - cbn [bind]. destruct ((56320 <=? u1)%N && (u1 <=? 57343)%N); cbn [ext_ok]; [|err_leaf CIncompleteSurrogate].
    assert (LD1' : (N.land u1 1023 < 1048576)%N) by lia. rewrite KC0, KD1, (sum_step _ _ LC0 LD1').
    exists 2%nat. split; [cbn [length]; lia|]. split; [reflexivity|]. split; [reflexivity|split; [lia|left; lia]].
  - cbn [bind]. destruct ((55296 <=? u1)%N && (u1 <=? 56319)%N); cbn [ext_ok]; [|err_leaf CIncompleteSurrogate].
    assert (LD0' : (N.land u0 1023 < 1048576)%N) by lia. rewrite KD0, KC1, (sum_step _ _ LD0' LC1).
    exists 2%nat. split; [cbn [length]; lia|]. split; [reflexivity|]. split; [reflexivity|split; [lia|left; lia]].
Qed.
