(* Utf/LoopBridgeConvert8To16.v — utf16_convert_from_utf8(dest, utf8, size, validation) of include/st_utf_conv_priv.h, the
   second pass of ST::utf8_to_utf16 / ST::string::to_utf16, as TRANSLATED from the current headers (Gen/Leaf.v: it calls the
   translated decoder extract_utf8, char_error and the translated encoder write_utf16) returns, for inputs of any length,
   every validation mode and every sufficient fuel, the conversion_error_t and stores exactly the units that the
   hand-written model pass Utf/Model.utf16_convert_from_utf8 returns and pushes (given room). *)
From Coq Require Import NArith ZArith List Bool Lia ZifyBool ZifyNat ZifyN.
From ST Require Import Base.Outcome Base.Units Base.Sweep Gen.Consts Utf.Spec Utf.Model Gen.Leaf Utf.LeafBridge Utf.LoopBridge
     Utf.LoopBridgeExtract Utf.LoopBridgeMeasure Utf.LoopBridgeWrite Utf.LoopBridgeConvert32 Utf.LoopBridgeConvertTo32.
Import ListNotations.
Local Open Scope Z_scope.
Local Open Scope outcome_scope.

Lemma c16f8_loop_S f p a b v sp ep out : src_utf16_convert_from_utf8_loop1 (S f) p a b v sp ep out =
  (if z2b (b2z (Z.ltb sp ep)) then
     let '(r, ni) := src_extract_utf8 (fun i_ => wrapu 8 (p i_)) sp ep in
     if z2b (b2z (Z.eqb (src_char_error r) ext_success)) then
       let '(r2, w) := src_write_utf16 r in
       if z2b (b2z (negb (Z.eqb r2 ext_success))) then
         if z2b (b2z (Z.eqb v ext_check_validity)) then Some (r2, out ++ w)
         else src_utf16_convert_from_utf8_loop1 f p a b v ni ep ((out ++ w) ++ [wrapu 16 ext_badchar_substitute])
       else src_utf16_convert_from_utf8_loop1 f p a b v ni ep (out ++ w)
     else
       if z2b (b2z (negb (Z.eqb (src_char_error r) ext_success))) then
         if z2b (b2z (Z.eqb v ext_check_validity)) then Some (src_char_error r, out)
         else src_utf16_convert_from_utf8_loop1 f p a b v ni ep (out ++ [wrapu 16 ext_badchar_substitute])
       else src_utf16_convert_from_utf8_loop1 f p a b v ni ep out
   else Some (ext_success, out)).
Proof.
  cbv beta iota zeta delta [src_utf16_convert_from_utf8_loop1].
  destruct (src_extract_utf8 (fun i_ => wrapu 8 (p i_)) sp ep) as [r ni]. destruct (src_write_utf16 r). reflexivity.
Qed.

Definition c16f8_body (m : vmode) := fun (s : list N) (d : dst) =>
  '(bigch, rest) <- extract_utf8 s ;;
  let error := char_error bigch in
  '(error, d) <- (if negb (is_error error) then write_utf16 d bigch else Ok (error, d)) ;;
  if is_error error then on_error16 m error rest d
  else Ok (Continue rest d).

Lemma subst16_stored : unit16_of (wrapu 16 ext_badchar_substitute) = N.land badchar_substitute 0xFFFF.
Proof. reflexivity. Qed.

Theorem c16f8_loop_matches m v : (Z.eqb v ext_check_validity) = is_check m ->
  forall n s out i p a b fm fs, (length s <= n)%nat -> all_lt 256 s = true -> shows schar p i s ->
  (length s < fm)%nat -> (length s < fs)%nat ->
  exists e ws, src_utf16_convert_from_utf8_loop1 fs p a b v i (i + Z.of_nat (length s)) out = Some (Z.of_N (cerr_code e), out ++ ws) /\
    forall d : dst, (length ws <= fst d)%nat ->
      walk (c16f8_body m) fm s d = Ok (e, ((fst d - length ws)%nat, rev (map unit16_of ws) ++ snd d)).
Proof.
  intros Hv. induction n as [|n IH]; intros s out i p a b fm fs Hn A R Hfm Hfs;
    (destruct fm as [|fm]; [lia|]); (destruct fs as [|fs]; [lia|]);
    (destruct s as [|c t] eqn:Es;
     [ exists CSuccess, []; split;
       [ rewrite c16f8_loop_S; cbn [length]; replace (i <? i + Z.of_nat 0) with false by lia; cbn [b2z z2b Z.eqb negb];
         rewrite app_nil_r; reflexivity
       | intros [free w] _; cbn [walk fst snd length map rev app]; rewrite Nat.sub_0_r; reflexivity ] |]).
  - cbn [length] in Hn. lia.
  - rewrite <- Es in *. assert (Hne : s <> []) by (rewrite Es; discriminate).
    assert (Hlen : (1 <= length s)%nat) by (rewrite Es; cbn [length]; lia).
    pose proof (extract_utf8_matches s i (fun i_ => wrapu 8 (p i_)) Hne A (view_shows p i s A R)) as X.
    assert (Hw : forall d, walk (c16f8_body m) (S fm) s d =
      (r <- c16f8_body m s d ;; match r with Continue rest st' => walk (c16f8_body m) fm rest st' | Return e => Ok (e, d) end))
      by (intros d; rewrite Es; reflexivity).
    rewrite c16f8_loop_S. replace (i <? i + Z.of_nat (length s)) with true by lia. cbn [b2z z2b Z.eqb negb].
    destruct (extract_utf8 s) as [[ch rest]| | |] eqn:Eext; cbn [ext_ok] in X; try contradiction.
    destruct X as (k & Hk & Er & Ex & Hch & Hcls). rewrite Ex. cbv iota.
    destruct (char_error_class ch Hcls) as [Ec Ez]. rewrite !z2b_b2z, Ez, Hv. rewrite negb_involutive.
    assert (Hrest : (length rest < length s)%nat) by (rewrite Er, skipn_length; lia).
    assert (Arest : all_lt 256 rest = true) by (rewrite Er; apply all_lt_skipn; exact A).
    assert (Rrest : shows schar p (i + Z.of_nat k) rest) by (rewrite Er; apply shows_skipn; [exact R|lia]).
    replace (i + Z.of_nat (length s)) with (i + Z.of_nat k + Z.of_nat (length rest)) by (rewrite Er, skipn_length; lia).
    destruct (is_error (char_error ch)) eqn:Eerr; cbn [negb].
    + (* the decoder reported an error *)
      rewrite Ec. destruct (is_check m) eqn:Em.
      * exists (char_error ch), []. split; [rewrite app_nil_r; reflexivity|].
        intros d _. rewrite Hw. unfold c16f8_body at 1. rewrite Eext. cbn [bind]. cbv zeta. rewrite Eerr. cbn [negb bind]. rewrite Eerr.
        unfold on_error16. rewrite Em. cbn [bind fst snd length map rev app]. rewrite Nat.sub_0_r. destruct d; reflexivity.
      * destruct (IH rest (out ++ [wrapu 16 ext_badchar_substitute]) (i + Z.of_nat k) p a b fm fs ltac:(lia) Arest Rrest ltac:(lia) ltac:(lia))
          as (e & ws & Es2 & Emod).
        exists e, (wrapu 16 ext_badchar_substitute :: ws). split.
        -- rewrite Es2. rewrite <- app_assoc. reflexivity.
        -- intros [free w] Hd. cbn [fst snd length] in Hd. destruct free as [|free]; [lia|].
           rewrite Hw. unfold c16f8_body at 1. rewrite Eext. cbn [bind]. cbv zeta. rewrite Eerr. cbn [negb bind]. rewrite Eerr.
           unfold on_error16. rewrite Em. rewrite push16_ok. cbn [bind]. rewrite (Emod (free, _)) by (cbn [fst]; lia).
           cbn [fst snd length map rev Nat.sub]. rewrite subst16_stored. rewrite <- app_assoc. reflexivity.
    + (* a code point was decoded: the encoder may still reject it (above 0x10FFFF) *)
      pose proof (write_utf16_matches_source ch Hch) as W. unfold write_ok in W.
      destruct (write16_shape ch Hch) as [(wc & Ew & Lw) | Ew]; rewrite Ew in W |- *; cbn [fst snd] in W; cbv iota.
      * change (z2b (b2z (negb (ext_success =? ext_success)))) with false. cbv iota.
        destruct (IH rest (out ++ wc) (i + Z.of_nat k) p a b fm fs ltac:(lia) Arest Rrest ltac:(lia) ltac:(lia)) as (e & ws & Es2 & Emod).
        exists e, (wc ++ ws). split.
        -- rewrite Es2. rewrite <- app_assoc. reflexivity.
        -- intros d Hd. rewrite app_length in Hd.
           rewrite Hw. unfold c16f8_body at 1. rewrite Eext. cbn [bind]. cbv zeta. rewrite Eerr. cbn [negb].
           rewrite (W d) by lia. cbn [bind]. change (cerr_of_code (Z.to_N ext_success)) with CSuccess. cbn [is_error bind].
           rewrite Emod by (cbn [fst]; lia). cbn [fst snd]. rewrite app_length, rev_map_app. do 3 f_equal. lia.
      * change (z2b (b2z (negb (ext_out_of_range =? ext_success)))) with true. cbv iota.
        change (cerr_of_code (Z.to_N ext_out_of_range)) with COutOfRange in W.
        destruct (is_check m) eqn:Em.
        -- exists COutOfRange, []. split; [reflexivity|].
           intros [free w] Hd. rewrite Hw. unfold c16f8_body at 1. rewrite Eext. cbn [bind]. cbv zeta. rewrite Eerr. cbn [negb].
           rewrite (W (free, w)) by (cbn; lia). cbn [bind is_error]. unfold on_error16. rewrite Em.
           cbn [fst snd length map rev app bind]. rewrite Nat.sub_0_r. reflexivity.
        -- destruct (IH rest ((out ++ []) ++ [wrapu 16 ext_badchar_substitute]) (i + Z.of_nat k) p a b fm fs ltac:(lia) Arest Rrest ltac:(lia) ltac:(lia))
             as (e & ws & Es2 & Emod).
           exists e, (wrapu 16 ext_badchar_substitute :: ws). split.
           ++ rewrite Es2. rewrite app_nil_r, <- app_assoc. reflexivity.
           ++ intros [free w] Hd. cbn [fst snd length] in Hd. destruct free as [|free]; [lia|].
              rewrite Hw. unfold c16f8_body at 1. rewrite Eext. cbn [bind]. cbv zeta. rewrite Eerr. cbn [negb].
              rewrite (W (S free, w)) by (cbn; lia). cbn [bind is_error fst snd length map rev app Nat.sub]. unfold on_error16. rewrite Em.
              rewrite push16_ok. cbn [bind]. rewrite (Emod (free, _)) by (cbn [fst]; lia).
              cbn [fst snd length map rev Nat.sub]. rewrite subst16_stored. rewrite <- app_assoc. reflexivity.
Qed.

Theorem utf16_convert_from_utf8_matches_source l m fuel : all_lt 256 l = true -> (length l < fuel)%nat ->
  exists e ws, src_utf16_convert_from_utf8 fuel (arr8s l) (Z.of_nat (length l)) (mode_code m) = Some (Z.of_N (cerr_code e), ws) /\
    forall d : dst, (length ws <= fst d)%nat ->
      utf16_convert_from_utf8 d l m = Ok (e, ((fst d - length ws)%nat, rev (map unit16_of ws) ++ snd d)).
Proof.
  intros A Hf. unfold src_utf16_convert_from_utf8, utf16_convert_from_utf8. cbv zeta.
  assert (Hv : (mode_code m =? ext_check_validity) = is_check m) by (destruct m; reflexivity).
  destruct (c16f8_loop_matches m (mode_code m) Hv (length l) l [] 0 (arr8s l) 0 (Z.of_nat (length l)) (S (length l)) fuel
              ltac:(lia) A (shows_arr8s l) ltac:(lia) Hf) as (e & ws & Es & Em).
  exists e, ws. split; [exact Es|]. intros d Hd. fold (c16f8_body m). exact (Em d Hd).
Qed.

Example convert8to16_example :
  src_utf16_convert_from_utf8 9 (arr8s [65; 0xF0; 0x9F; 0x98; 0x80; 0xC3]%N) 6 ext_substitute_invalid = Some (0, [65; 55357; 56832; 65533]) /\
  src_utf16_convert_from_utf8 9 (arr8s [0xF4; 0x90; 0x80; 0x80]%N) 4 ext_check_validity = Some (4, []) /\
  utf16_convert_from_utf8 (4%nat, []) [65; 0xF0; 0x9F; 0x98; 0x80; 0xC3]%N SubstituteInvalid = Ok (CSuccess, (0%nat, [65533; 56832; 55357; 65]%N)).
Proof. vm_compute. repeat split; reflexivity. Qed.
