(* Utf/ProofsString.v — ST::string::set(char_buffer, mode) / _set_utf8: the structural
   validator and the byte-wise repairer decide and repair exactly as the tokeniser says. *)
From Coq Require Import NArith Arith List Bool Lia.
From ST Require Import Base.Outcome Base.Units Gen.Consts Utf.Spec Utf.Tokens Utf.Model
     Utf.BitLemmas Utf.ProofsWalk Utf.ProofsTok Utf.ProofsEnc Utf.ProofsGeneric.
Import ListNotations.
Local Open Scope N_scope.
Local Open Scope outcome_scope.

(* ------------------------------------------------------------------ validate_utf8 *)
Lemma validate_walk : forall fuel s, all_lt 256 s = true -> (length s < fuel)%nat ->
  (existsb is_bad (tok E8 s) = false -> walk validate_utf8_body fuel s tt = Ok (CSuccess, tt)) /\
  (existsb is_bad (tok E8 s) = true -> exists e, walk validate_utf8_body fuel s tt = Ok (e, tt) /\ real_error e).
Proof.
  induction fuel as [|f IH]; intros s A L; [lia|].
  destruct s as [|x s]; [split; [reflexivity|discriminate]|].
  destruct (step_cons E8 x s) as (t & rest & E).
  rewrite (tok_step E8 _ t rest E). cbn [walk existsb].
  pose proof (validate_body_step _ t rest A E) as V.
  assert (A' : all_lt 256 rest = true) by exact (step_ok E8 _ _ t rest E A).
  assert (L' : (length rest < f)%nat) by (pose proof (step_shorter E8 _ t rest E); cbn [length] in *; lia).
  destruct (IH rest A' L') as [IH1 IH2].
  destruct t as [u v|b]; cbn [is_bad orb].
  - rewrite V. cbn [bind]. split; assumption.
  - destruct V as (e & V & R). rewrite V. cbn [bind]. split; [discriminate|]. intros _. exists e. split; [reflexivity|exact R].
Qed.

Lemma validate_utf8_wf s : all_lt 256 s = true -> WF8 s = true -> validate_utf8 s = Ok CSuccess.
Proof.
  intros A W. unfold WF8, WF in W. apply negb_true_iff in W. unfold validate_utf8.
  destruct (validate_walk (S (length s)) s A ltac:(lia)) as [H _]. rewrite (H W). reflexivity.
Qed.

Lemma validate_utf8_bad s : all_lt 256 s = true -> WF8 s = false ->
  exists e, validate_utf8 s = Ok e /\ real_error e.
Proof.
  intros A W. unfold WF8, WF in W. apply negb_false_iff in W. unfold validate_utf8.
  destruct (validate_walk (S (length s)) s A ltac:(lia)) as [_ H]. destruct (H W) as (e & X & R).
  rewrite X. exists e. split; [reflexivity|exact R].
Qed.

(* ------------------------------------------------------------------- cleanup_utf8 *)
Definition cleanup_tb (t : token) (st : nat * option dst) : outcome ((nat * option dst) + cerr) :=
  o <- append_chars (snd st) (cleanup_piece t) ;; Ok (inl ((length (cleanup_piece t) + fst st)%nat, o)).

Lemma cleanup_walk output s : all_lt 256 s = true ->
  cleanup_utf8 output s = '(_, st) <- twalk cleanup_tb (tok E8 s) (0%nat, output) ;; Ok st.
Proof.
  intros A. unfold cleanup_utf8. rewrite (walk_twalk E8 cleanup_utf8_body cleanup_tb); [reflexivity| |exact A|lia].
  intros s0 t rest st A0 E. rewrite (cleanup_body_step s0 t rest st A0 E).
  unfold cleanup_result, cleanup_tb, lift_step. destruct (append_chars (snd st) (cleanup_piece t)); reflexivity.
Qed.

Definition cleanup_out (ts : list token) : list N := flat_map cleanup_piece ts.
Definition pieces_bytes (ts : list token) : bool := forallb (fun t => all_lt 256 (cleanup_piece t)) ts.

Lemma push_all8_bytes : forall l d, all_lt 256 l = true -> push_all8 d l = push_list d l.
Proof.
  induction l as [|v l IH]; intros d A; [reflexivity|].
  apply all_lt_cons in A. destruct A as [B A]. cbn [push_all8 push_list]. unfold push8.
  rewrite land_FF by exact B. destruct (push d v); cbn [bind]; [apply IH; exact A|reflexivity..].
Qed.

Lemma cleanup_measure_tokens : forall ts n,
  twalk cleanup_tb ts (n, None) = Ok (CSuccess, ((length (cleanup_out ts) + n)%nat, None)).
Proof.
  induction ts as [|t r IH]; intros n; [reflexivity|].
  cbn [twalk]. unfold cleanup_tb at 1. cbn [snd fst append_chars bind]. rewrite IH.
  unfold cleanup_out. cbn [flat_map]. rewrite app_length. f_equal. f_equal. f_equal. lia.
Qed.

Lemma cleanup_write_tokens : forall ts n room acc, pieces_bytes ts = true -> (length (cleanup_out ts) <= room)%nat ->
  twalk cleanup_tb ts (n, Some (room, acc)) =
  Ok (CSuccess, ((length (cleanup_out ts) + n)%nat, Some ((room - length (cleanup_out ts))%nat, rev (cleanup_out ts) ++ acc))).
Proof.
  induction ts as [|t r IH]; intros n room acc P L.
  - cbn [twalk cleanup_out flat_map length rev app]. f_equal. f_equal. f_equal. f_equal. f_equal. lia.
  - cbn [pieces_bytes forallb] in P. apply andb_true_iff in P. destruct P as [P1 P2].
    unfold cleanup_out in *. cbn [flat_map] in *. rewrite app_length in L.
    cbn [twalk]. unfold cleanup_tb at 1. cbn [snd fst append_chars].
    rewrite (push_all8_bytes _ _ P1), push_list_ok by lia. cbn [bind].
    rewrite (IH _ _ _ P2) by lia. f_equal. f_equal. f_equal; [rewrite app_length; lia|].
    f_equal. f_equal; [rewrite app_length; lia|]. rewrite rev_app_distr, <- app_assoc. reflexivity.
Qed.

Lemma tok_pieces_bytes s : all_lt 256 s = true -> pieces_bytes (tok E8 s) = true.
Proof.
  induction s as [|s t rest E IH] using (tok_ind E8); intros A; [reflexivity|].
  rewrite (tok_step E8 s t rest E). cbn [pieces_bytes forallb]. apply andb_true_iff. split.
  - destruct t as [u v|b]; [exact (step_ok_units E8 256 s _ rest E A)|reflexivity].
  - apply IH. exact (step_ok E8 _ _ t rest E A).
Qed.

Lemma cleanup_utf8_buffer_result s : all_lt 256 s = true -> cleanup_utf8_buffer s = Ok (cleanup_out (tok E8 s)).
Proof.
  intros A. unfold cleanup_utf8_buffer. rewrite (cleanup_walk None s A).
  rewrite cleanup_measure_tokens. cbn [bind]. rewrite Nat.add_0_r. rewrite (cleanup_walk _ s A). unfold alloc.
  rewrite cleanup_write_tokens by (try apply tok_pieces_bytes; auto). cbn [bind].
  rewrite Nat.sub_diag. unfold finish. cbn [fst snd]. rewrite app_nil_r, rev_involutive. reflexivity.
Qed.

(* -------------------------------------------------- the specification's side for TS *)
Lemma repair_ts_subst sub ts : repair TS SubstituteInvalid sub ts = SOk (cleanup_out ts).
Proof.
  unfold repair, cleanup_out. induction ts as [|t r IH]; [reflexivity|].
  cbn [map assemble flat_map]. destruct t as [u v|b]; cbn [piece_of render cleanup_piece]; rewrite IH; reflexivity.
Qed.

Lemma cleanup_out_good ts : existsb is_bad ts = false -> cleanup_out ts = flat_map tok_units ts.
Proof.
  unfold cleanup_out. induction ts as [|t r IH]; [reflexivity|]. cbn [existsb flat_map]. intros H.
  apply orb_false_iff in H. destruct H as [H1 H2]. rewrite (IH H2). destruct t; [reflexivity|discriminate].
Qed.

Lemma repair_ts_check sub ts :
  repair TS CheckValidity sub ts = if existsb is_bad ts then SThrow else SOk (flat_map tok_units ts).
Proof.
  unfold repair. induction ts as [|t r IH]; [reflexivity|].
  cbn [map assemble flat_map existsb]. destruct t as [u v|b]; cbn [piece_of render is_bad orb tok_units]; [|reflexivity].
  rewrite IH. destruct (existsb is_bad r); reflexivity.
Qed.

(* ------------------------------------------------------------ string_set / _set_utf8 *)
Theorem string_set_refines m sub s : all_lt 256 s = true ->
  refines (string_set m s) (spec_conv E8 TS m sub s).
Proof.
  intros A. unfold spec_conv, spec_tokens. destruct m; cbn [string_set].
  - (* assume_valid: the bytes unchanged *)
    assert (U : existsb (unfixed TS) (tok E8 s) = existsb is_bad (tok E8 s)).
    { induction (tok E8 s) as [|t r IHr]; [reflexivity|]. cbn [existsb]. rewrite IHr. destruct t; reflexivity. }
    rewrite U. destruct (existsb is_bad (tok E8 s)) eqn:B; [cbn; eexists; reflexivity|].
    rewrite repair_ts_subst, (cleanup_out_good _ B), tok_units_concat. reflexivity.
  - rewrite repair_ts_subst, (cleanup_utf8_buffer_result s A). reflexivity.
  - rewrite repair_ts_check. destruct (existsb is_bad (tok E8 s)) eqn:B.
    + destruct (validate_utf8_bad s A) as (e & V & R); [unfold WF8, WF; rewrite B; reflexivity|].
      rewrite V. cbn [bind]. rewrite (real_error_raise e R). reflexivity.
    + rewrite (validate_utf8_wf s A) by (unfold WF8, WF; rewrite B; reflexivity).
      cbn [bind raise_conversion_error]. rewrite tok_units_concat. reflexivity.
Qed.

Theorem set_utf8_refines m sub s : all_lt 256 s = true -> N.of_nat (length s) < huge_buffer_size ->
  refines (set_utf8 m (Some s)) (spec_conv E8 TS m sub s).
Proof.
  intros A L. unfold set_utf8, huge_guard. cbn [units_of]. apply N.ltb_lt in L. rewrite L. cbn [bind].
  unfold buffer_from_ptr. cbn [is_null andb bind]. apply string_set_refines. exact A.
Qed.
