(* Utf/ProofsC03.v — C03: every conversion, on every unit sequence of fewer than 2^28
   units, in every mode, returns a buffer or throws ST::unicode_error: no Fault (no read
   outside the input, no write outside the result, no unwritten cell, no hang) and no
   Abort.  The measuring pass equals the length of what the converting pass writes.   *)
From Coq Require Import NArith Arith List Bool Lia.
From ST Require Import Base.Outcome Base.Units Gen.Consts Utf.Spec Utf.Tokens Utf.Model
     Utf.ProofsWalk Utf.ProofsTok Utf.ProofsGeneric Utf.ProofsFrom8 Utf.ProofsFrom16 Utf.ProofsFrom32 Utf.ProofsFromL1
     Utf.ProofsString Utf.ProofsC01.
Import ListNotations.
Local Open Scope N_scope.
Local Open Scope outcome_scope.

(* a buffer, or ST::unicode_error; nothing else *)
Definition safe_result (o : outcome (list N)) : Prop := (exists out, o = Ok out) \/ o = Throw UnicodeError.

Lemma sres_outcome_safe r : safe_result (sres_outcome r).
Proof. destruct r; cbn; [left; eexists; reflexivity|right; reflexivity..]. Qed.

Lemma refines_safe o r : refines o r -> safe_result o.
Proof.
  destruct r; cbn [refines]; intros H.
  - left. eexists; exact H.
  - right. exact H.
  - left. exact H.
  - exact H.
Qed.

(* input: a (pointer, size) pair; None = null pointer with size 0 *)
Definition input_ok (bound : N) (src : option (list N)) : Prop :=
  match src with None => True | Some s => all_lt bound s = true /\ fits s end.

Ltac null_case := left; eexists; reflexivity.

Theorem utf8_to_utf16_safe m src : input_ok 256 src -> safe_result (utf8_to_utf16 m src).
Proof. destruct src as [s|]; [intros [A F]; rewrite (utf8_to_utf16_result m s A F); apply sres_outcome_safe|intros _; null_case]. Qed.
Theorem utf8_to_utf32_safe m src : input_ok 256 src -> safe_result (utf8_to_utf32 m src).
Proof. destruct src as [s|]; [intros [A F]; rewrite (utf8_to_utf32_result m s A F); apply sres_outcome_safe|intros _; null_case]. Qed.
Theorem utf8_to_wchar_safe m src : input_ok 256 src -> safe_result (utf8_to_wchar m src).
Proof. exact (utf8_to_utf32_safe m src). Qed.
Theorem utf8_to_latin_1_safe m sub src : input_ok 256 src -> safe_result (utf8_to_latin_1 m sub src).
Proof. destruct src as [s|]; [intros [A F]; rewrite (utf8_to_latin_1_result m sub s A F); apply sres_outcome_safe|intros _; null_case]. Qed.

Theorem utf16_to_utf8_safe m src : input_ok 65536 src -> safe_result (utf16_to_utf8 m src).
Proof. destruct src as [s|]; [intros [A F]; rewrite (utf16_to_utf8_result m s A F); apply sres_outcome_safe|intros _; null_case]. Qed.
Theorem utf16_to_utf32_safe m src : input_ok 65536 src -> safe_result (utf16_to_utf32 m src).
Proof. destruct src as [s|]; [intros [A F]; rewrite (utf16_to_utf32_result m s A F); apply sres_outcome_safe|intros _; null_case]. Qed.
Theorem utf16_to_wchar_safe m src : input_ok 65536 src -> safe_result (utf16_to_wchar m src).
Proof. exact (utf16_to_utf32_safe m src). Qed.
Theorem utf16_to_latin_1_safe m sub src : input_ok 65536 src -> safe_result (utf16_to_latin_1 m sub src).
Proof. destruct src as [s|]; [intros [A F]; rewrite (utf16_to_latin_1_result m sub s A F); apply sres_outcome_safe|intros _; null_case]. Qed.

Theorem utf32_to_utf8_safe m src : input_ok 4294967296 src -> safe_result (utf32_to_utf8 m src).
Proof. destruct src as [s|]; [intros [A F]; rewrite (utf32_to_utf8_result m s A F); apply sres_outcome_safe|intros _; null_case]. Qed.
Theorem utf32_to_utf16_safe m src : input_ok 4294967296 src -> safe_result (utf32_to_utf16 m src).
Proof. destruct src as [s|]; [intros [A F]; rewrite (utf32_to_utf16_result m s A F); apply sres_outcome_safe|intros _; null_case]. Qed.
Theorem utf32_to_latin_1_safe m sub src : input_ok 4294967296 src -> safe_result (utf32_to_latin_1 m sub src).
Proof. destruct src as [s|]; [intros [A F]; rewrite (utf32_to_latin_1_result m sub s A F); apply sres_outcome_safe|intros _; null_case]. Qed.
Theorem utf32_to_wchar_safe m src : safe_result (utf32_to_wchar m src).
Proof. destruct src; null_case. Qed.

Theorem wchar_to_utf8_safe m src : input_ok 4294967296 src -> safe_result (wchar_to_utf8 m src).
Proof. exact (utf32_to_utf8_safe m src). Qed.
Theorem wchar_to_utf16_safe m src : input_ok 4294967296 src -> safe_result (wchar_to_utf16 m src).
Proof. exact (utf32_to_utf16_safe m src). Qed.
Theorem wchar_to_utf32_safe m src : safe_result (wchar_to_utf32 m src).
Proof. destruct src; null_case. Qed.
Theorem wchar_to_latin_1_safe m sub src : input_ok 4294967296 src -> safe_result (wchar_to_latin_1 m sub src).
Proof. exact (utf32_to_latin_1_safe m sub src). Qed.

Theorem latin_1_to_utf8_safe src : input_ok 256 src -> safe_result (latin_1_to_utf8 src).
Proof. destruct src as [s|]; [intros [A F]; rewrite (latin_1_to_utf8_result s A F); null_case|intros _; null_case]. Qed.
Theorem latin_1_to_utf16_safe src : input_ok 256 src -> safe_result (latin_1_to_utf16 src).
Proof. destruct src as [s|]; [intros [A F]; rewrite (latin_1_to_utf16_result s A F); null_case|intros _; null_case]. Qed.
Theorem latin_1_to_utf32_safe src : input_ok 256 src -> safe_result (latin_1_to_utf32 src).
Proof. destruct src as [s|]; [intros [A F]; rewrite (latin_1_to_utf32_result s A F); null_case|intros _; null_case]. Qed.
Theorem latin_1_to_wchar_safe src : input_ok 256 src -> safe_result (latin_1_to_wchar src).
Proof. exact (latin_1_to_utf32_safe src). Qed.

(* ST::string members built on them *)
Theorem string_from_utf8_safe m src : input_ok 256 src -> safe_result (string_from_utf8 m src).
Proof.
  destruct src as [s|]; [intros [A F]|intros _; null_case].
  exact (refines_safe _ _ (set_utf8_refines m false s A F)).
Qed.
Theorem string_set_safe m s : all_lt 256 s = true -> safe_result (string_set m s).
Proof. intros A. exact (refines_safe _ _ (string_set_refines m false s A)). Qed.
Theorem string_from_utf16_safe m src : input_ok 65536 src -> safe_result (string_from_utf16 m src).
Proof. exact (utf16_to_utf8_safe m src). Qed.
Theorem string_from_utf32_safe m src : input_ok 4294967296 src -> safe_result (string_from_utf32 m src).
Proof. exact (utf32_to_utf8_safe m src). Qed.
Theorem string_from_wchar_safe m src : input_ok 4294967296 src -> safe_result (string_from_wchar m src).
Proof. exact (utf32_to_utf8_safe m src). Qed.
Theorem string_from_latin_1_safe src : input_ok 256 src -> safe_result (string_from_latin_1 src).
Proof. exact (latin_1_to_utf8_safe src). Qed.
Theorem string_to_utf16_safe s : all_lt 256 s = true -> fits s -> safe_result (string_to_utf16 s).
Proof. intros A F. exact (utf8_to_utf16_safe AssumeValid (Some s) (conj A F)). Qed.
Theorem string_to_utf32_safe s : all_lt 256 s = true -> fits s -> safe_result (string_to_utf32 s).
Proof. intros A F. exact (utf8_to_utf32_safe AssumeValid (Some s) (conj A F)). Qed.
Theorem string_to_wchar_safe s : all_lt 256 s = true -> fits s -> safe_result (string_to_wchar s).
Proof. intros A F. exact (utf8_to_utf32_safe AssumeValid (Some s) (conj A F)). Qed.
Theorem string_to_latin_1_safe sub s : all_lt 256 s = true -> fits s -> safe_result (string_to_latin_1 sub s).
Proof. intros A F. exact (utf8_to_latin_1_safe AssumeValid sub (Some s) (conj A F)). Qed.

(* ---- the two passes agree ---- *)
(* the converting pass, started on a destination of exactly the measured size, never writes outside it,
   and when it reports success it has written every cell *)
Definition passes_agree (measure : outcome nat) (convert : dst -> outcome (cerr * dst)) : Prop :=
  exists n e room written,
    measure = Ok n /\ convert (alloc n) = Ok (e, (room, written)) /\
    (room + length written = n)%nat /\ (e = CSuccess -> room = 0%nat).

Lemma passes_agree_generic pcf cost ts measure convert :
  measure = Ok (total_cost cost ts) ->
  (forall d, convert d = twalk (emit_tb pcf) ts d) ->
  (forall t l, pcf t = inl l -> length l = cost t) ->
  (forall t e, pcf t = inr e -> real_error e) ->
  passes_agree measure convert.
Proof.
  intros HM HC Hc He.
  assert (He' : forall t e, pcf t = inr e -> e <> CSuccess).
  { intros t e H E. subst. exact (He t _ H). }
  destruct (pieces_out_cost pcf cost Hc He' ts) as [L1 L2].
  exists (total_cost cost ts), (snd (pieces_out pcf ts)),
         (total_cost cost ts - length (fst (pieces_out pcf ts)))%nat, (rev (fst (pieces_out pcf ts)) ++ []).
  split; [exact HM|]. split; [rewrite HC; unfold alloc; apply twalk_emit; exact L1|].
  split; [rewrite app_nil_r, rev_length; lia|]. intros E. rewrite (L2 E). lia.
Qed.

Theorem passes_agree_utf8_utf16 m s : all_lt 256 s = true ->
  passes_agree (utf16_measure_from_utf8 (Some s)) (fun d => utf16_convert_from_utf8 d s m).
Proof.
  intros A. apply (passes_agree_generic (pc E8 T16 m false) (mcost T16) (tok E8 s)).
  - apply utf16_measure_from_utf8_tokens; exact A.
  - intros d. apply utf16_convert_from_utf8_tokens; exact A.
  - intros t l. apply pc_cost. discriminate.
  - intros t e. apply pc_real_error.
Qed.
Theorem passes_agree_utf8_utf32 m s : all_lt 256 s = true ->
  passes_agree (utf32_measure_from_utf8 (Some s)) (fun d => utf32_convert_from_utf8 d s m).
Proof.
  intros A. apply (passes_agree_generic (pc E8 T32 m false) (mcost T32) (tok E8 s)).
  - apply utf32_measure_from_utf8_tokens; exact A.
  - intros d. apply utf32_convert_from_utf8_tokens; exact A.
  - intros t l. apply pc_cost. discriminate.
  - intros t e. apply pc_real_error.
Qed.
Theorem passes_agree_utf8_latin_1 m sub s : all_lt 256 s = true ->
  passes_agree (latin_1_measure_from_utf8 (Some s)) (fun d => latin_1_convert_from_utf8 d s m sub).
Proof.
  intros A. apply (passes_agree_generic (pc E8 TL1 m sub) (mcost TL1) (tok E8 s)).
  - apply latin_1_measure_from_utf8_tokens; exact A.
  - intros d. apply latin_1_convert_from_utf8_tokens; exact A.
  - intros t l. apply pc_cost. discriminate.
  - intros t e. apply pc_real_error.
Qed.
Theorem passes_agree_utf16_utf8 m s : all_lt 65536 s = true ->
  passes_agree (utf8_measure_from_utf16 (Some s)) (fun d => utf8_convert_from_utf16 d s m).
Proof.
  intros A. apply (passes_agree_generic (pc E16 T8 m false) (mcost T8) (tok E16 s)).
  - apply utf8_measure_from_utf16_tokens; exact A.
  - intros d. apply utf8_convert_from_utf16_tokens; exact A.
  - intros t l. apply pc_cost. discriminate.
  - intros t e. apply pc_real_error.
Qed.
Theorem passes_agree_utf16_utf32 m s : all_lt 65536 s = true ->
  passes_agree (utf32_measure_from_utf16 (Some s)) (fun d => utf32_convert_from_utf16 d s m).
Proof.
  intros A. apply (passes_agree_generic (pc E16 T32 m false) (mcost T32) (tok E16 s)).
  - apply utf32_measure_from_utf16_tokens; exact A.
  - intros d. apply utf32_convert_from_utf16_tokens; exact A.
  - intros t l. apply pc_cost. discriminate.
  - intros t e. apply pc_real_error.
Qed.
Theorem passes_agree_utf16_latin_1 m sub s : all_lt 65536 s = true ->
  passes_agree (latin_1_measure_from_utf16 (Some s)) (fun d => latin_1_convert_from_utf16 d s m sub).
Proof.
  intros A. apply (passes_agree_generic (pc E16 TL1 m sub) (mcost TL1) (tok E16 s)).
  - apply utf32_measure_from_utf16_tokens; exact A.
  - intros d. apply latin_1_convert_from_utf16_tokens; exact A.
  - intros t l. apply pc_cost. discriminate.
  - intros t e. apply pc_real_error.
Qed.
Theorem passes_agree_utf32_utf8 m s : all_lt 4294967296 s = true ->
  passes_agree (utf8_measure_from_utf32 (Some s)) (fun d => utf8_convert_from_utf32 d s m).
Proof.
  intros A. apply (passes_agree_generic (pc E32 T8 m false) (mcost T8) (tok E32 s)).
  - apply utf8_measure_from_utf32_tokens; exact A.
  - intros d. apply utf8_convert_from_utf32_tokens; exact A.
  - intros t l. apply pc_cost. discriminate.
  - intros t e. apply pc_real_error.
Qed.
Theorem passes_agree_utf32_utf16 m s : all_lt 4294967296 s = true ->
  passes_agree (utf16_measure_from_utf32 (Some s)) (fun d => utf16_convert_from_utf32 d s m).
Proof.
  intros A. apply (passes_agree_generic (pc E32 T16 m false) (mcost T16) (tok E32 s)).
  - apply utf16_measure_from_utf32_tokens; exact A.
  - intros d. apply utf16_convert_from_utf32_tokens; exact A.
  - intros t l. apply pc_cost. discriminate.
  - intros t e. apply pc_real_error.
Qed.
(* utf32_to_latin_1 allocates `size` cells without measuring: one cell per unit *)
Theorem passes_agree_utf32_latin_1 m sub s : all_lt 4294967296 s = true ->
  passes_agree (Ok (length s)) (fun d => latin_1_convert_from_utf32 d s m sub).
Proof.
  intros A. apply (passes_agree_generic (pc E32 TL1 m sub) (mcost TL1) (tok E32 s)).
  - rewrite tok32_count. reflexivity.
  - intros d. apply latin_1_convert_from_utf32_tokens; exact A.
  - intros t l. apply pc_cost. discriminate.
  - intros t e. apply pc_real_error.
Qed.
(* cleanup_utf8 with a null output measures what cleanup_utf8 with an output writes *)
Theorem passes_agree_cleanup s : all_lt 256 s = true ->
  exists n room written,
    cleanup_utf8 None s = Ok (n, None) /\
    cleanup_utf8 (Some (alloc n)) s = Ok (n, Some (room, written)) /\ room = 0%nat /\ length written = n.
Proof.
  intros A. exists (length (cleanup_out (tok E8 s))), 0%nat, (rev (cleanup_out (tok E8 s)) ++ []).
  rewrite !(cleanup_walk _ s A), cleanup_measure_tokens. cbn [bind]. rewrite Nat.add_0_r. split; [reflexivity|].
  unfold alloc. rewrite cleanup_write_tokens by (try apply tok_pieces_bytes; auto). cbn [bind].
  rewrite Nat.sub_diag, Nat.add_0_r. split; [reflexivity|]. split; [reflexivity|].
  rewrite app_nil_r, rev_length. reflexivity.
Qed.

(* ---- empty and null input ---- *)
Theorem empty_and_null m sub :
  (forall src, src = None \/ src = Some [] ->
     utf8_to_utf16 m src = Ok [] /\ utf8_to_utf32 m src = Ok [] /\ utf8_to_wchar m src = Ok [] /\
     utf8_to_latin_1 m sub src = Ok [] /\ utf16_to_utf8 m src = Ok [] /\ utf16_to_utf32 m src = Ok [] /\
     utf16_to_wchar m src = Ok [] /\ utf16_to_latin_1 m sub src = Ok [] /\ utf32_to_utf8 m src = Ok [] /\
     utf32_to_utf16 m src = Ok [] /\ utf32_to_wchar m src = Ok [] /\ utf32_to_latin_1 m sub src = Ok [] /\
     wchar_to_utf8 m src = Ok [] /\ wchar_to_utf16 m src = Ok [] /\ wchar_to_utf32 m src = Ok [] /\
     wchar_to_latin_1 m sub src = Ok [] /\ latin_1_to_utf8 src = Ok [] /\ latin_1_to_utf16 src = Ok [] /\
     latin_1_to_utf32 src = Ok [] /\ latin_1_to_wchar src = Ok [] /\ string_from_utf8 m src = Ok []).
Proof. intros src [-> | ->]; destruct m; repeat split; reflexivity. Qed.

(* the 2^28 bound is the library's own assertion: at or above it the wrappers abort by contract *)
Example huge_is_asserted : forall m s, ~ fits s -> utf8_to_utf16 m (Some s) = Abort AbHuge.
Proof.
  intros m s H. unfold utf8_to_utf16, huge_guard, fits in *. cbn [units_of].
  assert ((N.of_nat (length s) <? huge_buffer_size) = false) as -> by (apply N.ltb_ge; lia). reflexivity.
Qed.

(* ---- grouped statements (one obligation per group in Properties/C03.v) ---- *)
Theorem total_safe_from_utf8 m sub src : input_ok 256 src ->
  safe_result (utf8_to_utf16 m src) /\ safe_result (utf8_to_utf32 m src) /\ safe_result (utf8_to_wchar m src) /\
  safe_result (utf8_to_latin_1 m sub src) /\ safe_result (string_from_utf8 m src).
Proof.
  intros I. repeat split.
  - apply utf8_to_utf16_safe; exact I.
  - apply utf8_to_utf32_safe; exact I.
  - apply utf8_to_wchar_safe; exact I.
  - apply utf8_to_latin_1_safe; exact I.
  - apply string_from_utf8_safe; exact I.
Qed.
Theorem total_safe_from_utf16 m sub src : input_ok 65536 src ->
  safe_result (utf16_to_utf8 m src) /\ safe_result (utf16_to_utf32 m src) /\ safe_result (utf16_to_wchar m src) /\
  safe_result (utf16_to_latin_1 m sub src) /\ safe_result (string_from_utf16 m src).
Proof.
  intros I. repeat split.
  - apply utf16_to_utf8_safe; exact I.
  - apply utf16_to_utf32_safe; exact I.
  - apply utf16_to_wchar_safe; exact I.
  - apply utf16_to_latin_1_safe; exact I.
  - apply string_from_utf16_safe; exact I.
Qed.
Theorem total_safe_from_utf32 m sub src : input_ok 4294967296 src ->
  safe_result (utf32_to_utf8 m src) /\ safe_result (utf32_to_utf16 m src) /\ safe_result (utf32_to_wchar m src) /\
  safe_result (utf32_to_latin_1 m sub src) /\ safe_result (string_from_utf32 m src) /\
  safe_result (wchar_to_utf8 m src) /\ safe_result (wchar_to_utf16 m src) /\ safe_result (wchar_to_utf32 m src) /\
  safe_result (wchar_to_latin_1 m sub src) /\ safe_result (string_from_wchar m src).
Proof.
  intros I. repeat split.
  - apply utf32_to_utf8_safe; exact I.
  - apply utf32_to_utf16_safe; exact I.
  - apply utf32_to_wchar_safe.
  - apply utf32_to_latin_1_safe; exact I.
  - apply string_from_utf32_safe; exact I.
  - apply wchar_to_utf8_safe; exact I.
  - apply wchar_to_utf16_safe; exact I.
  - apply wchar_to_utf32_safe.
  - apply wchar_to_latin_1_safe; exact I.
  - apply string_from_wchar_safe; exact I.
Qed.
Theorem total_safe_from_latin_1 src : input_ok 256 src ->
  safe_result (latin_1_to_utf8 src) /\ safe_result (latin_1_to_utf16 src) /\ safe_result (latin_1_to_utf32 src) /\
  safe_result (latin_1_to_wchar src) /\ safe_result (string_from_latin_1 src).
Proof.
  intros I. repeat split.
  - apply latin_1_to_utf8_safe; exact I.
  - apply latin_1_to_utf16_safe; exact I.
  - apply latin_1_to_utf32_safe; exact I.
  - apply latin_1_to_wchar_safe; exact I.
  - apply string_from_latin_1_safe; exact I.
Qed.
Theorem total_safe_string m sub s : all_lt 256 s = true -> fits s ->
  safe_result (string_set m s) /\ safe_result (string_to_utf16 s) /\ safe_result (string_to_utf32 s) /\
  safe_result (string_to_wchar s) /\ safe_result (string_to_latin_1 sub s).
Proof.
  intros A F. repeat split.
  - apply string_set_safe; exact A.
  - apply string_to_utf16_safe; assumption.
  - apply string_to_utf32_safe; assumption.
  - apply string_to_wchar_safe; assumption.
  - apply string_to_latin_1_safe; assumption.
Qed.

Theorem passes_agree_all m sub :
  (forall s, all_lt 256 s = true ->
     passes_agree (utf16_measure_from_utf8 (Some s)) (fun d => utf16_convert_from_utf8 d s m) /\
     passes_agree (utf32_measure_from_utf8 (Some s)) (fun d => utf32_convert_from_utf8 d s m) /\
     passes_agree (latin_1_measure_from_utf8 (Some s)) (fun d => latin_1_convert_from_utf8 d s m sub)) /\
  (forall s, all_lt 65536 s = true ->
     passes_agree (utf8_measure_from_utf16 (Some s)) (fun d => utf8_convert_from_utf16 d s m) /\
     passes_agree (utf32_measure_from_utf16 (Some s)) (fun d => utf32_convert_from_utf16 d s m) /\
     passes_agree (latin_1_measure_from_utf16 (Some s)) (fun d => latin_1_convert_from_utf16 d s m sub)) /\
  (forall s, all_lt 4294967296 s = true ->
     passes_agree (utf8_measure_from_utf32 (Some s)) (fun d => utf8_convert_from_utf32 d s m) /\
     passes_agree (utf16_measure_from_utf32 (Some s)) (fun d => utf16_convert_from_utf32 d s m) /\
     passes_agree (Ok (length s)) (fun d => latin_1_convert_from_utf32 d s m sub)).
Proof.
  split; [|split]; intros s A; (split; [|split]).
  - apply passes_agree_utf8_utf16; exact A.
  - apply passes_agree_utf8_utf32; exact A.
  - apply passes_agree_utf8_latin_1; exact A.
  - apply passes_agree_utf16_utf8; exact A.
  - apply passes_agree_utf16_utf32; exact A.
  - apply passes_agree_utf16_latin_1; exact A.
  - apply passes_agree_utf32_utf8; exact A.
  - apply passes_agree_utf32_utf16; exact A.
  - apply passes_agree_utf32_latin_1; exact A.
Qed.
