(* Utf/BitLemmas.v — the masks and shifts of the code against the ranges and
   sums of the specification: byte-class tests (8-bit sweeps), payload masks,
   lor/shiftl as addition, the in-band error bit.                              *)
From Coq Require Import NArith ZArith List Bool Lia ZifyN ZifyBool.
From ST Require Import Base.Sweep Base.Units Utf.Spec Utf.Tokens Utf.Model.
Import ListNotations.
Local Open Scope N_scope.

(* ---- lor of disjoint bit ranges is addition ---- *)
Lemma land_mul_pow2_small a k b : b < 2 ^ k -> N.land (a * 2 ^ k) b = 0.
Proof.
  intros Hb. apply N.bits_inj_0. intros n. rewrite N.land_spec.
  destruct (N.ltb_spec n k) as [Hlt|Hge].
  - rewrite N.mul_pow2_bits_low by exact Hlt. reflexivity.
  - assert (N.testbit b n = false) as ->; [|apply andb_false_r].
    destruct (N.eq_dec b 0) as [->|Hnz]; [apply N.bits_0|].
    apply N.bits_above_log2. apply N.log2_lt_pow2; [lia|].
    eapply N.lt_le_trans; [exact Hb|]. apply N.pow_le_mono_r; lia.
Qed.

Lemma lor_shiftl_add a k b : b < 2 ^ k -> N.lor (N.shiftl a k) b = a * 2 ^ k + b.
Proof.
  intros Hb. rewrite N.shiftl_mul_pow2.
  pose proof (land_mul_pow2_small a k b Hb) as H0.
  rewrite <- N.lxor_lor by exact H0. symmetry. apply N.add_nocarry_lxor. exact H0.
Qed.

Lemma lor_mul_add a k b : b < 2 ^ k -> N.lor (a * 2 ^ k) b = a * 2 ^ k + b.
Proof. intros H. rewrite <- (lor_shiftl_add a k b H). rewrite N.shiftl_mul_pow2. reflexivity. Qed.

(* ---- byte classes: the mask tests of the code are the ranges of the spec ---- *)
Definition byte_class_check (b : N) : bool :=
  Bool.eqb (N.land b 0xE0 =? 0xC0) (in_range 0xC0 0xDF b) &&
  Bool.eqb (N.land b 0xF0 =? 0xE0) (in_range 0xE0 0xEF b) &&
  Bool.eqb (N.land b 0xF8 =? 0xF0) (in_range 0xF0 0xF7 b) &&
  Bool.eqb (cont b) (is_cont b) &&
  implb (in_range 0xC0 0xDF b) (N.land b 0x1F =? b - 0xC0) &&
  implb (in_range 0xE0 0xEF b) (N.land b 0x0F =? b - 0xE0) &&
  implb (in_range 0xF0 0xF7 b) (N.land b 0x07 =? b - 0xF0) &&
  implb (is_cont b) (N.land b 0x3F =? b - 0x80) &&
  Bool.eqb (negb (N.land b 0x80 =? 0)) (0x80 <=? b) &&
  (N.land b 0xFF =? b).

Lemma byte_class_sweep : all_below 8 byte_class_check = true.
Proof. vm_compute. reflexivity. Qed.

Lemma byte_class b : b < 256 -> byte_class_check b = true.
Proof. intros H. apply (all_below_spec 8 _ byte_class_sweep). exact H. Qed.

Ltac byte_fact b H :=
  let K := fresh "K" in
  pose proof (byte_class b H) as K; unfold byte_class_check in K;
  repeat (apply andb_true_iff in K; destruct K as [K ?]).

Lemma mask_C0 b : b < 256 -> (N.land b 0xE0 =? 0xC0) = in_range 0xC0 0xDF b.
Proof. intros H. byte_fact b H. apply eqb_prop. assumption. Qed.
Lemma mask_E0 b : b < 256 -> (N.land b 0xF0 =? 0xE0) = in_range 0xE0 0xEF b.
Proof. intros H. byte_fact b H. apply eqb_prop. assumption. Qed.
Lemma mask_F0 b : b < 256 -> (N.land b 0xF8 =? 0xF0) = in_range 0xF0 0xF7 b.
Proof. intros H. byte_fact b H. apply eqb_prop. assumption. Qed.
Lemma mask_cont b : b < 256 -> cont b = is_cont b.
Proof. intros H. byte_fact b H. apply eqb_prop. assumption. Qed.
Lemma mask_hi b : b < 256 -> negb (N.land b 0x80 =? 0) = (0x80 <=? b).
Proof. intros H. byte_fact b H. apply eqb_prop. assumption. Qed.
Lemma mask_FF b : b < 256 -> N.land b 0xFF = b.
Proof. intros H. byte_fact b H. apply N.eqb_eq. assumption. Qed.

Lemma payload_C0 b : b < 256 -> in_range 0xC0 0xDF b = true -> N.land b 0x1F = b - 0xC0.
Proof.
  intros H R. byte_fact b H.
  match goal with X : implb (in_range 192 223 b) _ = true |- _ => rewrite R in X; apply N.eqb_eq in X; exact X end.
Qed.
Lemma payload_E0 b : b < 256 -> in_range 0xE0 0xEF b = true -> N.land b 0x0F = b - 0xE0.
Proof.
  intros H R. byte_fact b H.
  match goal with X : implb (in_range 224 239 b) _ = true |- _ => rewrite R in X; apply N.eqb_eq in X; exact X end.
Qed.
Lemma payload_F0 b : b < 256 -> in_range 0xF0 0xF7 b = true -> N.land b 0x07 = b - 0xF0.
Proof.
  intros H R. byte_fact b H.
  match goal with X : implb (in_range 240 247 b) _ = true |- _ => rewrite R in X; apply N.eqb_eq in X; exact X end.
Qed.
Lemma payload_cont b : b < 256 -> is_cont b = true -> N.land b 0x3F = b - 0x80.
Proof.
  intros H R. byte_fact b H.
  match goal with X : implb (is_cont b) _ = true |- _ => rewrite R in X; apply N.eqb_eq in X; exact X end.
Qed.

Lemma in_range_bounds lo hi b : in_range lo hi b = true -> lo <= b /\ b <= hi.
Proof. unfold in_range. intros H. apply andb_true_iff in H. destruct H as [A B]. apply N.leb_le in A, B. lia. Qed.

(* ---- the decoded value of a 2/3/4-byte form, masks against sums ---- *)
Lemma decode2 b0 b1 : b0 < 256 -> b1 < 256 -> in_range 0xC0 0xDF b0 = true -> is_cont b1 = true ->
  N.lor (N.shiftl (N.land b0 0x1F) 6) (N.land b1 0x3F) = (b0 - 0xC0) * 64 + (b1 - 0x80).
Proof.
  intros H0 H1 R0 R1. rewrite (payload_C0 b0 H0 R0), (payload_cont b1 H1 R1).
  apply in_range_bounds in R1. rewrite lor_shiftl_add by (change (2 ^ 6) with 64; lia). reflexivity.
Qed.

Lemma decode3 b0 b1 b2 : b0 < 256 -> b1 < 256 -> b2 < 256 ->
  in_range 0xE0 0xEF b0 = true -> is_cont b1 = true -> is_cont b2 = true ->
  N.lor (N.lor (N.shiftl (N.land b0 0x0F) 12) (N.shiftl (N.land b1 0x3F) 6)) (N.land b2 0x3F)
  = (b0 - 0xE0) * 4096 + (b1 - 0x80) * 64 + (b2 - 0x80).
Proof.
  intros H0 H1 H2 R0 R1 R2.
  rewrite (payload_E0 b0 H0 R0), (payload_cont b1 H1 R1), (payload_cont b2 H2 R2).
  apply in_range_bounds in R1, R2.
  rewrite (N.shiftl_mul_pow2 (b1 - 128) 6).
  replace (N.shiftl (b0 - 224) 12) with ((b0 - 224) * 64 * 2 ^ 6)
    by (rewrite N.shiftl_mul_pow2; change (2 ^ 12) with 4096; change (2 ^ 6) with 64; lia).
  assert (E : N.lor ((b0 - 224) * 64 * 2 ^ 6) ((b1 - 128) * 2 ^ 6) = ((b0 - 224) * 64 + (b1 - 128)) * 2 ^ 6).
  { rewrite <- !N.shiftl_mul_pow2, <- N.shiftl_lor. f_equal.
    change 64 with (2 ^ 6). apply lor_mul_add. change (2 ^ 6) with 64. lia. }
  rewrite E. rewrite lor_mul_add by (change (2 ^ 6) with 64; lia).
  change (2 ^ 6) with 64. lia.
Qed.

Lemma decode4 b0 b1 b2 b3 : b0 < 256 -> b1 < 256 -> b2 < 256 -> b3 < 256 ->
  in_range 0xF0 0xF7 b0 = true -> is_cont b1 = true -> is_cont b2 = true -> is_cont b3 = true ->
  N.lor (N.lor (N.lor (N.shiftl (N.land b0 0x07) 18) (N.shiftl (N.land b1 0x3F) 12))
               (N.shiftl (N.land b2 0x3F) 6)) (N.land b3 0x3F)
  = (b0 - 0xF0) * 262144 + (b1 - 0x80) * 4096 + (b2 - 0x80) * 64 + (b3 - 0x80).
Proof.
  intros H0 H1 H2 H3 R0 R1 R2 R3.
  rewrite (payload_F0 b0 H0 R0), (payload_cont b1 H1 R1), (payload_cont b2 H2 R2), (payload_cont b3 H3 R3).
  apply in_range_bounds in R1, R2, R3.
  set (x := b0 - 240). set (y := b1 - 128). set (z := b2 - 128). set (w := b3 - 128).
  assert (Hy : y < 64) by (unfold y; lia). assert (Hz : z < 64) by (unfold z; lia).
  assert (Hw : w < 64) by (unfold w; lia).
  assert (E1 : N.lor (N.shiftl x 18) (N.shiftl y 12) = N.shiftl (x * 64 + y) 12).
  { replace (N.shiftl x 18) with (N.shiftl (x * 2 ^ 6) 12)
      by (rewrite !N.shiftl_mul_pow2; change (2 ^ 18) with 262144; change (2 ^ 12) with 4096; change (2 ^ 6) with 64; lia).
    rewrite <- N.shiftl_lor. f_equal. rewrite lor_mul_add by (change (2 ^ 6) with 64; lia). reflexivity. }
  rewrite E1.
  assert (E2 : N.lor (N.shiftl (x * 64 + y) 12) (N.shiftl z 6) = N.shiftl ((x * 64 + y) * 64 + z) 6).
  { replace (N.shiftl (x * 64 + y) 12) with (N.shiftl ((x * 64 + y) * 2 ^ 6) 6)
      by (rewrite !N.shiftl_mul_pow2; change (2 ^ 12) with 4096; change (2 ^ 6) with 64; lia).
    rewrite <- N.shiftl_lor. f_equal. rewrite lor_mul_add by (change (2 ^ 6) with 64; lia). reflexivity. }
  rewrite E2. rewrite lor_shiftl_add by (change (2 ^ 6) with 64; lia).
  change (2 ^ 6) with 64. lia.
Qed.

(* ---- surrogate pairs ---- *)
Lemma land_3FF u : N.land u 0x3FF = u mod 1024.
Proof. change 0x3FF with (N.ones 10). rewrite N.land_ones. reflexivity. Qed.

Local Ltac Zify.zify_post_hook ::= Z.div_mod_to_equations.

Lemma pair_hi_lo u0 u1 : is_hi u0 = true -> is_lo u1 = true ->
  0x10000 + N.shiftl (N.land u0 0x3FF) 10 + N.land u1 0x3FF = pair_value u0 u1.
Proof.
  unfold is_hi, is_lo, pair_value. intros R0 R1. apply in_range_bounds in R0, R1.
  rewrite !land_3FF, N.shiftl_mul_pow2. change (2 ^ 10) with 1024. lia.
Qed.

Lemma pair_lo_hi u0 u1 : is_lo u0 = true -> is_hi u1 = true ->
  0x10000 + N.land u0 0x3FF + N.shiftl (N.land u1 0x3FF) 10 = pair_value u1 u0.
Proof.
  unfold is_hi, is_lo, pair_value. intros R0 R1. apply in_range_bounds in R0, R1.
  rewrite !land_3FF, N.shiftl_mul_pow2. change (2 ^ 10) with 1024. lia.
Qed.

(* ---- the in-band error bit ---- *)
Lemma no_error_bit v : v < 0x400000 -> N.land v error_bit = 0.
Proof.
  intros H. unfold error_bit. change 0x400000 with (1 * 2 ^ 22).
  rewrite N.land_comm. apply land_mul_pow2_small. exact H.
Qed.

Lemma char_error_value v : v < 0x400000 -> char_error v = CSuccess.
Proof. intros H. unfold char_error. rewrite (no_error_bit v H). reflexivity. Qed.
