(* Utf/SweepEnc8.v — ONE sweep over [0, 2^21): for every code point up to 0x10FFFF the
   bytes write_utf8 stores are the specification's UTF-8 encoding (shift/mask form).  *)
From Coq Require Import NArith List Bool.
From ST Require Import Base.Sweep Utf.EncForms.
Local Open Scope N_scope.

Lemma sweep_enc8 : all_below 21 (fun c => implb (c <=? 0x10FFFF) (list_eqb (w8 c) (utf8_enc_sm c))) = true.
Proof. vm_cast_no_check (eq_refl true). Qed.
