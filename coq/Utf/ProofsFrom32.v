(* Utf/ProofsFrom32.v — the converters that read UTF-32 (utf32_to_utf8, utf32_to_utf16,
   utf32_to_latin_1 and, with a 32-bit wchar_t, the wchar_to_* aliases), and the two
   plain-copy routes utf32_to_wchar / wchar_to_utf32.                               *)
From Coq Require Import NArith Arith List Bool Lia.
From ST Require Import Base.Outcome Base.Units Gen.Consts Utf.Spec Utf.Tokens Utf.Model
     Utf.BitLemmas Utf.ProofsWalk Utf.ProofsTok Utf.ProofsEnc Utf.ProofsGeneric Utf.ProofsFrom16.
Import ListNotations.
Local Open Scope N_scope.
Local Open Scope outcome_scope.

(* the first token of a UTF-32 sequence *)
Lemma step32_inv s t rest : step E32 s = Some (t, rest) ->
  exists v, s = v :: rest /\ ((v <= 0x10FFFF /\ t = Good [v] v) \/ (0x10FFFF < v /\ t = Bad v)).
Proof.
  destruct s as [|v s]; [discriminate|]. cbn [step step32]. destruct (v <=? 1114111) eqn:R; intros H; inversion H; subst.
  - exists v. split; [reflexivity|]. left. apply N.leb_le in R. tauto.
  - exists v. split; [reflexivity|]. right. apply N.leb_gt in R. tauto.
Qed.

Lemma tok32_count s : total_cost (mcost TL1) (tok E32 s) = length s.
Proof.
  induction s as [|v s IH]; [reflexivity|].
  assert (E : exists t, step E32 (v :: s) = Some (t, s)).
  { cbn [step step32]. destruct (v <=? 1114111); eauto. }
  destruct E as [t E]. rewrite (tok_step E32 _ t s E). unfold total_cost in *. cbn [fold_right length].
  rewrite IH. reflexivity.
Qed.

(* ------------------------------------------------------------- measuring passes *)
Lemma utf8_measure_from_utf32_tokens s : all_lt 4294967296 s = true ->
  utf8_measure_from_utf32 (Some s) = Ok (total_cost (mcost T8) (tok E32 s)).
Proof.
  intros A. unfold utf8_measure_from_utf32. apply (measure_walk_tokens E32); [|exact A].
  intros s0 t rest n A0 E. destruct (step32_inv s0 t rest E) as (v & -> & [[R ->]|[R ->]]); cbn [rdu nth_error of_opt bind skipn mcost].
  - reflexivity.
  - rewrite (utf8_measure_range v R). reflexivity.
Qed.

Lemma utf16_measure_from_utf32_tokens s : all_lt 4294967296 s = true ->
  utf16_measure_from_utf32 (Some s) = Ok (total_cost (mcost T16) (tok E32 s)).
Proof.
  intros A. unfold utf16_measure_from_utf32. apply (measure_walk_tokens E32); [|exact A].
  intros s0 t rest n A0 E. destruct (step32_inv s0 t rest E) as (v & -> & [[R ->]|[R ->]]); cbn [rdu nth_error of_opt bind skipn mcost].
  - reflexivity.
  - rewrite (utf16_measure_range v R). reflexivity.
Qed.

(* ------------------------------------------------------------- converting passes *)
Lemma utf8_convert_from_utf32_tokens d s m : all_lt 4294967296 s = true ->
  utf8_convert_from_utf32 d s m = twalk (emit_tb (pc E32 T8 m false)) (tok E32 s) d.
Proof.
  intros A. unfold utf8_convert_from_utf32. apply (walk_twalk E32); [|exact A|lia].
  intros s0 t rest d0 A0 E. destruct (step32_inv s0 t rest E) as (v & -> & [[R ->]|[R ->]]);
    cbn [rdu nth_error of_opt bind skipn]; unfold emit_tb, pc, lift_step; cbn [piece_of].
  - unfold render. assert (R' : (v <=? 1114111) = true) by (apply N.leb_le; exact R). rewrite R'.
    rewrite (write_utf8_ok d0 v R). destruct (push_list d0 (utf8_enc v)); reflexivity.
  - rewrite (write_utf8_range d0 v R). cbn [bind is_error]. unfold on_error8. rewrite push_all8_subst.
    destruct m; cbn [is_check err_of subst]; try reflexivity;
      destruct (push_list d0 [239; 191; 189]); reflexivity.
Qed.

Lemma utf16_convert_from_utf32_tokens d s m : all_lt 4294967296 s = true ->
  utf16_convert_from_utf32 d s m = twalk (emit_tb (pc E32 T16 m false)) (tok E32 s) d.
Proof.
  intros A. unfold utf16_convert_from_utf32. apply (walk_twalk E32); [|exact A|lia].
  intros s0 t rest d0 A0 E. destruct (step32_inv s0 t rest E) as (v & -> & [[R ->]|[R ->]]);
    cbn [rdu nth_error of_opt bind skipn]; unfold emit_tb, pc, lift_step; cbn [piece_of].
  - unfold render. assert (R' : (v <=? 1114111) = true) by (apply N.leb_le; exact R). rewrite R'.
    rewrite (write_utf16_ok d0 v R). destruct (push_list d0 (utf16_enc v)); reflexivity.
  - rewrite (write_utf16_range d0 v R). cbn [bind is_error]. unfold on_error16.
    destruct m; cbn [is_check err_of]; try reflexivity;
      unfold push16; cbn [subst push_list]; change (N.land badchar_substitute 65535) with 65533;
      destruct (push d0 65533); reflexivity.
Qed.

Lemma latin_1_convert_from_utf32_tokens d s m sub : all_lt 4294967296 s = true ->
  latin_1_convert_from_utf32 d s m sub = twalk (emit_tb (pc E32 TL1 m sub)) (tok E32 s) d.
Proof.
  intros A. unfold latin_1_convert_from_utf32. apply (walk_twalk E32); [|exact A|lia].
  intros s0 t rest d0 A0 E. destruct (step32_inv s0 t rest E) as (v & -> & [[R ->]|[R ->]]);
    cbn [rdu nth_error of_opt bind skipn]; unfold emit_tb, pc, lift_step; cbn [piece_of].
  - assert (R' : (1114111 <? v) = false) by (apply N.ltb_ge; exact R). rewrite R'. cbn [andb render].
    unfold latin_1_put. destruct (v <? 256) eqn:V; cbn [negb].
    + apply N.ltb_lt in V. unfold push8. rewrite land_FF by exact V. cbn [push_list]. destruct (push d0 v); reflexivity.
    + unfold unrepresentable. destruct sub; cbn [err_of]; [|reflexivity].
      unfold push8. change (N.land 63 255) with 63. cbn [push_list]. destruct (push d0 63); reflexivity.
  - assert (R' : (1114111 <? v) = true) by (apply N.ltb_lt; exact R). rewrite R'. cbn [andb].
    destruct m; cbn [is_check err_of]; try reflexivity;
      unfold latin_1_put; change (negb (63 <? 256)) with false; cbv iota;
      unfold push8; change (N.land 63 255) with 63; cbn [subst push_list]; destruct (push d0 63); reflexivity.
Qed.

(* ------------------------------------------------------------------- wrappers *)
Theorem utf32_to_utf8_result m s : all_lt 4294967296 s = true -> N.of_nat (length s) < huge_buffer_size ->
  utf32_to_utf8 m (Some s) = sres_outcome (repair T8 m false (tok E32 s)).
Proof.
  intros A L. unfold utf32_to_utf8. cbn [units_of].
  rewrite <- (pieces_assemble E32).
  apply (two_pass s (pc E32 T8 m false) (mcost T8) (tok E32 s)).
  - exact L.
  - apply utf8_measure_from_utf32_tokens; exact A.
  - intros d. apply utf8_convert_from_utf32_tokens; exact A.
  - intros t l'. apply pc_cost. discriminate.
  - intros t e. apply pc_real_error.
  - intros t. apply mcost_pos. discriminate.
Qed.

Theorem utf32_to_utf16_result m s : all_lt 4294967296 s = true -> N.of_nat (length s) < huge_buffer_size ->
  utf32_to_utf16 m (Some s) = sres_outcome (repair T16 m false (tok E32 s)).
Proof.
  intros A L. unfold utf32_to_utf16. cbn [units_of].
  rewrite <- (pieces_assemble E32).
  apply (two_pass s (pc E32 T16 m false) (mcost T16) (tok E32 s)).
  - exact L.
  - apply utf16_measure_from_utf32_tokens; exact A.
  - intros d. apply utf16_convert_from_utf32_tokens; exact A.
  - intros t l'. apply pc_cost. discriminate.
  - intros t e. apply pc_real_error.
  - intros t. apply mcost_pos. discriminate.
Qed.

(* utf32_to_latin_1 has no measuring pass: it allocates `size` cells, one per unit *)
Theorem utf32_to_latin_1_result m sub s : all_lt 4294967296 s = true -> N.of_nat (length s) < huge_buffer_size ->
  utf32_to_latin_1 m sub (Some s) = sres_outcome (repair TL1 m sub (tok E32 s)).
Proof.
  intros A L. unfold utf32_to_latin_1, huge_guard. cbn [units_of]. apply N.ltb_lt in L. rewrite L. cbn [bind].
  rewrite <- (pieces_assemble E32). rewrite latin_1_convert_from_utf32_tokens by exact A.
  apply (convert_into_measured (pc E32 TL1 m sub) (mcost TL1)).
  - intros t l'. apply pc_cost. discriminate.
  - intros t e. apply pc_real_error.
  - symmetry. apply tok32_count.
Qed.

(* wchar_t aliases (32-bit wchar_t: sizeof from Gen/Consts) *)
Theorem wchar_to_utf8_result m s : all_lt 4294967296 s = true -> N.of_nat (length s) < huge_buffer_size ->
  wchar_to_utf8 m (Some s) = sres_outcome (repair T8 m false (tok wchar_encoding s)).
Proof. exact (utf32_to_utf8_result m s). Qed.
Theorem wchar_to_utf16_result m s : all_lt 4294967296 s = true -> N.of_nat (length s) < huge_buffer_size ->
  wchar_to_utf16 m (Some s) = sres_outcome (repair T16 m false (tok wchar_encoding s)).
Proof. exact (utf32_to_utf16_result m s). Qed.
Theorem wchar_to_latin_1_result m sub s : all_lt 4294967296 s = true -> N.of_nat (length s) < huge_buffer_size ->
  wchar_to_latin_1 m sub (Some s) = sres_outcome (repair TL1 m sub (tok wchar_encoding s)).
Proof. exact (utf32_to_latin_1_result m sub s). Qed.

(* the two plain copies: whatever the mode, the units unchanged *)
Theorem utf32_to_wchar_copy m s : utf32_to_wchar m (Some s) = Ok s.
Proof. reflexivity. Qed.
Theorem wchar_to_utf32_copy m s : wchar_to_utf32 m (Some s) = Ok s.
Proof. reflexivity. Qed.

(* on well-formed UTF-32 the copy is what the specification asks for *)
Lemma repair_wf32 m s : WF32 s = true -> repair T32 m false (tok E32 s) = SOk s.
Proof.
  unfold WF32, WF. induction s as [|v s IH]; [reflexivity|].
  assert (E : exists t, step E32 (v :: s) = Some (t, s) /\ (t = Good [v] v \/ t = Bad v)).
  { cbn [step step32]. destruct (v <=? 1114111); eauto. }
  destruct E as (t & E & Ht). rewrite (tok_step E32 _ t s E). cbn [existsb]. intros W.
  apply negb_true_iff, orb_false_iff in W. destruct W as [W1 W2].
  destruct Ht as [->| ->]; [|discriminate].
  unfold repair in *. cbn [map piece_of render assemble]. rewrite IH by (rewrite W2; reflexivity). reflexivity.
Qed.
