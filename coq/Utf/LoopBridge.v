(* Utf/LoopBridge.v — three measuring loops of include/st_utf_conv_priv.h, utf8_measure_from_utf32,
   utf16_measure_from_utf32 and utf8_measure_from_latin_1, as TRANSLATED from the current headers (Gen/Leaf.v: one
   Fixpoint on fuel per loop, pointers as array + index), return the number the hand-written model passes of
   Utf/Model.v return (measure_walk over `walk`) — for inputs of any length and every sufficient fuel.  A char32_t
   array l is seen by the translated code as  i |-> l[i], a char array as  i |-> (signed char) l[i]. *)
From Coq Require Import NArith ZArith List Bool Lia ZifyBool ZifyNat ZifyN.
From ST Require Import Base.Outcome Base.Units Base.Sweep Utf.Spec Utf.Model Gen.Leaf Gen.Consts Utf.LeafBridge.
Import ListNotations.
Local Open Scope Z_scope.
Local Open Scope outcome_scope.

Definition arr32 (l : list N) (i : Z) : Z := Z.of_N (nth (Z.to_nat i) l 0%N).
Definition arr8s (l : list N) (i : Z) : Z := schar (nth (Z.to_nat i) l 0%N).
(* the function p, from index i on, shows the units of s (as converted by f) *)
Definition shows (f : N -> Z) (p : Z -> Z) (i : Z) (s : list N) : Prop :=
  forall k, (k < length s)%nat -> p (i + Z.of_nat k) = f (nth k s 0%N).

Lemma shows_head f p i c t : shows f p i (c :: t) -> p i = f c.
Proof. intros R. specialize (R 0%nat ltac:(cbn; lia)). rewrite Z.add_0_r in R. exact R. Qed.
Lemma shows_tail f p i c t : shows f p i (c :: t) -> shows f p (i + 1) t.
Proof. intros R k Hk. specialize (R (S k) ltac:(cbn; lia)). replace (i + 1 + Z.of_nat k) with (i + Z.of_nat (S k)) by lia. exact R. Qed.
Lemma shows_arr32 l : shows Z.of_N (arr32 l) 0 l.
Proof. intros k _. unfold arr32. rewrite Z.add_0_l, Nat2Z.id. reflexivity. Qed.
Lemma shows_arr8s l : shows schar (arr8s l) 0 l.
Proof. intros k _. unfold arr8s. rewrite Z.add_0_l, Nat2Z.id. reflexivity. Qed.

Lemma utf8_measure_le4 ch : (utf8_measure ch <= 4)%nat.
Proof. unfold utf8_measure. destruct (ch <? 128)%N, (ch <? 2048)%N, (ch <? 65536)%N, (ch <=? 1114111)%N; cbn; lia. Qed.
Lemma utf16_measure_le4 ch : (utf16_measure ch <= 4)%nat.
Proof. unfold utf16_measure. destruct ((ch <? 65536)%N || (1114111 <? ch)%N); lia. Qed.

Lemma nonnull_param : z2b (b2z (negb (z2b (b2z (negb (Z.eqb 0 (-1))))))) = false.
Proof. reflexivity. Qed.

Lemma all_lt_cons b c t : all_lt b (c :: t) = true -> (c < b)%N /\ all_lt b t = true.
Proof. unfold all_lt. cbn [forallb]. intros H. apply andb_true_iff in H. destruct H as [H1 H2]. split; [lia|exact H2]. Qed.

(* ---- utf8_measure_from_utf32 ---- *)
Lemma m8_loop_S f p a b acc sp ep : src_utf8_measure_from_utf32_loop1 (S f) p a b acc sp ep =
  (if z2b (b2z (Z.ltb sp ep)) then
     let acc' := wrapu 64 (wrapu 64 (wrapu 64 acc + src_utf8_measure (p sp))) in let sp' := sp + 1 in
     src_utf8_measure_from_utf32_loop1 f p a b acc' sp' ep
   else Some acc).
Proof. reflexivity. Qed.

Definition body8_32 := fun (s : list N) (n : nat) => ch <- rdu s 0 ;; Ok (Continue (skipn 1 s) (utf8_measure ch + n)%nat).

Theorem m8_loop_matches : forall s acc i p a b fm fs, all_lt 4294967296 s = true -> shows Z.of_N p i s ->
  (length s < fm)%nat -> (length s < fs)%nat -> Z.of_nat acc + 4 * Z.of_nat (length s) < 18446744073709551616 ->
  exists n, walk body8_32 fm s acc = Ok (CSuccess, n) /\
            src_utf8_measure_from_utf32_loop1 fs p a b (Z.of_nat acc) i (i + Z.of_nat (length s)) = Some (Z.of_nat n).
Proof.
  induction s as [|c t IH]; intros acc i p a b fm fs A R Hfm Hfs Hb;
    (destruct fm as [|fm]; [cbn in Hfm; lia|]); (destruct fs as [|fs]; [cbn in Hfs; lia|]).
  - exists acc. split; [reflexivity|]. rewrite m8_loop_S. cbn [length].
    replace (i <? i + Z.of_nat 0) with false by lia. reflexivity.
  - destruct (all_lt_cons _ _ _ A) as [Hc At]. cbn [walk]. unfold body8_32 at 1. cbn [rdu nth_error of_opt bind skipn].
    rewrite m8_loop_S. cbn [length]. replace (i <? i + Z.of_nat (S (length t))) with true by lia.
    cbn [b2z z2b Z.eqb negb]. cbv zeta.
    rewrite (shows_head _ _ _ _ _ R). rewrite utf8_measure_matches_source by (change (2 ^ 32)%N with 4294967296%N; lia).
    pose proof (utf8_measure_le4 c) as Hm. cbn [length] in Hb.
    rewrite (Utf.LeafBridge.wrapu64_small (Z.of_nat acc)) by (change (2 ^ 64) with 18446744073709551616; lia).
    rewrite !(Utf.LeafBridge.wrapu64_small (Z.of_nat acc + Z.of_nat (utf8_measure c))) by (change (2 ^ 64) with 18446744073709551616; lia).
    replace (Z.of_nat acc + Z.of_nat (utf8_measure c)) with (Z.of_nat (utf8_measure c + acc)) by lia.
    replace (i + Z.of_nat (S (length t))) with (i + 1 + Z.of_nat (length t)) by lia.
    apply IH; try assumption; [apply (shows_tail _ _ _ _ _ R) | cbn [length] in Hfm; lia | cbn [length] in Hfs; lia | lia].
Qed.

Theorem utf8_measure_from_utf32_matches_source l fuel : all_lt 4294967296 l = true ->
  4 * Z.of_nat (length l) < 18446744073709551616 -> (length l < fuel)%nat ->
  exists n, utf8_measure_from_utf32 (Some l) = Ok n /\
            src_utf8_measure_from_utf32 fuel (arr32 l) (Z.of_nat (length l)) = Some (Z.of_nat n).
Proof.
  intros A Hb Hf. unfold utf8_measure_from_utf32, measure_walk, src_utf8_measure_from_utf32. rewrite nonnull_param. cbv zeta.
  destruct (m8_loop_matches l 0%nat 0 (arr32 l) 0 (Z.of_nat (length l)) (S (length l)) fuel A (shows_arr32 l)
              ltac:(lia) Hf ltac:(lia)) as (n & Em & Es).
  fold body8_32. rewrite Em. cbn [bind]. exists n. split; [reflexivity|].
  change (wrapu 64 0) with (Z.of_nat 0). exact Es.
Qed.

(* ---- utf16_measure_from_utf32 ---- *)
Lemma m16_loop_S f p a b acc sp ep : src_utf16_measure_from_utf32_loop1 (S f) p a b acc sp ep =
  (if z2b (b2z (Z.ltb sp ep)) then
     let acc' := wrapu 64 (wrapu 64 (wrapu 64 acc + src_utf16_measure (p sp))) in let sp' := sp + 1 in
     src_utf16_measure_from_utf32_loop1 f p a b acc' sp' ep
   else Some acc).
Proof. reflexivity. Qed.

Definition body16_32 := fun (s : list N) (n : nat) => ch <- rdu s 0 ;; Ok (Continue (skipn 1 s) (utf16_measure ch + n)%nat).

Theorem m16_loop_matches : forall s acc i p a b fm fs, all_lt 4294967296 s = true -> shows Z.of_N p i s ->
  (length s < fm)%nat -> (length s < fs)%nat -> Z.of_nat acc + 4 * Z.of_nat (length s) < 18446744073709551616 ->
  exists n, walk body16_32 fm s acc = Ok (CSuccess, n) /\
            src_utf16_measure_from_utf32_loop1 fs p a b (Z.of_nat acc) i (i + Z.of_nat (length s)) = Some (Z.of_nat n).
Proof.
  induction s as [|c t IH]; intros acc i p a b fm fs A R Hfm Hfs Hb;
    (destruct fm as [|fm]; [cbn in Hfm; lia|]); (destruct fs as [|fs]; [cbn in Hfs; lia|]).
  - exists acc. split; [reflexivity|]. rewrite m16_loop_S. cbn [length].
    replace (i <? i + Z.of_nat 0) with false by lia. reflexivity.
  - destruct (all_lt_cons _ _ _ A) as [Hc At]. cbn [walk]. unfold body16_32 at 1. cbn [rdu nth_error of_opt bind skipn].
    rewrite m16_loop_S. cbn [length]. replace (i <? i + Z.of_nat (S (length t))) with true by lia.
    cbn [b2z z2b Z.eqb negb]. cbv zeta.
    rewrite (shows_head _ _ _ _ _ R). rewrite utf16_measure_matches_source by (change (2 ^ 32)%N with 4294967296%N; lia).
    pose proof (utf16_measure_le4 c) as Hm. cbn [length] in Hb.
    rewrite (Utf.LeafBridge.wrapu64_small (Z.of_nat acc)) by (change (2 ^ 64) with 18446744073709551616; lia).
    rewrite !(Utf.LeafBridge.wrapu64_small (Z.of_nat acc + Z.of_nat (utf16_measure c))) by (change (2 ^ 64) with 18446744073709551616; lia).
    replace (Z.of_nat acc + Z.of_nat (utf16_measure c)) with (Z.of_nat (utf16_measure c + acc)) by lia.
    replace (i + Z.of_nat (S (length t))) with (i + 1 + Z.of_nat (length t)) by lia.
    apply IH; try assumption; [apply (shows_tail _ _ _ _ _ R) | cbn [length] in Hfm; lia | cbn [length] in Hfs; lia | lia].
Qed.

Theorem utf16_measure_from_utf32_matches_source l fuel : all_lt 4294967296 l = true ->
  4 * Z.of_nat (length l) < 18446744073709551616 -> (length l < fuel)%nat ->
  exists n, utf16_measure_from_utf32 (Some l) = Ok n /\
            src_utf16_measure_from_utf32 fuel (arr32 l) (Z.of_nat (length l)) = Some (Z.of_nat n).
Proof.
  intros A Hb Hf. unfold utf16_measure_from_utf32, measure_walk, src_utf16_measure_from_utf32. rewrite nonnull_param. cbv zeta.
  destruct (m16_loop_matches l 0%nat 0 (arr32 l) 0 (Z.of_nat (length l)) (S (length l)) fuel A (shows_arr32 l)
              ltac:(lia) Hf ltac:(lia)) as (n & Em & Es).
  fold body16_32. rewrite Em. cbn [bind]. exists n. split; [reflexivity|].
  change (wrapu 64 0) with (Z.of_nat 0). exact Es.
Qed.

(* ---- utf8_measure_from_latin_1 ---- *)
Definition high_bit_agrees (b : N) : bool :=
  Bool.eqb (z2b (b2z (z2b (wraps 32 (Z.land (wraps 32 (schar b)) 128))))) (negb (N.land b 128 =? 0)%N).
Lemma high_bit_sweep : all_below 8 high_bit_agrees = true. Proof. vm_compute. reflexivity. Qed.
Lemma high_bit b : (b < 256)%N -> z2b (b2z (z2b (wraps 32 (Z.land (wraps 32 (schar b)) 128)))) = negb (N.land b 128 =? 0)%N.
Proof. intros H. apply Bool.eqb_prop. exact (all_below_spec 8 high_bit_agrees high_bit_sweep b H). Qed.

Lemma ml1_loop_S f p a b acc sp ep : src_utf8_measure_from_latin_1_loop1 (S f) p a b acc sp ep =
  (if z2b (b2z (Z.ltb sp ep)) then
     let acc' := if z2b (b2z (z2b (wraps 32 (Z.land (wraps 32 (p sp)) 128))))
                 then wrapu 64 (wrapu 64 (wrapu 64 acc + wrapu 64 2)) else wrapu 64 (wrapu 64 (wrapu 64 acc + wrapu 64 1)) in
     let sp' := sp + 1 in src_utf8_measure_from_latin_1_loop1 f p a b acc' sp' ep
   else Some acc).
Proof. reflexivity. Qed.

Definition bodyl1 := fun (s : list N) (n : nat) => b <- rdu s 0 ;;
  Ok (Continue (skipn 1 s) ((if negb (N.land b 0x80 =? 0)%N then 2 else 1) + n)%nat).

Theorem ml1_loop_matches : forall s acc i p a b fm fs, all_lt 256 s = true -> shows schar p i s ->
  (length s < fm)%nat -> (length s < fs)%nat -> Z.of_nat acc + 4 * Z.of_nat (length s) < 18446744073709551616 ->
  exists n, walk bodyl1 fm s acc = Ok (CSuccess, n) /\
            src_utf8_measure_from_latin_1_loop1 fs p a b (Z.of_nat acc) i (i + Z.of_nat (length s)) = Some (Z.of_nat n).
Proof.
  induction s as [|c t IH]; intros acc i p a b fm fs A R Hfm Hfs Hb;
    (destruct fm as [|fm]; [cbn in Hfm; lia|]); (destruct fs as [|fs]; [cbn in Hfs; lia|]).
  - exists acc. split; [reflexivity|]. rewrite ml1_loop_S. cbn [length].
    replace (i <? i + Z.of_nat 0) with false by lia. reflexivity.
  - destruct (all_lt_cons _ _ _ A) as [Hc At]. cbn [walk]. unfold bodyl1 at 1. cbn [rdu nth_error of_opt bind skipn].
    rewrite ml1_loop_S. cbn [length]. replace (i <? i + Z.of_nat (S (length t))) with true by lia.
    cbn [b2z z2b Z.eqb negb]. cbv zeta.
    rewrite (shows_head _ _ _ _ _ R). rewrite (high_bit c Hc). cbn [length] in Hb.
    change (wrapu 64 2) with 2. change (wrapu 64 1) with 1.
    rewrite (Utf.LeafBridge.wrapu64_small (Z.of_nat acc)) by (change (2 ^ 64) with 18446744073709551616; lia).
    rewrite !(Utf.LeafBridge.wrapu64_small (Z.of_nat acc + 2)) by (change (2 ^ 64) with 18446744073709551616; lia).
    rewrite !(Utf.LeafBridge.wrapu64_small (Z.of_nat acc + 1)) by (change (2 ^ 64) with 18446744073709551616; lia).
    replace (i + Z.of_nat (S (length t))) with (i + 1 + Z.of_nat (length t)) by lia.
    destruct (negb (N.land c 128 =? 0)%N).
    + replace (Z.of_nat acc + 2) with (Z.of_nat (2 + acc)) by lia.
      apply IH; try assumption; [apply (shows_tail _ _ _ _ _ R) | cbn [length] in Hfm; lia | cbn [length] in Hfs; lia | lia].
    + replace (Z.of_nat acc + 1) with (Z.of_nat (1 + acc)) by lia.
      apply IH; try assumption; [apply (shows_tail _ _ _ _ _ R) | cbn [length] in Hfm; lia | cbn [length] in Hfs; lia | lia].
Qed.

Theorem utf8_measure_from_latin_1_matches_source l fuel : all_lt 256 l = true ->
  4 * Z.of_nat (length l) < 18446744073709551616 -> (length l < fuel)%nat ->
  exists n, utf8_measure_from_latin_1 (Some l) = Ok n /\
            src_utf8_measure_from_latin_1 fuel (arr8s l) (Z.of_nat (length l)) = Some (Z.of_nat n).
Proof.
  intros A Hb Hf. unfold utf8_measure_from_latin_1, measure_walk, src_utf8_measure_from_latin_1. rewrite nonnull_param. cbv zeta.
  destruct (ml1_loop_matches l 0%nat 0 (arr8s l) 0 (Z.of_nat (length l)) (S (length l)) fuel A (shows_arr8s l)
              ltac:(lia) Hf ltac:(lia)) as (n & Em & Es).
  fold bodyl1. rewrite Em. cbn [bind]. exists n. split; [reflexivity|].
  change (wrapu 64 0) with (Z.of_nat 0). exact Es.
Qed.

Example measure_loops_example :
  src_utf8_measure_from_utf32 9 (arr32 [65; 233; 8364; 128512; 1114112]%N) 5 = Some 13 /\
  src_utf16_measure_from_utf32 9 (arr32 [65; 233; 8364; 128512; 1114112]%N) 5 = Some 6 /\
  src_utf8_measure_from_latin_1 9 (arr8s [65; 233; 127; 128]%N) 4 = Some 6 /\
  utf8_measure_from_utf32 (Some [65; 233; 8364; 128512; 1114112]%N) = Ok 13%nat.
Proof. vm_compute. repeat split; reflexivity. Qed.
