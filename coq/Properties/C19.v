From ST Require Import Base.Outcome Mem.Heap Mem.Buffer Mem.BufferRun Mem.StringOps.
Theorem placeholder : True. Proof. exact I. Qed.
Print Assumptions placeholder.
