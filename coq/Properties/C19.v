(* Properties/C19.v — C19: allocation failure propagates cleanly and leaves every object destructible.
   PARTIAL: operator new[] is an oracle (a `new` that the fault schedule makes throw std::bad_alloc) and
   std::vector growth (split/tokenize) is trusted to have the strong guarantee; what is proved is the order
   of allocate / release / commit in the library's own buffer, string and string_stream code.
   `arm st` = the state st with the NEXT allocation scheduled to fail; `with_fail st (Some k)` = the k-th
   allocation from now fails.  Every buffer member performs at most one allocation (c19_allocation_count);
   the schedule is transparent to the allocations before the k-th one (c19_schedule_transparent), so for an
   operation with several allocations (temporaries, then the result: Mem/StringOps.TFreshVia) and for any
   history the fault at ANY of its allocations is covered (c19_any_allocation_of_a_history / _of_an_operation).
   Statements only; proofs in Mem/Faults.v, Mem/FailCount.v, Mem/FaultsAny.v, Mem/StreamFaults.v.        *)
From Coq Require Import NArith List Lia.
From ST Require Import Base.Outcome Mem.Heap Mem.Buffer Mem.BufferRun Mem.BufferInv Mem.BufferSteps
  Mem.BufferHistory Mem.StringOps Mem.StringProofs Mem.Faults Mem.FailCount Mem.FaultsAny Mem.Stream Mem.StreamInv
  Mem.StreamFaults.
Import ListNotations.

(* buffer members: the exception reaches the caller; the invariant holds afterwards (nothing leaked,
   nothing freed twice, every object readable / assignable / destructible: all C05 theorems apply to
   the state); a failed constructor leaves no object and an unchanged store; the target of a failed
   allocate keeps its value; the target of a failed copy assignment keeps its value (short) or is
   empty (long); every other object is untouched *)
Theorem c19_buffer_member : forall L, 1 <= L -> forall st s op,
  Inv L st -> Rel st s -> wf_bop st op -> allocates L st op = true ->
  exists st', run_bop L op (arm st) = (Throw BadAlloc, st') /\ Inv L st' /\ Rel st' (fault_spec L st s op) /\
              (forall o', ~ In o' (targets op) -> objs st' o' = objs st o').
Proof. exact fault_step. Qed.
Print Assumptions c19_buffer_member.

Theorem c19_failed_constructor_is_identity : forall L st o d,
  Inv L st -> L <= length d -> ctor_ptr L o (Some d) (length d) (arm st) = (Throw BadAlloc, st).
Proof. exact fault_ctor_ptr. Qed.
Print Assumptions c19_failed_constructor_is_identity.

Theorem c19_failed_allocate_is_identity : forall L st o r n,
  Inv L st -> objs st o = Some r -> L <= n -> allocate L o n (arm st) = (Throw BadAlloc, st).
Proof. exact fault_allocate. Qed.
Print Assumptions c19_failed_allocate_is_identity.

(* string operations (construction, set, copy, =, +=, slicing, case mapping, concatenation, replace,
   to_utf8, ...: every footprint of Mem/StringOps.v that allocates): bad_alloc reaches the caller after
   the temporaries and a half-built result have been destroyed; the invariant holds; apart from the
   target of a copy assignment every object the caller can name keeps its record and contents, and no
   new object exists *)
Theorem c19_string_operation : forall L, 1 <= L -> forall st s t,
  Inv L st -> Rel st s -> top_wf s t -> top_allocates L st t = true ->
  exists st', run_top L t (arm st) = (Throw BadAlloc, st') /\ Inv L st' /\ Rel st' (fault_spec_top L st s t) /\
    (forall x r, ~ In x (fault_touched t) -> objs st x = Some r -> objs st' x = Some r /\ contents st' r = contents st r) /\
    (forall x, objs st x = None -> objs st' x = None).
Proof. exact fault_top. Qed.
Print Assumptions c19_string_operation.

(* ---- the fault at ANY allocation of an operation ----
   the number of allocations a buffer operation performs is the growth of the block counter: exactly one if
   `allocates` says so, none otherwise *)
Theorem c19_allocation_count : forall L, 1 <= L -> forall op st st1,
  run_bop L op st = (Ok tt, st1) -> nb st1 = nb st + b2n (allocates L st op).
Proof. exact delta_bop. Qed.
Print Assumptions c19_allocation_count.

(* a fault scheduled at allocation k does not disturb a history that performs at most k allocations: same result,
   same state, the schedule now standing at k minus the allocations performed *)
Theorem c19_schedule_transparent : forall L ops st a st', nofail st -> run_ops L ops st = (Ok a, st') ->
  nofail st' /\ nb st <= nb st' /\
  forall k, nb st' - nb st <= k ->
    run_ops L ops (with_fail st (Some k)) = (Ok a, with_fail st' (Some (k - (nb st' - nb st)))).
Proof. intros L ops. exact (sim_run_ops L ops). Qed.
Print Assumptions c19_schedule_transparent.

(* any well-formed history, the fault scheduled at allocation number k: it either completes exactly as without a
   schedule, or stops with std::bad_alloc at the operation performing allocation number k, in the state
   c19_buffer_member describes for that operation *)
Theorem c19_any_allocation_of_a_history : forall L, 1 <= L -> forall ops st s k,
  Inv L st -> Rel st s -> wf_history s ops ->
  exists stf, run_ops L ops st = (Ok tt, stf) /\ Inv L stf /\ Rel stf (fold_left spec_bop ops s) /\
    nb st <= nb stf /\
    (nb stf - nb st <= k ->
       run_ops L ops (with_fail st (Some k)) = (Ok tt, with_fail stf (Some (k - (nb stf - nb st))))) /\
    (k < nb stf - nb st ->
       exists st'', run_ops L ops (with_fail st (Some k)) = (Throw BadAlloc, st'') /\ fails_at L ops st s k st'').
Proof. exact fault_history. Qed.
Print Assumptions c19_any_allocation_of_a_history.

(* any string operation that does not throw by itself, with any number of temporaries (ST::format, codecs,
   conversions, split pieces: TFreshVia), the fault at any of its allocations: bad_alloc reaches the caller after
   the temporaries and the half-built result have been destroyed; the invariant holds (so everything can be read,
   assigned to and destroyed, nothing is leaked or freed twice); every object of the caller that the operation does
   not name keeps its record and contents; no temporary and no half-built result is left *)
Theorem c19_any_allocation_of_an_operation : forall L, 1 <= L -> forall st s t k,
  Inv L st -> Rel st s -> top_wf s t -> snd (expand t) = None ->
  exists stf, run_top L t st = (Ok tt, stf) /\ Inv L stf /\ Rel stf (spec_top s t) /\ nb st <= nb stf /\
    (nb stf - nb st <= k ->
       run_top L t (with_fail st (Some k)) = (Ok tt, with_fail stf (Some (k - (nb stf - nb st))))) /\
    (k < nb stf - nb st ->
       exists st', run_top L t (with_fail st (Some k)) = (Throw BadAlloc, st') /\ Inv L st' /\
         (forall x r, user_slot x -> ~ In x (touched t) -> objs st x = Some r ->
                      objs st' x = Some r /\ contents st' r = contents st r) /\
         (forall j, j < scratch_slots -> objs st' (scratch_base + j) = None) /\
         (forall x, In x (under_construction t) -> objs st' x = None)).
Proof. exact fault_top_any. Qed.
Print Assumptions c19_any_allocation_of_an_operation.

(* an operation that throws by itself after building temporaries (the shape of every failing constructor, set, +=,
   conversion, decode or format call: C18) under a fault schedule: if a temporary cannot be allocated, bad_alloc is
   what reaches the caller, with the same guarantees; otherwise the operation's own exception does *)
Theorem c19_failing_operation_under_a_schedule : forall L, 1 <= L -> forall st s temps e k,
  Inv L st -> Rel st s -> top_wf s (TThrowing temps e) ->
  exists stf, run_top L (TThrowing temps e) st = (Throw e, stf) /\ Inv L stf /\ Rel stf s /\ nb st <= nb stf /\
    (nb stf - nb st <= k ->
       run_top L (TThrowing temps e) (with_fail st (Some k)) = (Throw e, with_fail stf (Some (k - (nb stf - nb st))))) /\
    (k < nb stf - nb st ->
       exists st', run_top L (TThrowing temps e) (with_fail st (Some k)) = (Throw BadAlloc, st') /\ Inv L st' /\
         (forall x r, user_slot x -> objs st x = Some r -> objs st' x = Some r /\ contents st' r = contents st r) /\
         (forall j, j < scratch_slots -> objs st' (scratch_base + j) = None)).
Proof. exact fault_top_throwing. Qed.
Print Assumptions c19_failing_operation_under_a_schedule.

(* string_stream growth: `new` comes first, so a failing growth leaves the stream exactly as it was *)
Theorem c19_stream_append : forall STK, 1 <= STK -> forall st o r d,
  SInv STK st -> sobjs st o = Some r -> s_alloc r < s_size r + length d ->
  s_append STK o d (sarm st) = (Throw BadAlloc, st).
Proof. exact fault_append. Qed.
Print Assumptions c19_stream_append.

Theorem c19_stream_append_char : forall STK, 1 <= STK -> forall st o r c n,
  SInv STK st -> sobjs st o = Some r -> s_alloc r < s_size r + n ->
  s_append_char STK o c n (sarm st) = (Throw BadAlloc, st).
Proof. exact fault_append_char. Qed.
Print Assumptions c19_stream_append_char.

(* non-vacuity: concrete states in which the hypotheses hold and the operation really throws *)
Example c19_nonvacuous :
  let long := repeat 120%N 20 in
  let st := snd (run_ops 16 [BNew 0 long; BNew 1 [97%N]; BNew 2 long] store0) in
  allocates 16 st (BAsg 0 2) = true /\ allocates 16 st (BAlloc 1 40 0%N) = true /\
  fst (run_bop 16 (BAsg 0 2) (arm st)) = Throw BadAlloc /\
  fst (run_top 16 (TAppend 1 0 ([97%N] ++ long)) (arm st)) = Throw BadAlloc /\
  fst (run_top 16 (TFreshNRVO 3 0 long) (arm st)) = Throw BadAlloc.
Proof. vm_compute. repeat split; reflexivity. Qed.

(* an operation with three allocations (two long temporaries, a long result): each of them fails cleanly, and a
   fault scheduled beyond them leaves the operation undisturbed *)
Example c19_nonvacuous_several_allocations :
  let long := repeat 120%N 20 in
  let st := snd (run_ops 16 [BNew 0 long; BNew 1 [97%N]] store0) in
  let t := TFreshVia 2 0 [long; [98%N]; long] (long ++ long) in
  nb (snd (run_top 16 t st)) - nb st = 3 /\
  fst (run_top 16 t (with_fail st (Some 0))) = Throw BadAlloc /\
  fst (run_top 16 t (with_fail st (Some 1))) = Throw BadAlloc /\
  fst (run_top 16 t (with_fail st (Some 2))) = Throw BadAlloc /\
  fst (run_top 16 t (with_fail st (Some 3))) = Ok tt /\
  live_blocks (hp (snd (run_top 16 t (with_fail st (Some 2))))) = live_blocks (hp st).
Proof. vm_compute. repeat split; reflexivity. Qed.
