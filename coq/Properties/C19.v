(* Properties/C19.v — C19: allocation failure propagates cleanly and leaves every object destructible.
   PARTIAL: operator new[] is an oracle (a `new` that the fault schedule makes throw std::bad_alloc) and
   std::vector growth (split/tokenize) is trusted to have the strong guarantee; what is proved is the order
   of allocate / release / commit in the library's own buffer, string and string_stream code.
   `arm st` = the state st with the NEXT allocation scheduled to fail.  Every buffer member and every
   string operation performs at most one allocation, so `arm` covers "every allocation it performs".
   Statements only; proofs in Mem/Faults.v, Mem/StreamFaults.v.                                      *)
From Coq Require Import NArith List Lia.
From ST Require Import Base.Outcome Mem.Heap Mem.Buffer Mem.BufferRun Mem.BufferInv Mem.BufferSteps
  Mem.BufferHistory Mem.StringOps Mem.StringProofs Mem.Faults Mem.Stream Mem.StreamInv Mem.StreamFaults.
Import ListNotations.

(* buffer members: the exception reaches the caller; the invariant holds afterwards (nothing leaked,
   nothing freed twice, every object readable / assignable / destructible: all C05 theorems apply to
   the state); a failed constructor leaves no object and an unchanged store; the target of a failed
   allocate keeps its value; the target of a failed copy assignment keeps its value (short) or is
   empty (long); every other object is untouched *)
Theorem c19_buffer_member : forall L, 1 <= L -> forall st s op,
  Inv L st -> Rel st s -> wf_bop st op -> allocates L st op = true ->
  exists st', run_bop L op (arm st) = (Throw BadAlloc, st') /\ Inv L st' /\ Rel st' (fault_spec L st s op) /\
              (forall o', ~ In o' (targets op) -> objs st' o' = objs st o').
Proof. exact fault_step. Qed.
Print Assumptions c19_buffer_member.

Theorem c19_failed_constructor_is_identity : forall L st o d,
  Inv L st -> L <= length d -> ctor_ptr L o (Some d) (length d) (arm st) = (Throw BadAlloc, st).
Proof. exact fault_ctor_ptr. Qed.
Print Assumptions c19_failed_constructor_is_identity.

Theorem c19_failed_allocate_is_identity : forall L st o r n,
  Inv L st -> objs st o = Some r -> L <= n -> allocate L o n (arm st) = (Throw BadAlloc, st).
Proof. exact fault_allocate. Qed.
Print Assumptions c19_failed_allocate_is_identity.

(* string operations (construction, set, copy, =, +=, slicing, case mapping, concatenation, replace,
   to_utf8, ...: every footprint of Mem/StringOps.v that allocates): bad_alloc reaches the caller after
   the temporaries and a half-built result have been destroyed; the invariant holds; apart from the
   target of a copy assignment every object the caller can name keeps its record and contents, and no
   new object exists *)
Theorem c19_string_operation : forall L, 1 <= L -> forall st s t,
  Inv L st -> Rel st s -> top_wf s t -> top_allocates L st t = true ->
  exists st', run_top L t (arm st) = (Throw BadAlloc, st') /\ Inv L st' /\ Rel st' (fault_spec_top L st s t) /\
    (forall x r, ~ In x (fault_touched t) -> objs st x = Some r -> objs st' x = Some r /\ contents st' r = contents st r) /\
    (forall x, objs st x = None -> objs st' x = None).
Proof. exact fault_top. Qed.
Print Assumptions c19_string_operation.

(* string_stream growth: `new` comes first, so a failing growth leaves the stream exactly as it was *)
Theorem c19_stream_append : forall STK, 1 <= STK -> forall st o r d,
  SInv STK st -> sobjs st o = Some r -> s_alloc r < s_size r + length d ->
  s_append STK o d (sarm st) = (Throw BadAlloc, st).
Proof. exact fault_append. Qed.
Print Assumptions c19_stream_append.

Theorem c19_stream_append_char : forall STK, 1 <= STK -> forall st o r c n,
  SInv STK st -> sobjs st o = Some r -> s_alloc r < s_size r + n ->
  s_append_char STK o c n (sarm st) = (Throw BadAlloc, st).
Proof. exact fault_append_char. Qed.
Print Assumptions c19_stream_append_char.

(* non-vacuity: concrete states in which the hypotheses hold and the operation really throws *)
Example c19_nonvacuous :
  let long := repeat 120%N 20 in
  let st := snd (run_ops 16 [BNew 0 long; BNew 1 [97%N]; BNew 2 long] store0) in
  allocates 16 st (BAsg 0 2) = true /\ allocates 16 st (BAlloc 1 40 0%N) = true /\
  fst (run_bop 16 (BAsg 0 2) (arm st)) = Throw BadAlloc /\
  fst (run_top 16 (TAppend 1 0 ([97%N] ++ long)) (arm st)) = Throw BadAlloc /\
  fst (run_top 16 (TFreshNRVO 3 0 long) (arm st)) = Throw BadAlloc.
Proof. vm_compute. repeat split; reflexivity. Qed.
