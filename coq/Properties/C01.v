(* Properties/C01.v — C01: well-formed text transcodes losslessly and to the standard
   encoding.  Statements only.  `enc8/enc16/enc32` are the Unicode standard's encodings
   (Utf/Spec.v, by range with / and mod); `scalars l`: every element is a Unicode scalar
   value; `fits s`: fewer than ST_HUGE_BUFFER_SIZE = 2^28 units.  Every statement holds
   for EVERY validation mode m (so the mode is irrelevant on well-formed text) and, for
   Latin-1 targets, for both settings of the out-of-range flag.                          *)
From Coq Require Import NArith ZArith List Bool.
From ST Require Import Base.Outcome Base.Units Utf.Spec Utf.Tokens Utf.Model Utf.ProofsC01 Utf.ApiCoverage.
From ST Require Gen.Leaf Utf.LoopBridge Utf.LoopBridgeExtract Utf.LoopBridgeWrite Utf.LoopBridgeConvertL1 Utf.LoopBridgeConvert32 Utf.LoopBridgeConvertTo32 Utf.LoopBridgeConvert8To16 Utf.LoopBridgeLatin1 Utf.LoopBridgeConvert16To8.
Import ListNotations.
Local Open Scope N_scope.

(* ---- the six UTF direction pairs ---- *)
Theorem utf_pairs_standard : forall m l, scalars l = true ->
  (fits (enc8 l) -> utf8_to_utf16 m (Some (enc8 l)) = Ok (enc16 l)) /\
  (fits (enc8 l) -> utf8_to_utf32 m (Some (enc8 l)) = Ok (enc32 l)) /\
  (fits (enc16 l) -> utf16_to_utf8 m (Some (enc16 l)) = Ok (enc8 l)) /\
  (fits (enc16 l) -> utf16_to_utf32 m (Some (enc16 l)) = Ok (enc32 l)) /\
  (fits (enc32 l) -> utf32_to_utf8 m (Some (enc32 l)) = Ok (enc8 l)) /\
  (fits (enc32 l) -> utf32_to_utf16 m (Some (enc32 l)) = Ok (enc16 l)).
Proof. exact utf_pairs_std. Qed.
Print Assumptions utf_pairs_standard.

(* ---- the six Latin-1 pairs (and the wchar_t ones), as round trips: every byte string taken as
   Latin-1, converted to any UTF form and back, is unchanged ---- *)
Theorem latin1_round_trips : forall m sub b, all_lt 256 b = true -> fits (enc8 b) ->
  (latin_1_to_utf8 (Some b) = Ok (enc8 b) /\ utf8_to_latin_1 m sub (Some (enc8 b)) = Ok b) /\
  (latin_1_to_utf16 (Some b) = Ok (enc16 b) /\ utf16_to_latin_1 m sub (Some (enc16 b)) = Ok b) /\
  (latin_1_to_utf32 (Some b) = Ok (enc32 b) /\ utf32_to_latin_1 m sub (Some (enc32 b)) = Ok b) /\
  (latin_1_to_wchar (Some b) = Ok (enc wchar_encoding b) /\ wchar_to_latin_1 m sub (Some (enc wchar_encoding b)) = Ok b).
Proof. exact latin1_pairs_std. Qed.
Print Assumptions latin1_round_trips.

(* ---- wchar_t aliases (width from Gen/Consts.sizeof_wchar, regenerated from the platform) ---- *)
Theorem wchar_pairs_standard : forall m l, scalars l = true ->
  (fits (enc8 l) -> utf8_to_wchar m (Some (enc8 l)) = Ok (enc wchar_encoding l)) /\
  (fits (enc16 l) -> utf16_to_wchar m (Some (enc16 l)) = Ok (enc wchar_encoding l)) /\
  utf32_to_wchar m (Some (enc32 l)) = Ok (enc wchar_encoding l) /\
  (fits (enc wchar_encoding l) -> wchar_to_utf8 m (Some (enc wchar_encoding l)) = Ok (enc8 l)) /\
  (fits (enc wchar_encoding l) -> wchar_to_utf16 m (Some (enc wchar_encoding l)) = Ok (enc16 l)) /\
  wchar_to_utf32 m (Some (enc wchar_encoding l)) = Ok (enc32 l).
Proof. exact wchar_pairs_std. Qed.
Print Assumptions wchar_pairs_standard.

(* ---- ST::string: constructors / set / operator= / from_* (the content of the string), the _st
   literal operator, and the to_* members (hard-wired assume_valid) ---- *)
Theorem string_routes_standard : forall m l, scalars l = true ->
  (fits (enc8 l) -> string_from_utf8 m (Some (enc8 l)) = Ok (enc8 l)) /\
  (fits (enc16 l) -> string_from_utf16 m (Some (enc16 l)) = Ok (enc8 l)) /\
  (fits (enc32 l) -> string_from_utf32 m (Some (enc32 l)) = Ok (enc8 l)) /\
  (fits (enc wchar_encoding l) -> string_from_wchar m (Some (enc wchar_encoding l)) = Ok (enc8 l)) /\
  string_literal_char (Some (enc8 l)) = Ok (enc8 l) /\
  string_to_utf8 (enc8 l) = Ok (enc8 l) /\
  (fits (enc8 l) -> string_to_utf16 (enc8 l) = Ok (enc16 l)) /\
  (fits (enc8 l) -> string_to_utf32 (enc8 l) = Ok (enc32 l)) /\
  (fits (enc8 l) -> string_to_wchar (enc8 l) = Ok (enc wchar_encoding l)).
Proof. exact string_routes_std. Qed.
Print Assumptions string_routes_standard.
Theorem string_latin1_round_trip : forall sub b, all_lt 256 b = true -> fits (enc8 b) ->
  string_from_latin_1 (Some b) = Ok (enc8 b) /\ string_to_latin_1 sub (enc8 b) = Ok b.
Proof. exact string_latin1_std. Qed.
Print Assumptions string_latin1_round_trip.

(* ---- chains: any path through the conversion graph (UTF-8 -> UTF-8 goes through an ST::string),
   each hop under its own mode, ends in the standard encoding of the same scalars; in particular
   a path that returns to its start returns the original code units ---- *)
Theorem any_chain : forall l, scalars l = true -> (forall e, utf_enc e -> fits (enc e l)) ->
  forall path e0, utf_enc e0 -> Forall (fun p => utf_enc (fst p)) path ->
  run_chain path e0 (enc e0 l) = Ok (enc (last (map fst path) e0) l).
Proof. exact chain. Qed.
Print Assumptions any_chain.

(* ---- the result is the same whichever validation mode is requested ---- *)
Theorem mode_is_irrelevant : forall e1 e2 m1 m2 l, scalars l = true -> utf_enc e1 -> utf_enc e2 -> fits (enc e1 l) ->
  convert e1 e2 m1 (enc e1 l) = convert e1 e2 m2 (enc e1 l).
Proof. exact mode_irrelevant. Qed.
Print Assumptions mode_is_irrelevant.

(* non-vacuity: the hypotheses are satisfiable (one scalar of each encoded width and U+10FFFF) *)
Example hypotheses_satisfiable :
  scalars [0x41; 0xE9; 0x20AC; 0x1F600; 0x10FFFF] = true /\ fits (enc8 [0x41; 0xE9; 0x20AC; 0x1F600; 0x10FFFF]).
Proof. exact std_nonvacuous. Qed.

(* ---- every conversion route of the headers is one of the modelled ones: the free functions X_to_Y and the
   from_* / to_* members of ST::string harvested from the AST on this run are all named in the route tables of
   Utf/ApiCoverage.v (which bind each name to its Model.v transcription), and no table entry is stale ---- *)
Theorem every_route_is_modelled : ST.Utf.ApiCoverage.routes_covered_b = true.
Proof. exact ST.Utf.ApiCoverage.routes_covered. Qed.
Print Assumptions every_route_is_modelled.

(* ---- tie by translation, decoders: extract_utf8(const unsigned char *&, end) and extract_utf16(const char16_t *&, end) — the
   decoding step of every UTF-8 / UTF-16 -> X conversion — are translated from the CURRENT headers into Gen/Leaf.v (the
   advanced pointer is an index returned with the result).  For every non-empty suffix of units they return the code
   point or in-band error mark the model decoders of every theorem above return, and consume the same number of units
   (ext_ok: the model yields (ch, skipn k s) with 1 <= k <= length s, the translated function (ch, i + k), ch < 2^32) ---- *)
Theorem decoders_match_source : forall s i p, s <> [] -> ST.Utf.LoopBridge.shows Z.of_N p i s ->
  (all_lt 256 s = true ->
     ST.Utf.LoopBridgeExtract.ext_ok (extract_utf8 s) (ST.Gen.Leaf.src_extract_utf8 p i (i + Z.of_nat (length s))%Z) s i) /\
  (all_lt 65536 s = true ->
     ST.Utf.LoopBridgeExtract.ext_ok (extract_utf16 s) (ST.Gen.Leaf.src_extract_utf16 p i (i + Z.of_nat (length s))%Z) s i).
Proof.
  exact (fun s i p Hne R => conj (fun A => ST.Utf.LoopBridgeExtract.extract_utf8_matches s i p Hne A R)
                                 (fun A => ST.Utf.LoopBridgeExtract.extract_utf16_matches s i p Hne A R)).
Qed.
Print Assumptions decoders_match_source.

(* ---- tie by translation, encoders: write_utf8(char *&dest, ch) and write_utf16(char16_t *&dest, ch) — the encoding step of
   every X -> UTF-8 / UTF-16 conversion — are translated from the CURRENT headers into Gen/Leaf.v (dest is a write-only
   cursor: the translated function returns its conversion_error_t and the list of units it stored, in order).  For every
   32-bit code unit, given room for the stored units, the model encoders of every theorem above push exactly those
   units (as unsigned bytes / 16-bit units) and return that code (write_ok) ---- *)
Theorem encoders_match_source : forall n, n < 4294967296 ->
  ST.Utf.LoopBridgeWrite.write_ok (fun d => write_utf8 d n) (ST.Gen.Leaf.src_write_utf8 (Z.of_N n)) ST.Utf.LoopBridgeWrite.byte_of /\
  ST.Utf.LoopBridgeWrite.write_ok (fun d => write_utf16 d n) (ST.Gen.Leaf.src_write_utf16 (Z.of_N n)) ST.Utf.LoopBridgeWrite.unit16_of.
Proof.
  exact (fun n H => conj (ST.Utf.LoopBridgeWrite.write_utf8_matches_source n H) (ST.Utf.LoopBridgeWrite.write_utf16_matches_source n H)).
Qed.
Print Assumptions encoders_match_source.

(* ---- tie by translation, a whole conversion pass: utf8_convert_from_latin_1(dest, astr, size), the second pass of
   ST::latin_1_to_utf8 and ST::string::from_latin_1, is translated from the CURRENT headers (dest is a write-only cursor;
   the loop carries the list of bytes stored so far).  For inputs of any length, with enough fuel, it stores exactly the
   bytes the model pass of every theorem above pushes, given room for them; its first pass utf8_measure_from_latin_1 is
   tied the same way (C03: measuring_loops_match_source) ---- *)
Theorem latin_1_conversion_pass_matches_source : forall l fuel, all_lt 256 l = true -> (length l < fuel)%nat ->
  exists ws, ST.Gen.Leaf.src_utf8_convert_from_latin_1 fuel (ST.Utf.LoopBridge.arr8s l) (Z.of_nat (length l)) = Some ws /\
    forall d : dst, (length ws <= fst d)%nat ->
      utf8_convert_from_latin_1 d l =
        Ok (CSuccess, ((fst d - length ws)%nat, rev (map ST.Utf.LoopBridgeWrite.byte_of ws) ++ snd d)).
Proof. exact ST.Utf.LoopBridgeConvertL1.utf8_convert_from_latin_1_matches_source. Qed.
Print Assumptions latin_1_conversion_pass_matches_source.

(* ---- tie by translation, a whole conversion pass with its validation modes: utf16_convert_from_utf32(dest, utf32, size,
   validation), the second pass of ST::utf32_to_utf16 and of the wchar_t aliases, is translated from the CURRENT headers
   (dest is a write-only cursor handed to the translated encoder write_utf16).  For inputs of any length, every mode and
   enough fuel it returns the conversion_error_t and stores exactly the units that the model pass of every theorem above
   returns and pushes, given room: under check_validity it stops at the first unit above 0x10FFFF with out_of_range,
   otherwise it stores U+FFFD for it and goes on ---- *)
Theorem utf32_to_utf16_pass_matches_source : forall l m fuel, all_lt 4294967296 l = true -> (length l < fuel)%nat ->
  exists e ws,
    ST.Gen.Leaf.src_utf16_convert_from_utf32 fuel (ST.Utf.LoopBridge.arr32 l) (Z.of_nat (length l)) (ST.Utf.LoopBridgeConvert32.mode_code m)
      = Some (Z.of_N (cerr_code e), ws) /\
    forall d : dst, (length ws <= fst d)%nat ->
      utf16_convert_from_utf32 d l m = Ok (e, ((fst d - length ws)%nat, rev (map ST.Utf.LoopBridgeWrite.unit16_of ws) ++ snd d)).
Proof. exact ST.Utf.LoopBridgeConvert32.utf16_convert_from_utf32_matches_source. Qed.
Print Assumptions utf32_to_utf16_pass_matches_source.

Theorem utf32_to_utf8_pass_matches_source : forall l m fuel, all_lt 4294967296 l = true -> (length l < fuel)%nat ->
  exists e ws,
    ST.Gen.Leaf.src_utf8_convert_from_utf32 fuel (ST.Utf.LoopBridge.arr32 l) (Z.of_nat (length l)) (ST.Utf.LoopBridgeConvert32.mode_code m)
      = Some (Z.of_N (cerr_code e), ws) /\
    forall d : dst, (length ws <= fst d)%nat ->
      utf8_convert_from_utf32 d l m = Ok (e, ((fst d - length ws)%nat, rev (map ST.Utf.LoopBridgeWrite.byte_of ws) ++ snd d)).
Proof. exact ST.Utf.LoopBridgeConvert32.utf8_convert_from_utf32_matches_source. Qed.
Print Assumptions utf32_to_utf8_pass_matches_source.

(* the conversion passes that decode their input: X -> UTF-32 from UTF-8 and from UTF-16, and UTF-8 -> UTF-16 (decoder,
   char_error and encoder are the translated functions) *)
Theorem decoding_passes_match_source : forall l m fuel, (length l < fuel)%nat ->
  (all_lt 256 l = true ->
     (exists e ws,
        ST.Gen.Leaf.src_utf32_convert_from_utf8 fuel (ST.Utf.LoopBridge.arr8s l) (Z.of_nat (length l)) (ST.Utf.LoopBridgeConvert32.mode_code m)
          = Some (Z.of_N (cerr_code e), ws) /\
        forall d : dst, (length ws <= fst d)%nat ->
          utf32_convert_from_utf8 d l m = Ok (e, ((fst d - length ws)%nat, rev (map ST.Utf.LoopBridgeConvertTo32.unit32_of ws) ++ snd d))) /\
     (exists e ws,
        ST.Gen.Leaf.src_utf16_convert_from_utf8 fuel (ST.Utf.LoopBridge.arr8s l) (Z.of_nat (length l)) (ST.Utf.LoopBridgeConvert32.mode_code m)
          = Some (Z.of_N (cerr_code e), ws) /\
        forall d : dst, (length ws <= fst d)%nat ->
          utf16_convert_from_utf8 d l m = Ok (e, ((fst d - length ws)%nat, rev (map ST.Utf.LoopBridgeWrite.unit16_of ws) ++ snd d)))) /\
  (all_lt 65536 l = true ->
     exists e ws,
        ST.Gen.Leaf.src_utf32_convert_from_utf16 fuel (ST.Utf.LoopBridge.arr32 l) (Z.of_nat (length l)) (ST.Utf.LoopBridgeConvert32.mode_code m)
          = Some (Z.of_N (cerr_code e), ws) /\
        forall d : dst, (length ws <= fst d)%nat ->
          utf32_convert_from_utf16 d l m = Ok (e, ((fst d - length ws)%nat, rev (map ST.Utf.LoopBridgeConvertTo32.unit32_of ws) ++ snd d))).
Proof.
  exact (fun l m fuel Hf => conj
    (fun A => conj (ST.Utf.LoopBridgeConvertTo32.utf32_convert_from_utf8_matches_source l m fuel A Hf)
                   (ST.Utf.LoopBridgeConvert8To16.utf16_convert_from_utf8_matches_source l m fuel A Hf))
    (fun A => ST.Utf.LoopBridgeConvertTo32.utf32_convert_from_utf16_matches_source l m fuel A Hf)).
Qed.
Print Assumptions decoding_passes_match_source.

(* the Latin-1 passes: widening to UTF-16 / UTF-32, and the three conversions to Latin-1 with their validation mode and
   their substitute_out_of_range flag (sub) *)
Theorem latin_1_passes_match_source : forall l m (sub : bool) fuel, (length l < fuel)%nat ->
  (all_lt 256 l = true ->
     (exists ws, ST.Gen.Leaf.src_utf16_convert_from_latin_1 fuel (ST.Utf.LoopBridge.arr8s l) (Z.of_nat (length l)) = Some ws /\
        forall d : dst, (length ws <= fst d)%nat ->
          utf16_convert_from_latin_1 d l = Ok (CSuccess, ((fst d - length ws)%nat, rev (map ST.Utf.LoopBridgeWrite.unit16_of ws) ++ snd d))) /\
     (exists ws, ST.Gen.Leaf.src_utf32_convert_from_latin_1 fuel (ST.Utf.LoopBridge.arr8s l) (Z.of_nat (length l)) = Some ws /\
        forall d : dst, (length ws <= fst d)%nat ->
          utf32_convert_from_latin_1 d l = Ok (CSuccess, ((fst d - length ws)%nat, rev (map ST.Utf.LoopBridgeConvertTo32.unit32_of ws) ++ snd d))) /\
     (exists e ws,
        ST.Gen.Leaf.src_latin_1_convert_from_utf8 fuel (ST.Utf.LoopBridge.arr8s l) (Z.of_nat (length l)) (ST.Utf.LoopBridgeConvert32.mode_code m)
          (ST.Gen.Leaf.b2z sub) = Some (Z.of_N (cerr_code e), ws) /\
        forall d : dst, (length ws <= fst d)%nat ->
          latin_1_convert_from_utf8 d l m sub = Ok (e, ((fst d - length ws)%nat, rev (map ST.Utf.LoopBridgeWrite.byte_of ws) ++ snd d)))) /\
  (all_lt 65536 l = true ->
     exists e ws,
        ST.Gen.Leaf.src_latin_1_convert_from_utf16 fuel (ST.Utf.LoopBridge.arr32 l) (Z.of_nat (length l)) (ST.Utf.LoopBridgeConvert32.mode_code m)
          (ST.Gen.Leaf.b2z sub) = Some (Z.of_N (cerr_code e), ws) /\
        forall d : dst, (length ws <= fst d)%nat ->
          latin_1_convert_from_utf16 d l m sub = Ok (e, ((fst d - length ws)%nat, rev (map ST.Utf.LoopBridgeWrite.byte_of ws) ++ snd d))) /\
  (all_lt 4294967296 l = true ->
     exists e ws,
        ST.Gen.Leaf.src_latin_1_convert_from_utf32 fuel (ST.Utf.LoopBridge.arr32 l) (Z.of_nat (length l)) (ST.Utf.LoopBridgeConvert32.mode_code m)
          (ST.Gen.Leaf.b2z sub) = Some (Z.of_N (cerr_code e), ws) /\
        forall d : dst, (length ws <= fst d)%nat ->
          latin_1_convert_from_utf32 d l m sub = Ok (e, ((fst d - length ws)%nat, rev (map ST.Utf.LoopBridgeWrite.byte_of ws) ++ snd d))).
Proof.
  exact (fun l m sub fuel Hf => conj
    (fun A => conj (ST.Utf.LoopBridgeLatin1.utf16_convert_from_latin_1_matches_source l fuel A Hf)
             (conj (ST.Utf.LoopBridgeLatin1.utf32_convert_from_latin_1_matches_source l fuel A Hf)
                   (ST.Utf.LoopBridgeLatin1.latin_1_convert_from_utf8_matches_source l m sub fuel A Hf)))
    (conj (fun A => ST.Utf.LoopBridgeLatin1.latin_1_convert_from_utf16_matches_source l m sub fuel A Hf)
          (fun A => ST.Utf.LoopBridgeLatin1.latin_1_convert_from_utf32_matches_source l m sub fuel A Hf))).
Qed.
Print Assumptions latin_1_passes_match_source.

(* UTF-16 -> UTF-8: the one pass that contains an ST_ASSERT.  The translated function ends with ext_abort exactly where the
   model stops with Abort AbConvRange (code_of / model_of: None); everywhere else it returns the model's conversion_error_t
   and stores the bytes the model pushes.  With this one all twelve conversion passes are tied by translation. *)
Theorem utf16_to_utf8_pass_matches_source : forall l m fuel, all_lt 65536 l = true -> (length l < fuel)%nat ->
  exists oe ws,
    ST.Gen.Leaf.src_utf8_convert_from_utf16 fuel (ST.Utf.LoopBridge.arr32 l) (Z.of_nat (length l)) (ST.Utf.LoopBridgeConvert32.mode_code m)
      = Some (ST.Utf.LoopBridgeConvert16To8.code_of oe, ws) /\
    forall d : dst, (length ws <= fst d)%nat -> utf8_convert_from_utf16 d l m = ST.Utf.LoopBridgeConvert16To8.model_of oe d ws.
Proof. exact ST.Utf.LoopBridgeConvert16To8.utf8_convert_from_utf16_matches_source. Qed.
Print Assumptions utf16_to_utf8_pass_matches_source.
