From ST Require Import Base.Outcome Utf.Spec Utf.Tokens Utf.Model.
Theorem placeholder : True. Proof. exact I. Qed.
Print Assumptions placeholder.
