(* C06 — comparison is a total order; operators, overloads and hashes agree with it.
   Statements only; proofs are in Str/CompareProofs.v.  Results of the compare family are C ints
   of which only the sign `sgn z : comparison` is meaningful.
   Scope notes:
   * the model is of the REPAIRED size tie-break (Str/Model.v size_tiebreak); the pre-fix
     `static_cast<int>(lsize - rsize)` is refuted by narrowed_tiebreak_refuted (sizes 0 / 2^32);
   * case-insensitive routes exist for char only: their hypotheses say the units are bytes;
   * wchar_t buffers: wmemcmp compares SIGNED 32-bit units, so the unsigned-lexicographic claim
     is made only for units < 2^31 (elt_ok) and is refuted beyond (wchar_unsigned_refuted).     *)
From Coq Require Import NArith ZArith List Bool.
From ST Require Import Base.Outcome Base.Units Str.Model Str.CompareSpec Str.CompareModel Str.CompareProofs.
From ST Require Str.LeafBridge Str.LoopBridgeCompare Gen.Leaf.
Import ListNotations.
Local Open Scope N_scope.

(* cs_is_lex: ST::string::compare orders exactly as unsigned lexicographic order, any lengths *)
Theorem cs_is_lex : forall a b, exists z, str_compare CaseSensitive a b = Ok z /\ sgn z = lex a b.
Proof. exact CompareProofs.cs_is_lex. Qed.
Print Assumptions cs_is_lex.

(* the static pointer+length compare: the sizes are independent of the data, ANY sizes (no
   |lsize - rsize| < 2^31 hypothesis); only min(lsize,rsize) units of each array are read *)
Theorem cs_static_is_lex_sized : forall e l lsize r rsize,
  elt_ok e l -> elt_ok e r ->
  (N.to_nat (N.min lsize rsize) <= length l)%nat -> (N.to_nat (N.min lsize rsize) <= length r)%nat ->
  exists z, buf_compare4 e l lsize r rsize = Ok z /\ sgn z = lex_sized Z.of_N l lsize r rsize.
Proof. exact buf_compare4_spec. Qed.
Print Assumptions cs_static_is_lex_sized.

Theorem cs_static_maxlen : forall e l lsize r rsize maxlen,
  elt_ok e l -> elt_ok e r ->
  (N.to_nat (N.min (N.min lsize maxlen) (N.min rsize maxlen)) <= length l)%nat ->
  (N.to_nat (N.min (N.min lsize maxlen) (N.min rsize maxlen)) <= length r)%nat ->
  exists z, buf_compare5 e l lsize r rsize maxlen = Ok z /\
            sgn z = lex_sized Z.of_N l (N.min lsize maxlen) r (N.min rsize maxlen).
Proof. exact buf_compare5_spec. Qed.
Print Assumptions cs_static_maxlen.

(* on genuine texts (followed by anything) the sized order is the lexicographic order *)
Theorem lex_sized_on_texts : forall key a ta b tb,
  lex_sized key (a ++ ta) (len a) (b ++ tb) (len b) = lex_by key a b.
Proof. exact lex_sized_strings. Qed.
Print Assumptions lex_sized_on_texts.

Theorem static_compare_2_32 :
  buf_compare4 EChar [] 0 [] 4294967296 = Ok (-1)%Z /\ buf_compare4 EChar [] 4294967296 [] 0 = Ok 1%Z /\
  buf_compare4 EChar [] 0 [] 2147483649 = Ok (-1)%Z.
Proof. exact CompareProofs.static_compare_2_32. Qed.
Print Assumptions static_compare_2_32.

(* all four buffer element types (wchar_t: units < 2^31, see wchar_unsigned_refuted) *)
Theorem buf_cs_is_lex_partial : forall e a b, elt_ok e a -> elt_ok e b ->
  exists z, buf_compare e a b = Ok z /\ sgn z = lex a b.
Proof. exact buf_compare_spec. Qed.
Print Assumptions buf_cs_is_lex_partial.

(* full statement `forall e a b, exists z, buf_compare e a b = Ok z /\ sgn z = lex a b` is FALSE for
   e = EWchar on this platform: *)
Theorem wchar_unsigned_refuted : exists a b z, buf_compare EWchar a b = Ok z /\ sgn z <> lex a b.
Proof. exact CompareProofs.wchar_unsigned_refuted. Qed.
Print Assumptions wchar_unsigned_refuted.

(* antisymmetry / transitivity / zero_iff_eq, both case modes *)
Theorem antisym : forall cs a b, units_ok cs a -> units_ok cs b ->
  exists x y, str_compare cs a b = Ok x /\ str_compare cs b a = Ok y /\ sgn y = CompOpp (sgn x).
Proof. exact compare_antisym. Qed.
Print Assumptions antisym.

Theorem trans : forall cs a b c, units_ok cs a -> units_ok cs b -> units_ok cs c ->
  exists x y z, str_compare cs a b = Ok x /\ str_compare cs b c = Ok y /\ str_compare cs a c = Ok z /\
    (forall s, sgn x = s -> sgn y = s -> sgn z = s) /\
    (sgn x <> Gt -> sgn y <> Gt -> sgn z <> Gt) /\
    (sgn x = Eq -> sgn z = sgn y) /\ (sgn y = Eq -> sgn z = sgn x).
Proof. exact compare_trans. Qed.
Print Assumptions trans.

Theorem zero_iff_eq : forall a b, exists z, str_compare CaseSensitive a b = Ok z /\ (z = 0%Z <-> a = b).
Proof. exact cs_zero_iff_eq. Qed.
Print Assumptions zero_iff_eq.

(* ci_is_preorder: total, transitive, equivalence = equality after folding A-Z *)
Theorem ci_is_preorder : forall a b c, bytes_ok a = true -> bytes_ok b = true -> bytes_ok c = true ->
  exists x y z x', str_compare_i a b = Ok x /\ str_compare_i b c = Ok y /\ str_compare_i a c = Ok z /\
    str_compare_i b a = Ok x' /\
    sgn x' = CompOpp (sgn x) /\
    (sgn x <> Gt -> sgn y <> Gt -> sgn z <> Gt) /\
    (forall s, sgn x = s -> sgn y = s -> sgn z = s) /\
    (x = 0%Z <-> ci_equiv a b).
Proof. exact CompareProofs.ci_is_preorder. Qed.
Print Assumptions ci_is_preorder.

(* the order compare_i realises: signed chars after folding *)
Theorem ci_is_lex_ci : forall a b, bytes_ok a = true -> bytes_ok b = true ->
  exists z, str_compare CaseInsensitive a b = Ok z /\ sgn z = lex_ci a b.
Proof. exact CompareProofs.ci_is_lex_ci. Qed.
Print Assumptions ci_is_lex_ci.

(* compare_n_spec: comparison of the first n units, any n *)
Theorem compare_n_spec : forall cs a b n, units_ok cs a -> units_ok cs b ->
  exists z, str_compare_n cs a b n = Ok z /\
            sgn z = lex_by (key_of cs) (firstn (N.to_nat n) a) (firstn (N.to_nat n) b).
Proof. exact str_compare_n_spec. Qed.
Print Assumptions compare_n_spec.

Theorem buf_compare_n_spec : forall e a b n, elt_ok e a -> elt_ok e b ->
  exists z, buf_compare_n e a b n = Ok z /\ sgn z = lex (firstn (N.to_nat n) a) (firstn (N.to_nat n) b).
Proof. exact CompareProofs.buf_compare_n_spec. Qed.
Print Assumptions buf_compare_n_spec.

(* C-string overloads: the text up to the first NUL (nullptr = empty text) *)
Theorem compare_z_spec : forall cs a z, units_ok cs a -> zarg_ok cs z ->
  exists c, str_compare_z cs a z = Ok c /\ sgn c = lex_by (key_of cs) a (zval z).
Proof. exact str_compare_z_spec. Qed.
Print Assumptions compare_z_spec.

Theorem compare_n_z_spec : forall cs a z n, units_ok cs a -> zarg_ok cs z ->
  exists c, str_compare_n_z cs a z n = Ok c /\
            sgn c = lex_by (key_of cs) (firstn (N.to_nat n) a) (firstn (N.to_nat n) (zval z)).
Proof. exact str_compare_n_z_spec. Qed.
Print Assumptions compare_n_z_spec.

(* ops_agree *)
Theorem ops_agree : forall a b, exists z, str_compare CaseSensitive a b = Ok z /\
    str_eq a b = Ok (z =? 0)%Z /\ str_ne a b = Ok (negb (z =? 0)%Z) /\ str_lt a b = Ok (z <? 0)%Z.
Proof. exact ops_agree_str. Qed.
Print Assumptions ops_agree.

Theorem ops_agree_functors : forall a b, bytes_ok a = true -> bytes_ok b = true ->
  exists z, str_compare_i a b = Ok z /\ less_i a b = Ok (z <? 0)%Z /\ equal_i a b = Ok (z =? 0)%Z.
Proof. exact ops_agree_i. Qed.
Print Assumptions ops_agree_functors.

Theorem ops_agree_cstring : forall a z, zarg_ok CaseSensitive z ->
  exists c, str_compare_z CaseSensitive a z = Ok c /\
    str_eq_z a z = Ok (c =? 0)%Z /\ str_ne_z a z = Ok (negb (c =? 0)%Z).
Proof. exact ops_agree_z. Qed.
Print Assumptions ops_agree_cstring.

Theorem ops_agree_buffer : forall e a b, elt_ok e a -> elt_ok e b ->
  exists z, buf_compare e a b = Ok z /\
    buf_eq e a b = Ok (z =? 0)%Z /\ buf_ne e a b = Ok (negb (z =? 0)%Z) /\ buf_lt e a b = Ok (z <? 0)%Z.
Proof. exact buf_ops_agree. Qed.
Print Assumptions ops_agree_buffer.

Theorem overloads_agree : forall cs a b tail,
  units_ok cs a -> units_ok cs b -> units_ok cs tail -> nul_free b ->
  exists x y, str_compare cs a b = Ok x /\ str_compare_z cs a (Some (b ++ 0 :: tail)) = Ok y /\ sgn x = sgn y.
Proof. exact overloads_agree_compare. Qed.
Print Assumptions overloads_agree.

Theorem overloads_agree_n : forall cs a b tail n,
  units_ok cs a -> units_ok cs b -> units_ok cs tail -> nul_free b ->
  exists x y, str_compare_n cs a b n = Ok x /\ str_compare_n_z cs a (Some (b ++ 0 :: tail)) n = Ok y /\ sgn x = sgn y.
Proof. exact overloads_agree_compare_n. Qed.
Print Assumptions overloads_agree_n.

(* hash_eq / hash_i_eq *)
Theorem hash_eq : forall a b, a = b -> hash a = hash b.
Proof. exact CompareProofs.hash_eq. Qed.
Print Assumptions hash_eq.

Theorem hash_i_eq : forall a b, ci_equiv a b -> hash_i a = hash_i b.
Proof. exact CompareProofs.hash_i_eq. Qed.
Print Assumptions hash_i_eq.

(* case_maps: 256-value sweep; to_upper/to_lower change exactly a-z / A-Z, length preserved *)
Theorem case_maps : forall c, c < 256 -> case_map_ok c = true.
Proof. exact case_maps_unit. Qed.
Print Assumptions case_maps.

Theorem case_maps_texts : forall s, bytes_ok s = true ->
  to_upper s = map unfold_upper s /\ to_lower s = map fold s /\
  bytes_ok (to_upper s) = true /\ bytes_ok (to_lower s) = true.
Proof. exact case_maps_spec. Qed.
Print Assumptions case_maps_texts.

Theorem case_maps_length : forall s, length (to_upper s) = length s.
Proof. exact to_upper_length. Qed.
Print Assumptions case_maps_length.

Theorem case_maps_ci : forall s, bytes_ok s = true -> ci_equiv (to_upper s) s /\ ci_equiv (to_lower s) s.
Proof. exact case_maps_ci_equiv. Qed.
Print Assumptions case_maps_ci.

(* why the tie-break had to be repaired *)
Theorem narrowed_tiebreak_refuted :
  exists lsize rsize, lsize < two64 /\ rsize < two64 /\ sgn (narrowed_tiebreak lsize rsize) <> (lsize ?= rsize).
Proof. exact CompareProofs.narrowed_tiebreak_refuted. Qed.
Print Assumptions narrowed_tiebreak_refuted.

(* non-vacuity of the hypotheses *)
Theorem hypotheses_inhabited :
  bytes_ok [0; 65; 97; 128; 255] = true /\
  (units_ok CaseInsensitive [0; 65; 97; 128; 255] /\ units_ok CaseSensitive [70000]) /\
  (zarg_ok CaseInsensitive (Some [97; 0; 98]) /\ zarg_ok CaseSensitive None) /\
  (elt_ok EWchar [0; 2147483647] /\ elt_ok EChar32 [4294967295]) /\
  nul_free [97; 255] /\
  (ci_equiv [65; 98; 0; 200] [97; 66; 0; 200] /\ [65; 98; 0; 200] <> [97; 66; 0; 200]).
Proof.
  exact (conj bytes_ok_inhabited (conj units_ok_inhabited (conj zarg_ok_inhabited
        (conj elt_ok_inhabited (conj nul_free_inhabited ci_equiv_inhabited))))).
Qed.
Print Assumptions hypotheses_inhabited.

(* ---- tie by translation: the leaf functions below are translated from the clang AST of the CURRENT headers into
   Gen/Leaf.v on every run (tools/leaf_translate.py: C++ integer semantics written out over Z); the hand-written
   model functions used by every theorem above compute the same values, so an edit to one of these functions in the
   headers breaks this obligation whatever the test generators do ---- *)
Theorem case_folding_matches_source : forall c, c < 256 ->
  ST.Str.LeafBridge.uchar (ST.Gen.Leaf.src_cl_fast_lower (ST.Str.LeafBridge.schar c)) = cl_fast_lower c /\
  ST.Str.LeafBridge.uchar (ST.Gen.Leaf.src_cl_fast_upper (ST.Str.LeafBridge.schar c)) = cl_fast_upper c.
Proof. exact (fun c H => conj (ST.Str.LeafBridge.cl_fast_lower_matches_source c H) (ST.Str.LeafBridge.cl_fast_upper_matches_source c H)). Qed.
Print Assumptions case_folding_matches_source.

(* ---- tie by translation, loops: the case-insensitive comparison functions of st_string_priv.h, compare_ci(left, right,
   fsize) (a while loop over two pointers), compare_ci(left, lsize, right, rsize) and compare_ci(..., maxlen), are
   translated from the CURRENT headers into Gen/Leaf.v (fuelled Fixpoint, pointers as array + index); on byte arrays of
   any length, with enough fuel, they return exactly what the model functions of every theorem above return ---- *)
Theorem ci_compare_loop_matches_source : forall l r n fuel,
  ST.Str.LoopBridgeCompare.bytes l -> ST.Str.LoopBridgeCompare.bytes r -> (n <= length l)%nat -> (n <= length r)%nat ->
  (Z.of_nat n < 18446744073709551616)%Z -> (n < fuel)%nat ->
  exists z, compare_ci_n l 0 r 0 n = Ok z /\
            ST.Gen.Leaf.src_compare_ci fuel (ST.Str.LoopBridgeCompare.arr l) (ST.Str.LoopBridgeCompare.arr r) (Z.of_nat n) = Some z.
Proof. exact ST.Str.LoopBridgeCompare.compare_ci_matches_source. Qed.
Print Assumptions ci_compare_loop_matches_source.

Theorem ci_compare_overloads_match_source : forall l r lsize rsize maxlen fuel,
  ST.Str.LoopBridgeCompare.bytes l -> ST.Str.LoopBridgeCompare.bytes r ->
  lsize < 18446744073709551616 -> rsize < 18446744073709551616 -> maxlen < 18446744073709551616 ->
  (N.to_nat (N.min (N.min lsize maxlen) (N.min rsize maxlen)) <= length l)%nat ->
  (N.to_nat (N.min (N.min lsize maxlen) (N.min rsize maxlen)) <= length r)%nat ->
  (N.to_nat (N.min (N.min lsize maxlen) (N.min rsize maxlen)) < fuel)%nat ->
  exists z, compare5 CaseInsensitive l lsize r rsize maxlen = Ok z /\
            ST.Gen.Leaf.src_compare_ci_5 fuel (ST.Str.LoopBridgeCompare.arr l) (Z.of_N lsize) (ST.Str.LoopBridgeCompare.arr r)
              (Z.of_N rsize) (Z.of_N maxlen) = Some z.
Proof. exact ST.Str.LoopBridgeCompare.compare_ci_5_matches_source. Qed.
Print Assumptions ci_compare_overloads_match_source.
