(* Properties/C03.v — C03: conversions are total and memory-safe on arbitrary input.
   Statements only.  `input_ok bound src`: src is the null pointer (with size 0) or a block of
   fewer than 2^28 units, each below `bound` (the unit width); `safe_result o`: o is `Ok buffer`
   or `Throw UnicodeError` — in particular not `Fault OOBRead` (read outside the input range),
   `Fault OOBWrite` (write outside the result), `Fault Unwritten` (part of the result left
   unwritten), `Fault Hang` (fuel S (length s) exhausted), nor any `Abort`.
   The result of the model IS the list of units held, so size() = number of units holds by
   construction; the terminator cell is written by allocate() and observed by the harness.     *)
From Coq Require Import NArith ZArith List Bool.
From ST Require Import Base.Outcome Base.Units Utf.Spec Utf.Tokens Utf.Model Utf.ProofsC01 Utf.ProofsC03 Utf.ApiCoverage.
From ST Require Utf.LeafBridge Gen.Leaf.
From ST Require Utf.LoopBridge Utf.LoopBridgeMeasure Utf.LoopBridgeConvert32 Utf.LoopBridgeConvert16To8.
From ST Require Utf.SourceFit Utf.SourceFit2 Utf.SourceFit3 Utf.SourceFit4 Utf.SourceFit5.
Import ListNotations.
Local Open Scope N_scope.

(* ---- total_safe: every pair, every mode, both Latin-1 flags, every unit sequence ---- *)
Theorem total_safe_utf8_source : forall m sub src, input_ok 256 src ->
  safe_result (utf8_to_utf16 m src) /\ safe_result (utf8_to_utf32 m src) /\ safe_result (utf8_to_wchar m src) /\
  safe_result (utf8_to_latin_1 m sub src) /\ safe_result (string_from_utf8 m src).
Proof. exact total_safe_from_utf8. Qed.
Print Assumptions total_safe_utf8_source.
Theorem total_safe_utf16_source : forall m sub src, input_ok 65536 src ->
  safe_result (utf16_to_utf8 m src) /\ safe_result (utf16_to_utf32 m src) /\ safe_result (utf16_to_wchar m src) /\
  safe_result (utf16_to_latin_1 m sub src) /\ safe_result (string_from_utf16 m src).
Proof. exact total_safe_from_utf16. Qed.
Print Assumptions total_safe_utf16_source.
Theorem total_safe_utf32_wchar_source : forall m sub src, input_ok 4294967296 src ->
  safe_result (utf32_to_utf8 m src) /\ safe_result (utf32_to_utf16 m src) /\ safe_result (utf32_to_wchar m src) /\
  safe_result (utf32_to_latin_1 m sub src) /\ safe_result (string_from_utf32 m src) /\
  safe_result (wchar_to_utf8 m src) /\ safe_result (wchar_to_utf16 m src) /\ safe_result (wchar_to_utf32 m src) /\
  safe_result (wchar_to_latin_1 m sub src) /\ safe_result (string_from_wchar m src).
Proof. exact total_safe_from_utf32. Qed.
Print Assumptions total_safe_utf32_wchar_source.
Theorem total_safe_latin_1_source : forall src, input_ok 256 src ->
  safe_result (latin_1_to_utf8 src) /\ safe_result (latin_1_to_utf16 src) /\ safe_result (latin_1_to_utf32 src) /\
  safe_result (latin_1_to_wchar src) /\ safe_result (string_from_latin_1 src).
Proof. exact total_safe_from_latin_1. Qed.
Print Assumptions total_safe_latin_1_source.
(* ST::string::set(char_buffer, mode) and the to_* members (hard-wired assume_valid) on ANY content *)
Theorem total_safe_string_members : forall m sub s, all_lt 256 s = true -> fits s ->
  safe_result (string_set m s) /\ safe_result (string_to_utf16 s) /\ safe_result (string_to_utf32 s) /\
  safe_result (string_to_wchar s) /\ safe_result (string_to_latin_1 sub s).
Proof. exact total_safe_string. Qed.
Print Assumptions total_safe_string_members.

(* ---- passes_agree: the converting pass, started on a destination of exactly the measured size,
   stays inside it (its outcome is Ok, not Fault OOBWrite), accounts for every cell
   (room + written = measured) and, when it reports success, has written every cell (room = 0) ---- *)
Theorem measure_and_convert_agree : forall m sub,
  (forall s, all_lt 256 s = true ->
     passes_agree (utf16_measure_from_utf8 (Some s)) (fun d => utf16_convert_from_utf8 d s m) /\
     passes_agree (utf32_measure_from_utf8 (Some s)) (fun d => utf32_convert_from_utf8 d s m) /\
     passes_agree (latin_1_measure_from_utf8 (Some s)) (fun d => latin_1_convert_from_utf8 d s m sub)) /\
  (forall s, all_lt 65536 s = true ->
     passes_agree (utf8_measure_from_utf16 (Some s)) (fun d => utf8_convert_from_utf16 d s m) /\
     passes_agree (utf32_measure_from_utf16 (Some s)) (fun d => utf32_convert_from_utf16 d s m) /\
     passes_agree (latin_1_measure_from_utf16 (Some s)) (fun d => latin_1_convert_from_utf16 d s m sub)) /\
  (forall s, all_lt 4294967296 s = true ->
     passes_agree (utf8_measure_from_utf32 (Some s)) (fun d => utf8_convert_from_utf32 d s m) /\
     passes_agree (utf16_measure_from_utf32 (Some s)) (fun d => utf16_convert_from_utf32 d s m) /\
     passes_agree (Ok (length s)) (fun d => latin_1_convert_from_utf32 d s m sub)).
Proof. exact passes_agree_all. Qed.
Print Assumptions measure_and_convert_agree.
(* cleanup_utf8(nullptr, ...) measures exactly what cleanup_utf8(output, ...) writes *)
Theorem cleanup_passes_agree : forall s, all_lt 256 s = true ->
  exists n room written,
    cleanup_utf8 None s = Ok (n, None) /\
    cleanup_utf8 (Some (alloc n)) s = Ok (n, Some (room, written)) /\ room = 0%nat /\ length written = n.
Proof. exact passes_agree_cleanup. Qed.
Print Assumptions cleanup_passes_agree.

(* ---- empty_null: the empty sequence and the null pointer with length 0 give the empty buffer ---- *)
Theorem empty_null : forall m sub src, src = None \/ src = Some [] ->
     utf8_to_utf16 m src = Ok [] /\ utf8_to_utf32 m src = Ok [] /\ utf8_to_wchar m src = Ok [] /\
     utf8_to_latin_1 m sub src = Ok [] /\ utf16_to_utf8 m src = Ok [] /\ utf16_to_utf32 m src = Ok [] /\
     utf16_to_wchar m src = Ok [] /\ utf16_to_latin_1 m sub src = Ok [] /\ utf32_to_utf8 m src = Ok [] /\
     utf32_to_utf16 m src = Ok [] /\ utf32_to_wchar m src = Ok [] /\ utf32_to_latin_1 m sub src = Ok [] /\
     wchar_to_utf8 m src = Ok [] /\ wchar_to_utf16 m src = Ok [] /\ wchar_to_utf32 m src = Ok [] /\
     wchar_to_latin_1 m sub src = Ok [] /\ latin_1_to_utf8 src = Ok [] /\ latin_1_to_utf16 src = Ok [] /\
     latin_1_to_utf32 src = Ok [] /\ latin_1_to_wchar src = Ok [] /\ string_from_utf8 m src = Ok [].
Proof. exact empty_and_null. Qed.
Print Assumptions empty_null.

(* non-vacuity: arbitrary garbage satisfies the hypotheses (a truncated 4-byte form, a stray
   continuation byte, F8, an encoded surrogate, a form above U+10FFFF) *)
Example garbage_is_in_scope : input_ok 256 (Some [0xF0; 0x9F; 0x98; 0x80; 0xF8; 0xED; 0xA0; 0x80; 0xF4; 0x90; 0x80; 0x80; 0xE2; 0x82]).
Proof. split; [reflexivity|]. unfold fits. vm_compute. reflexivity. Qed.
(* outside the bound the wrappers stop by the library's own documented assertion *)
Example beyond_the_bound : forall m s, ~ fits s -> utf8_to_utf16 m (Some s) = Abort AbHuge.
Proof. exact huge_is_asserted. Qed.

(* ---- every conversion route declared in the headers (harvested from the AST on this run) is bound to its
   Model.v transcription in Utf/ApiCoverage.v, so the statements above range over all of them ---- *)
Theorem every_route_is_modelled : ST.Utf.ApiCoverage.routes_covered_b = true.
Proof. exact ST.Utf.ApiCoverage.routes_covered. Qed.
Print Assumptions every_route_is_modelled.

(* ---- tie by translation: the leaf functions below are translated from the clang AST of the CURRENT headers into
   Gen/Leaf.v on every run (tools/leaf_translate.py: C++ integer semantics written out over Z); the hand-written
   model functions used by every theorem above compute the same values, so an edit to one of these functions in the
   headers breaks this obligation whatever the test generators do ---- *)
Theorem measures_match_source : forall ch, ch < 2 ^ 32 ->
  ST.Gen.Leaf.src_utf8_measure (Z.of_N ch) = Z.of_nat (utf8_measure ch) /\
  ST.Gen.Leaf.src_utf16_measure (Z.of_N ch) = Z.of_nat (utf16_measure ch).
Proof. exact (fun ch H => conj (ST.Utf.LeafBridge.utf8_measure_matches_source ch H) (ST.Utf.LeafBridge.utf16_measure_matches_source ch H)). Qed.
Print Assumptions measures_match_source.

(* ---- tie by translation, loops: the measuring passes utf8_measure_from_utf32, utf16_measure_from_utf32 and
   utf8_measure_from_latin_1 (the passes that size the buffer the second pass then fills) are translated from the CURRENT
   headers into Gen/Leaf.v (fuelled Fixpoint, pointers as array + index, size_t arithmetic modulo 2^64); on inputs of any
   length, with enough fuel, they return the number the model passes of every theorem above return ---- *)
Theorem measuring_loops_match_source : forall l fuel,
  (4 * Z.of_nat (length l) < 18446744073709551616)%Z -> (length l < fuel)%nat ->
  (all_lt 4294967296 l = true ->
     (exists n, utf8_measure_from_utf32 (Some l) = Ok n /\
        ST.Gen.Leaf.src_utf8_measure_from_utf32 fuel (ST.Utf.LoopBridge.arr32 l) (Z.of_nat (length l)) = Some (Z.of_nat n)) /\
     (exists n, utf16_measure_from_utf32 (Some l) = Ok n /\
        ST.Gen.Leaf.src_utf16_measure_from_utf32 fuel (ST.Utf.LoopBridge.arr32 l) (Z.of_nat (length l)) = Some (Z.of_nat n))) /\
  (all_lt 256 l = true ->
     exists n, utf8_measure_from_latin_1 (Some l) = Ok n /\
        ST.Gen.Leaf.src_utf8_measure_from_latin_1 fuel (ST.Utf.LoopBridge.arr8s l) (Z.of_nat (length l)) = Some (Z.of_nat n)).
Proof.
  exact (fun l fuel Hb Hf => conj
    (fun A => conj (ST.Utf.LoopBridge.utf8_measure_from_utf32_matches_source l fuel A Hb Hf)
                   (ST.Utf.LoopBridge.utf16_measure_from_utf32_matches_source l fuel A Hb Hf))
    (fun A => ST.Utf.LoopBridge.utf8_measure_from_latin_1_matches_source l fuel A Hb Hf)).
Qed.
Print Assumptions measuring_loops_match_source.

(* the four measuring passes that decode their input (each calls the translated decoder extract_utf8 / extract_utf16,
   which advances the loop's pointer) *)
Theorem decoding_measure_loops_match_source : forall l fuel,
  (4 * Z.of_nat (length l) < 18446744073709551616)%Z -> (length l < fuel)%nat ->
  (all_lt 65536 l = true ->
     (exists n, utf8_measure_from_utf16 (Some l) = Ok n /\
        ST.Gen.Leaf.src_utf8_measure_from_utf16 fuel (ST.Utf.LoopBridge.arr32 l) (Z.of_nat (length l)) = Some (Z.of_nat n)) /\
     (exists n, utf32_measure_from_utf16 (Some l) = Ok n /\
        ST.Gen.Leaf.src_utf32_measure_from_utf16 fuel (ST.Utf.LoopBridge.arr32 l) (Z.of_nat (length l)) = Some (Z.of_nat n))) /\
  (all_lt 256 l = true ->
     (exists n, utf16_measure_from_utf8 (Some l) = Ok n /\
        ST.Gen.Leaf.src_utf16_measure_from_utf8 fuel (ST.Utf.LoopBridge.arr8s l) (Z.of_nat (length l)) = Some (Z.of_nat n)) /\
     (exists n, utf32_measure_from_utf8 (Some l) = Ok n /\
        ST.Gen.Leaf.src_utf32_measure_from_utf8 fuel (ST.Utf.LoopBridge.arr8s l) (Z.of_nat (length l)) = Some (Z.of_nat n))).
Proof.
  exact (fun l fuel Hb Hf => conj
    (fun A => conj (ST.Utf.LoopBridgeMeasure.utf8_measure_from_utf16_matches_source l fuel A Hb Hf)
                   (ST.Utf.LoopBridgeMeasure.utf32_measure_from_utf16_matches_source l fuel A Hb Hf))
    (fun A => conj (ST.Utf.LoopBridgeMeasure.utf16_measure_from_utf8_matches_source l fuel A Hb Hf)
                   (ST.Utf.LoopBridgeMeasure.utf32_measure_from_utf8_matches_source l fuel A Hb Hf))).
Qed.
Print Assumptions decoding_measure_loops_match_source.

(* UTF-16 -> UTF-8: the one pass that contains an ST_ASSERT.  The translated function ends with ext_abort exactly where the
   model stops with Abort AbConvRange (code_of / model_of: None); everywhere else it returns the model's conversion_error_t
   and stores the bytes the model pushes.  With this one all twelve conversion passes are tied by translation. *)
Theorem utf16_to_utf8_pass_matches_source : forall l m fuel, all_lt 65536 l = true -> (length l < fuel)%nat ->
  exists oe ws,
    ST.Gen.Leaf.src_utf8_convert_from_utf16 fuel (ST.Utf.LoopBridge.arr32 l) (Z.of_nat (length l)) (ST.Utf.LoopBridgeConvert32.mode_code m)
      = Some (ST.Utf.LoopBridgeConvert16To8.code_of oe, ws) /\
    forall d : dst, (length ws <= fst d)%nat -> utf8_convert_from_utf16 d l m = ST.Utf.LoopBridgeConvert16To8.model_of oe d ws.
Proof. exact ST.Utf.LoopBridgeConvert16To8.utf8_convert_from_utf16_matches_source. Qed.
Print Assumptions utf16_to_utf8_pass_matches_source.

(* ---- the two passes as found in the current headers fit each other (the source-level form of passes_agree for
   ST::latin_1_to_utf8 / ST::string::from_latin_1): for a Latin-1 string of any length, the size the translated measuring
   pass returns — what the caller allocates — is exactly the number of bytes the translated converting pass stores ---- *)
Theorem latin_1_to_utf8_source_passes_fit : forall l fuel, all_lt 256 l = true ->
  (4 * Z.of_nat (length l) < 18446744073709551616)%Z -> (length l < fuel)%nat ->
  exists ws, ST.Gen.Leaf.src_utf8_convert_from_latin_1 fuel (ST.Utf.LoopBridge.arr8s l) (Z.of_nat (length l)) = Some ws /\
             ST.Gen.Leaf.src_utf8_measure_from_latin_1 fuel (ST.Utf.LoopBridge.arr8s l) (Z.of_nat (length l)) = Some (Z.of_nat (length ws)).
Proof. exact ST.Utf.SourceFit.latin_1_to_utf8_source_passes_fit. Qed.
Print Assumptions latin_1_to_utf8_source_passes_fit.

(* ... and for the passes that can stop at an error under check_validity: what the translated converting pass stores never
   exceeds the size the translated measuring pass returned, and equals it when the pass reports success *)
Theorem utf32_to_utf8_source_passes_fit : forall l m fuel, all_lt 4294967296 l = true ->
  (4 * Z.of_nat (length l) < 18446744073709551616)%Z -> (length l < fuel)%nat ->
  exists e ws n,
    ST.Gen.Leaf.src_utf8_convert_from_utf32 fuel (ST.Utf.LoopBridge.arr32 l) (Z.of_nat (length l)) (ST.Utf.LoopBridgeConvert32.mode_code m)
      = Some (Z.of_N (cerr_code e), ws) /\
    ST.Gen.Leaf.src_utf8_measure_from_utf32 fuel (ST.Utf.LoopBridge.arr32 l) (Z.of_nat (length l)) = Some (Z.of_nat n) /\
    (length ws <= n)%nat /\ (e = CSuccess -> length ws = n).
Proof. exact ST.Utf.SourceFit.utf32_to_utf8_source_passes_fit. Qed.
Print Assumptions utf32_to_utf8_source_passes_fit.

Theorem utf32_to_utf16_source_passes_fit : forall l m fuel, all_lt 4294967296 l = true ->
  (4 * Z.of_nat (length l) < 18446744073709551616)%Z -> (length l < fuel)%nat ->
  exists e ws n,
    ST.Gen.Leaf.src_utf16_convert_from_utf32 fuel (ST.Utf.LoopBridge.arr32 l) (Z.of_nat (length l)) (ST.Utf.LoopBridgeConvert32.mode_code m)
      = Some (Z.of_N (cerr_code e), ws) /\
    ST.Gen.Leaf.src_utf16_measure_from_utf32 fuel (ST.Utf.LoopBridge.arr32 l) (Z.of_nat (length l)) = Some (Z.of_nat n) /\
    (length ws <= n)%nat /\ (e = CSuccess -> length ws = n).
Proof. exact ST.Utf.SourceFit.utf32_to_utf16_source_passes_fit. Qed.
Print Assumptions utf32_to_utf16_source_passes_fit.

(* the decoding conversions, same statement: UTF-8 -> UTF-32, UTF-8 -> UTF-16, UTF-16 -> UTF-32 *)
Theorem decoding_source_passes_fit : forall l m fuel,
  (4 * Z.of_nat (length l) < 18446744073709551616)%Z -> (length l < fuel)%nat ->
  (all_lt 256 l = true ->
     (exists e ws n,
        ST.Gen.Leaf.src_utf32_convert_from_utf8 fuel (ST.Utf.LoopBridge.arr8s l) (Z.of_nat (length l)) (ST.Utf.LoopBridgeConvert32.mode_code m)
          = Some (Z.of_N (cerr_code e), ws) /\
        ST.Gen.Leaf.src_utf32_measure_from_utf8 fuel (ST.Utf.LoopBridge.arr8s l) (Z.of_nat (length l)) = Some (Z.of_nat n) /\
        (length ws <= n)%nat /\ (e = CSuccess -> length ws = n)) /\
     (exists e ws n,
        ST.Gen.Leaf.src_utf16_convert_from_utf8 fuel (ST.Utf.LoopBridge.arr8s l) (Z.of_nat (length l)) (ST.Utf.LoopBridgeConvert32.mode_code m)
          = Some (Z.of_N (cerr_code e), ws) /\
        ST.Gen.Leaf.src_utf16_measure_from_utf8 fuel (ST.Utf.LoopBridge.arr8s l) (Z.of_nat (length l)) = Some (Z.of_nat n) /\
        (length ws <= n)%nat /\ (e = CSuccess -> length ws = n))) /\
  (all_lt 65536 l = true ->
     exists e ws n,
        ST.Gen.Leaf.src_utf32_convert_from_utf16 fuel (ST.Utf.LoopBridge.arr32 l) (Z.of_nat (length l)) (ST.Utf.LoopBridgeConvert32.mode_code m)
          = Some (Z.of_N (cerr_code e), ws) /\
        ST.Gen.Leaf.src_utf32_measure_from_utf16 fuel (ST.Utf.LoopBridge.arr32 l) (Z.of_nat (length l)) = Some (Z.of_nat n) /\
        (length ws <= n)%nat /\ (e = CSuccess -> length ws = n)).
Proof.
  exact (fun l m fuel Hb Hf => conj
    (fun A => conj (ST.Utf.SourceFit2.utf8_to_utf32_source_passes_fit l m fuel A Hb Hf)
                   (ST.Utf.SourceFit2.utf8_to_utf16_source_passes_fit l m fuel A Hb Hf))
    (fun A => ST.Utf.SourceFit2.utf16_to_utf32_source_passes_fit l m fuel A Hb Hf)).
Qed.
Print Assumptions decoding_source_passes_fit.

(* the conversions to Latin-1 (every validation mode, both settings of substitute_out_of_range).  In the headers
   latin_1_measure_from_utf8 / _utf16 forward to utf32_measure_from_utf8 / _utf16; utf32_to_latin_1 allocates `size` *)
Theorem latin_1_target_source_passes_fit : forall l m (sub : bool) fuel, (length l < fuel)%nat ->
  (all_lt 256 l = true -> (4 * Z.of_nat (length l) < 18446744073709551616)%Z ->
     exists e ws n,
        ST.Gen.Leaf.src_latin_1_convert_from_utf8 fuel (ST.Utf.LoopBridge.arr8s l) (Z.of_nat (length l)) (ST.Utf.LoopBridgeConvert32.mode_code m)
          (ST.Gen.Leaf.b2z sub) = Some (Z.of_N (cerr_code e), ws) /\
        ST.Gen.Leaf.src_utf32_measure_from_utf8 fuel (ST.Utf.LoopBridge.arr8s l) (Z.of_nat (length l)) = Some (Z.of_nat n) /\
        (length ws <= n)%nat /\ (e = CSuccess -> length ws = n)) /\
  (all_lt 65536 l = true -> (4 * Z.of_nat (length l) < 18446744073709551616)%Z ->
     exists e ws n,
        ST.Gen.Leaf.src_latin_1_convert_from_utf16 fuel (ST.Utf.LoopBridge.arr32 l) (Z.of_nat (length l)) (ST.Utf.LoopBridgeConvert32.mode_code m)
          (ST.Gen.Leaf.b2z sub) = Some (Z.of_N (cerr_code e), ws) /\
        ST.Gen.Leaf.src_utf32_measure_from_utf16 fuel (ST.Utf.LoopBridge.arr32 l) (Z.of_nat (length l)) = Some (Z.of_nat n) /\
        (length ws <= n)%nat /\ (e = CSuccess -> length ws = n)) /\
  (all_lt 4294967296 l = true ->
     exists e ws,
        ST.Gen.Leaf.src_latin_1_convert_from_utf32 fuel (ST.Utf.LoopBridge.arr32 l) (Z.of_nat (length l)) (ST.Utf.LoopBridgeConvert32.mode_code m)
          (ST.Gen.Leaf.b2z sub) = Some (Z.of_N (cerr_code e), ws) /\
        (length ws <= length l)%nat /\ (e = CSuccess -> length ws = length l)).
Proof.
  exact (fun l m sub fuel Hf => conj
    (fun A Hb => ST.Utf.SourceFit3.utf8_to_latin_1_source_passes_fit l m sub fuel A Hb Hf)
    (conj (fun A Hb => ST.Utf.SourceFit3.utf16_to_latin_1_source_passes_fit l m sub fuel A Hb Hf)
          (fun A => ST.Utf.SourceFit3.utf32_to_latin_1_source_pass_fits l m sub fuel A Hf))).
Qed.
Print Assumptions latin_1_target_source_passes_fit.

(* UTF-16 -> UTF-8, the one pass with an ST_ASSERT: the translated pass never ends in ext_abort (the assertion is unreachable in
   the code found in the headers) and fits the translated measuring pass like the others *)
Theorem utf16_to_utf8_source_passes_fit : forall l m fuel, all_lt 65536 l = true ->
  (4 * Z.of_nat (length l) < 18446744073709551616)%Z -> (length l < fuel)%nat ->
  exists e ws n,
    ST.Gen.Leaf.src_utf8_convert_from_utf16 fuel (ST.Utf.LoopBridge.arr32 l) (Z.of_nat (length l)) (ST.Utf.LoopBridgeConvert32.mode_code m)
      = Some (Z.of_N (cerr_code e), ws) /\
    ST.Gen.Leaf.src_utf8_measure_from_utf16 fuel (ST.Utf.LoopBridge.arr32 l) (Z.of_nat (length l)) = Some (Z.of_nat n) /\
    (length ws <= n)%nat /\ (e = CSuccess -> length ws = n).
Proof. exact ST.Utf.SourceFit4.utf16_to_utf8_source_passes_fit. Qed.
Print Assumptions utf16_to_utf8_source_passes_fit.

(* the two widening copies from Latin-1: the translated passes store exactly the `size` units latin_1_to_utf16 /
   latin_1_to_utf32 allocate — with these, all twelve conversion passes are fitted at the source level *)
Theorem latin_1_widening_source_passes_fit : forall l fuel, all_lt 256 l = true -> (length l < fuel)%nat ->
  (exists ws, ST.Gen.Leaf.src_utf16_convert_from_latin_1 fuel (ST.Utf.LoopBridge.arr8s l) (Z.of_nat (length l)) = Some ws /\
              length ws = length l) /\
  (exists ws, ST.Gen.Leaf.src_utf32_convert_from_latin_1 fuel (ST.Utf.LoopBridge.arr8s l) (Z.of_nat (length l)) = Some ws /\
              length ws = length l).
Proof.
  exact (fun l fuel A Hf => conj (ST.Utf.SourceFit5.latin_1_to_utf16_source_pass_fits l fuel A Hf)
                                 (ST.Utf.SourceFit5.latin_1_to_utf32_source_pass_fits l fuel A Hf)).
Qed.
Print Assumptions latin_1_widening_source_passes_fit.
