From ST Require Import Base.Outcome Mem.Heap Mem.Stream.
Theorem placeholder : True. Proof. exact I. Qed.
Print Assumptions placeholder.
